(* Model of the TLS 1.3 handshake-message codecs of src/aioquic/tls.py: pull_block / push_block,
   pull_opaque, pull_list, and pull_client_hello, pull_server_hello, pull_encrypted_extensions,
   pull_certificate, pull_certificate_request, pull_certificate_verify, pull_finished,
   pull_new_session_ticket.

   Decoders return the decoded message as a canonical token dump (the same dump the harness
   computes from the Python dataclass): that keeps one generic extension loop for all messages.
   str values are their ASCII bytes; `.decode("ascii")` is the check "every byte < 128".
   The encoder side is the generic length-prefixed tree [tv] (push_block / push_opaque /
   push_list / push_uintN): the harness describes each message as such a tree from RFC 8446
   section 4 and the bytes are compared with the implementation's push_* output. *)
From AQ Require Import lib.Base lib.Tok model.Codec.

Definition E_OVERFLOW : Z := 104.    (* OverflowError: length.to_bytes(capacity) *)

(* ---- blocks ---------------------------------------------------------------------------- *)
(* with pull_block(buf, capacity) as length: body.  The body reads from the whole buffer; the
   block boundary is only checked afterwards ("extra bytes at the end of a block"). *)
Definition pull_block {A} (cap : nat) (body : Z -> list Z -> Res (A * list Z)) (bs : list Z)
  : Res (A * list Z) :=
  '(len, b1) <- pull_be cap bs ;;
  '(v, b2) <- body len b1 ;;
  if Zlen b1 - Zlen b2 =? len then Ok (v, b2) else Err E_ALERT_DECODE.

Definition pull_opaque (cap : nat) (bs : list Z) : Res (list Z * list Z) :=
  pull_block cap (fun len b => pull_bytes len b) bs.

(* pull_list: `while buf.tell() < end: func()`, threading a state through the items.  Every item
   function pulls at least one byte or raises, so the remaining bytes bound the iterations; with
   no fuel left the buffer is empty and the item's own first action decides the exception. *)
Fixpoint pull_fold {S} (item : S -> list Z -> Res (S * list Z)) (fuel : nat) (remaining : Z)
                   (st : S) (bs : list Z) : Res (S * list Z) :=
  if remaining <=? 0 then Ok (st, bs) else
  match fuel with
  | O => '(_, _) <- item st bs ;; Err E_READ
  | S f =>
      '(st1, b1) <- item st bs ;;
      pull_fold item f (remaining - (Zlen bs - Zlen b1)) st1 b1
  end.

Definition pull_list {S} (cap : nat) (item : S -> list Z -> Res (S * list Z)) (st : S) (bs : list Z)
  : Res (S * list Z) :=
  pull_block cap (fun len b => pull_fold item (length b) len st b) bs.

(* accumulators: (count, tokens) *)
Definition acc := (Z * list Z)%type.
Definition acc0 : acc := (0, []).
Definition acc_add (a : acc) (toks : list Z) : acc := (fst a + 1, snd a ++ toks).
Definition out_acc (a : acc) : list Z := fst a :: snd a.

Definition item_uint (w : nat) (a : acc) (bs : list Z) : Res (acc * list Z) :=
  '(v, r) <- pull_be w bs ;; Ok (acc_add a [v], r).

Definition is_ascii (b : list Z) : bool := forallb (fun x => x <? 128) b.

(* ---- items -------------------------------------------------------------------------------- *)
Definition item_key_share (a : acc) (bs : list Z) : Res (acc * list Z) :=
  '(g, b1) <- pull_uint16 bs ;; '(d, b2) <- pull_opaque 2 b1 ;; Ok (acc_add a (g :: out_bytes d), b2).

(* pull_alpn_protocol: UnicodeDecodeError -> SkipItem *)
Definition item_alpn (a : acc) (bs : list Z) : Res (acc * list Z) :=
  '(d, b1) <- pull_opaque 1 bs ;; Ok (if is_ascii d then acc_add a (out_bytes d) else a, b1).

Definition item_psk_identity (a : acc) (bs : list Z) : Res (acc * list Z) :=
  '(d, b1) <- pull_opaque 2 bs ;; '(age, b2) <- pull_uint32 b1 ;; Ok (acc_add a (out_bytes d ++ [age]), b2).

Definition item_opaque (cap : nat) (a : acc) (bs : list Z) : Res (acc * list Z) :=
  '(d, b1) <- pull_opaque cap bs ;; Ok (acc_add a (out_bytes d), b1).

Definition item_certificate_entry (a : acc) (bs : list Z) : Res (acc * list Z) :=
  '(d, b1) <- pull_opaque 3 bs ;; '(e, b2) <- pull_opaque 2 b1 ;; Ok (acc_add a (out_bytes d ++ out_bytes e), b2).

(* pull_server_name; a name that is not ASCII: UnicodeDecodeError is caught and re-raised as
   AlertIllegalParameter("ServerName is not ASCII") (since /repo commit 759c7d3; before: E_UNICODE escaped) *)
Definition pull_server_name (bs : list Z) : Res (list Z * list Z) :=
  pull_block 2 (fun _ b =>
    '(nt, b1) <- pull_uint8 b ;;
    if negb (nt =? 0) then Err E_ALERT_ILLEGAL else
    '(d, b2) <- pull_opaque 2 b1 ;;
    if is_ascii d then Ok (d, b2) else Err E_ALERT_ILLEGAL) bs.

Definition list_toks (cap : nat) (item : acc -> list Z -> Res (acc * list Z)) (bs : list Z)
  : Res (list Z * list Z) :=
  '(a, r) <- pull_list cap item acc0 bs ;; Ok (out_acc a, r).

(* ---- the extension loop --------------------------------------------------------------------- *)
Record est := mkEst {
  e_known : list (Z * list Z);     (* extension type -> dump of the attribute it sets (last wins) *)
  e_other : acc;                   (* other_extensions *)
  e_psk : bool                     (* after_psk (ClientHello only) *)
}.
Definition est0 : est := mkEst [] acc0 false.

Definition known_set (ty : Z) (toks : list Z) (l : list (Z * list Z)) : list (Z * list Z) :=
  filter (fun p => negb (fst p =? ty)) l ++ [(ty, toks)].

Fixpoint known_get (ty : Z) (l : list (Z * list Z)) : option (list Z) :=
  match l with
  | [] => None
  | (k, v) :: t => if k =? ty then Some v else known_get ty t
  end.

Definition ext_item (parse : Z -> Z -> list Z -> option (Res (list Z * list Z))) (client_hello : bool)
                    (st : est) (bs : list Z) : Res (est * list Z) :=
  if client_hello && e_psk st then Err E_ALERT_ILLEGAL else
  '(ty, b1) <- pull_uint16 bs ;;
  '(len, b2) <- pull_uint16 b1 ;;
  match parse ty len b2 with
  | Some r =>
      '(toks, b3) <- r ;;
      Ok (mkEst (known_set ty toks (e_known st)) (e_other st) (e_psk st || (client_hello && (ty =? 41))), b3)
  | None =>
      '(d, b3) <- pull_bytes len b2 ;;
      Ok (mkEst (e_known st) (acc_add (e_other st) (ty :: out_bytes d)) (e_psk st), b3)
  end.

Definition out_est (order : list Z) (st : est) : list Z :=
  flat_map (fun ty => match known_get ty (e_known st) with Some t => 1 :: t | None => [0] end) order
  ++ out_acc (e_other st).

Definition pull_extensions parse ch (bs : list Z) : Res (est * list Z) :=
  pull_list 2 (ext_item parse ch) est0 bs.

(* pull_handshake_type: `assert message_type == expected_type` *)
Definition pull_handshake_type (expected : Z) (bs : list Z) : Res (unit * list Z) :=
  '(t, r) <- pull_uint8 bs ;; if t =? expected then Ok (tt, r) else Err E_ASSERT.

(* ---- messages --------------------------------------------------------------------------------- *)
Definition CH_ORDER : list Z := [51; 43; 13; 10; 45; 0; 16; 42; 41].
Definition parse_client_hello_ext (ty len : Z) (b : list Z) : option (Res (list Z * list Z)) :=
  if ty =? 51 then Some (list_toks 2 item_key_share b)
  else if ty =? 43 then Some (list_toks 1 (item_uint 2) b)
  else if ty =? 13 then Some (list_toks 2 (item_uint 2) b)
  else if ty =? 10 then Some (list_toks 2 (item_uint 2) b)
  else if ty =? 45 then Some (list_toks 1 (item_uint 1) b)
  else if ty =? 0 then Some ('(d, r) <- pull_server_name b ;; Ok (out_bytes d, r))
  else if ty =? 16 then Some (list_toks 2 item_alpn b)
  else if ty =? 42 then Some (Ok ([], b))
  else if ty =? 41 then
    Some ('(ids, b1) <- list_toks 2 item_psk_identity b ;;
          '(bd, b2) <- list_toks 2 (item_opaque 1) b1 ;; Ok (ids ++ bd, b2))
  else None.

Definition hello_prefix (bs : list Z) : Res (list Z * list Z) :=
  '(ver, b1) <- pull_uint16 bs ;;
  if negb (ver =? 0x0303) then Err E_ALERT_DECODE else
  '(random, b2) <- pull_bytes 32 b1 ;;
  '(sid, b3) <- pull_opaque 1 b2 ;;
  Ok (out_bytes random ++ out_bytes sid, b3).

Definition pull_client_hello (bs : list Z) : Res (list Z * list Z) :=
  '(_, b0) <- pull_handshake_type 1 bs ;;
  pull_block 3 (fun _ b =>
    '(pre, b1) <- hello_prefix b ;;
    '(cs, b2) <- list_toks 2 (item_uint 2) b1 ;;
    '(cm, b3) <- list_toks 1 (item_uint 1) b2 ;;
    '(st, b4) <- pull_extensions parse_client_hello_ext true b3 ;;
    Ok (pre ++ cs ++ cm ++ out_est CH_ORDER st, b4)) b0.

Definition SH_ORDER : list Z := [43; 51; 41].
Definition parse_server_hello_ext (ty len : Z) (b : list Z) : option (Res (list Z * list Z)) :=
  if ty =? 43 then Some ('(v, r) <- pull_uint16 b ;; Ok ([v], r))
  else if ty =? 51 then Some ('(g, b1) <- pull_uint16 b ;; '(d, b2) <- pull_opaque 2 b1 ;; Ok (g :: out_bytes d, b2))
  else if ty =? 41 then Some ('(v, r) <- pull_uint16 b ;; Ok ([v], r))
  else None.

Definition pull_server_hello (bs : list Z) : Res (list Z * list Z) :=
  '(_, b0) <- pull_handshake_type 2 bs ;;
  pull_block 3 (fun _ b =>
    '(pre, b1) <- hello_prefix b ;;
    '(cs, b2) <- pull_uint16 b1 ;;
    '(cm, b3) <- pull_uint8 b2 ;;
    '(st, b4) <- pull_extensions parse_server_hello_ext false b3 ;;
    Ok (pre ++ [cs; cm] ++ out_est SH_ORDER st, b4)) b0.

Definition NST_ORDER : list Z := [42].
Definition parse_nst_ext (ty len : Z) (b : list Z) : option (Res (list Z * list Z)) :=
  if ty =? 42 then Some ('(v, r) <- pull_uint32 b ;; Ok ([v], r)) else None.

Definition pull_new_session_ticket (bs : list Z) : Res (list Z * list Z) :=
  '(_, b0) <- pull_handshake_type 4 bs ;;
  pull_block 3 (fun _ b =>
    '(lt, b1) <- pull_uint32 b ;;
    '(aa, b2) <- pull_uint32 b1 ;;
    '(nonce, b3) <- pull_opaque 1 b2 ;;
    '(ticket, b4) <- pull_opaque 2 b3 ;;
    '(st, b5) <- pull_extensions parse_nst_ext false b4 ;;
    Ok ([lt; aa] ++ out_bytes nonce ++ out_bytes ticket ++ out_est NST_ORDER st, b5)) b0.

(* EncryptedExtensions: an empty / all-skipped ALPN list raises
   AlertDecodeError("ALPN extension contains no usable protocol") (since /repo commit 759c7d3;
   before: `pull_list(...)[0]` raised IndexError) *)
Definition EE_ORDER : list Z := [16; 42].
Definition parse_ee_ext (ty len : Z) (b : list Z) : option (Res (list Z * list Z)) :=
  if ty =? 16 then
    Some ('(a, r) <- pull_list 2 item_alpn acc0 b ;;
          if fst a =? 0 then Err E_ALERT_DECODE
          else match snd a with n :: t => Ok (n :: ztake n t, r) | [] => Err E_ALERT_DECODE end)
  else if ty =? 42 then Some (Ok ([], b))
  else None.

Definition pull_encrypted_extensions (bs : list Z) : Res (list Z * list Z) :=
  '(_, b0) <- pull_handshake_type 8 bs ;;
  pull_block 3 (fun _ b =>
    '(st, b1) <- pull_extensions parse_ee_ext false b ;; Ok (out_est EE_ORDER st, b1)) b0.

Definition pull_certificate (bs : list Z) : Res (list Z * list Z) :=
  '(_, b0) <- pull_handshake_type 11 bs ;;
  pull_block 3 (fun _ b =>
    '(ctx, b1) <- pull_opaque 1 b ;;
    '(certs, b2) <- list_toks 3 item_certificate_entry b1 ;;
    Ok (out_bytes ctx ++ certs, b2)) b0.

Definition CR_ORDER : list Z := [13].
Definition parse_cr_ext (ty len : Z) (b : list Z) : option (Res (list Z * list Z)) :=
  if ty =? 13 then Some (list_toks 2 (item_uint 2) b) else None.

Definition pull_certificate_request (bs : list Z) : Res (list Z * list Z) :=
  '(_, b0) <- pull_handshake_type 13 bs ;;
  pull_block 3 (fun _ b =>
    '(ctx, b1) <- pull_opaque 1 b ;;
    '(st, b2) <- pull_extensions parse_cr_ext false b1 ;;
    Ok (out_bytes ctx ++ out_est CR_ORDER st, b2)) b0.

Definition pull_certificate_verify (bs : list Z) : Res (list Z * list Z) :=
  '(_, b0) <- pull_handshake_type 15 bs ;;
  pull_block 3 (fun _ b =>
    '(alg, b1) <- pull_uint16 b ;;
    '(sig, b2) <- pull_opaque 2 b1 ;;
    Ok (alg :: out_bytes sig, b2)) b0.

Definition pull_finished (bs : list Z) : Res (list Z * list Z) :=
  '(_, b0) <- pull_handshake_type 20 bs ;;
  '(d, b1) <- pull_opaque 3 b0 ;; Ok (out_bytes d, b1).

(* ---- generic encoder: push_uintN / push_bytes / push_block trees ------------------------------ *)
Inductive tv :=
| TInt (w : nat) (v : Z)
| TBytes (b : list Z)
| TBlock (cap : nat) (items : list tv).

(* push_block: body first, then `length.to_bytes(capacity, "big")` (OverflowError if too long) *)
Fixpoint enc_tv (t : tv) : Res (list Z) :=
  match t with
  | TInt w v => Ok (be_enc w v)
  | TBytes b => Ok b
  | TBlock cap items =>
      body <- (fix go (l : list tv) : Res (list Z) :=
                 match l with
                 | [] => Ok []
                 | x :: r => a <- enc_tv x ;; b <- go r ;; Ok (a ++ b)
                 end) items ;;
      if Zlen body >=? 256 ^ Z.of_nat cap then Err E_OVERFLOW
      else Ok (be_enc cap (Zlen body) ++ body)
  end.

Fixpoint enc_seq (l : list tv) : Res (list Z) :=
  match l with
  | [] => Ok []
  | x :: r => a <- enc_tv x ;; b <- enc_seq r ;; Ok (a ++ b)
  end.

(* ---------- executable interface -------------------------------------------------------
     0 kind n b..   pull_<message>  (kind = handshake type: 1 2 4 8 11 13 15 20)
     1 tree         encode a tree given in prefix form: 0 w v | 1 n b.. | 2 cap k child*k
   output: status, dump..., bytes consumed *)
Fixpoint tk_tv (fuel : nat) (t : list Z) : tv * list Z :=
  match fuel with
  | O => (TBytes [], [])
  | S f =>
    match t with
    | 0 :: w :: v :: t' => (TInt (Z.to_nat w) v, t')
    | 1 :: t' => let '(b, t'') := tk_list t' in (TBytes b, t'')
    | 2 :: cap :: k :: t' =>
        let '(items, t'') :=
          (fix go (n : nat) (t : list Z) : list tv * list Z :=
             match n with
             | O => ([], t)
             | S n' => let '(x, t1) := tk_tv f t in let '(xs, t2) := go n' t1 in (x :: xs, t2)
             end) (Z.to_nat k) t' in
        (TBlock (Z.to_nat cap) items, t'')
    | _ => (TBytes [], [])
    end
  end.

Definition exec_tls (toks : list Z) : list Z :=
  match toks with
  | 0 :: kind :: t =>
      let '(bs, _) := tk_list t in
      let r := if kind =? 1 then pull_client_hello bs else if kind =? 2 then pull_server_hello bs
               else if kind =? 4 then pull_new_session_ticket bs else if kind =? 8 then pull_encrypted_extensions bs
               else if kind =? 11 then pull_certificate bs else if kind =? 13 then pull_certificate_request bs
               else if kind =? 15 then pull_certificate_verify bs else pull_finished bs in
      out_res (fun p => fst p ++ [Zlen bs - Zlen (snd p)]) r
  | 1 :: t =>
      match fst (tk_tv (length t) t) with
      | TBlock _ items => out_res out_bytes (enc_seq items)     (* top level: the message's items in sequence *)
      | x => out_res out_bytes (enc_tv x)
      end
  | _ => []
  end.
(* EXTRACT: exec_tls *)
