(* Model of the TLS 1.3 handshake-message codecs of src/aioquic/tls.py: pull_block / push_block,
   pull_opaque, pull_list, and pull_client_hello, pull_server_hello, pull_encrypted_extensions,
   pull_certificate, pull_certificate_request, pull_certificate_verify, pull_finished,
   pull_new_session_ticket.

   Decoders return the decoded message as a canonical token dump (the same dump the harness
   computes from the Python dataclass): that keeps one generic extension loop for all messages.
   str values are their ASCII bytes; `.decode("ascii")` is the check "every byte < 128".
   The encoder side is the generic length-prefixed tree [tv] (push_block / push_opaque /
   push_list / push_uintN): the harness describes each message as such a tree from RFC 8446
   section 4 and the bytes are compared with the implementation's push_* output. *)
From AQ Require Import lib.Base lib.Tok model.Codec.

Definition E_OVERFLOW : Z := 104.    (* OverflowError: length.to_bytes(capacity) *)

(* ---- blocks ---------------------------------------------------------------------------- *)
(* with pull_block(buf, capacity) as length: body.  The body reads from the whole buffer; the
   block boundary is only checked afterwards ("extra bytes at the end of a block"). *)
Definition pull_block {A} (cap : nat) (body : Z -> list Z -> Res (A * list Z)) (bs : list Z)
  : Res (A * list Z) :=
  '(len, b1) <- pull_be cap bs ;;
  '(v, b2) <- body len b1 ;;
  if Zlen b1 - Zlen b2 =? len then Ok (v, b2) else Err E_ALERT_DECODE.

Definition pull_opaque (cap : nat) (bs : list Z) : Res (list Z * list Z) :=
  pull_block cap (fun len b => pull_bytes len b) bs.

(* pull_list: `while buf.tell() < end: func()`, threading a state through the items.  Every item
   function pulls at least one byte or raises, so the remaining bytes bound the iterations; with
   no fuel left the buffer is empty and the item's own first action decides the exception. *)
Fixpoint pull_fold {S} (item : S -> list Z -> Res (S * list Z)) (fuel : nat) (remaining : Z)
                   (st : S) (bs : list Z) : Res (S * list Z) :=
  if remaining <=? 0 then Ok (st, bs) else
  match fuel with
  | O => '(_, _) <- item st bs ;; Err E_READ
  | S f =>
      '(st1, b1) <- item st bs ;;
      pull_fold item f (remaining - (Zlen bs - Zlen b1)) st1 b1
  end.

Definition pull_list {S} (cap : nat) (item : S -> list Z -> Res (S * list Z)) (st : S) (bs : list Z)
  : Res (S * list Z) :=
  pull_block cap (fun len b => pull_fold item (length b) len st b) bs.

(* accumulators: (count, tokens) *)
Definition acc := (Z * list Z)%type.
Definition acc0 : acc := (0, []).
Definition acc_add (a : acc) (toks : list Z) : acc := (fst a + 1, snd a ++ toks).
Definition out_acc (a : acc) : list Z := fst a :: snd a.

Definition item_uint (w : nat) (a : acc) (bs : list Z) : Res (acc * list Z) :=
  '(v, r) <- pull_be w bs ;; Ok (acc_add a [v], r).

Definition is_ascii (b : list Z) : bool := forallb (fun x => x <? 128) b.

(* ---- items -------------------------------------------------------------------------------- *)
Definition item_key_share (a : acc) (bs : list Z) : Res (acc * list Z) :=
  '(g, b1) <- pull_uint16 bs ;; '(d, b2) <- pull_opaque 2 b1 ;; Ok (acc_add a (g :: out_bytes d), b2).

(* pull_alpn_protocol: UnicodeDecodeError -> SkipItem *)
Definition item_alpn (a : acc) (bs : list Z) : Res (acc * list Z) :=
  '(d, b1) <- pull_opaque 1 bs ;; Ok (if is_ascii d then acc_add a (out_bytes d) else a, b1).

Definition item_psk_identity (a : acc) (bs : list Z) : Res (acc * list Z) :=
  '(d, b1) <- pull_opaque 2 bs ;; '(age, b2) <- pull_uint32 b1 ;; Ok (acc_add a (out_bytes d ++ [age]), b2).

Definition item_opaque (cap : nat) (a : acc) (bs : list Z) : Res (acc * list Z) :=
  '(d, b1) <- pull_opaque cap bs ;; Ok (acc_add a (out_bytes d), b1).

Definition item_certificate_entry (a : acc) (bs : list Z) : Res (acc * list Z) :=
  '(d, b1) <- pull_opaque 3 bs ;; '(e, b2) <- pull_opaque 2 b1 ;; Ok (acc_add a (out_bytes d ++ out_bytes e), b2).

(* pull_server_name; a name that is not ASCII: UnicodeDecodeError is caught and re-raised as
   AlertIllegalParameter("ServerName is not ASCII") (since /repo commit 759c7d3; before: E_UNICODE escaped) *)
Definition pull_server_name (bs : list Z) : Res (list Z * list Z) :=
  pull_block 2 (fun _ b =>
    '(nt, b1) <- pull_uint8 b ;;
    if negb (nt =? 0) then Err E_ALERT_ILLEGAL else
    '(d, b2) <- pull_opaque 2 b1 ;;
    if is_ascii d then Ok (d, b2) else Err E_ALERT_ILLEGAL) bs.

Definition list_toks (cap : nat) (item : acc -> list Z -> Res (acc * list Z)) (bs : list Z)
  : Res (list Z * list Z) :=
  '(a, r) <- pull_list cap item acc0 bs ;; Ok (out_acc a, r).

(* ---- the extension loop --------------------------------------------------------------------- *)
Record est := mkEst {
  e_known : list (Z * list Z);     (* extension type -> dump of the attribute it sets (last wins) *)
  e_other : acc;                   (* other_extensions *)
  e_psk : bool                     (* after_psk (ClientHello only) *)
}.
Definition est0 : est := mkEst [] acc0 false.

Definition known_set (ty : Z) (toks : list Z) (l : list (Z * list Z)) : list (Z * list Z) :=
  filter (fun p => negb (fst p =? ty)) l ++ [(ty, toks)].

Fixpoint known_get (ty : Z) (l : list (Z * list Z)) : option (list Z) :=
  match l with
  | [] => None
  | (k, v) :: t => if k =? ty then Some v else known_get ty t
  end.

Definition ext_item (parse : Z -> Z -> list Z -> option (Res (list Z * list Z))) (client_hello : bool)
                    (st : est) (bs : list Z) : Res (est * list Z) :=
  if client_hello && e_psk st then Err E_ALERT_ILLEGAL else
  '(ty, b1) <- pull_uint16 bs ;;
  '(len, b2) <- pull_uint16 b1 ;;
  match parse ty len b2 with
  | Some r =>
      '(toks, b3) <- r ;;
      Ok (mkEst (known_set ty toks (e_known st)) (e_other st) (e_psk st || (client_hello && (ty =? 41))), b3)
  | None =>
      '(d, b3) <- pull_bytes len b2 ;;
      Ok (mkEst (e_known st) (acc_add (e_other st) (ty :: out_bytes d)) (e_psk st), b3)
  end.

Definition out_est (order : list Z) (st : est) : list Z :=
  flat_map (fun ty => match known_get ty (e_known st) with Some t => 1 :: t | None => [0] end) order
  ++ out_acc (e_other st).

Definition pull_extensions parse ch (bs : list Z) : Res (est * list Z) :=
  pull_list 2 (ext_item parse ch) est0 bs.

(* pull_handshake_type: `assert message_type == expected_type` *)
Definition pull_handshake_type (expected : Z) (bs : list Z) : Res (unit * list Z) :=
  '(t, r) <- pull_uint8 bs ;; if t =? expected then Ok (tt, r) else Err E_ASSERT.

(* ---- messages --------------------------------------------------------------------------------- *)
Definition CH_ORDER : list Z := [51; 43; 13; 10; 45; 0; 16; 42; 41].
Definition parse_client_hello_ext (ty len : Z) (b : list Z) : option (Res (list Z * list Z)) :=
  if ty =? 51 then Some (list_toks 2 item_key_share b)
  else if ty =? 43 then Some (list_toks 1 (item_uint 2) b)
  else if ty =? 13 then Some (list_toks 2 (item_uint 2) b)
  else if ty =? 10 then Some (list_toks 2 (item_uint 2) b)
  else if ty =? 45 then Some (list_toks 1 (item_uint 1) b)
  else if ty =? 0 then Some ('(d, r) <- pull_server_name b ;; Ok (out_bytes d, r))
  else if ty =? 16 then Some (list_toks 2 item_alpn b)
  else if ty =? 42 then Some (Ok ([], b))
  else if ty =? 41 then
    Some ('(ids, b1) <- list_toks 2 item_psk_identity b ;;
          '(bd, b2) <- list_toks 2 (item_opaque 1) b1 ;; Ok (ids ++ bd, b2))
  else None.

Definition hello_prefix (bs : list Z) : Res (list Z * list Z) :=
  '(ver, b1) <- pull_uint16 bs ;;
  if negb (ver =? 0x0303) then Err E_ALERT_DECODE else
  '(random, b2) <- pull_bytes 32 b1 ;;
  '(sid, b3) <- pull_opaque 1 b2 ;;
  Ok (out_bytes random ++ out_bytes sid, b3).

Definition pull_client_hello (bs : list Z) : Res (list Z * list Z) :=
  '(_, b0) <- pull_handshake_type 1 bs ;;
  pull_block 3 (fun _ b =>
    '(pre, b1) <- hello_prefix b ;;
    '(cs, b2) <- list_toks 2 (item_uint 2) b1 ;;
    '(cm, b3) <- list_toks 1 (item_uint 1) b2 ;;
    '(st, b4) <- pull_extensions parse_client_hello_ext true b3 ;;
    Ok (pre ++ cs ++ cm ++ out_est CH_ORDER st, b4)) b0.

Definition SH_ORDER : list Z := [43; 51; 41].
Definition parse_server_hello_ext (ty len : Z) (b : list Z) : option (Res (list Z * list Z)) :=
  if ty =? 43 then Some ('(v, r) <- pull_uint16 b ;; Ok ([v], r))
  else if ty =? 51 then Some ('(g, b1) <- pull_uint16 b ;; '(d, b2) <- pull_opaque 2 b1 ;; Ok (g :: out_bytes d, b2))
  else if ty =? 41 then Some ('(v, r) <- pull_uint16 b ;; Ok ([v], r))
  else None.

Definition pull_server_hello (bs : list Z) : Res (list Z * list Z) :=
  '(_, b0) <- pull_handshake_type 2 bs ;;
  pull_block 3 (fun _ b =>
    '(pre, b1) <- hello_prefix b ;;
    '(cs, b2) <- pull_uint16 b1 ;;
    '(cm, b3) <- pull_uint8 b2 ;;
    '(st, b4) <- pull_extensions parse_server_hello_ext false b3 ;;
    Ok (pre ++ [cs; cm] ++ out_est SH_ORDER st, b4)) b0.

Definition NST_ORDER : list Z := [42].
Definition parse_nst_ext (ty len : Z) (b : list Z) : option (Res (list Z * list Z)) :=
  if ty =? 42 then Some ('(v, r) <- pull_uint32 b ;; Ok ([v], r)) else None.

Definition pull_new_session_ticket (bs : list Z) : Res (list Z * list Z) :=
  '(_, b0) <- pull_handshake_type 4 bs ;;
  pull_block 3 (fun _ b =>
    '(lt, b1) <- pull_uint32 b ;;
    '(aa, b2) <- pull_uint32 b1 ;;
    '(nonce, b3) <- pull_opaque 1 b2 ;;
    '(ticket, b4) <- pull_opaque 2 b3 ;;
    '(st, b5) <- pull_extensions parse_nst_ext false b4 ;;
    Ok ([lt; aa] ++ out_bytes nonce ++ out_bytes ticket ++ out_est NST_ORDER st, b5)) b0.

(* EncryptedExtensions: an empty / all-skipped ALPN list raises
   AlertDecodeError("ALPN extension contains no usable protocol") (since /repo commit 759c7d3;
   before: `pull_list(...)[0]` raised IndexError) *)
Definition EE_ORDER : list Z := [16; 42].
Definition parse_ee_ext (ty len : Z) (b : list Z) : option (Res (list Z * list Z)) :=
  if ty =? 16 then
    Some ('(a, r) <- pull_list 2 item_alpn acc0 b ;;
          if fst a =? 0 then Err E_ALERT_DECODE
          else match snd a with n :: t => Ok (n :: ztake n t, r) | [] => Err E_ALERT_DECODE end)
  else if ty =? 42 then Some (Ok ([], b))
  else None.

Definition pull_encrypted_extensions (bs : list Z) : Res (list Z * list Z) :=
  '(_, b0) <- pull_handshake_type 8 bs ;;
  pull_block 3 (fun _ b =>
    '(st, b1) <- pull_extensions parse_ee_ext false b ;; Ok (out_est EE_ORDER st, b1)) b0.

Definition pull_certificate (bs : list Z) : Res (list Z * list Z) :=
  '(_, b0) <- pull_handshake_type 11 bs ;;
  pull_block 3 (fun _ b =>
    '(ctx, b1) <- pull_opaque 1 b ;;
    '(certs, b2) <- list_toks 3 item_certificate_entry b1 ;;
    Ok (out_bytes ctx ++ certs, b2)) b0.

Definition CR_ORDER : list Z := [13].
Definition parse_cr_ext (ty len : Z) (b : list Z) : option (Res (list Z * list Z)) :=
  if ty =? 13 then Some (list_toks 2 (item_uint 2) b) else None.

Definition pull_certificate_request (bs : list Z) : Res (list Z * list Z) :=
  '(_, b0) <- pull_handshake_type 13 bs ;;
  pull_block 3 (fun _ b =>
    '(ctx, b1) <- pull_opaque 1 b ;;
    '(st, b2) <- pull_extensions parse_cr_ext false b1 ;;
    Ok (out_bytes ctx ++ out_est CR_ORDER st, b2)) b0.

Definition pull_certificate_verify (bs : list Z) : Res (list Z * list Z) :=
  '(_, b0) <- pull_handshake_type 15 bs ;;
  pull_block 3 (fun _ b =>
    '(alg, b1) <- pull_uint16 b ;;
    '(sig, b2) <- pull_opaque 2 b1 ;;
    Ok (alg :: out_bytes sig, b2)) b0.

Definition pull_finished (bs : list Z) : Res (list Z * list Z) :=
  '(_, b0) <- pull_handshake_type 20 bs ;;
  '(d, b1) <- pull_opaque 3 b0 ;; Ok (out_bytes d, b1).

(* ---- generic encoder: push_uintN / push_bytes / push_block trees ------------------------------ *)
Inductive tv :=
| TInt (w : nat) (v : Z)
| TBytes (b : list Z)
| TBlock (cap : nat) (items : list tv).

(* push_block: body first, then `length.to_bytes(capacity, "big")` (OverflowError if too long) *)
Fixpoint enc_tv (t : tv) : Res (list Z) :=
  match t with
  | TInt w v => Ok (be_enc w v)
  | TBytes b => Ok b
  | TBlock cap items =>
      body <- (fix go (l : list tv) : Res (list Z) :=
                 match l with
                 | [] => Ok []
                 | x :: r => a <- enc_tv x ;; b <- go r ;; Ok (a ++ b)
                 end) items ;;
      if Zlen body >=? 256 ^ Z.of_nat cap then Err E_OVERFLOW
      else Ok (be_enc cap (Zlen body) ++ body)
  end.

Fixpoint enc_seq (l : list tv) : Res (list Z) :=
  match l with
  | [] => Ok []
  | x :: r => a <- enc_tv x ;; b <- enc_seq r ;; Ok (a ++ b)
  end.

(* ---------- message values, push_* as trees, canonical dumps (added for the round-trip theorems) ----
   One record per dataclass; [tree_X m] is what push_X(buf, m) writes, as a push_block / push_uintN /
   push_bytes tree (encoded by enc_seq: OverflowError when a block does not fit its length prefix);
   [dump_X m] is the token dump of the dataclass, the same dump pull_X returns above.
   str attributes are their ASCII bytes.  Attributes typed Optional[list] that push_X iterates
   unconditionally (ClientHello.key_share / supported_versions / signature_algorithms /
   supported_groups, CertificateRequest.signature_algorithms) are plain lists here: None raises
   TypeError in push_list and is outside this model. *)
Definition ext := (Z * list Z)%type.                 (* other_extensions entry / KeyShareEntry *)

Definition t_opaque (cap : nat) (d : list Z) : tv := TBlock cap [TBytes d].
Definition t_uints (cap w : nat) (l : list Z) : tv := TBlock cap (flat_map (fun v => [TInt w v]) l).
Definition t_ext (ty : Z) (items : list tv) : list tv := [TInt 2 ty; TBlock 2 items].
Definition t_others (l : list ext) : list tv := flat_map (fun e : ext => t_ext (fst e) [TBytes (snd e)]) l.
Definition t_opt {A} (f : A -> list tv) (o : option A) : list tv := match o with Some a => f a | None => [] end.
Definition t_ks (k : ext) : list tv := [TInt 2 (fst k); t_opaque 2 (snd k)].
Definition t_opaques (cap lcap : nat) (l : list (list Z)) : tv := TBlock cap (flat_map (fun d => [t_opaque lcap d]) l).

Definition dump_opt {A} (f : A -> list Z) (o : option A) : list Z := match o with Some a => 1 :: f a | None => [0] end.
Definition dump_list {A} (f : A -> list Z) (l : list A) : list Z := Zlen l :: flat_map f l.
Definition dump_ints (l : list Z) : list Z := dump_list (fun v => [v]) l.
Definition dump_ext (e : ext) : list Z := fst e :: out_bytes (snd e).
Definition dump_flag (b : bool) : list Z := if b then [1] else [0].

Record client_hello := mkCH {
  ch_random : list Z; ch_session_id : list Z; ch_cipher_suites : list Z; ch_compression_methods : list Z;
  ch_key_share : list ext; ch_supported_versions : list Z; ch_signature_algorithms : list Z;
  ch_supported_groups : list Z; ch_psk_key_exchange_modes : option (list Z);
  ch_server_name : option (list Z); ch_alpn_protocols : option (list (list Z)); ch_early_data : bool;
  ch_pre_shared_key : option (list (list Z * Z) * list (list Z));     (* identities, binders *)
  ch_other_extensions : list ext }.

Definition t_psk_identity (i : list Z * Z) : list tv := [t_opaque 2 (fst i); TInt 4 (snd i)].
Definition t_offered_psks (p : list (list Z * Z) * list (list Z)) : list tv :=
  [TBlock 2 (flat_map t_psk_identity (fst p)); t_opaques 2 1 (snd p)].

Definition ch_exts (m : client_hello) : list tv :=
  t_ext 51 [TBlock 2 (flat_map t_ks (ch_key_share m))] ++
  t_ext 43 [t_uints 1 2 (ch_supported_versions m)] ++
  t_ext 13 [t_uints 2 2 (ch_signature_algorithms m)] ++
  t_ext 10 [t_uints 2 2 (ch_supported_groups m)] ++
  t_opt (fun l => t_ext 45 [t_uints 1 1 l]) (ch_psk_key_exchange_modes m) ++
  t_opt (fun n => t_ext 0 [TBlock 2 [TInt 1 0; t_opaque 2 n]]) (ch_server_name m) ++
  t_opt (fun l => t_ext 16 [t_opaques 2 1 l]) (ch_alpn_protocols m) ++
  t_others (ch_other_extensions m) ++
  (if ch_early_data m then t_ext 42 [] else []) ++
  t_opt (fun p => t_ext 41 (t_offered_psks p)) (ch_pre_shared_key m).

Definition tree_client_hello (m : client_hello) : list tv :=
  [TInt 1 1; TBlock 3 [TInt 2 0x0303; TBytes (ch_random m); t_opaque 1 (ch_session_id m);
                       t_uints 2 2 (ch_cipher_suites m); t_uints 1 1 (ch_compression_methods m);
                       TBlock 2 (ch_exts m)]].

Definition dump_psk_identity (i : list Z * Z) : list Z := out_bytes (fst i) ++ [snd i].
Definition dump_client_hello (m : client_hello) : list Z :=
  out_bytes (ch_random m) ++ out_bytes (ch_session_id m) ++ dump_ints (ch_cipher_suites m) ++
  dump_ints (ch_compression_methods m) ++
  (1 :: dump_list dump_ext (ch_key_share m)) ++ (1 :: dump_ints (ch_supported_versions m)) ++
  (1 :: dump_ints (ch_signature_algorithms m)) ++ (1 :: dump_ints (ch_supported_groups m)) ++
  dump_opt dump_ints (ch_psk_key_exchange_modes m) ++ dump_opt out_bytes (ch_server_name m) ++
  dump_opt (dump_list out_bytes) (ch_alpn_protocols m) ++ dump_flag (ch_early_data m) ++
  dump_opt (fun p => dump_list dump_psk_identity (fst p) ++ dump_list out_bytes (snd p)) (ch_pre_shared_key m) ++
  dump_list dump_ext (ch_other_extensions m).

Record server_hello := mkSH {
  sh_random : list Z; sh_session_id : list Z; sh_cipher_suite : Z; sh_compression_method : Z;
  sh_supported_version : option Z; sh_key_share : option ext; sh_pre_shared_key : option Z;
  sh_other_extensions : list ext }.

Definition sh_exts (m : server_hello) : list tv :=
  t_opt (fun v => t_ext 43 [TInt 2 v]) (sh_supported_version m) ++
  t_opt (fun k => t_ext 51 (t_ks k)) (sh_key_share m) ++
  t_opt (fun v => t_ext 41 [TInt 2 v]) (sh_pre_shared_key m) ++
  t_others (sh_other_extensions m).

Definition tree_server_hello (m : server_hello) : list tv :=
  [TInt 1 2; TBlock 3 [TInt 2 0x0303; TBytes (sh_random m); t_opaque 1 (sh_session_id m);
                       TInt 2 (sh_cipher_suite m); TInt 1 (sh_compression_method m); TBlock 2 (sh_exts m)]].

Definition dump_server_hello (m : server_hello) : list Z :=
  out_bytes (sh_random m) ++ out_bytes (sh_session_id m) ++ [sh_cipher_suite m; sh_compression_method m] ++
  dump_opt (fun v => [v]) (sh_supported_version m) ++ dump_opt dump_ext (sh_key_share m) ++
  dump_opt (fun v => [v]) (sh_pre_shared_key m) ++ dump_list dump_ext (sh_other_extensions m).

Record new_session_ticket := mkNST {
  nst_lifetime : Z; nst_age_add : Z; nst_nonce : list Z; nst_ticket : list Z;
  nst_max_early_data_size : option Z; nst_other_extensions : list ext }.

Definition nst_exts (m : new_session_ticket) : list tv :=
  t_opt (fun v => t_ext 42 [TInt 4 v]) (nst_max_early_data_size m) ++ t_others (nst_other_extensions m).

Definition tree_new_session_ticket (m : new_session_ticket) : list tv :=
  [TInt 1 4; TBlock 3 [TInt 4 (nst_lifetime m); TInt 4 (nst_age_add m); t_opaque 1 (nst_nonce m);
                       t_opaque 2 (nst_ticket m); TBlock 2 (nst_exts m)]].

Definition dump_new_session_ticket (m : new_session_ticket) : list Z :=
  [nst_lifetime m; nst_age_add m] ++ out_bytes (nst_nonce m) ++ out_bytes (nst_ticket m) ++
  dump_opt (fun v => [v]) (nst_max_early_data_size m) ++ dump_list dump_ext (nst_other_extensions m).

Record encrypted_extensions := mkEE {
  ee_alpn_protocol : option (list Z); ee_early_data : bool; ee_other_extensions : list ext }.

Definition ee_exts (m : encrypted_extensions) : list tv :=
  t_opt (fun a => t_ext 16 [t_opaques 2 1 [a]]) (ee_alpn_protocol m) ++
  (if ee_early_data m then t_ext 42 [] else []) ++ t_others (ee_other_extensions m).

Definition tree_encrypted_extensions (m : encrypted_extensions) : list tv :=
  [TInt 1 8; TBlock 3 [TBlock 2 (ee_exts m)]].

Definition dump_encrypted_extensions (m : encrypted_extensions) : list Z :=
  dump_opt out_bytes (ee_alpn_protocol m) ++ dump_flag (ee_early_data m) ++ dump_list dump_ext (ee_other_extensions m).

Record certificate := mkCert { cert_request_context : list Z; cert_certificates : list (list Z * list Z) }.

Definition t_cert_entry (e : list Z * list Z) : list tv := [t_opaque 3 (fst e); t_opaque 2 (snd e)].
Definition tree_certificate (m : certificate) : list tv :=
  [TInt 1 11; TBlock 3 [t_opaque 1 (cert_request_context m); TBlock 3 (flat_map t_cert_entry (cert_certificates m))]].
Definition dump_cert_entry (e : list Z * list Z) : list Z := out_bytes (fst e) ++ out_bytes (snd e).
Definition dump_certificate (m : certificate) : list Z :=
  out_bytes (cert_request_context m) ++ dump_list dump_cert_entry (cert_certificates m).

Record certificate_request := mkCR {
  cr_request_context : list Z; cr_signature_algorithms : list Z; cr_other_extensions : list ext }.

Definition cr_exts (m : certificate_request) : list tv :=
  t_ext 13 [t_uints 2 2 (cr_signature_algorithms m)] ++ t_others (cr_other_extensions m).
Definition tree_certificate_request (m : certificate_request) : list tv :=
  [TInt 1 13; TBlock 3 [t_opaque 1 (cr_request_context m); TBlock 2 (cr_exts m)]].
Definition dump_certificate_request (m : certificate_request) : list Z :=
  out_bytes (cr_request_context m) ++ (1 :: dump_ints (cr_signature_algorithms m)) ++
  dump_list dump_ext (cr_other_extensions m).

Record certificate_verify := mkCV { cv_algorithm : Z; cv_signature : list Z }.
Definition tree_certificate_verify (m : certificate_verify) : list tv :=
  [TInt 1 15; TBlock 3 [TInt 2 (cv_algorithm m); t_opaque 2 (cv_signature m)]].
Definition dump_certificate_verify (m : certificate_verify) : list Z := cv_algorithm m :: out_bytes (cv_signature m).

Definition tree_finished (verify_data : list Z) : list tv := [TInt 1 20; t_opaque 3 verify_data].

(* dump tokens -> record (input of the executable interface) *)
Fixpoint tk_n {A} (f : list Z -> A * list Z) (n : nat) (t : list Z) : list A * list Z :=
  match n with
  | O => ([], t)
  | S n' => let '(a, t1) := f t in let '(l, t2) := tk_n f n' t1 in (a :: l, t2)
  end.
Definition tk_cnt {A} (f : list Z -> A * list Z) (t : list Z) : list A * list Z :=
  match t with n :: t' => tk_n f (Z.to_nat n) t' | [] => ([], []) end.
Definition tk_optv {A} (f : list Z -> A * list Z) (t : list Z) : option A * list Z :=
  match t with
  | 0 :: t' => (None, t')
  | _ :: t' => let '(a, t'') := f t' in (Some a, t'')
  | [] => (None, [])
  end.
Definition tk_z (t : list Z) : Z * list Z := match t with v :: t' => (v, t') | [] => (0, []) end.
Definition tk_flag (t : list Z) : bool * list Z := match t with v :: t' => (z2b v, t') | [] => (false, []) end.
Definition tk_ext (t : list Z) : ext * list Z :=
  let '(g, t1) := tk_z t in let '(d, t2) := tk_list t1 in ((g, d), t2).
Definition tk_psk_identity (t : list Z) : (list Z * Z) * list Z :=
  let '(d, t1) := tk_list t in let '(a, t2) := tk_z t1 in ((d, a), t2).
Definition tk_pair (t : list Z) : (list Z * list Z) * list Z :=
  let '(a, t1) := tk_list t in let '(b, t2) := tk_list t1 in ((a, b), t2).
Definition tk_psks (t : list Z) : (list (list Z * Z) * list (list Z)) * list Z :=
  let '(ids, t1) := tk_cnt tk_psk_identity t in let '(bd, t2) := tk_cnt tk_list t1 in ((ids, bd), t2).
Definition dflt {A} (o : option (list A)) : list A := match o with Some l => l | None => [] end.

Definition tk_client_hello (t : list Z) : client_hello :=
  let '(random, t) := tk_list t in let '(sid, t) := tk_list t in
  let '(cs, t) := tk_list t in let '(cm, t) := tk_list t in
  let '(ks, t) := tk_optv (tk_cnt tk_ext) t in let '(sv, t) := tk_optv tk_list t in
  let '(sa, t) := tk_optv tk_list t in let '(sg, t) := tk_optv tk_list t in
  let '(modes, t) := tk_optv tk_list t in let '(sni, t) := tk_optv tk_list t in
  let '(alpn, t) := tk_optv (tk_cnt tk_list) t in let '(early, t) := tk_flag t in
  let '(psk, t) := tk_optv tk_psks t in let '(other, _) := tk_cnt tk_ext t in
  mkCH random sid cs cm (dflt ks) (dflt sv) (dflt sa) (dflt sg) modes sni alpn early psk other.

Definition tk_server_hello (t : list Z) : server_hello :=
  let '(random, t) := tk_list t in let '(sid, t) := tk_list t in
  let '(cs, t) := tk_z t in let '(cm, t) := tk_z t in
  let '(sv, t) := tk_optv tk_z t in let '(ks, t) := tk_optv tk_ext t in let '(psk, t) := tk_optv tk_z t in
  let '(other, _) := tk_cnt tk_ext t in mkSH random sid cs cm sv ks psk other.

Definition tk_new_session_ticket (t : list Z) : new_session_ticket :=
  let '(lt, t) := tk_z t in let '(aa, t) := tk_z t in let '(nonce, t) := tk_list t in
  let '(ticket, t) := tk_list t in let '(med, t) := tk_optv tk_z t in
  let '(other, _) := tk_cnt tk_ext t in mkNST lt aa nonce ticket med other.

Definition tk_encrypted_extensions (t : list Z) : encrypted_extensions :=
  let '(alpn, t) := tk_optv tk_list t in let '(early, t) := tk_flag t in
  let '(other, _) := tk_cnt tk_ext t in mkEE alpn early other.

Definition tk_certificate (t : list Z) : certificate :=
  let '(ctx, t) := tk_list t in let '(certs, _) := tk_cnt tk_pair t in mkCert ctx certs.

Definition tk_certificate_request (t : list Z) : certificate_request :=
  let '(ctx, t) := tk_list t in let '(sa, t) := tk_optv tk_list t in
  let '(other, _) := tk_cnt tk_ext t in mkCR ctx (dflt sa) other.

Definition tk_certificate_verify (t : list Z) : certificate_verify :=
  let '(alg, t) := tk_z t in let '(sig, _) := tk_list t in mkCV alg sig.

(* push_X of the message given as its dump: (tree, dump recomputed from the record) *)
Definition push_of_dump (kind : Z) (t : list Z) : list tv * list Z :=
  if kind =? 1 then let m := tk_client_hello t in (tree_client_hello m, dump_client_hello m)
  else if kind =? 2 then let m := tk_server_hello t in (tree_server_hello m, dump_server_hello m)
  else if kind =? 4 then let m := tk_new_session_ticket t in (tree_new_session_ticket m, dump_new_session_ticket m)
  else if kind =? 8 then let m := tk_encrypted_extensions t in (tree_encrypted_extensions m, dump_encrypted_extensions m)
  else if kind =? 11 then let m := tk_certificate t in (tree_certificate m, dump_certificate m)
  else if kind =? 13 then let m := tk_certificate_request t in (tree_certificate_request m, dump_certificate_request m)
  else if kind =? 15 then let m := tk_certificate_verify t in (tree_certificate_verify m, dump_certificate_verify m)
  else let '(d, _) := tk_list t in (tree_finished d, out_bytes d).

(* ---------- executable interface -------------------------------------------------------
     0 kind n b..   pull_<message>  (kind = handshake type: 1 2 4 8 11 13 15 20)
     1 tree         encode a tree given in prefix form: 0 w v | 1 n b.. | 2 cap k child*k
     2 kind dump..  push_<message> of the message given as its dump: status, bytes, dump again
   output: status, dump..., bytes consumed *)
Fixpoint tk_tv (fuel : nat) (t : list Z) : tv * list Z :=
  match fuel with
  | O => (TBytes [], [])
  | S f =>
    match t with
    | 0 :: w :: v :: t' => (TInt (Z.to_nat w) v, t')
    | 1 :: t' => let '(b, t'') := tk_list t' in (TBytes b, t'')
    | 2 :: cap :: k :: t' =>
        let '(items, t'') :=
          (fix go (n : nat) (t : list Z) : list tv * list Z :=
             match n with
             | O => ([], t)
             | S n' => let '(x, t1) := tk_tv f t in let '(xs, t2) := go n' t1 in (x :: xs, t2)
             end) (Z.to_nat k) t' in
        (TBlock (Z.to_nat cap) items, t'')
    | _ => (TBytes [], [])
    end
  end.

Definition exec_tls (toks : list Z) : list Z :=
  match toks with
  | 0 :: kind :: t =>
      let '(bs, _) := tk_list t in
      let r := if kind =? 1 then pull_client_hello bs else if kind =? 2 then pull_server_hello bs
               else if kind =? 4 then pull_new_session_ticket bs else if kind =? 8 then pull_encrypted_extensions bs
               else if kind =? 11 then pull_certificate bs else if kind =? 13 then pull_certificate_request bs
               else if kind =? 15 then pull_certificate_verify bs else pull_finished bs in
      out_res (fun p => fst p ++ [Zlen bs - Zlen (snd p)]) r
  | 1 :: t =>
      match fst (tk_tv (length t) t) with
      | TBlock _ items => out_res out_bytes (enc_seq items)     (* top level: the message's items in sequence *)
      | x => out_res out_bytes (enc_tv x)
      end
  | 2 :: kind :: t =>
      let '(tree, dump) := push_of_dump kind t in
      out_res (fun bytes => out_bytes bytes ++ dump) (enc_seq tree)
  | _ => []
  end.
(* EXTRACT: exec_tls *)
