(* C04 specification layer over the GENERATED memory model (gen/CMem.v is produced from the
   current _buffer.c / _crypto.c on every check).  No proofs here.

   - Buffer: abstract state (base, pos, end addresses), one constructor per method; the
     semantics of a method call IS the generated event list of the corresponding C function
     (op_events), so a change of the C source changes this model.
   - call contracts K_fn in closed form for the four crypto entry points;
   - Python-side size models of the callers (packet_builder._end_packet ->
     CryptoContext.encrypt_packet; connection.receive_datagram -> CryptoContext.decrypt_packet). *)
From Coq Require Import ZArith List Bool.
From AQ Require Import model.CMemBase gen.CMem.
Import ListNotations.
Local Open Scope Z_scope.

(* ---------- first out-of-bounds access of an event list (None = none) ---------- *)
Fixpoint oob_accs (l : list acc) : option Z :=
  match l with [] => None | a :: r => if acc_okb a then oob_accs r else Some (a_id a) end.
Fixpoint oob_loop (n : nat) (i : Z) (f : Z -> list acc) : option Z :=
  match n with O => None | S n' => match oob_accs (f i) with Some x => Some x | None => oob_loop n' (i + 1) f end end.
Fixpoint oob_of (es : list ev) : option Z :=
  match es with
  | [] => None
  | EAcc g a :: r => if g then (if acc_okb a then oob_of r else Some (a_id a)) else oob_of r
  | ELoop g lo hi f :: r => if g then (match oob_loop (Z.to_nat (hi - lo)) lo f with Some x => Some x | None => oob_of r end) else oob_of r
  | ERej g _ _ :: r => if g then None else oob_of r
  | ERet g _ _ :: r => if g then None else oob_of r
  end.

(* ---------- Buffer ---------- *)
Record bst := { b_base : Z; b_pos : Z; b_end : Z }.
Definition ADDR_MAX : Z := 140737488355328.   (* 2^47: user address space; same constant as the translator *)
Definition binv (s : bst) : Prop := 1 <= b_base s /\ b_base s <= b_pos s /\ b_pos s <= b_end s /\ b_end s <= ADDR_MAX.

Inductive bop :=
| OpDataSlice (start stop : Z) | OpEof | OpPullBytes (n : Z)
| OpPullU8 | OpPullU16 | OpPullU32 | OpPullU64 | OpPullVar (top2 : Z)   (* top2 = first byte >> 6, read from the buffer *)
| OpPushBytes (dlen : Z) | OpPushU8 (v : Z) | OpPushU16 (v : Z) | OpPushU32 (v : Z) | OpPushU64 (v : Z) | OpPushVar (v : Z)
| OpSeek (p : Z) | OpTell | OpCapacity | OpData.

Definition ssize_ok (z : Z) : Prop := -9223372036854775808 <= z <= 9223372036854775807.
(* well-typed arguments = what CPython's argument parsing can store into the C variables *)
Definition op_typed (o : bop) : Prop :=
  match o with
  | OpDataSlice a b => ssize_ok a /\ ssize_ok b
  | OpPullBytes n => ssize_ok n
  | OpPullVar t => 0 <= t <= 3
  | OpPushBytes n => 0 <= n <= 2147483647
  | OpPushU8 v => 0 <= v <= 255
  | OpPushU16 v => 0 <= v <= 65535
  | OpPushU32 v => 0 <= v <= 4294967295
  | OpPushU64 v | OpPushVar v => 0 <= v <= 18446744073709551615
  | OpSeek p => ssize_ok p
  | _ => True
  end.

Definition op_events (s : bst) (o : bop) : list ev :=
  let b := b_base s in let p := b_pos s in let e := b_end s in
  match o with
  | OpDataSlice a z => ev_Buffer_data_slice b p e a z 1
  | OpEof => ev_Buffer_eof b p e
  | OpPullBytes n => ev_Buffer_pull_bytes b p e n 1
  | OpPullU8 => ev_Buffer_pull_uint8 b p e
  | OpPullU16 => ev_Buffer_pull_uint16 b p e
  | OpPullU32 => ev_Buffer_pull_uint32 b p e
  | OpPullU64 => ev_Buffer_pull_uint64 b p e
  | OpPullVar t => ev_Buffer_pull_uint_var b p e t
  | OpPushBytes n => ev_Buffer_push_bytes b p e n 1
  | OpPushU8 v => ev_Buffer_push_uint8 b p e v 1
  | OpPushU16 v => ev_Buffer_push_uint16 b p e v 1
  | OpPushU32 v => ev_Buffer_push_uint32 b p e v 1
  | OpPushU64 v => ev_Buffer_push_uint64 b p e v 1
  | OpPushVar v => ev_Buffer_push_uint_var b p e v 1
  | OpSeek q => ev_Buffer_seek b p e q 1
  | OpTell => ev_Buffer_tell b p e
  | OpCapacity => ev_Buffer_capacity_getter b p e
  | OpData => ev_Buffer_data_getter b p e
  end.

(* the cursor after the call: taken from the terminating event of the generated list *)
Definition bstep (s : bst) (o : bop) : bst :=
  match first_term (op_events s o) with
  | Some (_, _, p) => {| b_base := b_base s; b_pos := b_base s + p; b_end := b_end s |}
  | None => s
  end.
Definition op_rejected (s : bst) (o : bop) : bool :=
  match first_term (op_events s o) with Some (false, _, _) => true | _ => false end.

Fixpoint run_ops (s : bst) (ops : list bop) : list (bst * bop) :=
  match ops with [] => [] | o :: r => (s, o) :: run_ops (bstep s o) r end.

Definition step_ok (s : bst) (o : bop) : Prop :=
  events_safe (op_events s o) /\ binv (bstep s o) /\
  b_base (bstep s o) = b_base s /\ b_end (bstep s o) = b_end s /\
  (op_rejected s o = true -> b_pos (bstep s o) = b_pos s).

(* executable: [cap; pos; op; arg1; arg2; op; ...] -> per op: outcome tokens (status, code, pos) *)
Definition dec_op (c a1 a2 : Z) : bop :=
  if c =? 0 then OpDataSlice a1 a2 else if c =? 1 then OpEof else if c =? 2 then OpPullBytes a1
  else if c =? 3 then OpPullU8 else if c =? 4 then OpPullU16 else if c =? 5 then OpPullU32
  else if c =? 6 then OpPullU64 else if c =? 7 then OpPullVar a1 else if c =? 8 then OpPushBytes a1
  else if c =? 9 then OpPushU8 a1 else if c =? 10 then OpPushU16 a1 else if c =? 11 then OpPushU32 a1
  else if c =? 12 then OpPushU64 a1 else if c =? 13 then OpPushVar a1 else if c =? 14 then OpSeek a1
  else if c =? 15 then OpTell else if c =? 16 then OpCapacity else OpData.
Fixpoint exec_ops (s : bst) (toks : list Z) (fuel : nat) : list Z :=
  match fuel, toks with
  | S f, c :: a1 :: a2 :: r =>
      let o := dec_op c a1 a2 in
      let out := match oob_of (op_events s o) with
                 | Some id => [2; id; b_pos s - b_base s]
                 | None => match first_term (op_events s o) with
                           | Some (true, res, p) => [0; res; p]
                           | Some (false, x, p) => [1; x; p]
                           | None => [3; 0; 0]
                           end
                 end in
      out ++ exec_ops (bstep s o) r f
  | _, _ => []
  end.
Definition exec_cbuf (toks : list Z) : list Z :=
  match toks with
  | cap :: pos :: r => exec_ops {| b_base := 4096; b_pos := 4096 + pos; b_end := 4096 + cap |} r (length r)
  | _ => [-1]
  end.
(* EXTRACT: exec_cbuf *)

(* ---------- call contracts, closed form ---------- *)
Definition Kspec_AEAD_encrypt (data_len : Z) : Prop := data_len <= 1484.
Definition Kspec_AEAD_decrypt (data_len : Z) : Prop := True.
(* pnl0 = header[0] & 3  (packet-number length - 1, read from the header itself) *)
Definition Kspec_HP_apply (header_len payload_len pnl0 : Z) : Prop :=
  pnl0 + 1 <= header_len /\ 19 - pnl0 <= payload_len /\ header_len + payload_len <= 1500.
Definition Kspec_HP_remove (packet_len pn_offset : Z) : Prop :=
  0 <= pn_offset /\ pn_offset + 4 + 16 <= packet_len /\ pn_offset + 4 <= 1500.

(* ---------- Python-side size models of the callers ---------- *)
(* packet_builder._end_packet: a packet of plain size S (header H included) starts at offset
   `start` of a datagram buffer of max_datagram_size bytes; frames are only written while
   remaining_buffer_space = capacity - tell - 16 allows, so start + S + 16 <= mds; the padding
   rule makes S >= H + 2; PACKET_NUMBER_SEND_SIZE = 2, so header[0] & 3 = 1; H >= 3.
   encrypt_packet then calls AEAD.encrypt(plain[H:S], plain[0:H]) and HP.apply(plain[0:H], that + 16 bytes of tag). *)
Definition seal_call (mds start H S : Z) : Prop :=
  1200 <= mds /\ 0 <= start /\ 3 <= H /\ H + 2 <= S /\ start + S + 16 <= mds.
(* connection.receive_datagram: packet = data[start_off:end_off] of length L, encrypted_offset e
   = bytes consumed by pull_quic_header (>= 1), e <= L because the header was pulled from those
   bytes and packet_end <= capacity was checked; datagrams are at most 65535 bytes. *)
Definition open_call (L e : Z) : Prop := 1 <= e /\ e <= L /\ L <= 65535.
