(* C05: byte-level readers used by the QUIC receive path (src/aioquic/_buffer.c Buffer.pull_*,
   src/aioquic/quic/packet.py pull_ack_frame) as total Gallina functions over [list Z].
   A Buffer being read is its remaining suffix; BufferReadError is the [PErr] outcome.
   (Own minimal varint reader, independent of the C17 codec development.) *)
From AQ Require Import lib.Base.

Inductive pres (A : Type) : Type :=
| POk (a : A) (rest : list Z)
| PErr.                      (* BufferReadError: "Read out of bounds" *)
Arguments POk {A} a rest.
Arguments PErr {A}.

Definition pbind {A B} (r : pres A) (f : A -> list Z -> pres B) : pres B :=
  match r with POk a rest => f a rest | PErr => PErr end.

Definition pull_uint8 (b : list Z) : pres Z :=
  match b with x :: r => POk x r | [] => PErr end.

(* Buffer.pull_bytes(n): n >= 0 in every call of the receive path (n is a varint, a uint8 or
   capacity - tell); a negative n is answered like the C code does (BufferReadError). *)
Definition pull_bytes (n : Z) (b : list Z) : pres (list Z) :=
  if n <? 0 then PErr
  else if Zlen b <? n then PErr
  else POk (ztake n b) (zdrop n b).

Fixpoint be_value (acc : Z) (l : list Z) : Z :=
  match l with [] => acc | x :: r => be_value (acc * 256 + x) r end.

(* Buffer.pull_uint_var: two top bits of the first byte give the length 1/2/4/8 *)
Definition varint_extra (b0 : Z) : Z :=
  let p := b0 / 64 in
  if p =? 0 then 0 else if p =? 1 then 1 else if p =? 2 then 3 else 7.

Definition pull_uint_var (b : list Z) : pres Z :=
  match b with
  | [] => PErr
  | b0 :: r =>
      let n := varint_extra b0 in
      if Zlen r <? n then PErr
      else POk (be_value (b0 mod 64) (ztake n r)) (zdrop n r)
  end.

(* the zero run consumed by _handle_padding_frame *)
Fixpoint skip_zeros (b : list Z) : list Z :=
  match b with
  | x :: r => if x =? 0 then skip_zeros r else b
  | [] => []
  end.

(* pull_ack_frame: largest, delay, range count, first range, then count x (gap, length).
   Only the consumption matters for the no-raise property (RangeSet.add's assert stop > start
   holds for every input since each length is >= 0: see ack_add_guard in proofs/FramesP.v). *)
Fixpoint pull_ack_ranges (fuel : nat) (count : Z) (b : list Z) : pres unit :=
  if count <=? 0 then POk tt b else
  match fuel with
  | O => PErr
  | S fuel =>
      pbind (pull_uint_var b) (fun _gap b =>
      pbind (pull_uint_var b) (fun _len b =>
      pull_ack_ranges fuel (count - 1) b))
  end.

Definition pull_ack_frame (ecn : bool) (b : list Z) : pres unit :=
  pbind (pull_uint_var b) (fun _largest b =>
  pbind (pull_uint_var b) (fun _delay b =>
  pbind (pull_uint_var b) (fun count b =>
  pbind (pull_uint_var b) (fun _first b =>
  pbind (pull_ack_ranges (length b) count b) (fun _ b =>
  if ecn then
    pbind (pull_uint_var b) (fun _ b =>
    pbind (pull_uint_var b) (fun _ b =>
    pbind (pull_uint_var b) (fun _ b => POk tt b)))
  else POk tt b))))).
