(* Model of decode_packet_number (src/aioquic/quic/packet.py), transcribed statement by statement.
   Python int = Z; << >> & | ~ are Z.shiftl Z.shiftr Z.land Z.lor Z.lnot (two's complement on
   unbounded integers, as in Python); // is floor division = Z.div.
   coq/gen/PnGen.v is generated from the current source by tools/gen/c02_pure.py and proved equal to
   this definition in proofs/PacketNumberProofs.v. *)
From AQ Require Import lib.Base.

Definition decode_packet_number (truncated num_bits expected : Z) : Z :=
  let window := Z.shiftl 1 num_bits in
  let half_window := window / 2 in
  let candidate := Z.lor (Z.land expected (Z.lnot (window - 1))) truncated in
  if (candidate <=? expected - half_window) && (candidate <? Z.shiftl 1 62 - window) then
    candidate + window
  else if (candidate >? expected + half_window) && (candidate >=? window) then
    candidate - window
  else
    candidate.

(* EXTRACT: exec_pn *)
Definition exec_pn (toks : list Z) : list Z :=
  match toks with
  | [t; n; e] => [decode_packet_number t n e]
  | _ => []
  end.
