(* C05: the network-path table of QuicConnection (src/aioquic/quic/connection.py), as total functions with Python's
   exceptions as outcomes:

     _find_network_path(addr)        first entry with that address, else a NEW QuicNetworkPath (not yet in the table)
     server first flight             `self._network_paths = [network_path]`
     payload effects on paths        PATH_CHALLENGE: `context.network_path.remote_challenges.append(data)` below
                                     MAX_REMOTE_CHALLENGES; PATH_RESPONSE: `self._local_challenges[data].is_validated = True`
     "update network path" block     of receive_datagram, after every packet whose payload was handled and did not close:
                                        validated by the handshake; `not in` -> append; the MAX_NETWORK_PATHS bound with its
                                        eviction `pop(EVICT_INDEX)`; `idx = self._network_paths.index(network_path)` (ValueError
                                        site); promotion `pop(idx)` / `insert(PROMOTE_INDEX, network_path)` (IndexError site)
     datagrams_to_send               on `_network_paths[0]`: PATH_CHALLENGE written -> local_challenge_sent; PATH_RESPONSE
                                     written -> remote_challenges.popleft()
     connect()                       `self._network_paths = [QuicNetworkPath(addr, is_validated=True)]`

   A path OBJECT is an entry with an identity [p_id] (`in` / `.index` compare identities: QuicNetworkPath has no __eq__);
   `_find_network_path` compares addresses.  MAX_NETWORK_PATHS, EVICT_INDEX, PROMOTE_INDEX, MAX_REMOTE_CHALLENGES come from
   gen/C05Paths.v (read from the current source); [paths_sites_expected] is the source listing this file was written against.
   What decides a packet's verdict (epoch, probing, packet number above the largest received, which challenge a
   PATH_RESPONSE matched) is input: the frame layer is ConnRecv.v / ConnDgram.v.  No proofs in this file. *)
From Coq Require Import String.
From AQ Require Import lib.Base lib.Tok gen.C05Paths.

Record pent := mkP {
  p_id : Z;            (* object identity *)
  p_addr : Z;          (* addr *)
  p_val : bool;        (* is_validated *)
  p_sent : bool;       (* local_challenge_sent *)
  p_rc : Z             (* len(remote_challenges) *)
}.
Definition ptable := list pent.

Definition PEXN_IndexError : Z := 2.
Definition PEXN_ValueError : Z := 5.

(* ---------- Python list primitives on the table *)
(* list.index(x) / `x in list` by identity: None = ValueError / False *)
Fixpoint idx_id (i : Z) (l : ptable) : option Z :=
  match l with
  | [] => None
  | y :: r => if p_id y =? i then Some 0 else match idx_id i r with Some j => Some (j + 1) | None => None end
  end.
Definition mem_id (i : Z) (l : ptable) : bool := match idx_id i l with Some _ => true | None => false end.

(* list.pop(i): a negative i counts from the end; out of range = IndexError (None) *)
Fixpoint pop_nat (n : nat) (l : ptable) {struct l} : option (pent * ptable) :=
  match l with
  | [] => None
  | x :: r =>
      match n with
      | O => Some (x, r)
      | S n => match pop_nat n r with Some (y, r') => Some (y, x :: r') | None => None end
      end
  end.
Definition py_pop (i : Z) (l : ptable) : option (pent * ptable) :=
  let j := if i <? 0 then i + Zlen l else i in
  if j <? 0 then None else pop_nat (Z.to_nat j) l.

(* list.insert(i, x): never raises, the index is clamped *)
Fixpoint insert_nat (n : nat) (x : pent) (l : ptable) : ptable :=
  match n with
  | O => x :: l
  | S n => match l with [] => [x] | y :: r => y :: insert_nat n x r end
  end.
Definition py_insert (i : Z) (x : pent) (l : ptable) : ptable :=
  let j := if i <? 0 then Z.max 0 (i + Zlen l) else i in insert_nat (Z.to_nat j) x l.

(* attribute writes go to the object: to the table entry with that identity and to the local `network_path` *)
Definition set_val (p : pent) : pent := mkP (p_id p) (p_addr p) true (p_sent p) (p_rc p).
Definition set_rc (p : pent) (n : Z) : pent := mkP (p_id p) (p_addr p) (p_val p) (p_sent p) n.
Definition upd_id (i : Z) (f : pent -> pent) (l : ptable) : ptable :=
  map (fun p => if p_id p =? i then f p else p) l.

(* ---------- the "update network path" block, parametric in the three source constants *)
Inductive ures : Type :=
| UOk (tab : ptable) (cur : pent)
| URaise (k : Z).

(* from `if network_path not in self._network_paths` on *)
Definition update_core (M E P : Z) (tab : ptable) (cur : pent) (probing newer : bool) : ures :=
  (* if network_path not in self._network_paths: append; if len(...) > MAX_NETWORK_PATHS: pop(EVICT_INDEX) *)
  let r := if mem_id (p_id cur) tab then Some tab
           else let t := tab ++ [cur] in
                if Zlen t >? M then match py_pop E t with Some (_, t') => Some t' | None => None end
                else Some t in
  match r with
  | None => URaise PEXN_IndexError
  | Some tab =>
      (* idx = self._network_paths.index(network_path) *)
      match idx_id (p_id cur) tab with
      | None => URaise PEXN_ValueError
      | Some idx =>
          (* if idx and not is_probing and packet_number > space.largest_received_packet: pop(idx); insert(PROMOTE_INDEX, ..) *)
          if negb (idx =? 0) && negb probing && newer then
            match py_pop idx tab with
            | None => URaise PEXN_IndexError
            | Some (y, t) => UOk (py_insert P y t) cur
            end
          else UOk tab cur
      end
  end.

Definition update_gen (M E P : Z) (tab : ptable) (cur : pent) (hs probing newer : bool) : ures :=
  (* if not network_path.is_validated and epoch == tls.Epoch.HANDSHAKE: network_path.is_validated = True *)
  let v := negb (p_val cur) && hs in
  update_core M E P (if v then upd_id (p_id cur) set_val tab else tab) (if v then set_val cur else cur) probing newer.

Definition update_network_path : ptable -> pent -> bool -> bool -> bool -> ures :=
  update_gen MAX_NETWORK_PATHS EVICT_INDEX PROMOTE_INDEX.

(* ---------- one packet of a datagram: what its payload did to path objects, then the block *)
Record ppkt := mkK {
  k_reset : bool;        (* server, first Initial packet: self._network_paths = [network_path] *)
  k_reached : bool;      (* the payload returned and the connection is not closing: the block runs *)
  k_hs : bool;           (* epoch == tls.Epoch.HANDSHAKE *)
  k_probing : bool;      (* is_probing *)
  k_newer : bool;        (* packet_number > space.largest_received_packet *)
  k_resp : list Z;       (* PATH_RESPONSE frames that matched a challenge: index of the path in the table, -1: network_path *)
  k_nchal : Z            (* PATH_CHALLENGE frames *)
}.

Definition nth_id (l : ptable) (i : Z) : option Z :=
  if i <? 0 then None else match nth_error l (Z.to_nat i) with Some p => Some (p_id p) | None => None end.

Definition validate_targets (tab : ptable) (cur : pent) (ts : list Z) : ptable * pent :=
  fold_left (fun (a : ptable * pent) (t : Z) =>
               let '(tb, c) := a in
               match (if t =? -1 then Some (p_id c) else nth_id tb t) with
               | None => (tb, c)
               | Some i => (upd_id i set_val tb, if p_id c =? i then set_val c else c)
               end) ts (tab, cur).

Definition queue_challenges (tab : ptable) (cur : pent) (n : Z) : ptable * pent :=
  let rc := Z.max (p_rc cur) (Z.min MAX_REMOTE_CHALLENGES (p_rc cur + Z.max 0 n)) in
  (upd_id (p_id cur) (fun p => set_rc p rc) tab, set_rc cur rc).

Definition path_packet (tab : ptable) (cur : pent) (k : ppkt) : ures :=
  let tab := if k_reset k then [cur] else tab in
  let '(tab, cur) := queue_challenges tab cur (k_nchal k) in
  let '(tab, cur) := validate_targets tab cur (k_resp k) in
  if k_reached k then update_network_path tab cur (k_hs k) (k_probing k) (k_newer k) else UOk tab cur.

Fixpoint path_packets (tab : ptable) (cur : pent) (ks : list ppkt) : ures :=
  match ks with
  | [] => UOk tab cur
  | k :: ks => match path_packet tab cur k with
               | UOk tab' cur' => path_packets tab' cur' ks
               | URaise e => URaise e
               end
  end.

(* ---------- the table with the identity counter *)
Record pstate := mkPS { ps_tab : ptable; ps_next : Z }.

Definition find_network_path (s : pstate) (addr : Z) : pent * Z :=
  match find (fun p => p_addr p =? addr) (ps_tab s) with
  | Some p => (p, ps_next s)
  | None => (mkP (ps_next s) addr false false 0, ps_next s + 1)
  end.

Inductive pres : Type :=
| PROk (s : pstate)
| PRRaise (k : Z)
| PRInconsistent.         (* the recorded transmit contradicts the guards of _write_application *)

(* receive_datagram as far as paths are concerned *)
Definition path_datagram (s : pstate) (addr : Z) (ks : list ppkt) : pres :=
  let '(cur, next) := find_network_path s addr in
  match path_packets (ps_tab s) cur ks with
  | UOk tab _ => PROk (mkPS tab next)
  | URaise e => PRRaise e
  end.

(* datagrams_to_send on _network_paths[0]:
   `if not (network_path.is_validated or network_path.local_challenge_sent)` PATH_CHALLENGE, local_challenge_sent = True;
   `while len(network_path.remote_challenges) > 0` PATH_RESPONSE, popleft() *)
Definition path_send (s : pstate) (wrote : bool) (nresp : Z) : pres :=
  match ps_tab s with
  | [] => if wrote || (0 <? nresp) then PRInconsistent else PROk s
  | p :: r =>
      if wrote && (p_val p || p_sent p) then PRInconsistent
      else if (nresp <? 0) || (nresp >? p_rc p) then PRInconsistent
      else PROk (mkPS (mkP (p_id p) (p_addr p) (p_val p) (p_sent p || wrote) (p_rc p - nresp) :: r) (ps_next s))
  end.

(* connect(addr) *)
Definition path_connect (s : pstate) (addr : Z) : pres :=
  PROk (mkPS [mkP (ps_next s) addr true false 0] (ps_next s + 1)).

Inductive pathop : Type :=
| PConnect (addr : Z)
| PRecv (addr : Z) (ks : list ppkt)
| PSend (wrote : bool) (nresp : Z).

Definition path_op (s : pstate) (o : pathop) : pres :=
  match o with
  | PConnect a => path_connect s a
  | PRecv a ks => path_datagram s a ks
  | PSend w n => path_send s w n
  end.

Fixpoint path_run (s : pstate) (os : list pathop) : pres :=
  match os with
  | [] => PROk s
  | o :: os => match path_op s o with
               | PROk s' => path_run s' os
               | r => r
               end
  end.

(* ---------- the source listing this model was written against (compared with gen/C05Paths.paths_sites in
   proofs/ConnPathsP.paths_sites_known) *)
Open Scope string_scope.
Definition paths_sites_expected : list (string * list string) := [
  ("receive_datagram: update network path", [
    "if not network_path.is_validated and epoch == tls.Epoch.HANDSHAKE:";
    "network_path.is_validated = True";
    "end";
    "if network_path not in self._network_paths:";
    "self._network_paths.append(network_path)";
    "if len(self._network_paths) > MAX_NETWORK_PATHS:";
    "self._network_paths.pop(EVICT_INDEX)";
    "end";
    "end";
    "idx = self._network_paths.index(network_path)";
    "if idx and (not is_probing) and (packet_number > space.largest_received_packet):";
    "self._network_paths.pop(idx)";
    "self._network_paths.insert(PROMOTE_INDEX, network_path)";
    "end"]);
  ("_find_network_path", [
    "for (idx, network_path) in enumerate(self._network_paths):";
    "if network_path.addr == addr:";
    "return network_path";
    "end";
    "end";
    "network_path = QuicNetworkPath(addr)";
    "return network_path"]);
  ("QuicNetworkPath.__init__", [
    "self.addr: NetworkAddress = addr";
    "self.bytes_received: int = 0";
    "self.bytes_sent: int = 0";
    "self.is_validated: bool = is_validated";
    "self.local_challenge_sent: bool = False";
    "self.remote_challenges: Deque[bytes] = deque()"]);
  ("statements that assign or mutate self._network_paths", [
    "QuicConnection.__init__: self._network_paths: list[QuicNetworkPath] = []";
    "QuicConnection.connect: self._network_paths = [QuicNetworkPath(addr, is_validated=True)]";
    "QuicConnection.receive_datagram: self._network_paths = [network_path]";
    "QuicConnection.receive_datagram: self._network_paths.append(network_path)";
    "QuicConnection.receive_datagram: self._network_paths.pop(EVICT_INDEX)";
    "QuicConnection.receive_datagram: self._network_paths.pop(idx)";
    "QuicConnection.receive_datagram: self._network_paths.insert(PROMOTE_INDEX, network_path)"]);
  ("statements that write is_validated / local_challenge_sent / remote_challenges", [
    "QuicNetworkPath.__init__: self.is_validated: bool = is_validated";
    "QuicNetworkPath.__init__: self.local_challenge_sent: bool = False";
    "QuicNetworkPath.__init__: self.remote_challenges: Deque[bytes] = deque()";
    "QuicConnection.receive_datagram: network_path.is_validated = True";
    "QuicConnection._handle_path_challenge_frame: context.network_path.remote_challenges.append(data)";
    "QuicConnection._handle_path_response_frame: network_path.is_validated = True";
    "QuicConnection._write_application: network_path.local_challenge_sent = True";
    "QuicConnection._write_application: network_path.remote_challenges.popleft()"])
].
Close Scope string_scope.

(* ---------- executable interface ----------------------------------------------------------------------
   in : n, n x (addr validated sent rc)   the table before the first op (identities 0..n-1),
        nops, ops:  0 addr                                              connect
                    1 addr npk, npk x (reset reached hs probing newer resp(list) nchal)   receive_datagram
                    2 wrote nresp                                       datagrams_to_send
   out: per op  kind (0 ok | 3 raised | 9 inconsistent)  k  and, when ok, the table  n, n x (addr validated sent rc);
        nothing after the first op that is not ok *)
Fixpoint rd_entries (n : nat) (i : Z) (t : list Z) : ptable * list Z :=
  match n with
  | O => ([], t)
  | S n =>
      match t with
      | a :: v :: s :: rc :: t => let '(r, t) := rd_entries n (i + 1) t in (mkP i a (z2b v) (z2b s) rc :: r, t)
      | _ => ([], [])
      end
  end.

Fixpoint rd_pkts (n : nat) (t : list Z) : list ppkt * list Z :=
  match n with
  | O => ([], t)
  | S n =>
      match t with
      | rs :: re :: hs :: pr :: nw :: t =>
          let '(resp, t) := tk_list t in
          match t with
          | nc :: t => let '(r, t) := rd_pkts n t in (mkK (z2b rs) (z2b re) (z2b hs) (z2b pr) (z2b nw) resp nc :: r, t)
          | [] => ([], [])
          end
      | _ => ([], [])
      end
  end.

Fixpoint rd_ops (fuel : nat) (n : nat) (t : list Z) : list pathop :=
  match fuel, n with
  | O, _ | _, O => []
  | S fuel, S n =>
      match t with
      | 0 :: a :: t => PConnect a :: rd_ops fuel n t
      | 1 :: a :: npk :: t => let '(ks, t) := rd_pkts (Z.to_nat npk) t in PRecv a ks :: rd_ops fuel n t
      | 2 :: w :: nr :: t => PSend (z2b w) nr :: rd_ops fuel n t
      | _ => []
      end
  end.

Definition out_table (l : ptable) : list Z :=
  Zlen l :: flat_map (fun p => [p_addr p; b2z (p_val p); b2z (p_sent p); p_rc p]) l.

Fixpoint run_out (s : pstate) (os : list pathop) : list Z :=
  match os with
  | [] => []
  | o :: os =>
      match path_op s o with
      | PROk s' => [0; 0] ++ out_table (ps_tab s') ++ run_out s' os
      | PRRaise k => [3; k]
      | PRInconsistent => [9; 0]
      end
  end.

Definition exec_paths (t : list Z) : list Z :=
  match t with
  | n :: t =>
      let '(tab, t) := rd_entries (Z.to_nat n) 0 t in
      match t with
      | nops :: t => run_out (mkPS tab (Zlen tab)) (rd_ops (length t) (Z.to_nat nops) t)
      | [] => []
      end
  | [] => []
  end.
(* EXTRACT: exec_paths *)
