(* Model of the decisions of QuicConnection.receive_datagram (src/aioquic/quic/connection.py) AROUND decryption, for one
   packet whose header has been parsed and routed to this connection: which crypto pair and packet space by packet type,
   KeyUnavailableError -> drop (a client without handshake keys re-arms its Initial once), CryptoError -> drop, reserved bits
   checked AFTER successful decryption -> close(PROTOCOL_VIOLATION), expected packet number raised, state / idle timer / largest
   received / ack queue updated only after that.  1-RTT (and 0-RTT, which shares its pair here) decryption is
   KeyPhase.pair_decrypt; Initial and Handshake have one fixed context (no key phase): the packet opens iff it is authentic.
   Frame processing is an abstract function of the payload.  Model only: it is NOT run against the code (the code-level
   counterpart of the theorem is the state-digest oracle of harness/props/c02.py).  No proofs in this file. *)
From AQ Require Import lib.Base lib.Tok model.KeyPhase.

Inductive epoch := EInitial | EZeroRtt | EHandshake | EOneRtt.
Definition epoch_eqb (a b : epoch) : bool :=
  match a, b with EInitial, EInitial | EZeroRtt, EZeroRtt | EHandshake, EHandshake | EOneRtt, EOneRtt => true | _, _ => false end.

(* QuicPacketSpace, the fields receive_datagram touches *)
Record space := mkSp { sp_expected : Z; sp_largest : Z; sp_largest_time : Z; sp_ackq : list Z; sp_ack_at : option Z; sp_discarded : bool }.

Record conn := mkC {
  c_is_client : bool;
  c_keys_initial : bool; c_keys_handshake : bool; c_keys_onertt : bool;     (* recv.aead is not None *)
  c_pair : kpair;                                                           (* _cryptos[ONE_RTT] key-phase state *)
  c_sp_initial : space; c_sp_handshake : space; c_sp_onertt : space;
  c_crypto_retransmitted : bool; c_rescheduled : Z;                         (* _loss.reschedule_data calls *)
  c_connected : bool;                                                       (* state left FIRSTFLIGHT *)
  c_close : option Z;                                                       (* close(error_code) pending *)
  c_close_at : Z;
  c_delivered : list (list Z)                                               (* payloads handed to _payload_received *)
}.

(* a received packet after header parsing: packet type (as epoch), the abstract protected content, and what decryption
   yields IF it opens: first byte of the plain header, packet number, payload *)
Record rpacket := mkR { r_epoch : epoch; r_q : kpkt; r_first : Z; r_pn : Z; r_payload : list Z }.

Definition space_of (c : conn) (e : epoch) : space :=
  match e with EInitial => c_sp_initial c | EHandshake => c_sp_handshake c | _ => c_sp_onertt c end.
Definition has_keys (c : conn) (e : epoch) : bool :=
  match e with EInitial => c_keys_initial c | EHandshake => c_keys_handshake c | _ => c_keys_onertt c end.

Inductive dres := KeyUnavailable | CryptoErr | Opened (p' : kpair).

(* crypto.decrypt_packet(...) of the pair selected by epoch *)
Definition decrypt (c : conn) (r : rpacket) : dres :=
  if negb (has_keys c (r_epoch r)) then KeyUnavailable
  else match r_epoch r with
       | EInitial | EHandshake => match q_auth (r_q r) with Some _ => Opened (c_pair c) | None => CryptoErr end
       | _ => match pair_decrypt (c_pair c) (r_q r) with (p', Accepted _) => Opened p' | (_, Rejected) => CryptoErr end
       end.

Definition PROTOCOL_VIOLATION : Z := 10.

Definition set_space (c : conn) (e : epoch) (s : space) : conn :=
  match e with
  | EInitial => mkC (c_is_client c) (c_keys_initial c) (c_keys_handshake c) (c_keys_onertt c) (c_pair c) s (c_sp_handshake c) (c_sp_onertt c)
                  (c_crypto_retransmitted c) (c_rescheduled c) (c_connected c) (c_close c) (c_close_at c) (c_delivered c)
  | EHandshake => mkC (c_is_client c) (c_keys_initial c) (c_keys_handshake c) (c_keys_onertt c) (c_pair c) (c_sp_initial c) s (c_sp_onertt c)
                  (c_crypto_retransmitted c) (c_rescheduled c) (c_connected c) (c_close c) (c_close_at c) (c_delivered c)
  | _ => mkC (c_is_client c) (c_keys_initial c) (c_keys_handshake c) (c_keys_onertt c) (c_pair c) (c_sp_initial c) (c_sp_handshake c) s
                  (c_crypto_retransmitted c) (c_rescheduled c) (c_connected c) (c_close c) (c_close_at c) (c_delivered c)
  end.

Section Frames.
  (* _payload_received: (is_ack_eliciting, error code of a QuicConnectionError if one is raised) *)
  Variable frames : list Z -> bool * option Z.
  Variable idle_timeout ack_delay : Z.

  Definition recv_packet (c : conn) (r : rpacket) (now : Z) : conn :=
    let e := r_epoch r in
    match decrypt c r with
    | KeyUnavailable =>
        if c_is_client c && (epoch_eqb e EHandshake || epoch_eqb e EOneRtt) && negb (c_crypto_retransmitted c)
        then mkC (c_is_client c) (c_keys_initial c) (c_keys_handshake c) (c_keys_onertt c) (c_pair c) (c_sp_initial c) (c_sp_handshake c)
               (c_sp_onertt c) true (c_rescheduled c + 1) (c_connected c) (c_close c) (c_close_at c) (c_delivered c)
        else c
    | CryptoErr => c
    | Opened p' =>
        (* CryptoPair.decrypt_packet has already applied a remote key update *)
        let c1 := mkC (c_is_client c) (c_keys_initial c) (c_keys_handshake c) (c_keys_onertt c) p' (c_sp_initial c) (c_sp_handshake c)
                    (c_sp_onertt c) (c_crypto_retransmitted c) (c_rescheduled c) (c_connected c) (c_close c) (c_close_at c) (c_delivered c) in
        let reserved_mask := if epoch_eqb e EOneRtt then 24 else 12 in
        if negb (Z.land (r_first r) reserved_mask =? 0) then
          mkC (c_is_client c1) (c_keys_initial c1) (c_keys_handshake c1) (c_keys_onertt c1) (c_pair c1) (c_sp_initial c1) (c_sp_handshake c1)
            (c_sp_onertt c1) (c_crypto_retransmitted c1) (c_rescheduled c1) (c_connected c1) (Some PROTOCOL_VIOLATION) (c_close_at c1) (c_delivered c1)
        else
          let sp := space_of c1 e in
          let pn := r_pn r in
          (* if packet_number > space.expected_packet_number: space.expected_packet_number = packet_number + 1 *)
          let sp1 := mkSp (if pn >? sp_expected sp then pn + 1 else sp_expected sp) (sp_largest sp) (sp_largest_time sp) (sp_ackq sp)
                       (sp_ack_at sp) (sp_discarded sp) in
          let '(eliciting, err) := frames (r_payload r) in
          let c2 := set_space c1 e sp1 in
          let c3 := mkC (c_is_client c2) (c_keys_initial c2) (c_keys_handshake c2) (c_keys_onertt c2) (c_pair c2) (c_sp_initial c2)
                      (c_sp_handshake c2) (c_sp_onertt c2) (c_crypto_retransmitted c2) (c_rescheduled c2) true
                      (match err with Some k => Some k | None => c_close c2 end) (c_close_at c2) (c_delivered c2 ++ [r_payload r]) in
          match c_close c3 with
          | Some _ => c3
          | None =>
              let sp2 := if sp_discarded sp1 then sp1 else
                mkSp (sp_expected sp1) (if pn >? sp_largest sp1 then pn else sp_largest sp1)
                  (if pn >? sp_largest sp1 then now else sp_largest_time sp1) (sp_ackq sp1 ++ [pn])
                  (match sp_ack_at sp1 with None => if eliciting then Some (now + ack_delay) else None | Some t => Some t end)
                  (sp_discarded sp1) in
              let c4 := set_space c3 e sp2 in
              mkC (c_is_client c4) (c_keys_initial c4) (c_keys_handshake c4) (c_keys_onertt c4) (c_pair c4) (c_sp_initial c4)
                (c_sp_handshake c4) (c_sp_onertt c4) (c_crypto_retransmitted c4) (c_rescheduled c4) (c_connected c4) (c_close c4)
                (now + idle_timeout) (c_delivered c4)
          end
    end.
End Frames.
