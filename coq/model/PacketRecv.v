(* Model of the decisions of QuicConnection.receive_datagram (src/aioquic/quic/connection.py) AROUND decryption, for one
   packet whose header has been parsed and routed to this connection (header parsing / routing: C05's ConnDgram.v), statement
   by statement in the order of gen/C02Recv.v RECV_SKELETON (read from the source on every check; lemma
   packet_recv_as_modelled):

     gate        `if self._state in END_STATES or self._close_pending: return`
     select      crypto pair by epoch (`_cryptos_initial[version]` / `_cryptos[epoch]`: 0-RTT has its OWN pair), packet space
                 by epoch (0-RTT shares the 1-RTT space)
     decrypt     crypto.decrypt_packet(.., space.expected_packet_number): KeyUnavailableError -> drop (a client re-arms its
                 first flight once for a Handshake / 1-RTT packet), CryptoError -> drop.  The truncated packet number is
                 expanded against expected_packet_number (PacketNumber.decode_packet_number); an authentic packet whose number
                 does not expand to the number it was sealed with has the wrong nonce and fails like any other (ideal AEAD).
                 1-RTT decryption is KeyPhase.pair_decrypt (a remote key update is applied by it).
     reserved    bits 0x18 / 0x0C checked AFTER decryption -> close(PROTOCOL_VIOLATION); return
     expected    `if packet_number > space.expected_packet_number: space.expected_packet_number = packet_number + 1`
     discard     server, Handshake packet: _discard_epoch(INITIAL)
     latch       `if self._peer_cid.sequence_number is None`: peer CID := header.source_cid
     connected   FIRSTFLIGHT -> CONNECTED, _remote_initial_source_connection_id := header.source_cid
     spin        1-RTT and packet_number > _spin_highest_pn: spin bit (inverted by a client), _spin_highest_pn
     payload     _payload_received: an ABSTRACT function of the payload giving (ack-eliciting, error code of a
                 QuicConnectionError / of a close it caused, effects on the key state: handshake / 1-RTT keys installed,
                 Handshake epoch discarded at confirmation); close on error
     gate        again
     idle        _close_at = now + _idle_timeout()
     record      `if not space.discarded` (read AFTER the payload): largest_received_packet / _time, ack_queue.add (a RangeSet),
                 ack_at, the MAX_ACK_RANGES rule
   and, outside receive_datagram, [on_handshake_sent]: a client discards the Initial epoch when it has sent a Handshake packet.

   Not modelled: migration / network paths (bytes_received, validation, promotion), the server's `_close_at` / `_initialize`
   on its very first datagram (both before authentication, see docs/C02.md "False alarms"), the congestion / loss side of
   _loss.discard_space, qlog.
   Tie: exec_packetrecv below is run against real connections on every check (harness/props/c02_recv.py).
   No proofs in this file. *)
From AQ Require Import lib.Base lib.Tok model.KeyPhase model.PacketNumber model.RangeSet gen.C02Recv.

Inductive epoch := EInitial | EZeroRtt | EHandshake | EOneRtt.
Definition epoch_eqb (a b : epoch) : bool :=
  match a, b with EInitial, EInitial | EZeroRtt, EZeroRtt | EHandshake, EHandshake | EOneRtt, EOneRtt => true | _, _ => false end.

(* QuicPacketSpace, the fields receive_datagram touches *)
Record space := mkSp { sp_expected : Z; sp_largest : Z; sp_largest_time : Z; sp_ackq : rs; sp_ack_at : option Z; sp_discarded : bool }.

Record conn := mkC {
  c_is_client : bool;
  c_keys_initial : bool; c_keys_zerortt : bool; c_keys_handshake : bool; c_keys_onertt : bool;   (* recv.aead is not None *)
  c_pair : kpair;                                                           (* _cryptos[ONE_RTT] key-phase state *)
  c_sp_initial : space; c_sp_handshake : space; c_sp_onertt : space;
  c_crypto_retransmitted : bool; c_rescheduled : Z;                         (* _loss.reschedule_data calls *)
  c_connected : bool;                                                       (* state left FIRSTFLIGHT *)
  c_close : option Z;                                                       (* close(error_code) pending / END state *)
  c_close_at : Z;
  c_delivered : list (list Z);                                              (* payloads handed to _payload_received *)
  c_peer_latched : bool; c_peer_cid : list Z;                               (* _peer_cid.sequence_number is not None; .cid *)
  c_remote_iscid : list Z;                                                  (* _remote_initial_source_connection_id *)
  c_spin : bool; c_spin_highest : Z                                         (* _spin_bit, _spin_highest_pn *)
}.

(* a received packet after header parsing: packet type (as epoch), the abstract protected content, and what the SENDER put in:
   first byte of the plain header, the packet number it sealed with, the length of the truncated encoding (bytes), the
   source CID of the (long) header, payload *)
Record rpacket := mkR { r_epoch : epoch; r_q : kpkt; r_first : Z; r_pn : Z; r_pnlen : Z; r_scid : list Z; r_payload : list Z }.

Definition space_of (c : conn) (e : epoch) : space :=
  match e with EInitial => c_sp_initial c | EHandshake => c_sp_handshake c | _ => c_sp_onertt c end.
Definition has_keys (c : conn) (e : epoch) : bool :=
  match e with EInitial => c_keys_initial c | EZeroRtt => c_keys_zerortt c | EHandshake => c_keys_handshake c | EOneRtt => c_keys_onertt c end.

(* ---- field updates (each the record with one group of fields replaced) ---- *)
Definition set_keys (c : conn) (e : epoch) (b : bool) : conn :=
  mkC (c_is_client c)
    (if epoch_eqb e EInitial then b else c_keys_initial c) (if epoch_eqb e EZeroRtt then b else c_keys_zerortt c)
    (if epoch_eqb e EHandshake then b else c_keys_handshake c) (if epoch_eqb e EOneRtt then b else c_keys_onertt c)
    (c_pair c) (c_sp_initial c) (c_sp_handshake c) (c_sp_onertt c) (c_crypto_retransmitted c) (c_rescheduled c) (c_connected c)
    (c_close c) (c_close_at c) (c_delivered c) (c_peer_latched c) (c_peer_cid c) (c_remote_iscid c) (c_spin c) (c_spin_highest c).
Definition set_pair (c : conn) (p : kpair) : conn :=
  mkC (c_is_client c) (c_keys_initial c) (c_keys_zerortt c) (c_keys_handshake c) (c_keys_onertt c)
    p (c_sp_initial c) (c_sp_handshake c) (c_sp_onertt c) (c_crypto_retransmitted c) (c_rescheduled c) (c_connected c)
    (c_close c) (c_close_at c) (c_delivered c) (c_peer_latched c) (c_peer_cid c) (c_remote_iscid c) (c_spin c) (c_spin_highest c).
Definition set_space (c : conn) (e : epoch) (s : space) : conn :=
  mkC (c_is_client c) (c_keys_initial c) (c_keys_zerortt c) (c_keys_handshake c) (c_keys_onertt c) (c_pair c)
    (match e with EInitial => s | _ => c_sp_initial c end) (match e with EHandshake => s | _ => c_sp_handshake c end)
    (match e with EInitial | EHandshake => c_sp_onertt c | _ => s end)
    (c_crypto_retransmitted c) (c_rescheduled c) (c_connected c)
    (c_close c) (c_close_at c) (c_delivered c) (c_peer_latched c) (c_peer_cid c) (c_remote_iscid c) (c_spin c) (c_spin_highest c).
(* self._loss.reschedule_data(now=now); self._crypto_retransmitted = True *)
Definition set_retransmitted (c : conn) : conn :=
  mkC (c_is_client c) (c_keys_initial c) (c_keys_zerortt c) (c_keys_handshake c) (c_keys_onertt c)
    (c_pair c) (c_sp_initial c) (c_sp_handshake c) (c_sp_onertt c) true (c_rescheduled c + 1) (c_connected c)
    (c_close c) (c_close_at c) (c_delivered c) (c_peer_latched c) (c_peer_cid c) (c_remote_iscid c) (c_spin c) (c_spin_highest c).
(* FIRSTFLIGHT: _remote_initial_source_connection_id = header.source_cid; _set_state(CONNECTED) *)
Definition set_connected (c : conn) (scid : list Z) : conn :=
  mkC (c_is_client c) (c_keys_initial c) (c_keys_zerortt c) (c_keys_handshake c) (c_keys_onertt c)
    (c_pair c) (c_sp_initial c) (c_sp_handshake c) (c_sp_onertt c) (c_crypto_retransmitted c) (c_rescheduled c) true
    (c_close c) (c_close_at c) (c_delivered c) (c_peer_latched c) (c_peer_cid c) scid (c_spin c) (c_spin_highest c).
(* close(): `if self._close_event is None and self._state not in END_STATES` -- the first close wins *)
Definition set_close (c : conn) (k : Z) : conn :=
  mkC (c_is_client c) (c_keys_initial c) (c_keys_zerortt c) (c_keys_handshake c) (c_keys_onertt c)
    (c_pair c) (c_sp_initial c) (c_sp_handshake c) (c_sp_onertt c) (c_crypto_retransmitted c) (c_rescheduled c) (c_connected c)
    (match c_close c with Some k0 => Some k0 | None => Some k end)
    (c_close_at c) (c_delivered c) (c_peer_latched c) (c_peer_cid c) (c_remote_iscid c) (c_spin c) (c_spin_highest c).
Definition set_close_at (c : conn) (t : Z) : conn :=
  mkC (c_is_client c) (c_keys_initial c) (c_keys_zerortt c) (c_keys_handshake c) (c_keys_onertt c)
    (c_pair c) (c_sp_initial c) (c_sp_handshake c) (c_sp_onertt c) (c_crypto_retransmitted c) (c_rescheduled c) (c_connected c)
    (c_close c) t (c_delivered c) (c_peer_latched c) (c_peer_cid c) (c_remote_iscid c) (c_spin c) (c_spin_highest c).
Definition deliver (c : conn) (p : list Z) : conn :=
  mkC (c_is_client c) (c_keys_initial c) (c_keys_zerortt c) (c_keys_handshake c) (c_keys_onertt c)
    (c_pair c) (c_sp_initial c) (c_sp_handshake c) (c_sp_onertt c) (c_crypto_retransmitted c) (c_rescheduled c) (c_connected c)
    (c_close c) (c_close_at c) (c_delivered c ++ [p]) (c_peer_latched c) (c_peer_cid c) (c_remote_iscid c) (c_spin c) (c_spin_highest c).
(* self._peer_cid.cid = header.source_cid; self._peer_cid.sequence_number = 0 *)
Definition latch_peer (c : conn) (scid : list Z) : conn :=
  mkC (c_is_client c) (c_keys_initial c) (c_keys_zerortt c) (c_keys_handshake c) (c_keys_onertt c)
    (c_pair c) (c_sp_initial c) (c_sp_handshake c) (c_sp_onertt c) (c_crypto_retransmitted c) (c_rescheduled c) (c_connected c)
    (c_close c) (c_close_at c) (c_delivered c) true scid (c_remote_iscid c) (c_spin c) (c_spin_highest c).
Definition set_spin (c : conn) (b : bool) (pn : Z) : conn :=
  mkC (c_is_client c) (c_keys_initial c) (c_keys_zerortt c) (c_keys_handshake c) (c_keys_onertt c)
    (c_pair c) (c_sp_initial c) (c_sp_handshake c) (c_sp_onertt c) (c_crypto_retransmitted c) (c_rescheduled c) (c_connected c)
    (c_close c) (c_close_at c) (c_delivered c) (c_peer_latched c) (c_peer_cid c) (c_remote_iscid c) b pn.

(* _loss.discard_space(space): `space.ack_at = None` (sent packets, loss timer: not modelled); then space.discarded = True *)
Definition sp_set_discarded (s : space) : space :=
  mkSp (sp_expected s) (sp_largest s) (sp_largest_time s) (sp_ackq s) None true.

(* _discard_epoch: `if not self._spaces[epoch].discarded:` teardown of the epoch's pair (for INITIAL: every Initial pair),
   _loss.discard_space (its `space.ack_at = None`: DISCARD_SPACE_CLEARS_ACK_AT), discarded = True.  Only called for INITIAL and HANDSHAKE while the connection lives. *)
Definition discard_epoch (c : conn) (e : epoch) : conn :=
  if sp_discarded (space_of c e) then c
  else set_space (set_keys c e false) e (sp_set_discarded (space_of c e)).

(* datagrams_to_send: `if sent_handshake and self._is_client: self._discard_epoch(tls.Epoch.INITIAL)` *)
Definition on_handshake_sent (c : conn) : conn := if c_is_client c then discard_epoch c EInitial else c.

Inductive dres := KeyUnavailable | CryptoErr | Opened (p' : kpair).

(* the packet number decrypt_packet computes: decode_packet_number(truncated, pn_length * 8, expected) *)
Definition decoded_pn (c : conn) (r : rpacket) : Z :=
  let bits := 8 * r_pnlen r in
  decode_packet_number (r_pn r mod Z.shiftl 1 bits) bits (sp_expected (space_of c (r_epoch r))).

(* crypto.decrypt_packet(...) of the pair selected by epoch *)
Definition decrypt (c : conn) (r : rpacket) : dres :=
  if negb (has_keys c (r_epoch r)) then KeyUnavailable
  else if negb (decoded_pn c r =? r_pn r) then CryptoErr
  else match r_epoch r with
       | EOneRtt => match pair_decrypt (c_pair c) (r_q r) with (p', Accepted _) => Opened p' | (_, Rejected) => CryptoErr end
       | _ => match q_auth (r_q r) with Some _ => Opened (c_pair c) | None => CryptoErr end
       end.

(* effects of the payload on the key state *)
Inductive pfx := FxDiscardHandshake | FxKeysHandshake | FxKeysOneRtt.
Record fres := mkF { f_elic : bool; f_err : option Z; f_fx : list pfx }.

Definition apply_fx (c : conn) (f : pfx) : conn :=
  match f with
  | FxDiscardHandshake => discard_epoch c EHandshake
  | FxKeysHandshake => set_keys c EHandshake true
  | FxKeysOneRtt => set_pair (set_keys c EOneRtt true) pair_init
  end.

(* protocol constants (RFC 9000 17.2 / 17.3.1 / 20.1) are LITERALS here, so that the tie compares the code with them; the values read
   from the source (gen/C02Recv.v) are proved equal to them in packet_recv_as_modelled.  MAX_ACK_RANGES and ACK_DELAY_MS are tuning
   parameters of the implementation and are taken from the source. *)
Definition M_RESERVED_SHORT : Z := 24.        (* 0x18 *)
Definition M_RESERVED_LONG : Z := 12.         (* 0x0C *)
Definition M_PROTOCOL_VIOLATION : Z := 10.    (* 0x0A *)
Definition M_SPIN_BIT : Z := 32.              (* 0x20 *)
Definition reserved_mask (e : epoch) : Z := if epoch_eqb e EOneRtt then M_RESERVED_SHORT else M_RESERVED_LONG.
Definition reserved_set (r : rpacket) : bool := negb (Z.land (r_first r) (reserved_mask (r_epoch r)) =? 0).

(* "record packet as received", the body of `if not space.discarded:` *)
Definition record_packet (s : space) (pn now ack_delay : Z) (elic : bool) : space :=
  let newl := pn >? sp_largest s in
  let q := add pn (pn + 1) (sp_ackq s) in
  let a1 := match sp_ack_at s with None => if elic then Some (now + ack_delay) else None | Some t => Some t end in
  let a2 := match a1 with Some t => if Zlen q >=? MAX_ACK_RANGES then Some (Z.min t now) else Some t | None => None end in
  mkSp (sp_expected s) (if newl then pn else sp_largest s) (if newl then now else sp_largest_time s) q a2 (sp_discarded s).

Section Frames.
  (* _payload_received *)
  Variable frames : list Z -> fres.
  Variable idle_timeout ack_delay : Z.

  (* an opened packet whose reserved bits are clear *)
  Definition process (c1 : conn) (r : rpacket) (now : Z) : conn :=
    let e := r_epoch r in
    let pn := r_pn r in
    let sp := space_of c1 e in
    let c2 := set_space c1 e (mkSp (if pn >? sp_expected sp then pn + 1 else sp_expected sp) (sp_largest sp) (sp_largest_time sp)
                                (sp_ackq sp) (sp_ack_at sp) (sp_discarded sp)) in
    let c3 := if negb (c_is_client c2) && epoch_eqb e EHandshake then discard_epoch c2 EInitial else c2 in
    let c4 := if c_peer_latched c3 then c3 else latch_peer c3 (r_scid r) in
    let c5 := if c_connected c4 then c4 else set_connected c4 (r_scid r) in
    let c6 := if epoch_eqb e EOneRtt && (pn >? c_spin_highest c5)
              then set_spin c5 (let b := negb (Z.land (r_first r) M_SPIN_BIT =? 0) in if c_is_client c5 then negb b else b) pn
              else c5 in
    let fr := frames (r_payload r) in
    let c7 := fold_left apply_fx (f_fx fr) (deliver c6 (r_payload r)) in
    let c8 := match f_err fr with Some k => set_close c7 k | None => c7 end in
    match c_close c8 with
    | Some _ => c8
    | None =>
        let c9 := set_close_at c8 (now + idle_timeout) in
        let s := space_of c9 e in
        if sp_discarded s then c9 else set_space c9 e (record_packet s pn now ack_delay (f_elic fr))
    end.

  Definition recv_packet (c : conn) (r : rpacket) (now : Z) : conn :=
    match c_close c with
    | Some _ => c
    | None =>
        match decrypt c r with
        | KeyUnavailable =>
            if c_is_client c && (epoch_eqb (r_epoch r) EHandshake || epoch_eqb (r_epoch r) EOneRtt) && negb (c_crypto_retransmitted c)
            then set_retransmitted c else c
        | CryptoErr => c
        | Opened p' =>
            (* CryptoPair.decrypt_packet has already applied a remote key update *)
            let c1 := set_pair c p' in
            if reserved_set r then set_close c1 M_PROTOCOL_VIOLATION else process c1 r now
        end
    end.

  (* what the qlog shows: 0 nothing (gate) / 1 packet_dropped key_unavailable / 2 packet_dropped payload_decrypt_error /
     3 packet_received, closed for the reserved bits / 4 packet_received, processed / 5 packet_received, closed by the payload *)
  Definition recv_verdict (c : conn) (r : rpacket) (now : Z) : Z :=
    match c_close c with
    | Some _ => 0
    | None =>
        match decrypt c r with
        | KeyUnavailable => 1
        | CryptoErr => 2
        | Opened _ => if reserved_set r then 3 else match c_close (recv_packet c r now) with Some _ => 5 | None => 4 end
        end
    end.

  (* a sequence of received packets with their arrival times *)
  Fixpoint recv_all (c : conn) (rs : list (rpacket * Z)) : conn :=
    match rs with [] => c | (r, now) :: t => recv_all (recv_packet c r now) t end.

  (* the same sequence without the packets that are not authentic and for whose epoch the receiver has keys WHEN THEY ARRIVE *)
  Fixpoint drop_unauth (c : conn) (rs : list (rpacket * Z)) : list (rpacket * Z) :=
    match rs with
    | [] => []
    | (r, now) :: t =>
        if has_keys c (r_epoch r) && match q_auth (r_q r) with None => true | Some _ => false end
        then drop_unauth c t
        else (r, now) :: drop_unauth (recv_packet c r now) t
    end.
End Frames.

(* the order in which recv_packet / process execute the events of gen/C02Recv.v RECV_SKELETON (codes: tools/gen/c02_recv.py):
   101-103 [decrypt]'s choice of keys and [space_of]; 104 byte offsets (no model state); 105 [decrypt] and the two drop branches
   of [recv_packet]; 106-107 [reserved_mask] / [reserved_set] -> [set_close]; then [process]: 108 c2, 109 c3, 110 c4, 111 c5,
   112 c6, 113 (no state), 114 c7 / c8, 115 `match c_close c8`, 116 c9, 180 / 181 not modelled, 117 [record_packet] *)
Definition modelled_skeleton : list Z :=
  [101; 102; 103; 104; 105; 106; 107; 108; 109; 110; 111; 112; 113; 114; 115; 116; 180; 181; 117].

(* ---------- executable interface --------------------------------------------------------------
   tokens:  <initial state> then ops
     state:  is_client keysI keysZ keysH keysO  rgen rphase sgen sphase req  <space I> <space H> <space O>
             retransmitted connected close(-1 | code) close_at latched peer_cid(id) remote_iscid(id) spin spin_highest
     space:  expected largest largest_time ack_at(-1000000000 = None) discarded n s1 e1 .. sn en      (ack_queue ranges)
     op 1 (packet):  1 epoch(0 I,1 Z,2 H,3 O) auth(0|1) gen phase first pn pnlen scid(id) elic err(-1|code) fx(bit 1 discard
                     handshake, 2 handshake keys, 4 1-RTT keys) idle now
                     -> verdict, state, number of payloads delivered, reschedule_data calls
     op 3: the same tokens as op 1, for a packet followed by another one in the SAME datagram  -> verdict only
     op 2 (a Handshake packet was sent):  2  -> keysI discardedI keysH discardedH
   connection IDs are small numbers chosen by the harness ([id] as a one-element list); times are milliseconds. *)
Definition NONE_T : Z := -1000000000.
Definition out_opt (o : option Z) : Z := match o with Some t => t | None => NONE_T end.
Definition out_space (s : space) : list Z :=
  [sp_expected s; sp_largest s; sp_largest_time s; out_opt (sp_ack_at s); b2z (sp_discarded s)] ++ dump (sp_ackq s).
Definition out_cid (l : list Z) : Z := match l with [x] => x | _ => -1 end.
Definition out_conn (c : conn) : list Z :=
  [b2z (c_is_client c); b2z (c_keys_initial c); b2z (c_keys_zerortt c); b2z (c_keys_handshake c); b2z (c_keys_onertt c)]
  ++ (if c_keys_onertt c then out_pair (c_pair c) else [0; 0; 0; 0; 0])
  ++ out_space (c_sp_initial c) ++ out_space (c_sp_handshake c) ++ out_space (c_sp_onertt c)
  ++ [b2z (c_crypto_retransmitted c); b2z (c_connected c); match c_close c with Some k => k | None => -1 end; c_close_at c;
      b2z (c_peer_latched c); out_cid (c_peer_cid c); out_cid (c_remote_iscid c); b2z (c_spin c); c_spin_highest c].

Fixpoint read_ranges (n : nat) (toks : list Z) : rs * list Z :=
  match n, toks with
  | S n', a :: b :: t => let '(l, rest) := read_ranges n' t in ((a, b) :: l, rest)
  | _, _ => ([], toks)
  end.
Definition read_space (toks : list Z) : option (space * list Z) :=
  match toks with
  | ex :: la :: lt :: aa :: di :: n :: t =>
      let '(q, rest) := read_ranges (Z.to_nat n) t in
      Some (mkSp ex la lt q (if aa =? NONE_T then None else Some aa) (z2b di), rest)
  | _ => None
  end.
Definition read_conn (toks : list Z) : option (conn * list Z) :=
  match toks with
  | ic :: ki :: kz :: kh :: ko :: rg :: rp :: sg :: sp :: rq :: t =>
      match read_space t with Some (s1, t1) =>
      match read_space t1 with Some (s2, t2) =>
      match read_space t2 with Some (s3, rt :: cn :: cl :: ca :: pl :: pc :: ri :: spn :: sh :: t3) =>
        Some (mkC (z2b ic) (z2b ki) (z2b kz) (z2b kh) (z2b ko) (mkP (mkK rg rp) (mkK sg sp) (z2b rq)) s1 s2 s3 (z2b rt) 0 (z2b cn)
                (if cl <? 0 then None else Some cl) ca [] (z2b pl) [pc] [ri] (z2b spn) sh, t3)
      | _ => None end | None => None end | None => None end
  | _ => None
  end.

Definition epoch_of (z : Z) : epoch := if z =? 0 then EInitial else if z =? 1 then EZeroRtt else if z =? 2 then EHandshake else EOneRtt.
Definition fx_of (z : Z) : list pfx :=
  (if Z.testbit z 1 then [FxKeysHandshake] else []) ++ (if Z.testbit z 2 then [FxKeysOneRtt] else [])
  ++ (if Z.testbit z 0 then [FxDiscardHandshake] else []).

(* one packet op: (state after, verdict) *)
Definition exec_packet (c : conn) (ep au g ph first pn pnl scid el er fx idle now : Z) : conn * Z :=
  let e := epoch_of ep in
  let r := mkR e (mkQ (if au =? 0 then None else Some g) ph (negb (epoch_eqb e EOneRtt))) first pn pnl [scid] [] in
  let fr := fun _ : list Z => mkF (z2b el) (if er <? 0 then None else Some er) (fx_of fx) in
  (recv_packet fr idle ACK_DELAY_MS c r now, recv_verdict fr idle ACK_DELAY_MS c r now).

Fixpoint exec_packetrecv_go (fuel : nat) (c : conn) (toks : list Z) : list Z :=
  match fuel with
  | O => []
  | S f =>
      match toks with
      | 2 :: t =>
          let c' := on_handshake_sent c in
          [b2z (c_keys_initial c'); b2z (sp_discarded (c_sp_initial c')); b2z (c_keys_handshake c'); b2z (sp_discarded (c_sp_handshake c'))]
            ++ exec_packetrecv_go f c' t
      | op :: ep :: au :: g :: ph :: first :: pn :: pnl :: scid :: el :: er :: fx :: idle :: now :: t =>
          let '(c', v) := exec_packet c ep au g ph first pn pnl scid el er fx idle now in
          if op =? 1 then v :: out_conn c' ++ [Zlen (c_delivered c'); c_rescheduled c'] ++ exec_packetrecv_go f c' t
          else if op =? 3 then v :: exec_packetrecv_go f c' t          (* a packet that is not the last one of its datagram *)
          else []
      | _ => []
      end
  end.

(* EXTRACT: exec_packetrecv *)
Definition exec_packetrecv (toks : list Z) : list Z :=
  match read_conn toks with
  | Some (c, t) => exec_packetrecv_go (length t) c t
  | None => [-99]
  end.
