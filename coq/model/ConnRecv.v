(* C05: the receive path of src/aioquic/quic/connection.py below packet protection, as a total
   function with exceptions as outcomes:

     recv_header_decide   the drop / negotiate / first-flight decisions of receive_datagram taken on the
                          parsed header (before decryption)
     receive_packet       reserved-bits check, _payload_received (frame-type varint, the GENERATED
                          dispatch table with allowed epochs, every _handle_*_frame's parsing and
                          checking part with its raise sites, `except BufferReadError` /
                          `except StreamFinishedError`), and receive_datagram's
                          `except QuicConnectionError -> close()`

   [patched = false] is the pinned tree; [patched = true] is the tree with docs/C05-fix-*.patch.
   The connection state a handler's checks depend on is the abstract snapshot [cst]; handlers
   update it, so several frames in one packet interact as in the code.  Effects that cannot
   raise and are not read by any check (loss recovery, event queue, sender halves, stream
   payload bytes) are not represented.  The TLS engine below the CRYPTO handler is model/TlsRecv.v
   ([TlsRecv.crypto_deliver]: Context.handle_message over the raw CRYPTO bytes, every message handler,
   `except tls.Alert`); what cryptography / X.509 / the callbacks answer is the oracle part of the
   state ([ts_orcs]: one list of records per handle_message call, one record per dispatched message). *)
From AQ Require Import lib.Base lib.Tok model.RangeSet model.StreamRecv model.Frames gen.C05Tables.
From AQ Require gen.C05Tls gen.TlsDispatch model.TlsRecv.

(* ---------- exception kinds (Python classes that nothing below the API boundary catches) *)
Definition EXN_AssertionError : Z := 1.
Definition EXN_IndexError : Z := 2.
Definition EXN_KeyError : Z := 3.
Definition EXN_UnicodeDecodeError : Z := 4.
Definition EXN_ValueError : Z := 5.
Definition EXN_TypeError : Z := 6.
Definition EXN_Other : Z := 9.

(* ---------- abstract connection state read by the handlers' checks *)
Record stream := mkStream {
  s_id : Z;
  s_max_local : Z;       (* QuicStream.max_stream_data_local *)
  s_highest : Z;         (* receiver.highest_offset *)
  s_final : Z            (* receiver._final_size, -1 = None *)
}.

(* self.tls and what the libraries below it will answer *)
Record tls_side := mkTls {
  ts_cfg : TlsRecv.tcfg;                 (* constructor arguments / callbacks of the tls.Context *)
  ts_ctx : TlsRecv.tctx;                 (* state, _receive_buffer, key-schedule / certificate attributes *)
  ts_orcs : list (list TlsRecv.orc)      (* oracle answers: head = records for the next handle_message call *)
}.

Record cst := mkCst {
  c_is_client : bool;
  c_md_used : Z;               (* _local_max_data.used *)
  c_md_value : Z;              (* _local_max_data.value *)
  c_ms_bidi : Z;               (* _local_max_streams_bidi.value *)
  c_ms_uni : Z;                (* _local_max_streams_uni.value *)
  c_msd_bidi_remote : Z;       (* _local_max_stream_data_bidi_remote *)
  c_msd_uni : Z;               (* _local_max_stream_data_uni *)
  c_dgram_max : Z;             (* configuration.max_datagram_frame_size, -1 = None *)
  c_host_seq : Z;              (* _host_cid_seq *)
  c_ctx_cid : Z;               (* sequence number of the host CID equal to context.host_cid, -1 = none *)
  c_remote_cid_limit : Z;      (* _remote_active_connection_id_limit *)
  c_peer_seq : Z;              (* _peer_cid.sequence_number *)
  c_peer_rpt : Z;              (* _peer_retire_prior_to *)
  c_retire_pending : Z;        (* len(_retire_connection_ids) *)
  c_cid_limit : Z;             (* _local_active_connection_id_limit *)
  c_tls : tls_side;            (* self.tls *)
  c_host_cids : list Z;        (* sequence numbers of _host_cids, in order *)
  c_peer_avail : list Z;       (* sequence numbers of _peer_cid_available, in order *)
  c_peer_seen : list Z;        (* _peer_cid_sequence_numbers *)
  c_challenges : list Z;       (* keys of _local_challenges (8 bytes, big endian) *)
  c_finished : list Z;         (* _streams_finished *)
  c_streams : list stream;     (* _streams *)
  c_crypto_i : recv;           (* _crypto_streams[INITIAL].receiver *)
  c_crypto_h : recv;           (* _crypto_streams[HANDSHAKE].receiver *)
  c_crypto_1 : recv;           (* _crypto_streams[ONE_RTT].receiver *)
  c_close : option (bool * Z * Z);  (* _close_event: (initiated by us, error_code, frame_type or -1) *)
  c_host_unsent : list Z       (* sequence numbers of _host_cids with `not was_sent and sequence_number > _host_cid_seq_sent` *)
}.

(* record update helpers (one per field that handlers write) *)
Definition set_streams (st : cst) (l : list stream) (md_used : Z) : cst :=
  mkCst (c_is_client st) md_used (c_md_value st) (c_ms_bidi st) (c_ms_uni st) (c_msd_bidi_remote st)
    (c_msd_uni st) (c_dgram_max st) (c_host_seq st) (c_ctx_cid st) (c_remote_cid_limit st) (c_peer_seq st)
    (c_peer_rpt st) (c_retire_pending st) (c_cid_limit st) (c_tls st) (c_host_cids st)
    (c_peer_avail st) (c_peer_seen st) (c_challenges st) (c_finished st) l
    (c_crypto_i st) (c_crypto_h st) (c_crypto_1 st) (c_close st) (c_host_unsent st).
Definition set_host (st : cst) (seq : Z) (cids unsent : list Z) : cst :=
  mkCst (c_is_client st) (c_md_used st) (c_md_value st) (c_ms_bidi st) (c_ms_uni st) (c_msd_bidi_remote st)
    (c_msd_uni st) (c_dgram_max st) seq (c_ctx_cid st) (c_remote_cid_limit st) (c_peer_seq st)
    (c_peer_rpt st) (c_retire_pending st) (c_cid_limit st) (c_tls st) cids
    (c_peer_avail st) (c_peer_seen st) (c_challenges st) (c_finished st) (c_streams st)
    (c_crypto_i st) (c_crypto_h st) (c_crypto_1 st) (c_close st) unsent.
Definition set_peer (st : cst) (seq rpt pending : Z) (avail seen : list Z) : cst :=
  mkCst (c_is_client st) (c_md_used st) (c_md_value st) (c_ms_bidi st) (c_ms_uni st) (c_msd_bidi_remote st)
    (c_msd_uni st) (c_dgram_max st) (c_host_seq st) (c_ctx_cid st) (c_remote_cid_limit st) seq
    rpt pending (c_cid_limit st) (c_tls st) (c_host_cids st)
    avail seen (c_challenges st) (c_finished st) (c_streams st)
    (c_crypto_i st) (c_crypto_h st) (c_crypto_1 st) (c_close st) (c_host_unsent st).
Definition set_challenges (st : cst) (l : list Z) : cst :=
  mkCst (c_is_client st) (c_md_used st) (c_md_value st) (c_ms_bidi st) (c_ms_uni st) (c_msd_bidi_remote st)
    (c_msd_uni st) (c_dgram_max st) (c_host_seq st) (c_ctx_cid st) (c_remote_cid_limit st) (c_peer_seq st)
    (c_peer_rpt st) (c_retire_pending st) (c_cid_limit st) (c_tls st) (c_host_cids st)
    (c_peer_avail st) (c_peer_seen st) l (c_finished st) (c_streams st)
    (c_crypto_i st) (c_crypto_h st) (c_crypto_1 st) (c_close st) (c_host_unsent st).
Definition set_crypto (st : cst) (epoch : Z) (r : recv) (t : tls_side) : cst :=
  mkCst (c_is_client st) (c_md_used st) (c_md_value st) (c_ms_bidi st) (c_ms_uni st) (c_msd_bidi_remote st)
    (c_msd_uni st) (c_dgram_max st) (c_host_seq st) (c_ctx_cid st) (c_remote_cid_limit st) (c_peer_seq st)
    (c_peer_rpt st) (c_retire_pending st) (c_cid_limit st) t (c_host_cids st)
    (c_peer_avail st) (c_peer_seen st) (c_challenges st) (c_finished st) (c_streams st)
    (if epoch =? EPOCH_INITIAL then r else c_crypto_i st)
    (if epoch =? EPOCH_HANDSHAKE then r else c_crypto_h st)
    (if epoch =? EPOCH_ONE_RTT then r else c_crypto_1 st) (c_close st) (c_host_unsent st).
Definition set_close (st : cst) (ev : option (bool * Z * Z)) : cst :=
  mkCst (c_is_client st) (c_md_used st) (c_md_value st) (c_ms_bidi st) (c_ms_uni st) (c_msd_bidi_remote st)
    (c_msd_uni st) (c_dgram_max st) (c_host_seq st) (c_ctx_cid st) (c_remote_cid_limit st) (c_peer_seq st)
    (c_peer_rpt st) (c_retire_pending st) (c_cid_limit st) (c_tls st) (c_host_cids st)
    (c_peer_avail st) (c_peer_seen st) (c_challenges st) (c_finished st) (c_streams st)
    (c_crypto_i st) (c_crypto_h st) (c_crypto_1 st) ev (c_host_unsent st).

Definition CRYPTO_FAR : Z := 2000.

Definition crypto_of (st : cst) (epoch : Z) : recv :=
  if epoch =? EPOCH_INITIAL then c_crypto_i st
  else if epoch =? EPOCH_HANDSHAKE then c_crypto_h st else c_crypto_1 st.

(* ---------- outcome of one frame handler.
   [logged]: the handler had appended its frame to quic_logger_frames before leaving. *)
Inductive hres : Type :=
| HOk (st : cst) (rest : list Z)                   (* returned normally (always after logging) *)
| HBuf                                             (* BufferReadError (always before logging) *)
| HErr (logged : bool) (code ft : Z)               (* QuicConnectionError *)
| HFin (st : cst) (rest : list Z)                  (* StreamFinishedError (after logging) *)
| HExn (logged : bool) (k : Z).                    (* any other exception: escapes the API *)

Definition zmem (x : Z) (l : list Z) : bool := existsb (Z.eqb x) l.

Definition stream_is_client_initiated (sid : Z) : bool := (sid mod 2) =? 0.
Definition stream_is_unidirectional (sid : Z) : bool := ((sid / 2) mod 2) =? 1.
Definition stream_can_receive (st : cst) (sid : Z) : bool :=
  negb (Bool.eqb (stream_is_client_initiated sid) (c_is_client st)) || negb (stream_is_unidirectional sid).
Definition stream_can_send (st : cst) (sid : Z) : bool :=
  Bool.eqb (stream_is_client_initiated sid) (c_is_client st) || negb (stream_is_unidirectional sid).

Fixpoint find_stream (sid : Z) (l : list stream) : option stream :=
  match l with
  | s :: r => if s_id s =? sid then Some s else find_stream sid r
  | [] => None
  end.
Fixpoint put_stream (s : stream) (l : list stream) : list stream :=
  match l with
  | x :: r => if s_id x =? s_id s then s :: r else x :: put_stream s r
  | [] => [s]
  end.

(* _get_or_create_stream *)
Inductive gres : Type :=
| GOk (st : cst) (s : stream)
| GFin                               (* StreamFinishedError *)
| GErr (code : Z).
Definition get_or_create_stream (st : cst) (sid : Z) : gres :=
  if zmem sid (c_finished st) then GFin else
  match find_stream sid (c_streams st) with
  | Some s => GOk st s
  | None =>
      if Bool.eqb (stream_is_client_initiated sid) (c_is_client st) then GErr EC_STREAM_STATE_ERROR else
      let uni := stream_is_unidirectional sid in
      let max_local := if uni then c_msd_uni st else c_msd_bidi_remote st in
      let max_streams := if uni then c_ms_uni st else c_ms_bidi st in
      if sid / 4 + 1 >? max_streams then GErr EC_STREAM_LIMIT_ERROR else
      let s := mkStream sid max_local 0 (-1) in
      GOk (set_streams st (put_stream s (c_streams st)) (c_md_used st)) s
  end.

(* ---------- the handlers.  [b] is the buffer after the frame type. *)
Definition with_stream (st : cst) (ft sid : Z) (rest : list Z)
           (k : cst -> stream -> hres) : hres :=
  match get_or_create_stream st sid with
  | GFin => HFin st rest
  | GErr code => HErr true code ft
  | GOk st s => k st s
  end.

Definition h_padding (st : cst) (b : list Z) : hres := HOk st (skip_zeros b).
Definition h_ping (st : cst) (b : list Z) : hres := HOk st b.

Definition h_ack (st : cst) (ft : Z) (b : list Z) : hres :=
  match pull_ack_frame (ft =? FT_ACK_ECN) b with
  | POk _ rest => HOk st rest
  | PErr => HBuf
  end.

Definition h_reset_stream (st : cst) (ft : Z) (b : list Z) : hres :=
  match pull_uint_var b with PErr => HBuf | POk sid b =>
  match pull_uint_var b with PErr => HBuf | POk _ec b =>
  match pull_uint_var b with PErr => HBuf | POk final rest =>
    if negb (stream_can_receive st sid) then HErr true EC_STREAM_STATE_ERROR ft else
    with_stream st ft sid rest (fun st s =>
      if final >? s_max_local s then HErr true EC_FLOW_CONTROL_ERROR ft else
      let newly := Z.max 0 (final - s_highest s) in
      if c_md_used st + newly >? c_md_value st then HErr true EC_FLOW_CONTROL_ERROR ft else
      if negb (s_final s =? -1) && negb (s_final s =? final) then HErr true EC_FINAL_SIZE_ERROR ft else
      (* 7a80139: the bytes up to the final size are accounted for *)
      let s' := mkStream (s_id s) (s_max_local s) (Z.max (s_highest s) final) final in
      HOk (set_streams st (put_stream s' (c_streams st)) (c_md_used st + newly)) rest)
  end end end.

Definition h_stop_sending (st : cst) (ft : Z) (b : list Z) : hres :=
  match pull_uint_var b with PErr => HBuf | POk sid b =>
  match pull_uint_var b with PErr => HBuf | POk _ec rest =>
    if negb (stream_can_send st sid) then HErr true EC_STREAM_STATE_ERROR ft else
    with_stream st ft sid rest (fun st _ => HOk st rest)
  end end.

(* _handle_crypto_frame.  After tls.handle_message returns, the "handshake complete" block
   (_discard_epoch, _replenish_connection_ids, HandshakeCompleted) is not represented: it runs when the TLS
   state reaches *_POST_HANDSHAKE, which takes a CRYPTO frame in the Initial / Handshake epoch (1-RTT read keys
   exist only afterwards), and no frame type allowed in those epochs reads the connection-ID lists it changes. *)
Definition h_crypto (patched : bool) (st : cst) (epoch ft : Z) (b : list Z) : hres :=
  match pull_uint_var b with PErr => HBuf | POk offset b =>
  match pull_uint_var b with PErr => HBuf | POk len b =>
    if offset + len >? UINT_VAR_MAX then HErr false EC_FRAME_ENCODING_ERROR ft else
    match pull_bytes len b with PErr => HBuf | POk data rest =>
      let r := crypto_of st epoch in
      if offset + len - r_start r >? MAX_PENDING_CRYPTO then HErr true EC_CRYPTO_BUFFER_EXCEEDED ft else
      (* Data more than CRYPTO_FAR bytes beyond the delivery point is only buffered: receiver.handle_frame
         returns None, and since one packet carries < CRYPTO_FAR bytes nothing later in this packet can
         reach it, so the (up to 512 KiB, zero-filled) buffer is not materialised in the model. *)
      if offset - r_start r >? CRYPTO_FAR then HOk st rest else
      match handle_frame r offset data false with
      | (RData out _, r') =>
          let t := c_tls st in
          match TlsRecv.crypto_deliver patched (ts_cfg t) (ts_ctx t) (hd [] (ts_orcs t)) ft out with
          | TlsRecv.CROk c' => HOk (set_crypto st epoch r' (mkTls (ts_cfg t) c' (tl (ts_orcs t)))) rest
          | TlsRecv.CRQuic code ft' => HErr true code ft'
          | TlsRecv.CRBuf => HErr true EC_FRAME_ENCODING_ERROR ft   (* `except BufferReadError` of _payload_received *)
          | TlsRecv.CRExn k => HExn true k
          end
      | (_, r') => HOk (set_crypto st epoch r' (c_tls st)) rest
      end
    end
  end end.

Definition h_new_token (st : cst) (ft : Z) (b : list Z) : hres :=
  match pull_uint_var b with PErr => HBuf | POk len b =>
  match pull_bytes len b with PErr => HBuf | POk _ rest =>
    if negb (c_is_client st) then HErr true EC_PROTOCOL_VIOLATION ft else HOk st rest
  end end.

Definition h_stream (st : cst) (ft : Z) (b : list Z) : hres :=
  match pull_uint_var b with PErr => HBuf | POk sid b =>
  match (if Z.testbit ft 2 then pull_uint_var b else POk 0 b) with PErr => HBuf | POk offset b =>
  match (if Z.testbit ft 1 then pull_uint_var b else POk (Zlen b) b) with PErr => HBuf | POk len b =>
    if offset + len >? UINT_VAR_MAX then HErr false EC_FRAME_ENCODING_ERROR ft else
    match pull_bytes len b with PErr => HBuf | POk _ rest =>
      let fin := Z.testbit ft 0 in
      if negb (stream_can_receive st sid) then HErr true EC_STREAM_STATE_ERROR ft else
      with_stream st ft sid rest (fun st s =>
        let fend := offset + len in
        if fend >? s_max_local s then HErr true EC_FLOW_CONTROL_ERROR ft else
        let newly := Z.max 0 (fend - s_highest s) in
        if c_md_used st + newly >? c_md_value st then HErr true EC_FLOW_CONTROL_ERROR ft else
        if negb (s_final s =? -1) && ((fend >? s_final s) || (fin && negb (fend =? s_final s)))
        then HErr true EC_FINAL_SIZE_ERROR ft else
        let s' := mkStream (s_id s) (s_max_local s) (Z.max (s_highest s) fend)
                           (if fin then fend else s_final s) in
        HOk (set_streams st (put_stream s' (c_streams st)) (c_md_used st + newly)) rest)
    end
  end end end.

Definition h_one_varint (st : cst) (b : list Z) : hres :=          (* MAX_DATA, DATA_BLOCKED *)
  match pull_uint_var b with PErr => HBuf | POk _ rest => HOk st rest end.

Definition h_max_stream_data (st : cst) (ft : Z) (b : list Z) : hres :=
  match pull_uint_var b with PErr => HBuf | POk sid b =>
  match pull_uint_var b with PErr => HBuf | POk _ rest =>
    if negb (stream_can_send st sid) then HErr true EC_STREAM_STATE_ERROR ft else
    with_stream st ft sid rest (fun st _ => HOk st rest)
  end end.

Definition h_stream_count (st : cst) (ft : Z) (b : list Z) : hres :=   (* MAX_STREAMS_*, STREAMS_BLOCKED_* *)
  match pull_uint_var b with PErr => HBuf | POk v rest =>
    if v >? STREAM_COUNT_MAX then HErr false EC_FRAME_ENCODING_ERROR ft else HOk st rest
  end.

Definition h_stream_data_blocked (st : cst) (ft : Z) (b : list Z) : hres :=
  match pull_uint_var b with PErr => HBuf | POk sid b =>
  match pull_uint_var b with PErr => HBuf | POk _ rest =>
    if negb (stream_can_receive st sid) then HErr true EC_STREAM_STATE_ERROR ft else
    with_stream st ft sid rest (fun st _ => HOk st rest)
  end end.

Definition h_new_connection_id (patched : bool) (st : cst) (ft : Z) (b : list Z) : hres :=
  match pull_uint_var b with PErr => HBuf | POk seq b =>
  match pull_uint_var b with PErr => HBuf | POk rpt b =>
  match pull_uint8 b with PErr => HBuf | POk len b =>
  match pull_bytes len b with PErr => HBuf | POk _cid b =>
  match pull_bytes STATELESS_RESET_TOKEN_SIZE b with PErr => HBuf | POk _tok rest =>
    if (len =? 0) || (len >? CONNECTION_ID_MAX_SIZE) then HErr false EC_FRAME_ENCODING_ERROR ft else
    if rpt >? seq then HErr true EC_PROTOCOL_VIOLATION ft else
    let prt := Z.max rpt (c_peer_rpt st) in
    let retired := filter (fun s => s <? prt) (c_peer_avail st) in
    let change := c_peer_seq st <? prt in
    let avail := filter (fun s => s >=? prt) (c_peer_avail st) in
    let fresh := (seq >=? prt) && negb (zmem seq (c_peer_seen st)) in
    let avail := if fresh then avail ++ [seq] else avail in
    (* 3cd563e: a connection ID arriving below an already processed Retire Prior To is retired at once *)
    let late := negb fresh && negb (zmem seq (c_peer_seen st)) in
    let seen := if fresh || late then c_peer_seen st ++ [seq] else c_peer_seen st in
    let pending := c_retire_pending st + Zlen retired + (if change then 1 else 0) + (if late then 1 else 0) in
    let finish (peer : Z) (avail : list Z) : hres :=
      if 1 + Zlen avail >? c_cid_limit st then HErr true EC_CONNECTION_ID_LIMIT_ERROR ft else
      if pending >? Z.min (c_cid_limit st * 4) MAX_PENDING_RETIRES
      then HErr true EC_CONNECTION_ID_LIMIT_ERROR ft else
      HOk (set_peer st peer prt pending avail seen) rest in
    if change then
      match avail with
      | next :: avail' => finish next avail'
      | [] =>      (* _consume_peer_cid: self._peer_cid_available.pop(0) *)
          if patched then HErr true EC_PROTOCOL_VIOLATION ft else HExn true EXN_IndexError
      end
    else finish (c_peer_seq st) avail
  end end end end end.

Fixpoint replenish (n : nat) (seq : Z) (cids : list Z) : Z * list Z :=
  match n with
  | O => (seq, cids)
  | S n => replenish n (seq + 1) (cids ++ [seq])
  end.

Definition h_retire_connection_id (st : cst) (ft : Z) (b : list Z) : hres :=
  match pull_uint_var b with PErr => HBuf | POk seq rest =>
    (* dbe9b3d: ... or a connection ID that was never sent *)
    if (seq >=? c_host_seq st) || zmem seq (c_host_unsent st) then HErr true EC_PROTOCOL_VIOLATION ft else
    if zmem seq (c_host_cids st) && (seq =? c_ctx_cid st) then HErr true EC_PROTOCOL_VIOLATION ft else
    let cids := filter (fun s => negb (s =? seq)) (c_host_cids st) in
    let want := Z.min 8 (c_remote_cid_limit st) - Zlen cids in
    let '(hseq, cids) := replenish (Z.to_nat want) (c_host_seq st) cids in
    HOk (set_host st hseq cids (snd (replenish (Z.to_nat want) (c_host_seq st) (c_host_unsent st)))) rest
  end.

Definition h_path_challenge (st : cst) (b : list Z) : hres :=
  match pull_bytes 8 b with PErr => HBuf | POk _ rest => HOk st rest end.

Fixpoint remove_first (x : Z) (l : list Z) : list Z :=
  match l with
  | y :: r => if x =? y then r else y :: remove_first x r
  | [] => []
  end.

Definition h_path_response (st : cst) (ft : Z) (b : list Z) : hres :=
  match pull_bytes 8 b with PErr => HBuf | POk data rest =>
    let v := be_value 0 data in
    if zmem v (c_challenges st) then HOk st rest        (* e2ac9c0: the challenge is kept *)
    else HErr true EC_PROTOCOL_VIOLATION ft          (* except KeyError -> QuicConnectionError *)
  end.

Definition h_connection_close (st : cst) (ft : Z) (b : list Z) : hres :=
  match pull_uint_var b with PErr => HBuf | POk code b =>
  match (if ft =? FT_TRANSPORT_CLOSE then pull_uint_var b else POk (-1) b) with PErr => HBuf | POk cft b =>
  match pull_uint_var b with PErr => HBuf | POk rlen b =>
  match pull_bytes rlen b with PErr => HBuf | POk _reason rest =>
    (* .decode("utf8") is inside try/except UnicodeDecodeError: never escapes *)
    match c_close st with
    | None => HOk (set_close st (Some (false, code, cft))) rest
    | Some _ => HOk st rest
    end
  end end end end.

Definition h_handshake_done (st : cst) (ft : Z) (b : list Z) : hres :=
  if negb (c_is_client st) then HErr true EC_PROTOCOL_VIOLATION ft else HOk st b.

Definition h_datagram (st : cst) (ft : Z) (b : list Z) : hres :=
  match (if ft =? FT_DATAGRAM_WITH_LENGTH then pull_uint_var b else POk (Zlen b) b) with
  | PErr => HBuf | POk len b' =>
  match pull_bytes len b' with PErr => HBuf | POk _ rest =>
    let consumed := Zlen b - Zlen rest in
    if (c_dgram_max st =? -1) || (consumed >=? c_dgram_max st) then HErr true EC_PROTOCOL_VIOLATION ft
    else HOk st rest
  end end.

(* exhaustive over the GENERATED handler type: a handler added to the source table without a
   model breaks the build *)
Definition run_handler (patched : bool) (h : handler) (st : cst) (epoch ft : Z) (b : list Z) : hres :=
  match h with
  | H_handle_padding_frame => h_padding st b
  | H_handle_ping_frame => h_ping st b
  | H_handle_ack_frame => h_ack st ft b
  | H_handle_reset_stream_frame => h_reset_stream st ft b
  | H_handle_stop_sending_frame => h_stop_sending st ft b
  | H_handle_crypto_frame => h_crypto patched st epoch ft b
  | H_handle_new_token_frame => h_new_token st ft b
  | H_handle_stream_frame => h_stream st ft b
  | H_handle_max_data_frame => h_one_varint st b
  | H_handle_max_stream_data_frame => h_max_stream_data st ft b
  | H_handle_max_streams_bidi_frame => h_stream_count st ft b
  | H_handle_max_streams_uni_frame => h_stream_count st ft b
  | H_handle_data_blocked_frame => h_one_varint st b
  | H_handle_stream_data_blocked_frame => h_stream_data_blocked st ft b
  | H_handle_streams_blocked_frame => h_stream_count st ft b
  | H_handle_new_connection_id_frame => h_new_connection_id patched st ft b
  | H_handle_retire_connection_id_frame => h_retire_connection_id st ft b
  | H_handle_path_challenge_frame => h_path_challenge st b
  | H_handle_path_response_frame => h_path_response st ft b
  | H_handle_connection_close_frame => h_connection_close st ft b
  | H_handle_handshake_done_frame => h_handshake_done st ft b
  | H_handle_datagram_frame => h_datagram st ft b
  end.

Fixpoint lookup_frame (ft : Z) (tbl : list (Z * (handler * list Z))) : option (handler * list Z) :=
  match tbl with
  | (k, v) :: r => if k =? ft then Some v else lookup_frame ft r
  | [] => None
  end.

(* ---------- _payload_received *)
Inductive presult : Type :=
| PDone (st : cst) (nlog : Z) (frame_found crypto_found : bool)   (* loop ended normally *)
| PQErr (prior : option (bool * Z * Z)) (nlog : Z) (code ft : Z)  (* QuicConnectionError, ft = -1: None;
                                                                     prior = _close_event when it was raised *)
| PExn (nlog : Z) (k : Z).

(* one iteration of the while loop: [b] is non-empty *)
Inductive step : Type :=
| SNext (st : cst) (rest : list Z) (is_crypto : bool)     (* frame handled (or StreamFinishedError swallowed) *)
| SQErr (logged : bool) (code ft : Z)
| SExn (logged : bool) (k : Z).

Definition frame_step (patched : bool) (st : cst) (epoch : Z) (b : list Z) : step :=
  match pull_uint_var b with
  | PErr => SQErr false EC_FRAME_ENCODING_ERROR (-1)                  (* Malformed frame type *)
  | POk ft b =>
      match lookup_frame ft frame_table with
      | None => SQErr false EC_FRAME_ENCODING_ERROR ft                (* Unknown frame type *)
      | Some (h, epochs) =>
          if negb (zmem epoch epochs) then SQErr false EC_PROTOCOL_VIOLATION ft   (* Unexpected frame type *)
          else match run_handler patched h st epoch ft b with
               | HOk st rest => SNext st rest (ft =? FT_CRYPTO)
               | HFin st rest => SNext st rest (ft =? FT_CRYPTO)
               | HBuf => SQErr false EC_FRAME_ENCODING_ERROR ft       (* Failed to parse frame *)
               | HErr lg code ft' => SQErr lg code ft'
               | HExn lg k => SExn lg k
               end
      end
  end.

Fixpoint payload_loop (fuel : nat) (patched : bool) (st : cst) (epoch : Z) (b : list Z)
         (nlog : Z) (found crypto : bool) : presult :=
  match b with
  | [] => PDone st nlog found crypto
  | _ =>
    match fuel with
    | O => PDone st nlog found crypto          (* unreachable with fuel > length b: see payload_fuel *)
    | S fuel =>
        match frame_step patched st epoch b with
        | SNext st rest c => payload_loop fuel patched st epoch rest (nlog + 1) true (crypto || c)
        | SQErr lg code ft => PQErr (c_close st) (nlog + b2z lg) code ft
        | SExn lg k => PExn (nlog + b2z lg) k
        end
    end
  end.

Definition payload_received (patched : bool) (st : cst) (epoch : Z) (crypto_required : bool)
           (b : list Z) : presult :=
  match payload_loop (S (length b)) patched st epoch b 0 false false with
  | PDone st nlog found crypto =>
      if negb found then PQErr (c_close st) nlog EC_PROTOCOL_VIOLATION FT_PADDING   (* Packet contains no frames *)
      else if crypto_required && negb crypto then PQErr (c_close st) nlog EC_PROTOCOL_VIOLATION FT_PADDING
      else PDone st nlog found crypto
  | r => r
  end.

(* ---------- receive_datagram after successful decryption *)
Inductive outcome : Type :=
| OOk (nlog : Z)                         (* processed, no close decided *)
| OClosed (nlog : Z) (code ft : Z)       (* close() by this endpoint: _close_pending *)
| OPeerClosed (nlog : Z) (code ft : Z)   (* CONNECTION_CLOSE received: draining with the peer's code *)
| OExn (nlog : Z) (k : Z).               (* exception escapes receive_datagram *)

Definition receive_packet (patched : bool) (st : cst) (epoch : Z) (crypto_required reserved_bits : bool)
           (b : list Z) : outcome :=
  if reserved_bits then OClosed 0 EC_PROTOCOL_VIOLATION FT_PADDING else
  match payload_received patched st epoch crypto_required b with
  | PDone st nlog _ _ =>
      match c_close st with
      | Some (false, code, ft) => OPeerClosed nlog code ft
      | Some (true, code, ft) => OClosed nlog code ft
      | None => OOk nlog
      end
  | PQErr prior nlog code ft =>
      (* except QuicConnectionError: self.close(...) -- a no-op if a close event already exists
         (a CONNECTION_CLOSE frame earlier in the same packet) *)
      match prior with
      | Some (false, pc, pf) => OPeerClosed nlog pc pf
      | Some (true, pc, pf) => OClosed nlog pc pf
      | None => OClosed nlog code ft
      end
  | PExn nlog k => OExn nlog k
  end.

(* ---------- receive_datagram's decisions on the parsed header, before decryption.
   ptype: 0 INITIAL | 1 ZERO_RTT | 2 HANDSHAKE | 3 RETRY | 4 VERSION_NEGOTIATION | 5 ONE_RTT *)
Inductive hdecision : Type :=
| DDrop (why : Z)        (* 1 initial datagram too small | 2 unknown connection id | 4 unsupported version
                            | 6 (patched only) non-INITIAL first packet *)
| DNegotiate             (* Version Negotiation / Retry handling (returns) *)
| DProcess (crypto_required : bool)
| DExn (k : Z).

Definition recv_header_decide (patched is_client firstflight : bool) (ptype dgram_len : Z)
           (dcid_known version_supported : bool) : hdecision :=
  if negb is_client && (ptype =? 0) && (dgram_len <? 1200) then DDrop 1 else
  if (is_client || (ptype =? 2)) && negb dcid_known then DDrop 2 else
  if ptype =? 4 then DNegotiate else
  if negb version_supported then DDrop 4 else
  if ptype =? 3 then DNegotiate else
  if negb is_client && firstflight then
    if ptype =? 0 then DProcess true
    else if patched then DDrop 6
    else DExn EXN_AssertionError          (* assert header.packet_type == QuicPacketType.INITIAL *)
  else DProcess false.

(* ---------- executable interface --------------------------------------------------------
   tokens: mode ...
     mode 0 (packet):  patched epoch crypto_required reserved_bits, 15 scalars,
                       6 length-prefixed lists (the last: host CIDs never sent), streams, 3 crypto receivers,
                       the tls.Context (cfg + ctx tokens of TlsRecv.exec_tlsrecv), n handle_message calls and for each its
                       oracle records (count, records), payload (length-prefixed)
       -> kind (0 ok | 1 closed by us | 2 closed by peer | 3 exception) code ft nlog
     mode 1 (header):  patched is_client firstflight ptype dgram_len dcid_known version_supported
       -> kind (0 process | 1 drop | 2 negotiate | 3 exception) value *)
Fixpoint rd_streams (n : nat) (t : list Z) : list stream * list Z :=
  match n with
  | O => ([], t)
  | S n =>
      match t with
      | a :: b :: c :: d :: t =>
          let '(l, t) := rd_streams n t in (mkStream a b c d :: l, t)
      | _ => ([], [])
      end
  end.
Fixpoint rd_ranges (n : nat) (t : list Z) : list (Z * Z) * list Z :=
  match n with
  | O => ([], t)
  | S n =>
      match t with
      | a :: b :: t => let '(l, t) := rd_ranges n t in ((a, b) :: l, t)
      | _ => ([], [])
      end
  end.
Definition rd_recv (t : list Z) : recv * list Z :=
  match t with
  | hi :: start :: t =>
      let '(buf, t) := tk_list t in
      match t with
      | n :: t => let '(rg, t) := rd_ranges (Z.to_nat n) t in
                  (mkRecv hi false buf start None rg, t)
      | [] => (recv_init, [])
      end
  | _ => (recv_init, [])
  end.

Definition out_outcome (o : outcome) : list Z :=
  match o with
  | OOk n => [0; 0; 0; n]
  | OClosed n c f => [1; c; f; n]
  | OPeerClosed n c f => [2; c; f; n]
  | OExn n k => [3; k; 0; n]
  end.

Fixpoint rd_orc_lists (n : nat) (t : list Z) : list (list TlsRecv.orc) * list Z :=
  match n with
  | O => ([], t)
  | S n =>
      match t with
      | m :: t => let '(x, t) := TlsRecv.rd_orcs (Z.to_nat m) t in
                  let '(r, t) := rd_orc_lists n t in (x :: r, t)
      | [] => ([], [])
      end
  end.

(* the abstract state from is_client to the tls.Context (oracle lists empty) *)
Definition rd_cst (t : list Z) : option (cst * list Z) :=
  match t with
  | is_client :: md_used :: md_value :: ms_bidi :: ms_uni :: msd_br :: msd_uni :: dgram_max ::
    host_seq :: ctx_cid :: rlimit :: peer_seq :: peer_rpt :: pending :: cid_limit :: t =>
      let '(host_cids, t) := tk_list t in
      let '(avail, t) := tk_list t in
      let '(seen, t) := tk_list t in
      let '(chal, t) := tk_list t in
      let '(fin, t) := tk_list t in
      let '(unsent, t) := tk_list t in
      match t with
      | ns :: t =>
          let '(streams, t) := rd_streams (Z.to_nat ns) t in
          let '(ci, t) := rd_recv t in
          let '(ch, t) := rd_recv t in
          let '(c1, t) := rd_recv t in
          match TlsRecv.rd_cfg_ctx t with
          | Some (g, c, t) =>
              Some (mkCst (z2b is_client) md_used md_value ms_bidi ms_uni msd_br msd_uni dgram_max
                          host_seq ctx_cid rlimit peer_seq peer_rpt pending cid_limit
                          (mkTls g c []) host_cids avail seen chal fin streams
                          ci ch c1 None unsent, t)
          | None => None
          end
      | [] => None
      end
  | _ => None
  end.

Definition exec_packet (t : list Z) : list Z :=
  match t with
  | patched :: epoch :: creq :: rbits :: t =>
      match rd_cst t with
      | Some (st, ncalls :: t) =>
          let '(orcs, t) := rd_orc_lists (Z.to_nat ncalls) t in
          let '(payload, _) := tk_list t in
          let st := set_crypto st (-1) recv_init (mkTls (ts_cfg (c_tls st)) (ts_ctx (c_tls st)) orcs) in
          out_outcome (receive_packet (z2b patched) st epoch (z2b creq) (z2b rbits) payload)
      | _ => []
      end
  | _ => []
  end.

Definition exec_header (t : list Z) : list Z :=
  match t with
  | patched :: is_client :: ff :: ptype :: len :: known :: vs :: _ =>
      match recv_header_decide (z2b patched) (z2b is_client) (z2b ff) ptype len (z2b known) (z2b vs) with
      | DProcess _ => [0; 0]
      | DDrop w => [1; w]
      | DNegotiate => [2; 0]
      | DExn k => [3; k]
      end
  | _ => []
  end.

(* EXTRACT: exec_c05 *)
Definition exec_c05 (t : list Z) : list Z :=
  match t with
  | 0 :: t => exec_packet t
  | 1 :: t => exec_header t
  | _ => []
  end.
