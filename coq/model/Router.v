(* Model of QuicServer (src/aioquic/asyncio/server.py): the routing table _protocols as an
   association list in dict order (connection id -> protocol number), datagram_received up to the
   point where the datagram is handed to a protocol, and the three callbacks the protocols invoke.
   Connection ids, addresses and tokens are integers (the harness canonicalises bytes by first
   occurrence).  The retry-token handler is an oracle: each datagram carries the result of
   validate_token(addr, token) as data.  No proofs in this file. *)
From AQ Require Import lib.Base lib.Tok.

Definition table := list (Z * Z).     (* (cid, protocol number), dict insertion order *)

Fixpoint t_get (c : Z) (t : table) : option Z :=
  match t with
  | [] => None
  | (k, p) :: r => if k =? c then Some p else t_get c r
  end.
(* d[c] = p : existing key keeps its position *)
Fixpoint t_set (c p : Z) (t : table) : table :=
  match t with
  | [] => [(c, p)]
  | (k, q) :: r => if k =? c then (k, p) :: r else (k, q) :: t_set c p r
  end.
Fixpoint t_del (c : Z) (t : table) : table :=
  match t with
  | [] => []
  | (k, q) :: r => if k =? c then r else (k, q) :: t_del c r
  end.
(* for cid, proto in list(items): if proto == protocol: del *)
Definition t_purge (p : Z) (t : table) : table := filter (fun kv => negb (snd kv =? p)) t.

Record rst := mkR {
  tbl : table;          (* _protocols *)
  nprot : Z             (* number of protocols created so far; the next one gets this number *)
}.
Definition rst_init : rst := mkR [] 0.

(* exceptions escaping a callback *)
Definition RX_KEYERROR : Z := 1.     (* self._protocols[cid] with cid absent *)
Definition RX_ASSERT : Z := 2.       (* assert self._protocols[cid] == protocol *)

(* what datagram_received did *)
Definition A_IGNORED : Z := 0.       (* header does not parse *)
Definition A_VERSION_NEG : Z := 1.   (* version negotiation sent *)
Definition A_RETRY_SENT : Z := 2.    (* retry packet with a fresh token sent, no state created *)
Definition A_TOKEN_REJECTED : Z := 3. (* validate_token raised ValueError: dropped *)
Definition A_CREATED : Z := 4.       (* new protocol created and given the datagram *)
Definition A_ROUTED : Z := 5.        (* handed to an existing protocol *)
Definition A_DROPPED : Z := 6.       (* unknown cid and not an eligible Initial *)

Record dgram := mkD {
  d_parse_ok : bool;        (* pull_quic_header succeeded *)
  d_version_ok : bool;      (* header.version is None or supported *)
  d_dcid : Z;               (* header.destination_cid *)
  d_big : bool;             (* len(data) >= 1200 *)
  d_initial : bool;         (* packet_type == INITIAL *)
  d_retry : bool;           (* server configured with retry=True *)
  d_addr : Z;               (* source address *)
  d_token : Z;              (* header.token; 0 = empty *)
  d_tokres : option (Z * Z);(* validate_token(addr, token): Some (odcid, rscid) | None = ValueError *)
  d_hcid : Z                (* host_cid of the connection that would be created (os.urandom) *)
}.

Inductive rop :=
| RDgram (d : dgram)
| RIssued (p c : Z)        (* _connection_id_issued(cid, protocol) *)
| RRetired (p c : Z)       (* _connection_id_retired(cid, protocol) *)
| RTerminated (p : Z)      (* _connection_terminated(protocol) *)
| RClose.                  (* close(): _protocols.clear() *)

(* result: exception kind, outputs (action, protocol number), state *)
Definition rstep (s : rst) (o : rop) : option Z * list Z * rst :=
  match o with
  | RDgram d =>
      if negb (d_parse_ok d) then (None, [A_IGNORED], s) else
      if negb (d_version_ok d) then (None, [A_VERSION_NEG], s) else
      match t_get (d_dcid d) (tbl s) with
      | Some p => (None, [A_ROUTED; p], s)
      | None =>
          if d_big d && d_initial d then
            let create :=
              let p := nprot s in
              (None, [A_CREATED; p], mkR (t_set (d_hcid d) p (t_set (d_dcid d) p (tbl s))) (p + 1)) in
            if d_retry d then
              if d_token d =? 0 then (None, [A_RETRY_SENT], s)
              else match d_tokres d with
                   | None => (None, [A_TOKEN_REJECTED], s)
                   | Some _ => create
                   end
            else create
          else (None, [A_DROPPED], s)
      end
  | RIssued p c => (None, [], mkR (t_set c p (tbl s)) (nprot s))
  | RRetired p c =>
      match t_get c (tbl s) with
      | None => (Some RX_KEYERROR, [], s)
      | Some q => if q =? p then (None, [], mkR (t_del c (tbl s)) (nprot s)) else (Some RX_ASSERT, [], s)
      end
  | RTerminated p => (None, [], mkR (t_purge p (tbl s)) (nprot s))
  | RClose => (None, [], mkR [] (nprot s))
  end.

Fixpoint rrun (s : rst) (ops : list rop) : rst :=
  match ops with
  | [] => s
  | o :: t => let '(_, _, s') := rstep s o in rrun s' t
  end.

(* ---------- executable interface ------------------------------------------------------------------
   ops: 0 parse_ok version_ok dcid big initial retry addr token (0 | 1 odcid rscid) hcid
        | 1 p c | 2 p c | 3 p | 4
   output per op: exception kind (0 none), n outputs.., table as n (cid pid)* *)
Fixpoint out_table (t : table) : list Z :=
  match t with [] => [] | (c, p) :: r => c :: p :: out_table r end.

Definition tk_rop (t : list Z) : option (rop * list Z) :=
  match t with
  | 0 :: po :: vo :: dcid :: big :: ini :: rt :: addr :: tok :: t =>
      let '(tr, t) :=
        match t with
        | 0 :: t => (None, t)
        | _ :: o :: r :: t => (Some (o, r), t)
        | _ => (None, [])
        end in
      match t with
      | hcid :: t => Some (RDgram (mkD (z2b po) (z2b vo) dcid (z2b big) (z2b ini) (z2b rt) addr tok tr hcid), t)
      | [] => None
      end
  | 1 :: p :: c :: t => Some (RIssued p c, t)
  | 2 :: p :: c :: t => Some (RRetired p c, t)
  | 3 :: p :: t => Some (RTerminated p, t)
  | 4 :: t => Some (RClose, t)
  | _ => None
  end.

(* the three "nothing happens" actions are indistinguishable from outside *)
Definition obs_out (l : list Z) : list Z :=
  match l with
  | a :: r => (if (a =? A_TOKEN_REJECTED) || (a =? A_DROPPED) then A_IGNORED else a) :: r
  | [] => []
  end.

Fixpoint exec_rt (fuel : nat) (s : rst) (t : list Z) : list Z :=
  match fuel with O => [] | S fuel =>
  match tk_rop t with
  | None => []
  | Some (o, t) =>
      let '(x, out, s') := rstep s o in
      (match x with None => 0 | Some k => k end) :: out_list (obs_out out) ++ Zlen (tbl s') :: out_table (tbl s') ++ exec_rt fuel s' t
  end end.

(* EXTRACT: exec_router *)
Definition exec_router (ops : list Z) : list Z := exec_rt (length ops) rst_init ops.
