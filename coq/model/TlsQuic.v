(* C11, connection level: how QuicConnection (src/aioquic/quic/connection.py) feeds CRYPTO frames to the TLS
   engine and installs the keys TLS hands back.

     receive_datagram     one packet whose protection the sender got right (a key-holding peer): is the
                          receive key of the packet's epoch installed (else: dropped, key_unavailable),
                          server: first Handshake packet discards the Initial keys, then _payload_received
     _payload_received    the epoch check of the frame table for CRYPTO (gen: crypto_frame_epochs),
                          "packet contains no frames"
     _handle_crypto_frame offset + length bound, MAX_PENDING_CRYPTO, the CRYPTO stream OF THE PACKET'S EPOCH
                          (model/StreamRecv.v, the C10 receiver, fin never set), every newly contiguous chunk
                          handed to tls.handle_message, Alert -> QuicConnectionError(CRYPTO_ERROR + alert),
                          handshake completion (HandshakeCompleted queued exactly when [q_complete] turns true;
                          server: Handshake keys discarded)
     tls.handle_message   ONE _receive_buffer for all epochs (as the code has it): append, the
                          `while len >= 4` loop, MAX_HANDSHAKE_MESSAGE_SIZE, each complete message dispatched by
                          TlsSM.step (model/TlsSM.v, the C11 state machine); its body is not interpreted: the
                          answers of parsing / MAC / signature / certificate checks come from the next oracle
                          record [q_orcs] (type byte taken from the buffer)
     _update_traffic_key  every (direction, epoch) callback of the handler sets that half of _cryptos[epoch]
     datagrams_to_send    only what decides key life time: a client that sends a Handshake packet (ACK of a
                          received Handshake packet, or its Finished) discards the Initial keys

   [patched = true] is the repair proposed in docs/C11-fix-1.patch: handle_message is told the epoch of the
   CRYPTO stream, refuses a message whose epoch is not the one the TLS state expects (unexpected_message) and
   refuses to continue a partial message with bytes of another epoch.  [patched = false] is the tree as it is. *)
From AQ Require Import lib.Base lib.Tok model.RangeSet model.StreamRecv gen.TlsDispatch model.TlsSM gen.TlsQuicGen.

Record keys4 := mkK { k_i : bool; k_z : bool; k_h : bool; k_a : bool }.   (* INITIAL, ZERO_RTT, HANDSHAKE, ONE_RTT *)
Definition kget (k : keys4) (e : Z) : bool :=
  if e =? EP_INITIAL then k_i k else if e =? EP_ZERO_RTT then k_z k else
  if e =? EP_HANDSHAKE then k_h k else if e =? EP_ONE_RTT then k_a k else false.
Definition kset (k : keys4) (e : Z) (v : bool) : keys4 :=
  if e =? EP_INITIAL then mkK v (k_z k) (k_h k) (k_a k) else
  if e =? EP_ZERO_RTT then mkK (k_i k) v (k_h k) (k_a k) else
  if e =? EP_HANDSHAKE then mkK (k_i k) (k_z k) v (k_a k) else
  if e =? EP_ONE_RTT then mkK (k_i k) (k_z k) (k_h k) v else k.

Record conn := mkConn {
  q_client : bool;
  q_cfg : cfg;
  q_tls : st;                 (* the tls.Context, as far as TlsSM keeps it *)
  q_rbuf : list Z;            (* tls.Context._receive_buffer: one buffer, whatever epoch the bytes came from *)
  q_rbuf_epoch : Z;           (* patched model only: epoch of the bytes waiting in _receive_buffer *)
  q_si : recv;                (* _crypto_streams[INITIAL].receiver *)
  q_sh : recv;                (* _crypto_streams[HANDSHAKE].receiver *)
  q_sa : recv;                (* _crypto_streams[ONE_RTT].receiver *)
  q_rk : keys4;               (* _cryptos[e].recv.is_valid() *)
  q_sk : keys4;               (* _cryptos[e].send.is_valid() *)
  q_complete : bool;          (* _handshake_complete; the HandshakeCompleted event is queued when it turns true *)
  q_closed : option Z;        (* a close is pending / under way with this error code *)
  q_hs_ack : bool;            (* the Handshake space owes an ACK *)
  q_hs_out : bool;            (* there is CRYPTO data to send in the Handshake epoch (the client's Finished) *)
  q_orcs : list msg;          (* oracle records for the messages TLS will dispatch, in order *)
  q_log : list (Z * event)    (* ghost: every dispatched message with the epoch of the CRYPTO stream that completed it *)
}.

Definition stream_of (c : conn) (e : Z) : recv :=
  if e =? EP_INITIAL then q_si c else if e =? EP_HANDSHAKE then q_sh c else q_sa c.

Definition set_stream (c : conn) (e : Z) (r : recv) : conn :=
  mkConn (q_client c) (q_cfg c) (q_tls c) (q_rbuf c) (q_rbuf_epoch c)
         (if e =? EP_INITIAL then r else q_si c)
         (if e =? EP_INITIAL then q_sh c else if e =? EP_HANDSHAKE then r else q_sh c)
         (if e =? EP_INITIAL then q_sa c else if e =? EP_HANDSHAKE then q_sa c else r)
         (q_rk c) (q_sk c) (q_complete c) (q_closed c) (q_hs_ack c) (q_hs_out c) (q_orcs c) (q_log c).

Definition set_keys (c : conn) (rk sk : keys4) : conn :=
  mkConn (q_client c) (q_cfg c) (q_tls c) (q_rbuf c) (q_rbuf_epoch c) (q_si c) (q_sh c) (q_sa c)
         rk sk (q_complete c) (q_closed c) (q_hs_ack c) (q_hs_out c) (q_orcs c) (q_log c).

(* _update_traffic_key for one callback *)
Definition install1 (c : conn) (k : key) : conn :=
  let '(d, e) := k in
  if d =? DIR_ENCRYPT then set_keys c (q_rk c) (kset (q_sk c) e true)
  else set_keys c (kset (q_rk c) e true) (q_sk c).
Definition install (c : conn) (ks : list key) : conn := fold_left install1 ks c.

(* _discard_epoch: both halves torn down *)
Definition discard (c : conn) (e : Z) : conn := set_keys c (kset (q_rk c) e false) (kset (q_sk c) e false).

Definition set_closed (c : conn) (code : Z) : conn :=
  mkConn (q_client c) (q_cfg c) (q_tls c) (q_rbuf c) (q_rbuf_epoch c) (q_si c) (q_sh c) (q_sa c)
         (q_rk c) (q_sk c) (q_complete c) (Some code) (q_hs_ack c) (q_hs_out c) (q_orcs c) (q_log c).

Definition set_flags (c : conn) (complete hs_ack hs_out : bool) : conn :=
  mkConn (q_client c) (q_cfg c) (q_tls c) (q_rbuf c) (q_rbuf_epoch c) (q_si c) (q_sh c) (q_sa c)
         (q_rk c) (q_sk c) complete (q_closed c) hs_ack hs_out (q_orcs c) (q_log c).

Definition set_rbuf (c : conn) (b : list Z) (e : Z) : conn :=
  mkConn (q_client c) (q_cfg c) (q_tls c) b e (q_si c) (q_sh c) (q_sa c)
         (q_rk c) (q_sk c) (q_complete c) (q_closed c) (q_hs_ack c) (q_hs_out c) (q_orcs c) (q_log c).

(* ---- tls.Context.handle_message ------------------------------------------------------------------ *)
Inductive tres := TOk | TAlert (d : Z) | TExn (k : Z).

(* no oracle record left: the message does not parse *)
Definition orc_none : msg := mkMsg 0 1 0 false false false false false false false 0 false.
Definition with_type (t : Z) (m : msg) : msg :=
  mkMsg t (m_parse m) (m_fire m) (m_psk m) (m_psk_ok m) (m_early m) (m_share m) (m_nonempty m) (m_load m)
        (m_sig m) (m_cert m) (m_mac m).

Definition is_post (x : State) : bool :=
  match x with CLIENT_POST_HANDSHAKE | SERVER_POST_HANDSHAKE => true | _ => false end.

(* RFC 9001 4.1.3 / RFC 8446 5.1: the encryption level at which the next handshake message must arrive *)
Definition expected_epoch (x : State) : Z :=
  match x with
  | CLIENT_HANDSHAKE_START | CLIENT_EXPECT_SERVER_HELLO | SERVER_EXPECT_CLIENT_HELLO => EP_INITIAL
  | CLIENT_POST_HANDSHAKE | SERVER_POST_HANDSHAKE => EP_ONE_RTT
  | _ => EP_HANDSHAKE
  end.

(* one dispatched message: TlsSM.step, key callbacks, what it leaves to send *)
Definition dispatch_one (e : Z) (c : conn) (t : Z) (rest : list Z) : outcome * conn :=
  let m := with_type t (hd orc_none (q_orcs c)) in
  let '(o, s', ks) := step (q_cfg c) (q_tls c) m in
  let out := q_hs_out c ||
             (q_client c && match o with OOk => true | _ => false end &&
              is_post (s_state s') && negb (is_post (s_state (q_tls c)))) in
  let c1 := mkConn (q_client c) (q_cfg c) s' rest (q_rbuf_epoch c) (q_si c) (q_sh c) (q_sa c)
                   (q_rk c) (q_sk c) (q_complete c) (q_closed c) (q_hs_ack c) out (tl (q_orcs c))
                   (q_log c ++ [(e, (m, o, s', ks))]) in
  (o, install c1 ks).

Fixpoint tls_loop (fuel : nat) (patched : bool) (e : Z) (c : conn) : tres * conn :=
  match fuel with
  | O => (TOk, c)              (* not reached: fuel > length of the buffer, every message has >= 4 bytes *)
  | S fuel =>
      match q_rbuf c with
      | t :: l1 :: l2 :: l3 :: _ =>
          let mlen := 4 + (l1 * 65536 + l2 * 256 + l3) in
          if mlen >? MAX_HANDSHAKE_MESSAGE_SIZE then (TAlert AD_decode_error, c)
          else if Zlen (q_rbuf c) <? mlen then (TOk, c)
          else if patched && negb (e =? expected_epoch (s_state (q_tls c))) then (TAlert AD_unexpected_message, c)
          else
            match dispatch_one e c t (zdrop mlen (q_rbuf c)) with
            | (OOk, c1) => tls_loop fuel patched e c1
            | (OAlert d, c1) => (TAlert d, c1)
            | (OExn k, c1) => (TExn k, c1)
            end
      | _ => (TOk, c)
      end
  end.

Definition tls_feed (patched : bool) (e : Z) (c : conn) (data : list Z) : tres * conn :=
  match s_state (q_tls c) with
  | CLIENT_HANDSHAKE_START =>            (* not reached after connect(): the hello is sent, the input ignored *)
      let '(o, s', ks) := client_send_hello (q_cfg c) (q_tls c) in
      (TOk, install (mkConn (q_client c) (q_cfg c) s' (q_rbuf c) (q_rbuf_epoch c) (q_si c) (q_sh c) (q_sa c)
                            (q_rk c) (q_sk c) (q_complete c) (q_closed c) (q_hs_ack c) (q_hs_out c) (q_orcs c)
                            (q_log c)) ks)
  | _ =>
      if patched && negb (Zlen (q_rbuf c) =? 0) && negb (Zlen data =? 0) && negb (e =? q_rbuf_epoch c)
      then (TAlert AD_unexpected_message, c)
      else
        let buf := q_rbuf c ++ data in
        tls_loop (S (length buf)) patched e (set_rbuf c buf (if Zlen data =? 0 then q_rbuf_epoch c else e))
  end.

(* ---- _handle_crypto_frame ------------------------------------------------------------------------- *)
Inductive fres := FOk | FClose (code : Z) | FExn (k : Z).

Definition complete_check (c : conn) : conn :=
  if negb (q_complete c) && is_post (s_state (q_tls c)) then
    let c1 := set_flags c true (q_hs_ack c) (q_hs_out c) in
    if q_client c then c1 else discard c1 EP_HANDSHAKE
  else c.

Definition crypto_frame (patched : bool) (e : Z) (c : conn) (off : Z) (data : list Z) : fres * conn :=
  if off + Zlen data >? UINT_VAR_MAX then (FClose QEC_FRAME_ENCODING_ERROR, c) else
  let r := stream_of c e in
  if off + Zlen data - r_start r >? MAX_PENDING_CRYPTO then (FClose QEC_CRYPTO_BUFFER_EXCEEDED, c) else
  let '(o, r') := handle_frame r off data false in
  let c1 := set_stream c e r' in
  match o with
  | RData d _ =>
      match tls_feed patched e c1 d with
      | (TOk, c2) => (FOk, complete_check c2)
      | (TAlert a, c2) => (FClose (QEC_CRYPTO_ERROR + a), c2)
      | (TExn k, c2) => (FExn k, c2)
      end
  | _ => (FOk, c1)              (* nothing new; FinalSizeError / reset cannot happen, fin is never set *)
  end.

Fixpoint frames_loop (patched : bool) (e : Z) (c : conn) (frames : list (Z * list Z)) : fres * conn :=
  match frames with
  | [] => (FOk, c)
  | (off, d) :: r =>
      match crypto_frame patched e c off d with
      | (FOk, c') => frames_loop patched e c' r
      | x => x
      end
  end.

(* ---- one datagram carrying one packet, followed by datagrams_to_send ------------------------------- *)
Inductive pres := PIgnored | PDropped | PDone | PClosed (code : Z) | PExn (k : Z).

Definition zin (x : Z) (l : list Z) : bool := existsb (Z.eqb x) l.

Fixpoint lookup_epoch (pt : Z) (l : list (Z * Z)) : option Z :=
  match l with [] => None | (p, e) :: r => if p =? pt then Some e else lookup_epoch pt r end.

(* a client that has something to send in a Handshake packet discards the Initial keys *)
Definition transmit (c : conn) : conn :=
  if q_client c && kget (q_sk c) EP_HANDSHAKE && (q_hs_ack c || q_hs_out c)
  then discard (set_flags c (q_complete c) false false) EP_INITIAL
  else c.

(* the CONNECTION_CLOSE packets go out in every epoch that has send keys: a client that can send a Handshake packet
   discards the Initial keys here too *)
Definition close_with (c : conn) (code : Z) : conn :=
  let c1 := set_closed c code in
  if q_client c1 && kget (q_sk c1) EP_HANDSHAKE then discard c1 EP_INITIAL else c1.

Definition receive_packet (patched : bool) (c : conn) (ptype : Z) (frames : list (Z * list Z)) : pres * conn :=
  match q_closed c with
  | Some _ => (PIgnored, c)
  | None =>
      match lookup_epoch ptype get_epoch_table with
      | None => (PDropped, c)
      | Some e =>
          if negb (kget (q_rk c) e) then (PDropped, c) else
          let c0 := if negb (q_client c) && (e =? EP_HANDSHAKE) then discard c EP_INITIAL else c in
          match frames with
          | [] => (PClosed QEC_PROTOCOL_VIOLATION, close_with c0 QEC_PROTOCOL_VIOLATION)
          | _ :: _ =>
              if negb (zin e crypto_frame_epochs)
              then (PClosed QEC_PROTOCOL_VIOLATION, close_with c0 QEC_PROTOCOL_VIOLATION)
              else
                match frames_loop patched e c0 frames with
                | (FOk, c1) =>
                    (PDone, transmit (set_flags c1 (q_complete c1) (q_hs_ack c1 || (e =? EP_HANDSHAKE)) (q_hs_out c1)))
                | (FClose code, c1) => (PClosed code, close_with c1 code)
                | (FExn k, c1) => (PExn k, c1)
                end
          end
      end
  end.

(* ---- start states ------------------------------------------------------------------------------------ *)
Definition keys_initial : keys4 := mkK true false false false.

(* a client after connect() (the ClientHello is out), a server that just created the connection *)
Definition conn_init (client : bool) (c : cfg) (orcs : list msg) : conn :=
  let base s := mkConn client c s [] EP_INITIAL recv_init recv_init recv_init keys_initial keys_initial
                       false None false false orcs [] in
  if client then
    let '(_, s, ks) := client_send_hello c init_client in install (base s) ks
  else base init_server.

Definition qop := (Z * list (Z * list Z))%type.     (* packet type, CRYPTO frames (offset, data) *)

Fixpoint run_conn (patched : bool) (c : conn) (ops : list qop) : conn :=
  match ops with
  | [] => c
  | (pt, fr) :: r => run_conn patched (snd (receive_packet patched c pt fr)) r
  end.

(* the TlsSM events of the connection, in order *)
Definition tls_log (c : conn) : list event := map snd (q_log c).

(* ---------- executable interface ----------------------------------------------------------------------
   in : patched is_client c_psk c_early c_verify c_reqcert,
        n, n oracle records of 12 tokens (the fields of TlsSM.msg; the type token is ignored),
        then per packet: ptype nframes (offset len b1..blen)*
   out per packet: kind (0 ignored | 1 dropped | 2 done | 3 closed | 4 exception) value,
        Context.state, _handshake_complete, recv keys I 0 H 1, send keys I 0 H 1, len(_receive_buffer) *)
Fixpoint rd_orcs (n : nat) (t : list Z) : list msg * list Z :=
  match n with
  | O => ([], t)
  | S n =>
      match t with
      | ty :: pa :: fi :: ps :: po :: ea :: sh :: ne :: lo :: sg :: ce :: ma :: t' =>
          let '(l, t'') := rd_orcs n t' in
          (mkMsg ty pa fi (z2b ps) (z2b po) (z2b ea) (z2b sh) (z2b ne) (z2b lo) (z2b sg) ce (z2b ma) :: l, t'')
      | _ => ([], [])
      end
  end.

Fixpoint rd_frames (n : nat) (t : list Z) : list (Z * list Z) * list Z :=
  match n with
  | O => ([], t)
  | S n =>
      match t with
      | off :: t1 => let '(d, t2) := tk_list t1 in
                     let '(l, t3) := rd_frames n t2 in ((off, d) :: l, t3)
      | [] => ([], [])
      end
  end.

Definition out_pres (r : pres) : list Z :=
  match r with
  | PIgnored => [0; 0] | PDropped => [1; 0] | PDone => [2; 0] | PClosed code => [3; code] | PExn k => [4; k]
  end.
Definition out_keys4 (k : keys4) : list Z := [b2z (k_i k); b2z (k_z k); b2z (k_h k); b2z (k_a k)].
Definition obs_conn (c : conn) : list Z :=
  [state_val (s_state (q_tls c)); b2z (q_complete c)] ++ out_keys4 (q_rk c) ++ out_keys4 (q_sk c) ++ [Zlen (q_rbuf c)].

Fixpoint exec_packets (fuel : nat) (patched : bool) (c : conn) (t : list Z) : list Z :=
  match fuel with O => [] | S fuel =>
  match t with
  | pt :: nf :: t1 =>
      let '(fr, t2) := rd_frames (Z.to_nat nf) t1 in
      let '(r, c') := receive_packet patched c pt fr in
      out_pres r ++ obs_conn c' ++ exec_packets fuel patched c' t2
  | _ => []
  end end.

(* EXTRACT: exec_tlsquic *)
Definition exec_tlsquic (t : list Z) : list Z :=
  match t with
  | pa :: cl :: a :: b :: v :: r :: n :: t' =>
      let '(orcs, t'') := rd_orcs (Z.to_nat n) t' in
      exec_packets (length t'') (z2b pa) (conn_init (z2b cl) (mkCfg (z2b a) (z2b b) (z2b v) (z2b r)) orcs) t''
  | _ => []
  end.
