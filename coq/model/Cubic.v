(* Model of CubicCongestionControl (src/aioquic/quic/congestion/cubic.py).

   The two libm calls -- pow(x, 1/3) in better_cube_root and pow(x, 3.0) in W_cubic ((t - K) ** 3)
   -- are an oracle: the state carries a stream of (tag, argument, result) triples supplied by the
   harness; each call consumes one triple and checks tag and argument (bit-identical), setting the
   sticky flag [cb_omiss] on a mismatch or an exhausted stream.

   [cb_fanom] ("FloatAnomaly") is the sticky guard of cwnd_floor_cubic_partial: it is set when a
   congestion-avoidance update int(w + d) comes out smaller than w although d is a product of
   non-negative factors (cannot happen in IEEE arithmetic; not proved here). *)
From AQ Require Import lib.Base model.RecBase gen.C08Consts.

Section Cubic.
Context {T : Type} (F : fops T).

Definition oracle := list (Z * T * T).

Record cubic := mkCubic {
  cb_bif : Z;
  cb_cwnd : Z;
  cb_ssthresh : option Z;
  cb_mss : Z;                (* _max_datagram_size *)
  cb_aif : Z;                (* additive_increase_factor *)
  cb_start : T;              (* _congestion_recovery_start_time *)
  cb_mon : rttmon (T:=T);
  cb_rtt : T;                (* rtt *)
  cb_first_ss : bool;        (* _first_slow_start *)
  cb_starting : bool;        (* _starting_congestion_avoidance *)
  cb_K : T;
  cb_West : Z;               (* _W_est *)
  cb_cwnd_epoch : Z;
  cb_t_epoch : T;
  cb_Wmax : Z;
  cb_last_ack : T;
  cb_oracle : oracle;
  cb_anom : bool;            (* int(inf/nan) *)
  cb_omiss : bool;           (* oracle stream mismatch *)
  cb_fanom : bool            (* FloatAnomaly guard *)
}.

Definition ask (tag : Z) (x : T) (o : oracle * bool) : T * (oracle * bool) :=
  match fst o with
  | (tg, a, r) :: o' => (r, (o', if (tg =? tag) && fsame F a x then snd o else true))
  | [] => (fofZ F 0, ([], true))
  end.

Definition cubic_init (mss : Z) (o : oracle) : cubic :=
  let cwnd := K_INITIAL_WINDOW * mss in
  mkCubic 0 cwnd None mss mss (fofZ F 0) (mon_init F) (fconstv F CCubicRtt0)
          true false (fofZ F 0) 0 0 (fofZ F 0) cwnd (fofZ F 0) o false false false.

(* reset(): fields not listed keep their value *)
Definition cubic_reset (c : cubic) : cubic :=
  let cwnd := K_INITIAL_WINDOW * cb_mss c in
  mkCubic (cb_bif c) cwnd None (cb_mss c) (cb_aif c) (cb_start c) (cb_mon c) (cb_rtt c)
          true false (fofZ F 0) 0 0 (fofZ F 0) cwnd (cb_last_ack c) (cb_oracle c) (cb_anom c) (cb_omiss c) (cb_fanom c).

(* W_cubic(t) with the given W_max, K, mss *)
Definition w_cubic (wmax mss : Z) (K t : T) (o : oracle * bool) (anom : bool) : Z * (oracle * bool) * bool :=
  let wms := fdiv F (fofZ F wmax) (fofZ F mss) in
  let '(cube, o) := ask 1 (fsub F t K) o in
  let ts := fadd F (fmul F (fconstv F CCubicC) cube) wms in
  let '(w, anom) := trunc_flag F (fmul F ts (fofZ F mss)) anom in
  (w, o, anom).

(* better_cube_root((W_max_segments - cwnd_epoch_segments) / K_CUBIC_C) *)
Definition calc_K (wmax cwnd_epoch mss : Z) (o : oracle * bool) : T * (oracle * bool) :=
  let wms := fdiv F (fofZ F wmax) (fofZ F mss) in
  let ces := fdiv F (fofZ F cwnd_epoch) (fofZ F mss) in
  let x := fdiv F (fsub F wms ces) (fconstv F CCubicC) in
  if fltb F x (fofZ F 0) then
    let '(r, o) := ask 0 (fneg F x) o in (fneg F r, o)
  else ask 0 x o.

Definition cubic_on_sent (c : cubic) (p : pkt T) : cubic :=
  let c1 := mkCubic (cb_bif c + p_bytes p) (cb_cwnd c) (cb_ssthresh c) (cb_mss c) (cb_aif c) (cb_start c) (cb_mon c)
                    (cb_rtt c) (cb_first_ss c) (cb_starting c) (cb_K c) (cb_West c) (cb_cwnd_epoch c) (cb_t_epoch c)
                    (cb_Wmax c) (cb_last_ack c) (cb_oracle c) (cb_anom c) (cb_omiss c) (cb_fanom c) in
  if feqb F (cb_last_ack c) (fofZ F 0) then c1
  else if fleb F (fofZ F K_CUBIC_MAX_IDLE_TIME) (fsub F (p_time p) (cb_last_ack c)) then cubic_reset c1
  else c1.

(* the two "start of an epoch" blocks of on_packet_acked; returns
   (_first_slow_start, _W_max, _t_epoch, _cwnd_epoch, _W_est, K, oracle) *)
Definition cubic_epoch (c : cubic) (now : T) (o : oracle * bool)
  : bool * Z * T * Z * Z * T * (oracle * bool) :=
  let cwnd := cb_cwnd c in
  let mss := cb_mss c in
  (* exiting slow start without having a loss *)
  let '(first_ss, wmax, t_epoch, cwnd_epoch, west, K, o) :=
    if cb_first_ss c && negb (cb_starting c) then
      let '(K, o) := calc_K cwnd cwnd mss o in
      (false, cwnd, now, cwnd, cwnd, K, o)
    else (cb_first_ss c, cb_Wmax c, cb_t_epoch c, cb_cwnd_epoch c, cb_West c, cb_K c, o) in
  (* start of congestion avoidance after a loss *)
  if cb_starting c then
    let '(K, o) := calc_K wmax cwnd mss o in
    (false, wmax, now, cwnd, cwnd, K, o)
  else (first_ss, wmax, t_epoch, cwnd_epoch, west, K, o).

(* the final if / elif / else of on_packet_acked (concave and convex regions use the same expression) *)
Definition cubic_window (cwnd west' wc2 target mss : Z) (anom fanom : bool) : Z * bool * bool :=
  if wc2 <? west' then (west', anom, fanom)
  else
    let '(w, anom) :=
      trunc_flag F (fadd F (fofZ F cwnd)
                           (fmul F (fofZ F (target - cwnd)) (fdiv F (fofZ F mss) (fofZ F cwnd)))) anom in
    (w, anom, if w <? cwnd then true else fanom).

Definition cubic_on_acked (c : cubic) (now : T) (p : pkt T) : cubic :=
  let bif := cb_bif c - p_bytes p in
  let last_ack := p_time p in
  let slow := match cb_ssthresh c with None => true | Some s => cb_cwnd c <? s end in
  if slow then
    mkCubic bif (cb_cwnd c + p_bytes p) (cb_ssthresh c) (cb_mss c) (cb_aif c) (cb_start c) (cb_mon c)
            (cb_rtt c) (cb_first_ss c) (cb_starting c) (cb_K c) (cb_West c) (cb_cwnd_epoch c) (cb_t_epoch c)
            (cb_Wmax c) last_ack (cb_oracle c) (cb_anom c) (cb_omiss c) (cb_fanom c)
  else
    let cwnd := cb_cwnd c in
    let mss := cb_mss c in
    let '(first_ss, wmax, t_epoch, cwnd_epoch, west, K, o) := cubic_epoch c now (cb_oracle c, cb_omiss c) in
    let '(west', anom) :=
      trunc_flag F (fadd F (fofZ F west)
                           (fmul F (fofZ F (cb_aif c)) (fdiv F (fofZ F (p_bytes p)) (fofZ F cwnd)))) (cb_anom c) in
    let fanom := if west' <? west then true else cb_fanom c in
    let t := fsub F now t_epoch in
    let '(wc1, o, anom) := w_cubic wmax mss K (fadd F t (cb_rtt c)) o anom in
    let '(target, anom) :=
      if wc1 <? cwnd then (cwnd, anom)
      else if fltb F (fmul F (fconstv F C1_5) (fofZ F cwnd)) (fofZ F wc1)
           then trunc_flag F (fmul F (fofZ F cwnd) (fconstv F C1_5)) anom
      else (wc1, anom) in
    let '(wc2, o, anom) := w_cubic wmax mss K t o anom in
    let '(cwnd', anom, fanom) := cubic_window cwnd west' wc2 target mss anom fanom in
    mkCubic bif cwnd' (cb_ssthresh c) mss (cb_aif c) (cb_start c) (cb_mon c) (cb_rtt c)
            first_ss false K west' cwnd_epoch t_epoch wmax last_ack (fst o) anom (snd o) fanom.

Definition cubic_on_expired (c : cubic) (l : list (pkt T)) : cubic :=
  mkCubic (cb_bif c - sum_bytes l) (cb_cwnd c) (cb_ssthresh c) (cb_mss c) (cb_aif c) (cb_start c) (cb_mon c)
          (cb_rtt c) (cb_first_ss c) (cb_starting c) (cb_K c) (cb_West c) (cb_cwnd_epoch c) (cb_t_epoch c)
          (cb_Wmax c) (cb_last_ack c) (cb_oracle c) (cb_anom c) (cb_omiss c) (cb_fanom c).

Definition cubic_on_lost (c : cubic) (now : T) (l : list (pkt T)) : cubic :=
  let bif := cb_bif c - sum_bytes l in
  let llt := last_time (fofZ F 0) l in
  if fltb F (cb_start c) llt then
    let '(wmax, anom) :=
      if cb_cwnd c <? cb_Wmax c then
        trunc_flag F (fdiv F (fmul F (fofZ F (cb_cwnd c)) (fadd F (fofZ F 1) (fconstv F CCubicBeta))) (fofZ F 2))
                   (cb_anom c)
      else (cb_cwnd c, cb_anom c) in
    let '(red, anom) := trunc_flag F (fmul F (fofZ F bif) (fconstv F CCubicBeta)) anom in
    let ssthresh := Z.max red (K_MINIMUM_WINDOW * cb_mss c) in
    let cwnd := Z.max ssthresh (K_MINIMUM_WINDOW * cb_mss c) in
    mkCubic bif cwnd (Some ssthresh) (cb_mss c) (cb_aif c) now (cb_mon c) (cb_rtt c)
            (cb_first_ss c) true (cb_K c) (cb_West c) (cb_cwnd_epoch c) (cb_t_epoch c) wmax (cb_last_ack c)
            (cb_oracle c) anom (cb_omiss c) (cb_fanom c)
  else
    mkCubic bif (cb_cwnd c) (cb_ssthresh c) (cb_mss c) (cb_aif c) (cb_start c) (cb_mon c) (cb_rtt c)
            (cb_first_ss c) (cb_starting c) (cb_K c) (cb_West c) (cb_cwnd_epoch c) (cb_t_epoch c) (cb_Wmax c)
            (cb_last_ack c) (cb_oracle c) (cb_anom c) (cb_omiss c) (cb_fanom c).

Definition cubic_on_rtt (c : cubic) (now rtt : T) : cubic :=
  let '(ss, mon) :=
    match cb_ssthresh c with
    | Some s => (Some s, cb_mon c)
    | None => let '(inc, mon) := is_rtt_increasing F (cb_mon c) now rtt in
              (if inc then Some (cb_cwnd c) else None, mon)
    end in
  mkCubic (cb_bif c) (cb_cwnd c) ss (cb_mss c) (cb_aif c) (cb_start c) mon rtt
          (cb_first_ss c) (cb_starting c) (cb_K c) (cb_West c) (cb_cwnd_epoch c) (cb_t_epoch c) (cb_Wmax c)
          (cb_last_ack c) (cb_oracle c) (cb_anom c) (cb_omiss c) (cb_fanom c).

Definition cubic_cc : ccops T cubic :=
  mkCc T cubic cb_bif cb_cwnd cb_ssthresh (fun c => b2z (cb_anom c) + 2 * b2z (cb_omiss c) + 4 * b2z (cb_fanom c))
       cubic_on_sent cubic_on_acked cubic_on_expired cubic_on_lost cubic_on_rtt.

End Cubic.
