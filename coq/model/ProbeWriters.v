(* C08 (round e08): the decisions of model/ProbeBudget.v's 1-RTT packet loop READ OFF C13's writer model (model/Writers.v).

   ProbeBudget.app_iter has free decision inputs: what the group of frame writers ahead of the probe PING did (nothing /
   wrote / QuicPacketBuilderStop), whether the PING's start_frame returned, what the writers after it did, packet_is_empty.
   Here the same decisions are COMPUTED by running Writers.w_app_iter's writers on the builder model with concrete pending
   frames ([Writers.app_iter]: field values, sizes) and budgets (the builder configuration and state): [abs_iter].  A
   ProbeBudget decision is REALISABLE when it is [abs_iter] of some writer-model input.

   The split of Writers.w_app_iter into "before the probe PING" / "the probe PING" / "after it" follows the generated
   writer order gen/C13Writers.ORDER_write_application and the generated names gen/C08Probe.app_writers_before / _after
   (pinned in proofs/ProbeWritersProofs.v: order_pinned). *)
From AQ Require Import lib.Base lib.Tok gen.C13Consts gen.C13Writers model.Builder model.StreamSend model.Writers.
From AQ Require gen.C08Probe model.ProbeBudget.
From Coq Require Import String.

(* the generated writer ids of gen/C13Writers.v (alphabetical) as method names *)
Definition writer_name (id : Z) : string :=
  if id =? 0 then "_write_ack_frame" else if id =? 1 then "_write_connection_close_frame"
  else if id =? 2 then "_write_connection_limits" else if id =? 3 then "_write_crypto_frame"
  else if id =? 4 then "_write_datagram_frame" else if id =? 5 then "_write_handshake_done_frame"
  else if id =? 6 then "_write_new_connection_id_frame" else if id =? 7 then "_write_path_challenge_frame"
  else if id =? 8 then "_write_path_response_frame" else if id =? 9 then "_write_ping_frame"
  else if id =? 10 then "_write_reset_stream_frame" else if id =? 11 then "_write_retire_connection_id_frame"
  else if id =? 12 then "_write_stop_sending_frame" else if id =? 13 then "_write_stream_frame"
  else if id =? 14 then "_write_stream_limits" else if id =? 15 then "_write_streams_blocked_frame" else "?".

(* the writers of one 1-RTT / 0-RTT packet AHEAD of the probe PING, in the order of Writers.w_app_iter *)
Definition w_before (c : cfg) (s : st) (d : app_iter) : wres :=
  wseq (w_opt (w_ack_in c) s (ai_ack d)) (fun s =>
  wseq (w_if (ai_challenge d) (w_path_challenge c) s) (fun s =>
  wseq (w_if (ai_hs_done d) (w_handshake_done c) s) (fun s =>
  wseq (w_list (fun s _ => w_path_response c s) s (ai_responses d)) (fun s =>
  wseq (w_list (fun s x => w_new_connection_id c s (fst x) (snd x)) s (ai_new_cids d)) (fun s =>
  wseq (w_list (w_retire_connection_id c) s (ai_retire d)) (fun s =>
  wseq (w_list (fun s x => w_streams_blocked c s (fst x) (snd x)) s (ai_blocked d)) (fun s =>
  wseq (w_list (fun s x => w_conn_limit c s (fst x) (snd x)) s (ai_conn_limits d)) (fun s =>
  wseq (w_list (fun s x => w_stream_limit c s (fst x) (snd x)) s (ai_stream_limits d)) (fun s =>
  w_if (ai_ping_user d) (w_ping c) s))))))))).

(* ... the same without the ACK (which is written first and is the only one that is neither ack-eliciting nor in flight) *)
Definition w_before_ctl (c : cfg) (s : st) (d : app_iter) : wres :=
  wseq (w_if (ai_challenge d) (w_path_challenge c) s) (fun s =>
  wseq (w_if (ai_hs_done d) (w_handshake_done c) s) (fun s =>
  wseq (w_list (fun s _ => w_path_response c s) s (ai_responses d)) (fun s =>
  wseq (w_list (fun s x => w_new_connection_id c s (fst x) (snd x)) s (ai_new_cids d)) (fun s =>
  wseq (w_list (w_retire_connection_id c) s (ai_retire d)) (fun s =>
  wseq (w_list (fun s x => w_streams_blocked c s (fst x) (snd x)) s (ai_blocked d)) (fun s =>
  wseq (w_list (fun s x => w_conn_limit c s (fst x) (snd x)) s (ai_conn_limits d)) (fun s =>
  wseq (w_list (fun s x => w_stream_limit c s (fst x) (snd x)) s (ai_stream_limits d)) (fun s =>
  w_if (ai_ping_user d) (w_ping c) s)))))))).

(* the probe PING: if self._probe_pending: self._write_ping_frame(builder, comment="probe") *)
Definition w_probe (c : cfg) (s : st) (d : app_iter) : wres := w_if (ai_ping_probe d) (w_ping c) s.

(* the writers after it *)
Definition w_after (c : cfg) (s : st) (d : app_iter) : wres :=
  wseq (w_opt (w_crypto c) s (ai_crypto d)) (fun s =>
  wseq (w_datagrams c s (ai_datagrams d)) (fun s =>
  w_list (w_sdec c) s (ai_streams d))).

(* builder.packet.is_ack_eliciting of the open packet *)
Definition cur_ackel (s : st) : bool := match b_cur s with Some p => p_ackel p | None => false end.

Definition is_done (o : outcome) : bool := match o with ODone => true | _ => false end.

(* what a group of writers did, in ProbeBudget's terms: returned with / without an ack-eliciting frame in the packet, or was
   left by an exception (QuicPacketBuilderStop; any other exception leaves _write_application the same way) *)
Definition classify (r : wres) : ProbeBudget.wr :=
  let '(o, s', _) := r in
  if is_done o then (if cur_ackel s' then ProbeBudget.WWritten else ProbeBudget.WNone) else ProbeBudget.WStop (cur_ackel s').

(* the decisions of one iteration of _write_application's packet loop, computed from the builder state [s] before
   start_packet, the packet type and the pending frames [d] *)
Definition abs_iter (c : cfg) (s : st) (pt : Z) (d : app_iter) : ProbeBudget.app_iter :=
  let '(o1, s1, _) := do_start_packet c s pt in
  let rb := w_before c s1 d in
  let '(ob, sb, _) := rb in
  if negb (is_done ob) then      (* the decisions after a halt are never read: canonical values *)
    ProbeBudget.mkAI (ai_paced d) (is_done o1) (classify rb) true ProbeBudget.WNone (negb (cur_nonempty sb))
  else
  let rp := w_probe c sb d in
  let '(op, sp, _) := rp in
  if negb (is_done op) then
    ProbeBudget.mkAI (ai_paced d) (is_done o1) (classify rb) false ProbeBudget.WNone (negb (cur_nonempty sp))
  else
  let ra := w_after c sp d in
  let '(_, sa, _) := ra in
  ProbeBudget.mkAI (ai_paced d) (is_done o1) (classify rb) true (classify ra) (negb (cur_nonempty sa)).

Definition abs_iter4 (w : cfg * st * Z * app_iter) : ProbeBudget.app_iter :=
  let '(c, s, pt, d) := w in abs_iter c s pt d.

(* no control frame is pending ahead of the probe PING (only the PING itself and CRYPTO / DATAGRAM / stream frames) *)
Definition no_control (d : app_iter) : bool :=
  match ai_ack d with None => true | Some _ => false end &&
  negb (ai_challenge d) && negb (ai_hs_done d) &&
  match ai_responses d with [] => true | _ => false end &&
  match ai_new_cids d with [] => true | _ => false end &&
  match ai_retire d with [] => true | _ => false end &&
  match ai_blocked d with [] => true | _ => false end &&
  match ai_conn_limits d with [] => true | _ => false end &&
  match ai_stream_limits d with [] => true | _ => false end &&
  negb (ai_ping_user d).

(* room for an in-flight frame in the open packet *)
Definition room (s : st) : Z := Z.min (remaining_buffer_space s) (remaining_flight_space s).

(* the largest capacity declared by a writer ahead of the probe PING other than the ACK (NEW_CONNECTION_ID) *)
Definition CAP_BEFORE : Z := NEW_CONNECTION_ID_FRAME_CAPACITY.
