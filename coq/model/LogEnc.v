(* C20  The primitives of logger.py's encoders that can raise, as Res-valued functions
   (Err 1 = KeyError, Err 2 = UnicodeDecodeError), plus the header validation of h3/connection.py that
   decides which header bytes reach them.  No proofs here (coq/proofs/LogEncP.v). *)
From Coq Require Import String.
From AQ Require Import lib.Base lib.Tok.
Open Scope string_scope.
Open Scope Z_scope.

Definition KeyError : Z := 1.
Definition UnicodeDecodeError : Z := 2.

(* ---- PACKET_TYPE_NAMES[packet_type] ------------------------------------------------------------
   keys: the QuicPacketType members that PACKET_TYPE_NAMES has an entry for (generated from the source) *)
Definition packet_type_lookup (keys : list string) (member : string) : Res string :=
  if existsb (String.eqb member) keys then Ok member else Err KeyError.

(* ---- hexdump(data) = binascii.hexlify(data).decode("ascii") ------------------------------------ *)
Definition hexdigit (n : Z) : Z := if n <? 10 then 48 + n else 87 + n.     (* '0'..'9' 'a'..'f' *)
Definition hexlify (b : list Z) : list Z := flat_map (fun x => [hexdigit (x / 16); hexdigit (x mod 16)]) b.
Definition decode_ascii (b : list Z) : Res (list Z) :=
  if forallb (fun x => (0 <=? x) && (x <? 128)) b then Ok b else Err UnicodeDecodeError.
Definition hexdump (b : list Z) : Res (list Z) := decode_ascii (hexlify b).

(* ---- bytes.decode("utf8"), strict (Unicode table 3-7: no overlongs, no surrogates, <= U+10FFFF) --
   need = continuation bytes still expected; [lo, hi] = range allowed for the next continuation byte *)
Fixpoint utf8_go (need lo hi : Z) (l : list Z) : bool :=
  match l with
  | [] => need =? 0
  | b :: r =>
      if need =? 0 then
        if (0 <=? b) && (b <? 128) then utf8_go 0 128 191 r
        else if (194 <=? b) && (b <=? 223) then utf8_go 1 128 191 r
        else if b =? 224 then utf8_go 2 160 191 r
        else if ((225 <=? b) && (b <=? 236)) || (b =? 238) || (b =? 239) then utf8_go 2 128 191 r
        else if b =? 237 then utf8_go 2 128 159 r
        else if b =? 240 then utf8_go 3 144 191 r
        else if (241 <=? b) && (b <=? 243) then utf8_go 3 128 191 r
        else if b =? 244 then utf8_go 3 128 143 r
        else false
      else if (lo <=? b) && (b <=? hi) then utf8_go (need - 1) 128 191 r
      else false
  end.

Definition utf8_valid (l : list Z) : bool := utf8_go 0 128 191 l.

Definition decode_utf8 (b : list Z) : Res (list Z) := if utf8_valid b then Ok b else Err UnicodeDecodeError.

(* ---- QuicLoggerTrace._encode_http3_headers ------------------------------------------------------
   [{"name": h[0].decode("utf8"), "value": h[1].decode("utf8")} for h in headers] *)
Definition header := (list Z * list Z)%type.

Fixpoint encode_http3_headers (hs : list header) : Res (list header) :=
  match hs with
  | [] => Ok []
  | (n, v) :: r =>
      n' <- decode_utf8 n ;;
      v' <- decode_utf8 v ;;
      r' <- encode_http3_headers r ;;
      Ok ((n', v') :: r')
  end.

(* the same with the decoder's error mode as a parameter: strict = true is the code above (.decode("utf8"));
   strict = false stands for a total decoder (errors="replace"/"backslashreplace"/..., or latin-1), whose
   output text is irrelevant here.  The translator reads the mode from the current source. *)
Definition decode_mode (strict : bool) (b : list Z) : Res (list Z) := if strict then decode_utf8 b else Ok b.

Fixpoint encode_http3_headers_with (strict : bool) (hs : list header) : Res (list header) :=
  match hs with
  | [] => Ok []
  | (n, v) :: r =>
      n' <- decode_mode strict n ;;
      v' <- decode_mode strict v ;;
      r' <- encode_http3_headers_with strict r ;;
      Ok ((n', v') :: r')
  end.

(* encode_http3_headers_frame / encode_http3_push_promise_frame: the only raising part is the header list *)
Definition encode_http3_headers_frame (length : Z) (hs : list header) (stream_id : Z) : Res (list header) :=
  encode_http3_headers hs.
Definition encode_http3_push_promise_frame (length : Z) (hs : list header) (push_id stream_id : Z) : Res (list header) :=
  encode_http3_headers hs.

(* ---- h3/connection.py validate_header_name / validate_header_value (what the receive path lets through) *)
Fixpoint name_chars_ok (first : bool) (l : list Z) : bool :=
  match l with
  | [] => true
  | c :: r =>
      if (c <=? 32) || ((65 <=? c) && (c <=? 90)) || (127 <=? c) then false
      else if (c =? 58) && negb first then false
      else name_chars_ok false r
  end.
Definition validate_header_name (n : list Z) : bool := name_chars_ok true n.

Definition is_ws (c : Z) : bool := (c =? 32) || (c =? 9).
Definition validate_header_value (v : list Z) : bool :=
  forallb (fun c => negb ((c =? 0) || (c =? 10) || (c =? 13))) v
  && match v with
     | [] => true
     | first :: r =>
         negb (is_ws first)
         && match r with
            | [] => true
            | _ => negb (is_ws (last r 0))
            end
     end.

(* ---- executable interface -----------------------------------------------------------------------
   ops:  1 idx            PACKET_TYPE_NAMES lookup of the idx-th QuicPacketType member (idx out of range: a non-member)
         2 n b1..bn       hexdump
         3 n b1..bn       bytes.decode("utf8")
         4 n b1..bn       validate_header_value (1 = accepted)
         5 n b1..bn       validate_header_name  (1 = accepted)
         6 k (n name.. m value..)*k     _encode_http3_headers
   output per op: 0 [payload] = Ok, 1 kind = raised *)
Definition out_res (r : Res (list Z)) : list Z :=
  match r with Ok l => 0 :: Zlen l :: l | Err k => [1; k] end.

Fixpoint read_headers (k : nat) (l : list Z) : list header * list Z :=
  match k with
  | O => ([], l)
  | S k' =>
      let '(n, l1) := tk_list l in
      let '(v, l2) := tk_list l1 in
      let '(hs, l3) := read_headers k' l2 in
      ((n, v) :: hs, l3)
  end.

(* named: for each QuicPacketType member, in order, whether PACKET_TYPE_NAMES has an entry for it (literal list
   emitted by the translator; proofs/LogEncP.v ties it to packet_type_lookup).  No Coq string reaches extraction. *)
Definition exec_logenc_with (named : list bool) (strict : bool) (toks : list Z) : list Z :=
  match toks with
  | 1 :: idx :: _ =>
      match (if idx <? 0 then None else nth_error named (Z.to_nat idx)) with
      | Some true => [0]
      | _ => [1; KeyError]
      end
  | 2 :: t => out_res (hexdump (fst (tk_list t)))
  | 3 :: t => out_res (decode_utf8 (fst (tk_list t)))
  | 4 :: t => [b2z (validate_header_value (fst (tk_list t)))]
  | 5 :: t => [b2z (validate_header_name (fst (tk_list t)))]
  | 6 :: k :: t =>
      match encode_http3_headers_with strict (fst (read_headers (Z.to_nat (Z.min k 64)) t)) with
      | Ok hs => [0; Zlen hs]
      | Err e => [1; e]
      end
  | _ => [9]
  end.
