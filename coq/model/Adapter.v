(* Model of QuicConnectionProtocol (src/aioquic/asyncio/protocol.py, with the C19 fixes 1 and 2 applied: API calls on a
   terminated protocol fail/finish at once, empty data is not fed to a reader; the repair of F4 -- transmit()
   drains the event queue after sending -- is followed through the flag fx): the bookkeeping of waiters,
   timer handle, deferred transmit and stream readers, as a state machine whose steps are the loop
   callbacks (datagram_received, _handle_timer, the call_soon'ed transmit) and the API calls.

   The QUIC connection is abstracted to (a) the events it queues during receive_datagram /
   handle_timer / datagrams_to_send and (b) the value of get_timer().  Both are inputs of the steps.
   The parts of asyncio the adapter relies on are modelled from their documented behaviour:
     - Future.set_result / set_exception on a future that is not pending raises InvalidStateError;
     - StreamReader.feed_data asserts that feed_eof has not been called (the assert comes first,
       also for empty data); feed_eof is idempotent;
     - loop.call_soon handles run once each; TimerHandle.cancel removes that handle;
   Exceptions are outcomes (option Z = Some kind).  No proofs in this file. *)
From AQ Require Import lib.Base lib.Tok.

(* ---------- futures ---------------------------------------------------------------------- *)
Inductive fstate := FPending | FOk | FErr | FCancelled.
(* pending | result None | exception ConnectionError | cancelled (Future.cancel(); only the unshielded variant of
   model/AdapterCancel.v ever produces it: no step of this file cancels a future) *)

Definition fstate_eqb (a b : fstate) : bool :=
  match a, b with FPending, FPending | FOk, FOk | FErr, FErr | FCancelled, FCancelled => true | _, _ => false end.

(* exception kinds that can escape a step *)
Definition X_INVALID_STATE : Z := 1.   (* asyncio.InvalidStateError: future resolved twice *)
Definition X_FEED_AFTER_EOF : Z := 2.  (* AssertionError 'feed_data after feed_eof' *)
Definition X_TIMER_NONE : Z := 3.      (* TypeError: max(None, float) in _handle_timer *)
Definition X_ALREADY_AWAITING : Z := 4. (* AssertionError 'already awaiting connected' *)
Definition X_CONNECTION_ERROR : Z := 5. (* not an escaping exception: the awaited API call finishes at once with ConnectionError *)
Definition X_HANDLER : Z := 10.        (* 10 + k: exception kind k raised by a server callback *)

(* ---------- events of the QUIC connection ------------------------------------------------------ *)
Inductive event :=
| EvHandshake                                   (* HandshakeCompleted *)
| EvTerminated (hx : Z)                         (* ConnectionTerminated; hx<>0: the terminated-handler raises kind hx *)
| EvPingAck (uid : Z)                           (* PingAcknowledged *)
| EvStream (sid : Z) (data : list Z) (fin : bool)  (* StreamDataReceived *)
| EvCidIssued (cid hx : Z)                      (* ConnectionIdIssued; hx = outcome of the issued-handler *)
| EvCidRetired (cid hx : Z)                     (* ConnectionIdRetired; hx = outcome of the retired-handler *)
| EvOther.                                      (* StreamReset, StopSendingReceived, DatagramFrameReceived, ... : ignored *)

Record reader := mkReader { rd_sid : Z; rd_buf : list Z; rd_eof : bool }.

Record st := mkSt {
  connected : bool;            (* _connected *)
  cwait : option nat;          (* _connected_waiter (index into futs) *)
  pings : list (Z * nat);      (* _ping_waiters : uid -> future, insertion order *)
  closed : bool;               (* _closed.is_set() *)
  futs : list fstate;          (* every future made by loop.create_future() in this protocol, by creation order *)
  timer : option Z;            (* _timer : deadline of the handle it refers to *)
  timer_at : option Z;         (* _timer_at *)
  ltimers : list Z;            (* LOOP state: live (scheduled, not cancelled, not fired) _handle_timer handles *)
  ttask : bool;                (* _transmit_task is not None *)
  soon : nat;                  (* LOOP state: call_soon(self.transmit) handles not yet run *)
  readers : list reader;       (* _stream_readers, insertion order *)
  wclosing : list Z;           (* stream ids whose (most recent) QuicStreamAdapter has _closing = True *)
  evq : list event;            (* events waiting inside the QUIC connection (next_event pops the head) *)
  dirty : bool                 (* ghost: stream data handed to the connection and no transmit() since *)
}.

Definition st_init : st :=
  mkSt false None [] false [] None None [] false O [] [] [] false.

(* ---------- small helpers ---------------------------------------------------------------------- *)
Definition oz_eqb (a b : option Z) : bool :=
  match a, b with
  | None, None => true
  | Some x, Some y => x =? y
  | _, _ => false
  end.

Fixpoint remove_one (w : Z) (l : list Z) : list Z :=
  match l with
  | [] => []
  | x :: t => if x =? w then t else x :: remove_one w t
  end.

Fixpoint memz (w : Z) (l : list Z) : bool :=
  match l with [] => false | x :: t => (x =? w) || memz w t end.

Fixpoint set_nth (i : nat) (v : fstate) (l : list fstate) : list fstate :=
  match l, i with
  | [], _ => []
  | _ :: t, O => v :: t
  | x :: t, S i => x :: set_nth i v t
  end.

(* Future.set_result / set_exception: None = InvalidStateError *)
Definition resolve (i : nat) (v : fstate) (l : list fstate) : option (list fstate) :=
  match nth_error l i with
  | Some FPending => Some (set_nth i v l)
  | _ => None
  end.

(* dict helpers on association lists (Python dict semantics: assignment to an existing key keeps
   its position, a new key goes last) *)
Fixpoint ping_get (uid : Z) (l : list (Z * nat)) : option nat :=
  match l with
  | [] => None
  | (u, f) :: t => if u =? uid then Some f else ping_get uid t
  end.
Fixpoint ping_del (uid : Z) (l : list (Z * nat)) : list (Z * nat) :=
  match l with
  | [] => []
  | (u, f) :: t => if u =? uid then t else (u, f) :: ping_del uid t
  end.
Fixpoint ping_set (uid : Z) (f : nat) (l : list (Z * nat)) : list (Z * nat) :=
  match l with
  | [] => [(uid, f)]
  | (u, g) :: t => if u =? uid then (u, f) :: t else (u, g) :: ping_set uid f t
  end.

Fixpoint rd_get (sid : Z) (l : list reader) : option reader :=
  match l with
  | [] => None
  | r :: t => if rd_sid r =? sid then Some r else rd_get sid t
  end.
Fixpoint rd_set (r : reader) (l : list reader) : list reader :=
  match l with
  | [] => [r]
  | x :: t => if rd_sid x =? rd_sid r then r :: t else x :: rd_set r t
  end.

(* record updates *)
Definition with_futs (s : st) (f : list fstate) : st :=
  mkSt (connected s) (cwait s) (pings s) (closed s) f (timer s) (timer_at s) (ltimers s) (ttask s) (soon s)
       (readers s) (wclosing s) (evq s) (dirty s).
Definition with_cwait (s : st) (c : option nat) : st :=
  mkSt (connected s) c (pings s) (closed s) (futs s) (timer s) (timer_at s) (ltimers s) (ttask s) (soon s)
       (readers s) (wclosing s) (evq s) (dirty s).
Definition with_connected (s : st) (c : bool) : st :=
  mkSt c (cwait s) (pings s) (closed s) (futs s) (timer s) (timer_at s) (ltimers s) (ttask s) (soon s)
       (readers s) (wclosing s) (evq s) (dirty s).
Definition with_pings (s : st) (p : list (Z * nat)) : st :=
  mkSt (connected s) (cwait s) p (closed s) (futs s) (timer s) (timer_at s) (ltimers s) (ttask s) (soon s)
       (readers s) (wclosing s) (evq s) (dirty s).
Definition with_closed (s : st) (c : bool) : st :=
  mkSt (connected s) (cwait s) (pings s) c (futs s) (timer s) (timer_at s) (ltimers s) (ttask s) (soon s)
       (readers s) (wclosing s) (evq s) (dirty s).
Definition with_readers (s : st) (r : list reader) : st :=
  mkSt (connected s) (cwait s) (pings s) (closed s) (futs s) (timer s) (timer_at s) (ltimers s) (ttask s) (soon s)
       r (wclosing s) (evq s) (dirty s).
Definition with_evq (s : st) (q : list event) : st :=
  mkSt (connected s) (cwait s) (pings s) (closed s) (futs s) (timer s) (timer_at s) (ltimers s) (ttask s) (soon s)
       (readers s) (wclosing s) q (dirty s).

(* ---------- _process_events: one event --------------------------------------------------------- *)
(* for waiter in self._ping_waiters.values(): waiter.set_exception(ConnectionError)
   stops at the first InvalidStateError (earlier waiters stay resolved, the dict is not cleared) *)
Fixpoint fail_all (ps : list (Z * nat)) (f : list fstate) : option Z * list fstate :=
  match ps with
  | [] => (None, f)
  | (_, i) :: t =>
      match resolve i FErr f with
      | Some f' => fail_all t f'
      | None => (Some X_INVALID_STATE, f)
      end
  end.

Definition feed_eof_all (l : list reader) : list reader :=
  map (fun r => mkReader (rd_sid r) (rd_buf r) true) l.

(* quic_event_received for StreamDataReceived:
     reader = get or _create_stream (a reader created on a closed protocol is fed EOF at once);
     if event.data: reader.feed_data(event.data)   -- asserts not eof
     if event.end_stream: reader.feed_eof() *)
Definition on_stream (s : st) (sid : Z) (data : list Z) (fin : bool) : option Z * st :=
  let '(r, s1) :=
    match rd_get sid (readers s) with
    | Some r => (r, s)
    | None => let r := mkReader sid [] (closed s) in (r, with_readers s (rd_set r (readers s)))   (* _create_stream + stream_handler *)
    end in
  match data with
  | [] => (None, with_readers s1 (rd_set (mkReader sid (rd_buf r) (rd_eof r || fin)) (readers s1)))
  | _ :: _ =>
      if rd_eof r then (Some X_FEED_AFTER_EOF, s1)            (* reader.feed_data: assert not self._eof *)
      else (None, with_readers s1 (rd_set (mkReader sid (rd_buf r ++ data) fin) (readers s1)))
  end.

Definition handle_event (e : event) (s : st) : option Z * st :=
  match e with
  | EvCidIssued _ hx | EvCidRetired _ hx =>
      if hx =? 0 then (None, s) else (Some (X_HANDLER + Z.abs hx), s)
  | EvTerminated hx =>
      if negb (hx =? 0) then (Some (X_HANDLER + Z.abs hx), s) else
      (* abort connection waiter *)
      let r1 :=
        match cwait s with
        | Some i =>
            let s' := with_cwait s None in
            match resolve i FErr (futs s') with
            | Some f => (None, with_futs s' f)
            | None => (Some X_INVALID_STATE, s')
            end
        | None => (None, s)
        end in
      match r1 with
      | (Some x, s1) => (Some x, s1)
      | (None, s1) =>
          (* abort ping waiters *)
          match fail_all (pings s1) (futs s1) with
          | (Some x, f) => (Some x, with_futs s1 f)
          | (None, f) =>
              let s2 := with_closed (with_pings (with_futs s1 f) []) true in
              (* quic_event_received: feed_eof on every reader *)
              (None, with_readers s2 (feed_eof_all (readers s2)))
          end
      end
  | EvHandshake =>
      match cwait s with
      | Some i =>
          let s' := with_cwait (with_connected s true) None in
          match resolve i FOk (futs s') with
          | Some f => (None, with_futs s' f)
          | None => (Some X_INVALID_STATE, s')
          end
      | None => (None, s)          (* note: _connected stays False when nobody is waiting *)
      end
  | EvPingAck uid =>
      match ping_get uid (pings s) with
      | Some i =>
          let s' := with_pings s (ping_del uid (pings s)) in
          match resolve i FOk (futs s') with
          | Some f => (None, with_futs s' f)
          | None => (Some X_INVALID_STATE, s')
          end
      | None => (None, s)
      end
  | EvStream sid data fin => on_stream s sid data fin
  | EvOther => (None, s)
  end.

(* while event is not None: ...; event = next_event().  An exception leaves the remaining events
   queued in the connection. *)
Fixpoint process (q : list event) (s : st) : option Z * st :=
  match q with
  | [] => (None, with_evq s [])
  | e :: rest =>
      match handle_event e (with_evq s rest) with
      | (Some x, s') => (Some x, s')
      | (None, s') => process rest s'
      end
  end.

Definition process_events (s : st) : option Z * st := process (evq s) s.

(* ---------- transmit ---------------------------------------------------------------------------- *)
(* The part of transmit() up to and including the timer re-arm.
   gt = self._quic.get_timer(); evs_tx = events queued by datagrams_to_send (ConnectionIdIssued ...) *)
Definition transmit_core (s : st) (gt : option Z) (evs_tx : list event) : st :=
  let q := evq s ++ evs_tx in
  let '(tm, lt) :=
    match timer s with
    | Some w => if negb (oz_eqb (timer_at s) gt) then (None, remove_one w (ltimers s)) else (Some w, ltimers s)
    | None => (None, ltimers s)
    end in
  let '(tm, lt) :=
    match tm, gt with
    | None, Some g => (Some g, lt ++ [g])          (* loop.call_at(timer_at, self._handle_timer) *)
    | _, _ => (tm, lt)
    end in
  mkSt (connected s) (cwait s) (pings s) (closed s) (futs s) tm gt lt false (soon s)
       (readers s) (wclosing s) q false.

(* fx: the tree has the repair of C19-F4 (probed by the harness on the running code): transmit() ends with
   self._process_events(), so that the events queued by datagrams_to_send() are handled before it returns.
   The repair guards _process_events() against re-entrancy (_processing_events): a transmit() called BY an
   event handler does not drain.  No handler of this model calls transmit() (the base class's
   quic_event_received and the three QuicServer callbacks do not), so the flag is False whenever a step
   begins and the guard never fires here; it is exercised on the code by the harness (nested-transmit probe).
   An exception of a handler during that drain escapes transmit() AFTER the timer was re-armed. *)
Definition transmit (fx : bool) (s : st) (gt : option Z) (evs_tx : list event) : option Z * st :=
  let s1 := transmit_core s gt evs_tx in
  if fx then process_events s1 else (None, s1).

Definition transmit_soon (s : st) : st :=
  if ttask s then s else
  mkSt (connected s) (cwait s) (pings s) (closed s) (futs s) (timer s) (timer_at s) (ltimers s) true (S (soon s))
       (readers s) (wclosing s) (evq s) (dirty s).

Definition set_dirty (s : st) : st :=
  mkSt (connected s) (cwait s) (pings s) (closed s) (futs s) (timer s) (timer_at s) (ltimers s) (ttask s) (soon s)
       (readers s) (wclosing s) (evq s) true.

(* ---------- steps ------------------------------------------------------------------------------- *)
Inductive op :=
| ORecv (evs : list event) (gt : option Z) (evs_tx : list event)          (* datagram_received *)
| OTimer (w now : Z) (evs : list event) (gt : option Z) (evs_tx : list event)  (* the loop fires a _handle_timer handle with deadline w at time now *)
| ORunSoon (gt : option Z) (evs_tx : list event)                          (* the loop runs a call_soon(self.transmit) handle *)
| OTransmit (gt : option Z) (evs_tx : list event)                         (* public transmit() *)
| OClose (gt : option Z) (evs_tx : list event)                            (* close() *)
| OPing (uid : Z) (gt : option Z) (evs_tx : list event)                   (* ping() up to its await *)
| OWaitConnected                                                          (* wait_connected() up to its await *)
| OWrite (sid : Z)                                                        (* writer.write(data) *)
| OWriteEof (sid : Z)                                                     (* writer.write_eof() / close() *)
| OCreateStream (sid : Z)                                                 (* create_stream() *)
| OTransmitSoon.                                                          (* _transmit_soon() *)

(* result of a step: exception kind (None = returned normally), extra output, new state.
   R_INVALID: the step is not enabled (the loop has no such handle); state unchanged. *)
Definition R_INVALID : Z := 99.

(* A step = what it does before any event is handled (prepare), then -- for the steps that reach
   transmit() -- [_process_events()] ; transmit().  The second half is written once, generically in the
   procedure that handles the queued events (run_plan), so that coq/model/ServerComp.v can run the very same
   steps with QuicServer's callbacks plugged in. *)
Inductive plan :=
| PDone (x : option Z) (extra : list Z) (s : st)                                   (* finished, no event handled *)
| PGo (extra : list Z) (s : st) (pe : bool) (gt : option Z) (evs_tx : list event). (* pe: _process_events() first; then transmit() *)

Definition prepare (s : st) (o : op) : plan :=
  match o with
  | ORecv evs gt evs_tx => PGo [] (with_evq s (evq s ++ evs)) true gt evs_tx
  | OTimer w now evs gt evs_tx =>
      if negb (memz w (ltimers s)) then PDone (Some R_INVALID) [] s else
      let s0 := mkSt (connected s) (cwait s) (pings s) (closed s) (futs s) (timer s) (timer_at s)
                     (remove_one w (ltimers s)) (ttask s) (soon s) (readers s) (wclosing s) (evq s) (dirty s) in
      match timer_at s0 with
      | None => PDone (Some X_TIMER_NONE) [] s0              (* max(None, loop.time()) *)
      | Some ta =>
          let tnow := Z.max ta now in
          PGo [tnow]
              (mkSt (connected s0) (cwait s0) (pings s0) (closed s0) (futs s0) None None
                    (ltimers s0) (ttask s0) (soon s0) (readers s0) (wclosing s0) (evq s0 ++ evs) (dirty s0))
              true gt evs_tx
      end
  | ORunSoon gt evs_tx =>
      match soon s with
      | O => PDone (Some R_INVALID) [] s
      | S n =>
          PGo [] (mkSt (connected s) (cwait s) (pings s) (closed s) (futs s) (timer s) (timer_at s)
                       (ltimers s) (ttask s) n (readers s) (wclosing s) (evq s) (dirty s)) false gt evs_tx
      end
  | OTransmit gt evs_tx => PGo [] s false gt evs_tx
  | OClose gt evs_tx => PGo [] s false gt evs_tx
  | OPing uid gt evs_tx =>
      if closed s then PDone (Some X_CONNECTION_ERROR) [] s else     (* raise ConnectionError before anything else *)
      let i := length (futs s) in
      PGo [] (with_pings (with_futs s (futs s ++ [FPending])) (ping_set uid i (pings s))) false gt evs_tx
  | OWaitConnected =>
      match cwait s with
      | Some _ => PDone (Some X_ALREADY_AWAITING) [] s
      | None =>
          if connected s then PDone None [1] s              (* returns at once *)
          else if closed s then PDone (Some X_CONNECTION_ERROR) [] s
          else PDone None [0] (with_cwait (with_futs s (futs s ++ [FPending])) (Some (length (futs s))))
      end
  | OWrite sid => PDone None [] (transmit_soon (set_dirty s))
  | OWriteEof sid =>
      if memz sid (wclosing s) then PDone None [] s else
      let s1 := mkSt (connected s) (cwait s) (pings s) (closed s) (futs s) (timer s) (timer_at s) (ltimers s)
                     (ttask s) (soon s) (readers s) (wclosing s ++ [sid]) (evq s) true in
      PDone None [] (transmit_soon s1)
  | OCreateStream sid =>
      (* a new reader replaces the dict entry; a new QuicStreamAdapter (with _closing = False) is
         what the application now holds for this stream id *)
      let s1 := mkSt (connected s) (cwait s) (pings s) (closed s) (futs s) (timer s) (timer_at s) (ltimers s)
                     (ttask s) (soon s) (readers s) (filter (fun x => negb (x =? sid)) (wclosing s)) (evq s) (dirty s) in
      PDone None [] (with_readers s1 (rd_set (mkReader sid [] (closed s)) (readers s1)))   (* feed_eof() if _closed is set *)
  | OTransmitSoon => PDone None [] (transmit_soon s)
  end.

(* proc w s = _process_events() in a world w (the objects the handlers act on);
   txh w evs_tx = what datagrams_to_send() does to the world (ghost bookkeeping only).
   An exception inside the first _process_events() skips transmit(); with fx the second drain runs after
   transmit_core, i.e. after the timer has been re-armed. *)
Definition run_plan {W : Type} (proc : W -> st -> option Z * W * st) (txh : W -> list event -> W)
                    (fx : bool) (w : W) (pl : plan) : option Z * list Z * W * st :=
  match pl with
  | PDone x extra s => (x, extra, w, s)
  | PGo extra s pe gt evs_tx =>
      let '(x1, w1, s1) := if pe then proc w s else (None, w, s) in
      match x1 with
      | Some x => (Some x, extra, w1, s1)                 (* transmit() is skipped *)
      | None =>
          let s2 := transmit_core s1 gt evs_tx in
          let w2 := txh w1 evs_tx in
          if fx then let '(x2, w3, s3) := proc w2 s2 in (x2, extra, w3, s3)
          else (None, extra, w2, s2)
      end
  end.

(* stand-alone adapter: the outcomes of the three server callbacks are data carried by the events *)
Definition proc0 (w : unit) (s : st) : option Z * unit * st :=
  let '(x, s') := process_events s in (x, w, s').

Definition step (fx : bool) (s : st) (o : op) : option Z * list Z * st :=
  let '(x, extra, _, s') := run_plan proc0 (fun w _ => w) fx tt (prepare s o) in (x, extra, s').

Fixpoint run (fx : bool) (s : st) (ops : list op) : st :=
  match ops with
  | [] => s
  | o :: t => let '(_, _, s') := step fx s o in run fx s' t
  end.

(* ---------- executable interface ------------------------------------------------------------------
   first token: fx (0 = transmit() does not drain the event queue, 1 = it does), then the ops.
   events:  n then per event: 0 | 1 hx | 2 uid | 3 sid fin len bytes.. | 4 cid hx | 5 cid hx | 6
   option:  0 | 1 v
   ops: 0 evs gt evs_tx | 1 w now evs gt evs_tx | 2 gt evs_tx | 3 gt evs_tx | 4 gt evs_tx | 5 uid gt evs_tx
        | 6 | 7 sid | 8 sid | 9 sid | 10
   output per op: exception kind (0 = none), n extra.., then the observable state (obs_st). *)
Fixpoint tk_events (n : nat) (t : list Z) : list event * list Z :=
  match n with
  | O => ([], t)
  | S n =>
      match t with
      | 0 :: t => let '(l, t) := tk_events n t in (EvHandshake :: l, t)
      | 1 :: hx :: t => let '(l, t) := tk_events n t in (EvTerminated hx :: l, t)
      | 2 :: uid :: t => let '(l, t) := tk_events n t in (EvPingAck uid :: l, t)
      | 3 :: sid :: fin :: t =>
          let '(d, t) := tk_list t in
          let '(l, t) := tk_events n t in (EvStream sid d (z2b fin) :: l, t)
      | 4 :: cid :: hx :: t => let '(l, t) := tk_events n t in (EvCidIssued cid hx :: l, t)
      | 5 :: cid :: hx :: t => let '(l, t) := tk_events n t in (EvCidRetired cid hx :: l, t)
      | 6 :: t => let '(l, t) := tk_events n t in (EvOther :: l, t)
      | _ => ([], [])
      end
  end.

Definition tk_evs (t : list Z) : list event * list Z :=
  match t with
  | n :: t => tk_events (Z.to_nat n) t
  | [] => ([], [])
  end.

Definition tk_tx (t : list Z) : option Z * list event * list Z :=
  let '(gt, t) := tk_opt t in
  let '(e, t) := tk_evs t in
  (gt, e, t).

Definition tk_op (t : list Z) : option (op * list Z) :=
  match t with
  | 0 :: t => let '(evs, t) := tk_evs t in let '(gt, e, t) := tk_tx t in Some (ORecv evs gt e, t)
  | 1 :: w :: now :: t => let '(evs, t) := tk_evs t in let '(gt, e, t) := tk_tx t in Some (OTimer w now evs gt e, t)
  | 2 :: t => let '(gt, e, t) := tk_tx t in Some (ORunSoon gt e, t)
  | 3 :: t => let '(gt, e, t) := tk_tx t in Some (OTransmit gt e, t)
  | 4 :: t => let '(gt, e, t) := tk_tx t in Some (OClose gt e, t)
  | 5 :: uid :: t => let '(gt, e, t) := tk_tx t in Some (OPing uid gt e, t)
  | 6 :: t => Some (OWaitConnected, t)
  | 7 :: sid :: t => Some (OWrite sid, t)
  | 8 :: sid :: t => Some (OWriteEof sid, t)
  | 9 :: sid :: t => Some (OCreateStream sid, t)
  | 10 :: t => Some (OTransmitSoon, t)
  | _ => None
  end.

Definition out_fstate (f : fstate) : Z := match f with FPending => 0 | FOk => 1 | FErr => 2 | FCancelled => 3 end.

Fixpoint out_readers (l : list reader) : list Z :=
  match l with
  | [] => []
  | r :: t => rd_sid r :: b2z (rd_eof r) :: out_list (rd_buf r) ++ out_readers t
  end.

(* observables: futures (creation order), closed, live timer handles, pending call_soon(transmit)
   handles, readers (sid, eof, buffered bytes), number of events still queued in the connection *)
Definition obs_st (s : st) : list Z :=
  out_list (map out_fstate (futs s)) ++ [b2z (closed s)] ++ out_list (ltimers s) ++ [Z.of_nat (soon s)]
  ++ [Zlen (readers s)] ++ out_readers (readers s) ++ [Zlen (evq s)].

Definition out_exn (x : option Z) : Z := match x with None => 0 | Some k => k end.

Fixpoint exec_ad (fuel : nat) (fx : bool) (s : st) (t : list Z) : list Z :=
  match fuel with O => [] | S fuel =>
  match tk_op t with
  | None => []
  | Some (o, t) =>
      let '(x, extra, s') := step fx s o in
      out_exn x :: out_list extra ++ obs_st s' ++ exec_ad fuel fx s' t
  end end.

(* EXTRACT: exec_adapter *)
Definition exec_adapter (ops : list Z) : list Z :=
  match ops with
  | [] => []
  | f :: t => exec_ad (length t) (z2b f) st_init t
  end.
