(* Offset-explicit model of pull_quic_header (src/aioquic/quic/packet.py) and of the walk over the
   coalesced packets of one datagram in QuicConnection.receive_datagram (src/aioquic/quic/connection.py).

   model/Header.v gives pull_quic_header only the bytes from the packet start to the end of the
   datagram.  The real function is handed a Buffer over the WHOLE datagram standing at the packet
   start and computes with absolute quantities:
       packet_start = buf.tell()
       token_length = buf.capacity - buf.tell() - RETRY_INTEGRITY_TAG_SIZE          (Retry)
       packet_end   = buf.tell() + rest_length ; if packet_end > buf.capacity: raise (Initial/0-RTT/Handshake)
       packet_end   = buf.tell()  after `while not buf.eof()`                       (Version Negotiation)
       packet_end   = buf.capacity                                                  (1-RTT)
       packet_length = packet_end - packet_start
   Here the Buffer is (cap, rest): cap = buf.capacity = len(datagram), rest = datagram[pos:], so
   buf.tell() = cap - |rest|.  These definitions keep every absolute quantity as the code writes it;
   proofs/HeaderAtProofs.v shows they agree with the suffix model for EVERY capacity and start
   offset, and the tie runs them against the real function on Buffers positioned at non-zero offsets. *)
From AQ Require Import lib.Base lib.Tok model.Codec model.Varint model.Header.

(* BufferReadError("Seek out of bounds") of Buffer.seek -- the same Python class as a read error; kept
   apart here so that a theorem can say that the walk never raises it *)
Definition E_SEEK : Z := 110.

Definition tell (cap : Z) (rest : list Z) : Z := cap - Zlen rest.

(* "Check remainder length" as written: packet_end = buf.tell() + rest_length > buf.capacity *)
Definition finish_long_at (cap packet_start version ptype : Z) (dcid scid token tag : list Z)
                          (rest_length : Z) (rest : list Z) : Res (header * list Z) :=
  let packet_end := tell cap rest + rest_length in
  if packet_end >? cap then Err E_VALUE
  else Ok (mkHeader (Some version) ptype (packet_end - packet_start) dcid scid token tag [], rest).

Definition pull_quic_header_buf (host_cid_length cap : Z) (bs : list Z) : Res (header * list Z) :=
  let packet_start := tell cap bs in
  '(first, b1) <- pull_uint8 bs ;;
  if is_long_header first then
    '(version, b2) <- pull_uint32 b1 ;;
    '(dl, b3) <- pull_uint8 b2 ;;
    if dl >? CONNECTION_ID_MAX_SIZE then Err E_VALUE else
    '(dcid, b4) <- pull_bytes dl b3 ;;
    '(sl, b5) <- pull_uint8 b4 ;;
    if sl >? CONNECTION_ID_MAX_SIZE then Err E_VALUE else
    '(scid, b6) <- pull_bytes sl b5 ;;
    if version =? 0 then
      vs <- pull_versions b6 ;;
      (* the loop ran to buf.eof(): packet_end = buf.tell() = tell cap [] *)
      Ok (mkHeader (Some version) PT_VERSION_NEGOTIATION (tell cap [] - packet_start) dcid scid [] [] vs, [])
    else if negb (has_fixed_bit first) then Err E_VALUE
    else
      let ptype := decode_long_type version (Z.shiftr (Z.land first 48) 4) in
      if ptype =? PT_INITIAL then
        '(tl, b7) <- pull_uint_var b6 ;;
        '(token, b8) <- pull_bytes tl b7 ;;
        '(rl, b9) <- pull_uint_var b8 ;;
        finish_long_at cap packet_start version ptype dcid scid token [] rl b9
      else if (ptype =? PT_ZERO_RTT) || (ptype =? PT_HANDSHAKE) then
        '(rl, b7) <- pull_uint_var b6 ;;
        finish_long_at cap packet_start version ptype dcid scid [] [] rl b7
      else
        '(token, b7) <- pull_bytes (cap - tell cap b6 - RETRY_INTEGRITY_TAG_SIZE) b6 ;;
        '(tag, b8) <- pull_bytes RETRY_INTEGRITY_TAG_SIZE b7 ;;
        finish_long_at cap packet_start version ptype dcid scid token tag 0 b8
  else if negb (has_fixed_bit first) then Err E_VALUE
  else
    '(dcid, b2) <- pull_bytes host_cid_length b1 ;;
    Ok (mkHeader None PT_ONE_RTT (cap - packet_start) dcid [] [] [] [], b2).

(* Buffer.seek(pos): BufferReadError unless 0 <= pos <= capacity *)
Definition seek_ok (cap pos : Z) : bool := negb ((pos <? 0) || (pos >? cap)).

(* buf = Buffer(data=datagram); buf.seek(start); pull_quic_header(buf, host_cid_length) *)
Definition pull_quic_header_at (host_cid_length : Z) (data : list Z) (start : Z) : Res (header * list Z) :=
  if seek_ok (Zlen data) start then pull_quic_header_buf host_cid_length (Zlen data) (zdrop start data)
  else Err E_SEEK.

(* The packet boundaries receive_datagram derives:
       while not buf.eof():
           start_off = buf.tell()
           header = pull_quic_header(buf, host_cid_length)      # ValueError: drop the rest of the datagram
           ...
           end_off = start_off + header.packet_length
           buf.seek(end_off)
   result: the (start_off, end_off) pairs in order and how the loop ended: 0 = buf.eof(), otherwise the
   kind of the exception (E_READ / E_VALUE from the header parser, E_SEEK from buf.seek). *)
Fixpoint walk (fuel : nat) (hcl : Z) (data : list Z) (start : Z) : list (Z * Z) * Z :=
  match fuel with
  | O => ([], 0)
  | S f =>
      if start >=? Zlen data then ([], 0)
      else match pull_quic_header_at hcl data start with
           | Err k => ([], k)
           | Ok (h, _) =>
               let end_off := start + h_length h in
               if seek_ok (Zlen data) end_off then
                 let '(tl, st) := walk f hcl data end_off in ((start, end_off) :: tl, st)
               else ([(start, end_off)], E_SEEK)
           end
  end.

(* every accepted packet is at least one byte long (header_pull_progress), so the loop runs at most
   |datagram| times *)
Definition receive_walk (hcl : Z) (data : list Z) : list (Z * Z) * Z := walk (S (length data)) hcl data 0.

(* ---------- executable interface -------------------------------------------------------
     0 hcl start n b..      pull_quic_header on Buffer(data=b) after buf.seek(start):
                            header fields, packet_length, ABSOLUTE buf.tell() afterwards
     1 hcl n b..            receive walk: k s1 e1 .. sk ek status *)
Definition out_header_at (cap : Z) (p : header * list Z) : list Z :=
  let '(h, rest) := p in
  out_opt (h_version h) ++ [h_type h; h_length h] ++ out_bytes (h_dcid h) ++ out_bytes (h_scid h) ++
  out_bytes (h_token h) ++ out_bytes (h_tag h) ++ out_bytes (h_versions h) ++ [tell cap rest].

Definition out_walk (r : list (Z * Z) * Z) : list Z :=
  let '(l, st) := r in
  Zlen l :: flat_map (fun p => [fst p; snd p]) l ++ [st].

Definition exec_quic_header_at (toks : list Z) : list Z :=
  match toks with
  | 0 :: hcl :: start :: t =>
      let '(bs, _) := tk_list t in out_res (out_header_at (Zlen bs)) (pull_quic_header_at hcl bs start)
  | 1 :: hcl :: t =>
      let '(bs, _) := tk_list t in 0 :: out_walk (receive_walk hcl bs)
  | _ => []
  end.
(* EXTRACT: exec_quic_header_at *)
