(* C12, composition of the datagram receive path with the acknowledgement bookkeeping.

   model/AckQueue.v has ONE packet number space and takes "this packet was decrypted and processed, it carried these
   acknowledgements of our ACK frames" as one atomic op.  model/ConnDgram.v (C05) / model/PacketRecv.v (C02) have the
   receive path of QuicConnection.receive_datagram -- decryption verdict, reserved bits, the payload inside
   `try ... except QuicConnectionError: self.close(...)`, the gate -- but no packet-number or ACK state.  This file puts the
   two together for what happens to ONE received packet AFTER its header was parsed and routed:

     gate       `if self._state in END_STATES or self._close_pending: return`                       (top of the call)
     decrypt    crypto.decrypt_packet(..., space.expected_packet_number): an ORACLE verdict per packet -- KeyUnavailableError
                / CryptoError (`continue`: nothing changes) or plaintext with a packet number and the reserved bits
     reserved   `if plain_header[0] & reserved_mask: self.close(PROTOCOL_VIOLATION ...); return`
     expected   `if packet_number > space.expected_packet_number: space.expected_packet_number = packet_number + 1`
     payload    _payload_received: the frame loop, as the sequence of EFFECTS the handlers have on the acknowledgement state:
                  FxAck h      one call _on_ack_delivery(ACKED, space, h) made by _loss.on_ack_received while an ACK frame of
                               the packet is handled: the peer acknowledges one of OUR ACK-bearing packets of this space;
                               `space.ack_queue.subtract(0, h + 1)` runs NOW, in the middle of payload processing.  The
                               handler exists only for ACK frames that were written (handler_args of start_frame):
                               an h that no written frame carries has no handler and does nothing
                  FxComplete   the TLS handshake completes (_handshake_complete = True)
                  FxDiscard j  _discard_epoch(j) (server: Initial when a Handshake packet is decrypted -- before the
                               payload --, Handshake when the handshake completes; client: Handshake at HANDSHAKE_DONE)
                  FxPeerClose  CONNECTION_CLOSE frame: _close_begin -> DRAINING (the loop goes on)
                  FxFrame e    a frame handler returned; e = frame type not in NON_ACK_ELICITING_FRAME_TYPES
                  FxError      QuicConnectionError raised (by a handler, the frame-type checks, or the checks after the
                               loop): the rest of the payload is not processed
                a payload in which no frame was handled raises ("Packet contains no frames")
     close      `except QuicConnectionError: self.close(...)`
     gate       `if self._state in END_STATES or self._close_pending: return`
     tail       "record packet as received", under `if not space.discarded:`, IN THIS ORDER: largest_received_packet/_time,
                `space.ack_queue.add(packet_number)`, `ack_at = now + _ack_delay` if ack-eliciting and unarmed, the
                MAX_ACK_RANGES rule (CAP_ACK_NOW)

   The order of these steps is DATA: [recv_ord ord] interprets a list of events; [code_order] is the order of the code
   (tied to the source by gen/C12RecvOrder.v + proofs/RecvAckP.v recv_order_as_modelled), [first_order] is the variant
   "ack_queue.add right after decryption, before the payload" (seeded/C05/seed3) for which the central invariant is false.
   Send side: AckQueue.send (the ACK branch of _write_application / _write_handshake + _write_ack_frame), per space.
   The three spaces of a connection are [AckQueue.space] records (the connection flags complete / closing are kept in every
   space, updated together), each with its expected_packet_number.  No proofs in this file. *)
From AQ Require Import lib.Base lib.Tok model.Codec model.Varint model.RangeSet model.AckFrame gen.C12Consts model.AckQueue.

Inductive sid := SInitial | SHandshake | SApp.
Definition sid_eqb (a b : sid) : bool :=
  match a, b with SInitial, SInitial | SHandshake, SHandshake | SApp, SApp => true | _, _ => false end.
Definition sid_of (z : Z) : sid := if z =? 0 then SInitial else if z =? 1 then SHandshake else SApp.

Record rsp := mkRS { sp : space; expd : Z (* expected_packet_number *) }.
Definition rconn := (rsp * rsp * rsp)%type.
Definition rinit : rconn := (mkRS (init false) 0, mkRS (init false) 0, mkRS (init true) 0).

Definition rget (c : rconn) (i : sid) : rsp :=
  let '(a, b, d) := c in match i with SInitial => a | SHandshake => b | SApp => d end.
Definition rupd (c : rconn) (i : sid) (f : rsp -> rsp) : rconn :=
  let '(a, b, d) := c in match i with SInitial => (f a, b, d) | SHandshake => (a, f b, d) | SApp => (a, b, f d) end.
Definition rall (c : rconn) (f : rsp -> rsp) : rconn := let '(a, b, d) := c in (f a, f b, f d).
Definition on_sp (f : space -> space) (r : rsp) : rsp := mkRS (f (sp r)) (expd r).
Definition spc (c : rconn) (i : sid) : space := sp (rget c i).

(* ---- the decryption verdict and the payload ------------------------------------------------------------------ *)
Inductive verdict :=
| VKeyUnavailable                       (* KeyUnavailableError: dropped *)
| VCryptoError                          (* CryptoError (AEAD / header protection): dropped *)
| VPlain (pn : Z) (reserved : bool).    (* decrypted: packet_number, plain_header[0] & reserved_mask != 0 *)

Inductive fx :=
| FxAck (h : Z)
| FxComplete
| FxDiscard (j : sid)
| FxPeerClose
| FxFrame (elic : bool)
| FxError.

(* the delivery handler (self._on_ack_delivery, (space, h)) exists iff an ACK frame with that argument was written *)
Definition known_handler (s : space) (h : Z) : bool := existsb (fun f => snd f =? h) (frames s).

Definition ack_of (s : space) (h : Z) : Res space :=
  if known_handler s h then q <- deliver (aq s) h ;; Ok (set_aq s q) else Ok s.

Definition fx_apply (c : rconn) (i : sid) (f : fx) : Res rconn :=
  match f with
  | FxAck h => s' <- ack_of (spc c i) h ;; Ok (rupd c i (on_sp (fun _ => s')))
  | FxComplete => Ok (rall c (on_sp set_complete))
  | FxDiscard j => Ok (rupd c j (on_sp discard))
  | FxPeerClose => Ok (rall c (on_sp set_closing))
  | FxFrame _ | FxError => Ok c
  end.

(* _payload_received: (state, is_ack_eliciting, a QuicConnectionError was raised) *)
Fixpoint payload_loop (c : rconn) (i : sid) (fs : list fx) (elic found : bool) : Res (rconn * bool * bool) :=
  match fs with
  | [] => Ok (c, elic, negb found)
  | FxError :: _ => Ok (c, elic, true)
  | FxFrame e :: t => payload_loop c i t (elic || e) true
  | f :: t => c' <- fx_apply c i f ;; payload_loop c' i t elic found
  end.
Definition payload_received (c : rconn) (i : sid) (fs : list fx) : Res (rconn * bool * bool) :=
  payload_loop c i fs false false.

(* ---- the tail, statement by statement (all under `if not space.discarded`) ----------------------------------------- *)
(* `if packet_number > space.largest_received_packet: largest_received_packet = packet_number; largest_received_time = now`
   (+ the ghost list [owed] of AckQueue.record) *)
Definition st_largest (s : space) (pn : Z) (elic : bool) (t : Z) : space :=
  let newl := pn >? lrp s in
  mkSp (app s) (aq s) (ack_at s) (if newl then pn else lrp s) (if newl then t else lrt s) (disc s) (complete s) (closing s)
       (rcvd s) (if elic && newl && (negb (app s) || complete s) then (pn, t) :: owed s else owed s) (frames s) (clk s).
(* `space.ack_queue.add(packet_number)` (+ the ghost list [rcvd]) *)
Definition st_add (s : space) (pn : Z) : space :=
  mkSp (app s) (add pn (pn + 1) (aq s)) (ack_at s) (lrp s) (lrt s) (disc s) (complete s) (closing s)
       (pn :: rcvd s) (owed s) (frames s) (clk s).
Definition set_ack_at (s : space) (a : option Z) : space :=
  mkSp (app s) (aq s) a (lrp s) (lrt s) (disc s) (complete s) (closing s) (rcvd s) (owed s) (frames s) (clk s).
(* `if is_ack_eliciting and space.ack_at is None: space.ack_at = now + self._ack_delay` *)
Definition st_arm (s : space) (elic : bool) (t d : Z) : space :=
  set_ack_at s (if elic then match ack_at s with None => Some (t + d) | Some a => Some a end else ack_at s).
(* `if space.ack_at is not None and len(space.ack_queue) >= MAX_ACK_RANGES: space.ack_at = min(space.ack_at, now)` *)
Definition st_cap (s : space) (t : Z) : space :=
  set_ack_at s (cap_now (CAP_ACK_NOW && (Zlen (aq s) >=? MAX_ACK_RANGES)) t (ack_at s)).

Definition guarded (f : space -> space) (s : space) : space := if disc s then s else f s.

(* the four statements in the order of the code (= AckQueue.record: proofs/RecvAckP.v tail_record) *)
Definition tail (s : space) (pn : Z) (elic : bool) (t d : Z) : space :=
  guarded (fun s => st_cap s t) (guarded (fun s => st_arm s elic t d) (guarded (fun s => st_add s pn)
    (guarded (fun s => st_largest s pn elic t) s))).

(* ---- one packet as a list of events ------------------------------------------------------------------------------- *)
Inductive ev := EvGate | EvDecrypt | EvReserved | EvExpected | EvPayload | EvLargest | EvAdd | EvArm | EvCap.

Record pctx := mkP {
  p_c : rconn;
  p_live : bool;       (* false once the packet was dropped (`continue`) or the call returned *)
  p_pn : Z;            (* packet_number, assigned by EvDecrypt *)
  p_elic : bool        (* is_ack_eliciting, assigned by EvPayload *)
}.
Definition p_dead (x : pctx) (c : rconn) : pctx := mkP c false (p_pn x) (p_elic x).
Definition p_with (x : pctx) (c : rconn) : pctx := mkP c (p_live x) (p_pn x) (p_elic x).

Definition ev_step (i : sid) (v : verdict) (fs : list fx) (t d : Z) (x : pctx) (e : ev) : Res pctx :=
  if negb (p_live x) then Ok x else
  let c := p_c x in
  match e with
  | EvGate => Ok (if closing (spc c i) then p_dead x c else x)
  | EvDecrypt => Ok (match v with VPlain pn _ => mkP c true pn (p_elic x) | _ => p_dead x c end)
  | EvReserved => Ok (match v with VPlain _ true => p_dead x (rall c (on_sp set_closing)) | _ => x end)
  | EvExpected =>
      Ok (p_with x (rupd c i (fun r => mkRS (sp r) (if p_pn x >? expd r then p_pn x + 1 else expd r))))
  | EvPayload =>
      r <- payload_received (rupd c i (on_sp (fun s => set_clk s t))) i fs ;;
      let '(c', elic, raised) := r in
      Ok (mkP (if raised then rall c' (on_sp set_closing) else c') true (p_pn x) elic)
  | EvLargest => Ok (p_with x (rupd c i (on_sp (guarded (fun s => st_largest s (p_pn x) (p_elic x) t)))))
  | EvAdd => Ok (p_with x (rupd c i (on_sp (guarded (fun s => st_add s (p_pn x))))))
  | EvArm => Ok (p_with x (rupd c i (on_sp (guarded (fun s => st_arm s (p_elic x) t d)))))
  | EvCap => Ok (p_with x (rupd c i (on_sp (guarded (fun s => st_cap s t)))))
  end.

Fixpoint ev_run (i : sid) (v : verdict) (fs : list fx) (t d : Z) (x : pctx) (ord : list ev) : Res pctx :=
  match ord with
  | [] => Ok x
  | e :: r => x' <- ev_step i v fs t d x e ;; ev_run i v fs t d x' r
  end.

Definition recv_ord (ord : list ev) (c : rconn) (i : sid) (v : verdict) (fs : list fx) (t d : Z) : Res rconn :=
  x <- ev_run i v fs t d (mkP c true 0 false) ord ;; Ok (p_c x).

(* the order of the code.  The MAX_ACK_RANGES rule is the last statement of the tail; on a tree without it
   (CAP_ACK_NOW = false) st_cap is the identity and the source lists no such event: [source_order] *)
Definition code_order : list ev :=
  [EvGate; EvDecrypt; EvReserved; EvExpected; EvPayload; EvGate; EvLargest; EvAdd; EvArm; EvCap].
(* the variant: the packet number is queued right after decryption, scheduling stays after the payload *)
Definition first_order : list ev :=
  [EvGate; EvDecrypt; EvReserved; EvExpected; EvAdd; EvPayload; EvGate; EvLargest; EvArm; EvCap].

Definition recv_packet := recv_ord code_order.
Definition recv_record_first := recv_ord first_order.

(* what gen/C12RecvOrder.v lists for each event: (event code, guard code) *)
Definition ev_code (e : ev) : Z * Z :=
  match e with
  | EvGate => (1, 10)        (* return  under  `self._state in END_STATES or self._close_pending` *)
  | EvDecrypt => (2, 0)      (* crypto.decrypt_packet(...) inside try/except KeyUnavailableError, CryptoError: continue *)
  | EvReserved => (3, 11)    (* close + return  under  `plain_header[0] & reserved_mask` *)
  | EvExpected => (4, 12)    (* under `packet_number > space.expected_packet_number` *)
  | EvPayload => (5, 13)     (* self._payload_received(...) inside try/except QuicConnectionError: self.close(...) *)
  | EvLargest => (6, 21)     (* under `not space.discarded` and `packet_number > space.largest_received_packet` *)
  | EvAdd => (7, 20)         (* space.ack_queue.add(packet_number) under `not space.discarded` *)
  | EvArm => (8, 22)         (* under `not space.discarded` and `is_ack_eliciting and space.ack_at is None` *)
  | EvCap => (9, 23)         (* under `not space.discarded` and the MAX_ACK_RANGES test *)
  end.
(* what the generator must find in receive_datagram for [ord] to be the order of the code *)
Definition source_order (ord : list ev) : list (Z * Z) :=
  map ev_code (if CAP_ACK_NOW then ord else filter (fun e => match e with EvCap => false | _ => true end) ord).

(* ---- connection-level operations --------------------------------------------------------------------------------------- *)
Inductive cop :=
| CPacket (i : sid) (v : verdict) (fs : list fx) (t d : Z)     (* one packet of a received datagram *)
| CSend (i : sid) (t delay room : Z) (blocked : bool)          (* the ACK part of datagrams_to_send for space i *)
| CComplete                                                    (* handshake completion outside a payload *)
| CDiscard (j : sid)                                           (* _discard_epoch outside a payload (datagrams_to_send, _close_end) *)
| CClose                                                       (* close() by the application / idle timeout *)
| CReinit.                                                     (* _initialize(): fresh QuicPacketSpace objects (Retry, version negotiation) *)

Definition reinit (r : rsp) : rsp :=
  let s := sp r in
  mkRS (mkSp (app s) [] None (-1) 0 false (complete s) (closing s) [] [] [] (clk s)) 0.

Inductive cout := CDone | CExn (k : Z) | CSent (r : sres).

Definition cstep_ord (ord : list ev) (c : rconn) (o : cop) : cout * rconn :=
  match o with
  | CPacket i v fs t d => match recv_ord ord c i v fs t d with Ok c' => (CDone, c') | Err k => (CExn k, c) end
  | CSend i t delay room blocked =>
      let '(r, s') := send (spc c i) t delay room blocked in (CSent r, rupd c i (on_sp (fun _ => s')))
  | CComplete => (CDone, rall c (on_sp set_complete))
  | CDiscard j => (CDone, rupd c j (on_sp discard))
  | CClose => (CDone, rall c (on_sp set_closing))
  | CReinit => (CDone, rall c reinit)
  end.
Definition cstep := cstep_ord code_order.
Definition cstep_first := cstep_ord first_order.

Fixpoint crun_ord (ord : list ev) (c : rconn) (ops : list cop) : rconn :=
  match ops with [] => c | o :: t => crun_ord ord (snd (cstep_ord ord c o)) t end.
Definition crun := crun_ord code_order.

(* ---------- executable interface -----------------------------------------------------------------
   input: ops, each preceded by the index of the space (0 Initial, 1 Handshake, 2 application; ignored by 0, 4, 6)
     i 0                                 handshake complete
     i 1 v pn rsv t d n (k a)*n          one packet: v = 0 plaintext | 1 KeyUnavailableError | 2 CryptoError; effects
                                         (k a): 0 h FxAck | 1 e FxFrame | 2 _ FxComplete | 3 j FxDiscard | 4 _ FxPeerClose |
                                         5 _ FxError
     i 2 t delay room blocked            the ACK part of datagrams_to_send
     i 3                                 discard space i
     i 4                                 close()
     i 6                                 _initialize()
     i 7                                 print ack_at (0 | 1 v), largest_received_packet, expected_packet_number,
                                         ack_queue (count, start stop ...) of space i
   output per op (other than 7): 0 done | 1 k exception | as AckQueue.out_sres for a send *)
Definition robs (r : rsp) : list Z := out_opt (ack_at (sp r)) ++ [lrp (sp r); expd r] ++ dump (aq (sp r)).

Definition out_cout (o : cout) : list Z :=
  match o with CDone => [0] | CExn k => [1; k] | CSent r => out_sres r end.

Fixpoint tk_fxs (l : list Z) : list fx :=
  match l with
  | k :: a :: t =>
      (if k =? 0 then FxAck a else if k =? 1 then FxFrame (z2b a) else if k =? 2 then FxComplete
       else if k =? 3 then FxDiscard (sid_of a) else if k =? 4 then FxPeerClose else FxError) :: tk_fxs t
  | _ => []
  end.

Definition tk_verdict (v pn rsv : Z) : verdict :=
  if v =? 0 then VPlain pn (z2b rsv) else if v =? 1 then VKeyUnavailable else VCryptoError.

Fixpoint exec_ra_loop (fuel : nat) (c : rconn) (toks : list Z) : list Z :=
  match fuel with O => [] | S fuel =>
  match toks with
  | _ :: 0 :: t => let '(o, c') := cstep c CComplete in out_cout o ++ exec_ra_loop fuel c' t
  | i :: 1 :: v :: pn :: rsv :: tm :: d :: n :: t =>
      let '(ft, t1) := tk_take (2 * n) t in
      let '(o, c') := cstep c (CPacket (sid_of i) (tk_verdict v pn rsv) (tk_fxs ft) tm d) in
      out_cout o ++ exec_ra_loop fuel c' t1
  | i :: 2 :: tm :: delay :: room :: blocked :: t =>
      let '(o, c') := cstep c (CSend (sid_of i) tm delay room (z2b blocked)) in out_cout o ++ exec_ra_loop fuel c' t
  | i :: 3 :: t => let '(o, c') := cstep c (CDiscard (sid_of i)) in out_cout o ++ exec_ra_loop fuel c' t
  | _ :: 4 :: t => let '(o, c') := cstep c CClose in out_cout o ++ exec_ra_loop fuel c' t
  | _ :: 6 :: t => let '(o, c') := cstep c CReinit in out_cout o ++ exec_ra_loop fuel c' t
  | i :: 7 :: t => robs (rget c (sid_of i)) ++ exec_ra_loop fuel c t
  | _ => []
  end end.

(* EXTRACT: exec_recvack *)
Definition exec_recvack (toks : list Z) : list Z := exec_ra_loop (length toks) rinit toks.
