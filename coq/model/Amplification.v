(* Model of the anti-amplification ledger of QuicConnection (src/aioquic/quic/connection.py):
   QuicNetworkPath (bytes_received, bytes_sent, is_validated), receive_datagram's accounting and path
   registration / validation / promotion, datagrams_to_send's budget for the packet builder.

   _network_paths is a list whose head is the path every datagram of a send round goes to.
   What the packet handlers decide (packet dropped / processed, epoch, probing, packet-number
   freshness, PATH_RESPONSE matching) is input to the model as a [fate] per packet. *)
From AQ Require Import lib.Base lib.Tok gen.C13Consts model.Builder.

Record path := mkPath { pa_addr : Z; pa_recv : Z; pa_sent : Z; pa_valid : bool }.

(* per packet of a received datagram *)
Inductive fate :=
| FDrop                                       (* dropped before "update network path" (or connection closing) *)
| FFirst                                      (* server in FIRSTFLIGHT: self._network_paths = [network_path] *)
| FProcess (handshake : bool)                 (* epoch == HANDSHAKE: validates the path *)
           (promote : bool)                   (* not probing and packet_number > largest_received *)
           (resp : option Z).                 (* PATH_RESPONSE matching a challenge sent for path addr *)

Inductive aop :=
| ARecv (addr n : Z) (fates : list fate)      (* receive_datagram(data, addr) with len(data) = n *)
| ARecvPending (addr n : Z)                   (* receive_datagram while _close_pending: returns at once, nothing is
                                                 counted (fix 54d8ff0; before, the bytes were counted) *)
| ASend (mf : option Z) (ops : list op)       (* datagrams_to_send, normal branch: builder ops, then flush *)
| AClose (ops : list op)                      (* datagrams_to_send with _close_pending: no budgets are set *)
| ATerm.                                      (* idle timeout / close received: the connection enters an END state *)

Fixpoint find_path (addr : Z) (ps : list path) : option path :=
  match ps with
  | [] => None
  | p :: t => if pa_addr p =? addr then Some p else find_path addr t
  end.

Fixpoint update_path (q : path) (ps : list path) : list path :=   (* replace the first path with q's address *)
  match ps with
  | [] => []
  | p :: t => if pa_addr p =? pa_addr q then q :: t else p :: update_path q t
  end.

Fixpoint remove_path (addr : Z) (ps : list path) : list path :=
  match ps with
  | [] => []
  | p :: t => if pa_addr p =? addr then t else p :: remove_path addr t
  end.

Definition validate (addr : Z) (ps : list path) : list path :=
  match find_path addr ps with
  | Some p => update_path (mkPath (pa_addr p) (pa_recv p) (pa_sent p) true) ps
  | None => ps
  end.

Definition head_addr (ps : list path) : option Z :=
  match ps with p :: _ => Some (pa_addr p) | [] => None end.

(* The path object [cur] found/created for this datagram; [ps] the registered paths.  One packet. *)
Definition apply_fate (ps : list path) (cur : path) (f : fate) : list path * path :=
  match f with
  | FDrop => (ps, cur)
  | FFirst => ([cur], cur)
  | FProcess hs promote resp =>
      (* PATH_RESPONSE handler runs inside _payload_received, before the path update *)
      let ps := match resp with Some a => validate a ps | None => ps end in
      let cur := match resp with
                 | Some a => if a =? pa_addr cur then mkPath (pa_addr cur) (pa_recv cur) (pa_sent cur) true else cur
                 | None => cur end in
      let cur := if negb (pa_valid cur) && hs then mkPath (pa_addr cur) (pa_recv cur) (pa_sent cur) true else cur in
      let ps := match find_path (pa_addr cur) ps with
                | Some _ => update_path cur ps
                | None => ps ++ [cur] end in
      let ps := match head_addr ps with
                | Some a => if negb (a =? pa_addr cur) && promote then cur :: remove_path (pa_addr cur) ps else ps
                | None => ps end in
      (ps, cur)
  end.

Fixpoint apply_fates (ps : list path) (cur : path) (fs : list fate) : list path :=
  match fs with
  | [] => ps
  | f :: t => let '(ps', cur') := apply_fate ps cur f in apply_fates ps' cur' t
  end.

Definition recv (ps : list path) (addr n : Z) (fs : list fate) : list path :=
  let cur := match find_path addr ps with Some p => p | None => mkPath addr 0 0 false end in
  let cur := if pa_valid cur then cur else mkPath (pa_addr cur) (pa_recv cur + n) (pa_sent cur) (pa_valid cur) in
  (* the count is made on the path object; for a registered path it is visible at once *)
  let ps := match find_path addr ps with Some _ => update_path cur ps | None => ps end in
  apply_fates ps cur fs.

(* bytes_sent accounting of one send round returning datagrams of lengths [lens] *)
Definition send_lens (ps : list path) (lens : list Z) : list path :=
  match ps with
  | p :: t => mkPath (pa_addr p) (pa_recv p) (pa_sent p + zsum lens) (pa_valid p) :: t
  | [] => []
  end.

(* builder.max_total_bytes as configured by datagrams_to_send for the head path *)
Definition budget (ps : list path) : option Z :=
  match ps with
  | p :: _ => if pa_valid p then None else Some (pa_recv p * AMPLIFICATION_FACTOR - pa_sent p)
  | [] => None
  end.

(* connection-level constants of the builder configuration *)
Record acfg := mkAcfg { a_client : bool; a_mds : Z; a_peer : Z; a_host : Z; a_token : Z; a_cmax : option Z }.

(* the builder configuration of one send round *)
Definition bcfg (a : acfg) (mf mt : option Z) : cfg :=
  mkCfg (a_client a) (a_mds a) (a_peer a) (a_host a) (a_token a) mf mt (a_cmax a).

Definition round_lens (a : acfg) (mf mt : option Z) (ops : list op) : list Z :=
  let c := bcfg a mf mt in
  snd (run c (init_st c 0) (ops ++ [OpFlush])).

(* connection state relevant here: the registered paths and whether the connection has entered an END state
   (after the _close_pending round: datagrams_to_send returns [] and receive_datagram returns at once) *)
Record ast := mkAst { as_paths : list path; as_closed : bool }.

Definition astep (a : acfg) (s : ast) (o : aop) : ast :=
  if as_closed s then s else
  let ps := as_paths s in
  match o with
  | ARecv addr n fs => mkAst (recv ps addr n fs) false
  | ARecvPending _ _ => s
  | ASend mf ops => mkAst (send_lens ps (round_lens a mf (budget ps) ops)) false
  | AClose ops => mkAst (send_lens ps (round_lens a None None ops)) true
  | ATerm => mkAst ps true
  end.

Fixpoint arun (a : acfg) (s : ast) (l : list aop) : ast :=
  match l with [] => s | o :: t => arun a (astep a s o) t end.

(* well-formed histories: datagram lengths are non-negative; send rounds obey the caller discipline *)
Definition aop_ok (a : acfg) (s : ast) (o : aop) : bool :=
  as_closed s ||
  match o with
  | ARecv _ n _ => 0 <=? n
  | ARecvPending _ n => 0 <=? n
  | ASend mf ops =>
      let c := bcfg a mf (budget (as_paths s)) in
      disciplined c (init_st c 0) (ops ++ [OpFlush])
  | AClose _ | ATerm => true
  end.

Definition is_close (o : aop) : bool := match o with AClose _ => true | _ => false end.

Fixpoint aok (a : acfg) (s : ast) (l : list aop) : bool :=
  match l with [] => true | o :: t => aop_ok a s o && aok a (astep a s o) t end.

(* ---------- executable interface (ledger bookkeeping only; send rounds are given by their observed
   datagram lengths) -------------------------------------------------------------------------
   input: k (addr recv sent valid)*k   then ops
     0 addr n  m (fate)*m     fate = 0 | 2 | 1 hs promote (0 | 1 addr)
     1 m len*m                a send round (budgeted branch) that returned datagrams of these lengths
     2 m len*m                a send round taken through the _close_pending branch
     3                        the connection terminated (ConnectionTerminated event)
   output per op: for op 1 the budget configured (0 | 1 v), then the path list: k (addr recv sent valid)*k *)
Definition out_paths (ps : list path) : list Z :=
  Zlen ps :: flat_map (fun p => [pa_addr p; pa_recv p; pa_sent p; b2z (pa_valid p)]) ps.

Fixpoint rd_fates (n : nat) (t : list Z) : list fate * list Z :=
  match n with O => ([], t) | S n =>
    match t with
    | 0 :: r => let '(fs, r') := rd_fates n r in (FDrop :: fs, r')
    | 2 :: r => let '(fs, r') := rd_fates n r in (FFirst :: fs, r')
    | _ :: hs :: pr :: r =>
        let '(ro, r) := tk_opt r in
        let '(fs, r') := rd_fates n r in (FProcess (z2b hs) (z2b pr) ro :: fs, r')
    | _ => ([], [])
    end
  end.

Fixpoint rd_paths (n : nat) (t : list Z) : list path * list Z :=
  match n with O => ([], t) | S n =>
    match t with
    | a :: r :: s :: v :: rest => let '(ps, rest') := rd_paths n rest in (mkPath a r s (z2b v) :: ps, rest')
    | _ => ([], [])
    end
  end.

Fixpoint exec_aops (fuel : nat) (ps : list path) (closed : bool) (t : list Z) : list Z :=
  match fuel with O => [] | S fuel =>
  match t with
  | 0 :: addr :: n :: m :: r =>
      let '(fs, r) := rd_fates (Z.to_nat m) r in
      let ps' := if closed then ps else recv ps addr n fs in
      out_paths ps' ++ exec_aops fuel ps' closed r
  | 1 :: r =>
      let '(lens, r) := tk_list r in
      let ps' := if closed then ps else send_lens ps lens in
      out_opt (budget ps) ++ out_paths ps' ++ exec_aops fuel ps' closed r
  | 2 :: r =>
      let '(lens, r) := tk_list r in
      let ps' := if closed then ps else send_lens ps lens in
      out_paths ps' ++ exec_aops fuel ps' true r
  | 3 :: r => exec_aops fuel ps true r
  | 4 :: addr :: n :: r => out_paths ps ++ exec_aops fuel ps closed r
  | _ => []
  end end.

(* EXTRACT: exec_amplification *)
Definition exec_amplification (toks : list Z) : list Z :=
  match toks with
  | k :: r => let '(ps, r) := rd_paths (Z.to_nat k) r in exec_aops (length r) ps false r
  | [] => []
  end.
