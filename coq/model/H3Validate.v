(* Model of the HTTP/3 header validators of src/aioquic/h3/connection.py:
   validate_header_name, validate_header_value, validate_headers and its four wrappers, Python's
   int(bytes) as used for content-length, and the content-length bookkeeping of a request / push
   stream (H3Stream.expected_content_length / content_length, _check_content_length).
   All constant data comes from the generated coq/gen/C15Tables.v. *)
From AQ Require Import lib.Base lib.Tok gen.C15Tables.

Definition bytes := list Z.
Definition header := (bytes * bytes)%type.

(* Outcomes.  [PErr code] = an h3 ProtocolError subclass with that error_code (closes the connection
   with that code in H3Connection.handle_event); [Exn k] = any other Python exception (kind numbers
   as in tools/gen/c15_tables.py EXN_KINDS), which handle_event does not catch. *)
Inductive vres (A : Type) : Type :=
| VOk (a : A)
| PErr (code : Z)
| Exn (kind : Z).
Arguments VOk {A} a.
Arguments PErr {A} code.
Arguments Exn {A} kind.

Definition vbind {A B} (r : vres A) (f : A -> vres B) : vres B :=
  match r with VOk a => f a | PErr c => PErr c | Exn k => Exn k end.

Definition K_ValueError : Z := 1.
Definition K_IndexError : Z := 6.

(* raise MessageError(...) *)
Definition message_error {A} : vres A := PErr gen_MessageError_code.

Fixpoint bytes_eqb (a b : bytes) : bool :=
  match a, b with
  | [], [] => true
  | x :: a', y :: b' => (x =? y) && bytes_eqb a' b'
  | _, _ => false
  end.
Definition mem_bytes (k : bytes) (l : list bytes) : bool := existsb (bytes_eqb k) l.
Definition memz (c : Z) (l : list Z) : bool := existsb (Z.eqb c) l.

(* key.startswith(p) *)
Fixpoint prefixb (p k : bytes) : bool :=
  match p, k with
  | [], _ => true
  | x :: p', y :: k' => (x =? y) && prefixb p' k'
  | _ :: _, [] => false
  end.

(* ---------- validate_header_name: for i, c in enumerate(key): if <gen_name_bad>: raise MessageError *)
Fixpoint name_loop (i : Z) (key : bytes) : vres unit :=
  match key with
  | [] => VOk tt
  | c :: t => if gen_name_bad i c then message_error else name_loop (i + 1) t
  end.
Definition validate_header_name (key : bytes) : vres unit := name_loop 0 key.

(* ---------- validate_header_value *)
Fixpoint value_loop (v : bytes) : vres unit :=
  match v with
  | [] => VOk tt
  | c :: t => if gen_value_bad c then message_error else value_loop t
  end.

(* value[k] for a Python index (negative = from the end); None = IndexError *)
Definition py_index (v : bytes) (k : Z) : option Z :=
  let n := Zlen v in
  let j := if k <? 0 then k + n else k in
  if (j <? 0) || (j >=? n) then None else nth_error v (Z.to_nat j).

Definition validate_header_value (v : bytes) : vres unit :=
  vbind (value_loop v) (fun _ =>
  if Zlen v >? gen_first_guard then
    match py_index v gen_first_index with
    | None => Exn K_IndexError
    | Some first =>
        if memz first gen_first_set then message_error else
        if Zlen v >? gen_last_guard then
          match py_index v gen_last_index with
          | None => Exn K_IndexError
          | Some last => if memz last gen_last_set then message_error else VOk tt
          end
        else VOk tt
    end
  else VOk tt).

(* ---------- int(value) for a bytes object (CPython 3.12 _PyLong_FromBytes / PyLong_FromString, base 10):
   Py_ISSPACE* [+-]? digit ('_'? digit)* Py_ISSPACE* and nothing else (an embedded NUL ends the C
   string early and is then rejected); more than 4300 digits => ValueError (default
   sys.get_int_max_str_digits()).  Every failure is a ValueError. *)
Definition is_space (c : Z) : bool := (c =? 32) || ((9 <=? c) && (c <=? 13)).
Definition is_digit (c : Z) : bool := (48 <=? c) && (c <=? 57).
Definition MAX_STR_DIGITS : Z := 4300.

Fixpoint skip_space (l : bytes) : bytes :=
  match l with
  | c :: t => if is_space c then skip_space t else l
  | [] => []
  end.

(* scan digits and single underscores; returns (value, number of digits, rest) *)
Fixpoint digits_loop (l : bytes) (acc nd : Z) (prev_us : bool) : option (Z * Z * bytes) :=
  match l with
  | c :: t =>
      if is_digit c then digits_loop t (10 * acc + (c - 48)) (nd + 1) false
      else if c =? 95 then (if prev_us then None else digits_loop t acc nd true)
      else if prev_us then None else Some (acc, nd, l)
  | [] => if prev_us then None else Some (acc, nd, [])
  end.

Definition py_int_body (neg : bool) (s : bytes) : vres Z :=
  match digits_loop s 0 0 false with
  | None => Exn K_ValueError
  | Some (n, nd, rest) =>
      if nd =? 0 then Exn K_ValueError else
      match skip_space rest with
      | _ :: _ => Exn K_ValueError
      | [] => if nd >? MAX_STR_DIGITS then Exn K_ValueError
              else VOk (if neg then - n else n)
      end
  end.

Definition py_int_unsigned (neg : bool) (s : bytes) : vres Z :=
  match s with
  | c :: _ => if c =? 95 then Exn K_ValueError (* leading underscore *) else py_int_body neg s
  | [] => py_int_body neg s
  end.

Definition py_int_bytes (v : bytes) : vres Z :=
  match skip_space v with
  | c :: t => if c =? 43 then py_int_unsigned false t
              else if c =? 45 then py_int_unsigned true t
              else py_int_unsigned false (c :: t)
  | [] => py_int_unsigned false []
  end.

(* try: content_length = int(value); if <gen_cl_bad>: raise <gen_cl_raised>
   except <gen_cl_caught>: raise MessageError *)
Definition parse_content_length (v : bytes) : vres Z :=
  match vbind (py_int_bytes v) (fun n => if gen_cl_bad n then Exn gen_cl_raised else VOk n) with
  | Exn k => if memz k gen_cl_caught then message_error else Exn k
  | r => r
  end.

(* ---------- validate_headers *)
Record vstate := mkV {
  vs_after : bool;               (* after_pseudo_headers *)
  vs_authority : option bytes;
  vs_path : option bytes;
  vs_scheme : option bytes;
  vs_seen : list bytes;          (* seen_pseudo_headers (a set; order irrelevant) *)
  vs_cl : option Z;              (* seen_content_length *)
  vs_ecl : option Z              (* stream.expected_content_length as stored by this call *)
}.
Definition vstate_init : vstate := mkV false None None None [] None None.

(* pseudo-header bookkeeping: seen_pseudo_headers.add(key) and the authority / path / scheme stores *)
Definition store_pseudo (st : vstate) (key value : bytes) : vstate :=
  let seen' := key :: vs_seen st in
  if bytes_eqb key gen_key_authority then
    mkV (vs_after st) (Some value) (vs_path st) (vs_scheme st) seen' (vs_cl st) (vs_ecl st)
  else if bytes_eqb key gen_key_path then
    mkV (vs_after st) (vs_authority st) (Some value) (vs_scheme st) seen' (vs_cl st) (vs_ecl st)
  else if bytes_eqb key gen_key_scheme then
    mkV (vs_after st) (vs_authority st) (vs_path st) (Some value) seen' (vs_cl st) (vs_ecl st)
  else
    mkV (vs_after st) (vs_authority st) (vs_path st) (vs_scheme st) seen' (vs_cl st) (vs_ecl st).

Definition set_after (st : vstate) : vstate :=
  mkV true (vs_authority st) (vs_path st) (vs_scheme st) (vs_seen st) (vs_cl st) (vs_ecl st).

(* seen_content_length = content_length; if stream: stream.expected_content_length = content_length *)
Definition store_cl (st : vstate) (use_stream : bool) (n : Z) : vstate :=
  mkV (vs_after st) (vs_authority st) (vs_path st) (vs_scheme st) (vs_seen st) (Some n)
      (if use_stream then Some n else vs_ecl st).

Fixpoint vh_loop (allowed : list bytes) (use_stream : bool) (hs : list header) (st : vstate) : vres vstate :=
  match hs with
  | [] => VOk st
  | (key, value) :: t =>
    vbind (validate_header_name key) (fun _ =>
    vbind (validate_header_value value) (fun _ =>
    if prefixb gen_pseudo_prefix key then
      if vs_after st then message_error else
      if negb (mem_bytes key allowed) then message_error else
      if mem_bytes key (vs_seen st) then message_error else
      vh_loop allowed use_stream t (store_pseudo st key value)
    else
      let st1 := set_after st in
      if bytes_eqb key gen_key_content_length then
        vbind (parse_content_length value) (fun n =>
          if match vs_cl st1 with Some m => gen_cl_conflict n m | None => false end then message_error else
          vh_loop allowed use_stream t (store_cl st1 use_stream n))
      else if bytes_eqb key gen_key_transfer_encoding && negb (bytes_eqb value gen_te_value) then message_error
      else vh_loop allowed use_stream t st1))
  end.

Definition opt_empty (o : option bytes) : bool :=      (* `not x` for Optional[bytes] *)
  match o with None => true | Some [] => true | Some _ => false end.

Definition validate_headers (allowed required : list bytes) (use_stream : bool) (hs : list header)
  : vres (option Z) :=
  vbind (vh_loop allowed use_stream hs vstate_init) (fun st =>
  if existsb (fun r => negb (mem_bytes r (vs_seen st))) required then message_error else
  if match vs_scheme st with Some s => mem_bytes s gen_schemes | None => false end then
    if opt_empty (vs_authority st) then message_error else
    if opt_empty (vs_path st) then message_error else VOk (vs_ecl st)
  else VOk (vs_ecl st)).

Inductive kind := KRequest | KResponse | KPushPromise | KTrailers.

(* validate_request_headers / validate_response_headers / validate_push_promise_headers /
   validate_trailers; the result carries the expected_content_length the call stored on `stream`
   (only the first two are given the stream). *)
Definition validate (k : kind) (hs : list header) : vres (option Z) :=
  match k with
  | KRequest => validate_headers gen_allowed_request gen_required_request gen_stream_request hs
  | KResponse => validate_headers gen_allowed_response gen_required_response gen_stream_response hs
  | KPushPromise => validate_headers gen_allowed_push_promise gen_required_push_promise gen_stream_push_promise hs
  | KTrailers => validate_headers gen_allowed_trailers gen_required_trailers gen_stream_trailers hs
  end.

(* ---------- content-length bookkeeping of one request / push stream
   (H3Connection._receive_request_or_push_data / _handle_request_or_push_frame restricted to
   QUIC events that carry whole HEADERS frames, DATA frame headers with a prefix of the payload,
   payload continuations, or nothing; QPACK decoding is outside: ops carry decoded header lists). *)
Inductive hstate := HInitial | HAfterHeaders | HAfterTrailers.

Record sstate := mkS {
  s_hstate : hstate;           (* headers_recv_state *)
  s_ecl : option Z;            (* expected_content_length *)
  s_cl : Z;                    (* content_length *)
  s_remaining : option Z;      (* frame_size while inside a DATA frame (frame_type == DATA) *)
  s_ended : bool               (* receiving_ended *)
}.
Definition sstate_init : sstate := mkS HInitial None 0 None false.

Inductive sop :=
| OHeaders (hs : list header) (fin : bool)      (* a complete HEADERS frame (+ FIN) *)
| ODataStart (size avail : Z) (fin : bool)      (* DATA frame header announcing size, avail <= size payload bytes (+ FIN) *)
| ODataCont (avail : Z) (fin : bool)            (* avail more payload bytes of the open DATA frame (+ FIN) *)
| OFin.                                         (* empty data with FIN *)

Inductive sevent :=
| EHeaders (hs : list header) (ended : bool)    (* HeadersReceived *)
| EData (n : Z) (ended : bool).                 (* DataReceived with n body bytes *)

Definition H3_FRAME_UNEXPECTED_code : Z := 261.

(* _check_content_length *)
Definition check_content_length {A} (st : sstate) (k : vres A) : vres A :=
  match s_ecl st with
  | Some e => if negb (s_cl st =? e) then message_error else k
  | None => k
  end.

(* _handle_request_or_push_frame for DATA with frame_data of n bytes *)
Definition handle_data (st : sstate) (n : Z) (ended : bool) : vres (list sevent * sstate) :=
  match s_hstate st with
  | HAfterHeaders =>
      let st1 := mkS (s_hstate st) (s_ecl st) (s_cl st + n) (s_remaining st) (s_ended st) in
      let k := VOk (if ended || negb (n =? 0) then [EData n ended] else [], st1) in
      if ended then check_content_length st1 k else k
  | _ => PErr H3_FRAME_UNEXPECTED_code
  end.

(* _handle_request_or_push_frame for HEADERS; is_client selects response / request validation *)
Definition handle_headers (is_client : bool) (st : sstate) (hs : list header) (ended : bool)
  : vres (list sevent * sstate) :=
  match s_hstate st with
  | HAfterTrailers => PErr H3_FRAME_UNEXPECTED_code
  | HInitial =>
      vbind (validate (if is_client then KResponse else KRequest) hs) (fun ecl =>
      let st1 := mkS HAfterHeaders (match ecl with Some n => Some n | None => s_ecl st end) (s_cl st) (s_remaining st) (s_ended st) in
      let k := VOk ([EHeaders hs ended], st1) in
      if ended then check_content_length st1 k else k)
  | HAfterHeaders =>
      vbind (validate KTrailers hs) (fun _ =>
      let st1 := mkS HAfterTrailers (s_ecl st) (s_cl st) (s_remaining st) (s_ended st) in
      let k := VOk ([EHeaders hs ended], st1) in
      if ended then check_content_length st1 k else k)
  end.

Definition H3_FRAME_ERROR_code : Z := 262.
Definition is_none {A} (o : option A) : bool := match o with None => true | Some _ => false end.

(* "a stream must not end in the middle of a frame (RFC 9114, section 7.1)": after the frame loop, on the event that
   carries the FIN; an error raised inside the loop wins *)
Definition truncated_check {A} (fin : bool) (rem : option Z) (r : vres A) : vres A :=
  match r with
  | VOk x => if fin && negb (is_none rem) then PErr H3_FRAME_ERROR_code else VOk x
  | e => e
  end.

Definition set_remaining (st : sstate) (r : option Z) : sstate :=
  mkS (s_hstate st) (s_ecl st) (s_cl st) r (s_ended st).
Definition set_ended (st : sstate) (fin : bool) : sstate :=
  mkS (s_hstate st) (s_ecl st) (s_cl st) (s_remaining st) (s_ended st || fin).

(* one StreamDataReceived event on the stream *)
Definition stream_step (is_client : bool) (st : sstate) (op : sop) : vres (list sevent * sstate) :=
  match op with
  | OHeaders hs fin =>
      let st := set_ended st fin in
      match s_remaining st with
      | Some _ => Exn 0            (* not generated: HEADERS bytes inside an open DATA frame *)
      | None => handle_headers is_client st hs (s_ended st)
      end
  | ODataStart size avail fin =>
      let st := set_ended st fin in
      match s_remaining st with
      | Some _ => Exn 0
      | None =>
          (* main loop: frame header read, chunk_size = min(size, avail) = avail; the handler sees the end of the
             stream only when the frame is complete; a FIN inside the frame is H3_FRAME_ERROR (fix 802f530) *)
          let rem := if size - avail <=? 0 then None else Some (size - avail) in
          truncated_check fin rem (handle_data (set_remaining st rem) avail (s_ended st && is_none rem))
      end
  | ODataCont avail fin =>
      let st := set_ended st fin in
      match s_remaining st with
      | None => Exn 0
      | Some r =>
          if (avail <? r) && negb fin then
            (* shortcut for DATA frame fragments (not taken on the event that carries the FIN) *)
            VOk ([EData avail false],
                 mkS (s_hstate st) (s_ecl st) (s_cl st + avail) (Some (r - avail)) (s_ended st))
          else if avail =? 0 then
            PErr H3_FRAME_ERROR_code      (* FIN with nothing buffered while a frame is open: the loop does not run *)
          else
            let rem := if r - avail <=? 0 then None else Some (r - avail) in
            truncated_check fin rem (handle_data (set_remaining st rem) avail (s_ended st && is_none rem))
      end
  | OFin =>
      let st := set_ended st true in
      match s_remaining st with
      | Some r =>
          (* neither shortcut applies to an event carrying the FIN; the loop does not run; truncated frame *)
          PErr H3_FRAME_ERROR_code
      | None =>
          (* lone FIN *)
          check_content_length st (VOk ([EData 0 true], st))
      end
  end.

Fixpoint stream_run (is_client : bool) (st : sstate) (ops : list sop) : list sevent * option (vres unit) :=
  match ops with
  | [] => ([], None)
  | op :: t =>
      match stream_step is_client st op with
      | VOk (evs, st') => let '(evs', r) := stream_run is_client st' t in (evs ++ evs', r)
      | PErr c => ([], Some (PErr c))      (* connection closed; later events are ignored *)
      | Exn k => ([], Some (Exn k))
      end
  end.

(* ---------- executable interface --------------------------------------------------------------
   exec_h3validate: ops
     k (0..3) nh (nlen name.. vlen value..)*   validate kind k      -> 0 (0 | 1 ecl) | 1 code | 2 kind
     4 nlen name..                             validate_header_name -> 0 | 1 code | 2 kind
     5 vlen value..                            validate_header_value
     6 vlen value..                            int(value)           -> 0 n | 2 kind
     10+k nh headers..                         validate kind k, outcome only -> 0 | 1 code | 2 kind   *)
Definition out_vres {A} (f : A -> list Z) (r : vres A) : list Z :=
  match r with VOk a => 0 :: f a | PErr c => [1; c] | Exn k => [2; k] end.

Fixpoint tk_headers (fuel : nat) (n : Z) (t : list Z) : list header * list Z :=
  match fuel with O => ([], t) | S fuel =>
  if n <=? 0 then ([], t) else
  let '(k, t) := tk_list t in
  let '(v, t) := tk_list t in
  let '(hs, t) := tk_headers fuel (n - 1) t in
  ((k, v) :: hs, t)
  end.

Definition kind_of (z : Z) : kind :=
  if z =? 0 then KRequest else if z =? 1 then KResponse else if z =? 2 then KPushPromise else KTrailers.

Fixpoint exec_validate (fuel : nat) (ops : list Z) : list Z :=
  match fuel with O => [] | S fuel =>
  match ops with
  | 4 :: t => let '(k, t) := tk_list t in out_vres (fun _ => []) (validate_header_name k) ++ exec_validate fuel t
  | 5 :: t => let '(v, t) := tk_list t in out_vres (fun _ => []) (validate_header_value v) ++ exec_validate fuel t
  | 6 :: t => let '(v, t) := tk_list t in out_vres (fun n => [n]) (py_int_bytes v) ++ exec_validate fuel t
  | k :: n :: t =>
      let '(hs, t) := tk_headers (length t) n t in
      (if k >=? 10 then out_vres (fun _ => []) (validate (kind_of (k - 10)) hs)
       else out_vres out_opt (validate (kind_of k) hs)) ++ exec_validate fuel t
  | _ => []
  end end.

(* EXTRACT: exec_h3validate *)
Definition exec_h3validate (ops : list Z) : list Z := exec_validate (length ops) ops.

(* exec_h3stream: is_client, then ops
     0 fin nh headers..   OHeaders ; 1 size avail fin  ODataStart ; 2 avail fin  ODataCont ; 3  OFin
   output per op: 0 nevents (0 ended nh | 1 ended n)* | 1 code | 2 kind (then stop) *)
Definition out_event (e : sevent) : list Z :=
  match e with
  | EHeaders hs ended => [0; b2z ended; Zlen hs]
  | EData n ended => [1; b2z ended; n]
  end.

Fixpoint exec_stream (fuel : nat) (is_client : bool) (st : sstate) (ops : list Z) : list Z :=
  match fuel with O => [] | S fuel =>
  let step (op : sop) (t : list Z) :=
    match stream_step is_client st op with
    | VOk (evs, st') => 0 :: Zlen evs :: flat_map out_event evs ++ exec_stream fuel is_client st' t
    | PErr c => [1; c]
    | Exn k => [2; k]
    end in
  match ops with
  | 0 :: fin :: n :: t => let '(hs, t) := tk_headers (length t) n t in step (OHeaders hs (z2b fin)) t
  | 1 :: size :: avail :: fin :: t => step (ODataStart size avail (z2b fin)) t
  | 2 :: avail :: fin :: t => step (ODataCont avail (z2b fin)) t
  | 3 :: t => step OFin t
  | _ => []
  end end.

(* EXTRACT: exec_h3stream *)
Definition exec_h3stream (ops : list Z) : list Z :=
  match ops with
  | c :: t => exec_stream (length t) (z2b c) sstate_init t
  | [] => []
  end.
