(* C03: WHICH name is the server certificate validated for, and can the identity / chain checks be skipped?

   1. tls.verify_certificate(certificate, chain, server_name, cadata, cafile, capath) as it is: validity dates, the
      `if server_name is not None` guard, the ipaddress.ip_address() test that selects
      service_identity.verify_certificate_ip_address / verify_certificate_hostname, both exception handlers ending in
      AlertBadCertificate, chain verification against the configured trust material.  The two matchers, the date
      comparisons, the IP-literal test and OpenSSL's chain verification are ORACLES (vc_oracles); the decision returns
      the outcome (0 = returns normally, else the alert description) AND the list of oracle consultations, so that
      "the matcher for the configured name was consulted on every path that returns normally" is a statement about
      the model (proofs/TlsNamesP.v, identity_check_never_skipped).
   2. what _client_handle_certificate_verify asks verify_certificate (cert_query) - the configured name, see the name
      flow in model/TlsSymbolic.v (attr_server_name / sni_of_name / verify_name).
   3. exec_c03vc: both, executable, for the correspondence runs of harness/props/c03_names.py.
   The decision structure is tied to the current source by tools/gen/c03_names.py -> gen/TlsNames.v
   (gen_verify_certificate = modelled_verify_certificate, proofs/TlsNamesP.v).  No proofs in this file. *)
From Coq Require Import ZArith List Bool.
From AQ Require Import lib.Base gen.TlsDispatch model.TlsSymbolic.
Import ListNotations.
Open Scope Z_scope.

Record vc_oracles := mkV {
  v_not_yet : bytes -> bool;                (* now < certificate.not_valid_before_utc *)
  v_expired : bytes -> bool;                (* now > certificate.not_valid_after_utc *)
  v_is_ip : bytes -> bool;                  (* ipaddress.ip_address(server_name) does not raise ValueError *)
  (* service_identity.cryptography.verify_certificate_hostname(certificate, server_name):
     0 = returns | 1 = CertificateError / VerificationError | anything else = another exception *)
  v_host : bytes -> bytes -> Z;
  v_ip : bytes -> bytes -> Z;               (* ... verify_certificate_ip_address(certificate, server_name), same coding *)
  v_chain : bytes -> list bytes -> bool     (* X509StoreContext(store(cadata, cafile, capath), certificate, chain).verify_certificate() returns *)
}.

(* consultations of the oracles that decide, in the order they happen *)
Inductive vc_ev : Set :=
| EvHost (cert name : bytes)                (* the hostname matcher was asked about (leaf, name) *)
| EvIp (cert name : bytes)                  (* the IP-address matcher was asked about (leaf, name) *)
| EvChain (cert : bytes) (chain : list bytes).

Definition AD_certificate_expired : Z := 45.

(* `if server_name is not None:` ... both handlers (CertificateError / VerificationError, and Exception) raise
   AlertBadCertificate *)
Definition vc_subject (V : vc_oracles) (cert : bytes) (name : option bytes) : Z * list vc_ev :=
  match name with
  | None => (0, [])
  | Some n =>
      if v_is_ip V n
      then (if v_ip V cert n =? 0 then 0 else AD_bad_certificate, [EvIp cert n])
      else (if v_host V cert n =? 0 then 0 else AD_bad_certificate, [EvHost cert n])
  end.

Definition vc_decide (V : vc_oracles) (cert : bytes) (chain : list bytes) (name : option bytes) : Z * list vc_ev :=
  if v_not_yet V cert then (AD_certificate_expired, []) else
  if v_expired V cert then (AD_certificate_expired, []) else
  let '(a, tr) := vc_subject V cert name in
  if negb (a =? 0) then (a, tr) else
  (if v_chain V cert chain then 0 else AD_bad_certificate, tr ++ [EvChain cert chain]).

(* verify_certificate as the o_cert_ok oracle of model/TlsSymbolic.v: the client calls it with
   certificate = _peer_certificate (head of the received list), chain = _peer_certificate_chain (the rest) *)
Definition vc_cert_ok (V : vc_oracles) (name : option bytes) (peer : list bytes) : Z :=
  fst (vc_decide V (hd [] peer) (tl peer) name).

(* an oracle record whose X.509 verdict IS this decision structure and whose IP-literal test is V's *)
Definition with_vc (O : oracles) (V : vc_oracles) : oracles :=
  mkO (o_hash O) (o_hmac O) (o_extract O) (o_expand O) (o_pub O) (o_decode O) (o_dh O) (o_sign O) (o_sig_verify O)
      (o_load O) (o_key_kind O) (vc_cert_ok V) (v_is_ip V)
      (o_parse_ch O) (o_parse_sh O) (o_parse_ee O) (o_parse_cr O) (o_parse_ct O) (o_parse_cv O) (o_parse_fin O) (o_parse_nst O)
      (o_build_ch O) (o_build_sh O) (o_build_ee O) (o_build_cr O) (o_build_ct O) (o_build_cv O) (o_build_fin O).

(* the verify_certificate call of _client_handle_certificate_verify: None = not made (CERT_NONE),
   Some n = made with server_name = n *)
Definition cert_query (c : cfg) : option (option bytes) := if f_verify c then Some (verify_name c) else None.

(* ---------- executable interface ---------------------------------------------------------------------------- *)
Definition has_host (tr : list vc_ev) : bool := existsb (fun e => match e with EvHost _ _ => true | _ => false end) tr.
Definition has_ip (tr : list vc_ev) : bool := existsb (fun e => match e with EvIp _ _ => true | _ => false end) tr.
Definition has_chain (tr : list vc_ev) : bool := existsb (fun e => match e with EvChain _ _ => true | _ => false end) tr.

Definition exec_cfg (name : option bytes) (verify : bool) : cfg :=
  mkCfg [0x1301] [0] [0x0304] [0x0403] [1] None [] [] [] [] [] [(29, [5])] name verify None false []
        false false (fun _ => None) (fun _ => [1]) (fun _ _ => (0, None)).

Definition exec_ch : ch_view := mkCH [] [] [] [0] None false None None None None None None None [].

(* op 1: [not_yet; expired; name present; is_ip; host verdict; ip verdict; chain ok]
            -> [outcome; hostname matcher consulted; IP matcher consulted; chain verified]
   op 2: [name present; is IP literal; verify]
            -> [SNI present; verify_certificate called; name handed over present; name handed over = configured name] *)
Definition exec_c03vc (t : list Z) : list Z :=
  match t with
  | [1; ny; ex; present; isip; hv; iv; ch] =>
      let V := mkV (fun _ => z2b ny) (fun _ => z2b ex) (fun _ => z2b isip) (fun _ _ => hv) (fun _ _ => iv) (fun _ _ => z2b ch) in
      let '(a, tr) := vc_decide V [1] [] (if z2b present then Some [2] else None) in
      [a; b2z (has_host tr); b2z (has_ip tr); b2z (has_chain tr)]
  | [2; present; isip; verify] =>
      let name := if z2b present then Some [2] else None in
      let c := exec_cfg name (z2b verify) in
      let O := exec_oracles_ip exec_ch (z2b isip) in
      let sni := ch_server_name (hello_base O c) in
      match cert_query c with
      | None => [b2z (match sni with Some _ => true | None => false end); 0; 0; 0]
      | Some q => [b2z (match sni with Some _ => true | None => false end); 1;
                   b2z (match q with Some _ => true | None => false end);
                   b2z (match q, name with Some a, Some b => beqb a b | None, None => true | _, _ => false end)]
      end
  | _ => []
  end.
(* EXTRACT: exec_c03vc *)
