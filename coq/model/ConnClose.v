(* C05: the close branch of QuicConnection.datagrams_to_send (src/aioquic/quic/connection.py) on SIZES, on top of
   C13's model of QuicPacketBuilder (model/Builder.v, imported unchanged: start_packet / start_frame / push / flush
   with QuicPacketBuilderStop, BufferWriteError, AssertionError, ValueError, CryptoError as outcomes):

       if self._close_pending:
           epoch_packet_types = [(INITIAL, INITIAL), (HANDSHAKE, HANDSHAKE)] unless handshake confirmed, then (ONE_RTT, ONE_RTT)
           for epoch, packet_type in epoch_packet_types:
               crypto = self._cryptos[epoch]
               if crypto.send.is_valid():
                   builder.start_packet(packet_type, crypto)
                   self._write_connection_close_frame(builder, epoch, error_code, frame_type, reason_phrase)
           self._close_pending = False; self._close_begin(is_initiator=True, now=now)
       ...
       datagrams, packets = builder.flush()

   In the tree as it is NOTHING catches QuicPacketBuilderStop here (the try/except of datagrams_to_send is in the other
   branch only): [patched = false].  [patched = true] is docs/C05-fix-10.patch: try / except QuicPacketBuilderStop: pass
   around the two calls.  The builder of this branch has max_flight_bytes = max_total_bytes = None.

   _write_connection_close_frame: an application close (frame_type None) in the Initial / Handshake epoch becomes
   TRANSPORT_CLOSE(APPLICATION_ERROR, PADDING, ""); the reason is cut to max(0, remaining_buffer_space -
   TRANSPORT_CLOSE_FRAME_CAPACITY) bytes (fix 146fc24; cutting inside a UTF-8 sequence drops up to 3 more bytes: [slack]);
   start_frame(capacity = 25 | 17 + reason_length); push_uint_var x 3 | 2; push_bytes.  No proofs in this file. *)
From AQ Require Import lib.Base lib.Tok gen.C13Consts model.Builder.

Definition TRANSPORT_CLOSE_FRAME_CAPACITY : Z := 25.      (* 1 + 3 * UINT_VAR_MAX_SIZE *)
Definition APPLICATION_CLOSE_FRAME_CAPACITY : Z := 17.    (* 1 + 2 * UINT_VAR_MAX_SIZE *)
Definition FT_TRANSPORT_CLOSE : Z := 28.
Definition FT_APPLICATION_CLOSE : Z := 29.
Definition EC_APPLICATION_ERROR : Z := 12.

Record closeev := mkEv {
  e_code : Z;              (* _close_event.error_code *)
  e_ft : option Z;         (* _close_event.frame_type (None: application close) *)
  e_reason : Z;            (* len(reason_phrase.encode("utf8")) *)
  e_slack : Z              (* bytes dropped by .decode("utf8", "ignore") when the cut falls inside a character: 0..3 *)
}.

(* Buffer.push_uint_var(v): ValueError for v >= 2^62 *)
Definition push_var (c : cfg) (s : st) (v : Z) : outcome * st :=
  match size_uint_var v with
  | None => (OValue, s)
  | Some n => push c s n
  end.

Definition andthen (r : outcome * st) (k : st -> outcome * st) : outcome * st :=
  match r with (ODone, s) => k s | other => other end.

Definition write_close (c : cfg) (s : st) (long_epoch : bool) (ev : closeev) : outcome * st :=
  let convert := (match e_ft ev with None => true | Some _ => false end) && long_epoch in
  let code := if convert then EC_APPLICATION_ERROR else e_code ev in
  let ft := if convert then Some FT_PADDING else e_ft ev in
  let reason := if convert then 0 else e_reason ev in
  let max_reason := Z.max 0 (remaining_buffer_space s - TRANSPORT_CLOSE_FRAME_CAPACITY) in
  let rl := if reason >? max_reason then Z.max 0 (max_reason - e_slack ev) else reason in
  match ft with
  | None =>
      andthen (start_frame c s FT_APPLICATION_CLOSE (APPLICATION_CLOSE_FRAME_CAPACITY + rl)) (fun s =>
      andthen (push_var c s code) (fun s =>
      andthen (push_var c s rl) (fun s => push c s rl)))
  | Some f =>
      andthen (start_frame c s FT_TRANSPORT_CLOSE (TRANSPORT_CLOSE_FRAME_CAPACITY + rl)) (fun s =>
      andthen (push_var c s code) (fun s =>
      andthen (push_var c s f) (fun s =>
      andthen (push_var c s rl) (fun s => push c s rl))))
  end.

(* one iteration of the for loop: (packet type, send key valid, epoch is Initial / Handshake) *)
Definition close_packet (patched : bool) (c : cfg) (s : st) (t : Z) (long_epoch : bool) (ev : closeev) : outcome * st :=
  match andthen (start_packet c s t) (fun s => write_close c s long_epoch ev) with
  | (OStop, s') => if patched then (ODone, s') else (OStop, s')
  | r => r
  end.

Fixpoint close_packets (patched : bool) (c : cfg) (s : st) (l : list (Z * bool * bool)) (ev : closeev) : outcome * st :=
  match l with
  | [] => (ODone, s)
  | (t, valid, lng) :: r =>
      if valid then andthen (close_packet patched c s t lng ev) (fun s => close_packets patched c s r ev)
      else close_packets patched c s r ev
  end.

Record keys := mkKeys { k_confirmed : bool; k_initial : bool; k_handshake : bool; k_one_rtt : bool }.

Definition packet_plan (k : keys) : list (Z * bool * bool) :=
  (if k_confirmed k then [] else [(PT_INITIAL, k_initial k, true); (PT_HANDSHAKE, k_handshake k, true)])
  ++ [(PT_ONE_RTT, k_one_rtt k, false)].

(* the whole round: outcome and the datagram lengths handed to the caller *)
Definition close_send (patched : bool) (c : cfg) (pn : Z) (k : keys) (ev : closeev) : outcome * list Z :=
  match close_packets patched c (init_st c pn) (packet_plan k) ev with
  | (ODone, s) => let '(o, _, d, _) := flush c s in (o, d)
  | (o, _) => (o, [])
  end.

(* ---------- executable interface
   in : patched is_client mds peer_cid_len host_cid_len token_len confirmed k_initial k_handshake k_one_rtt
        code (frame_type: 0 | 1 v) reason_len slack
   out: outcome (0 done, 1 QuicPacketBuilderStop, 2 BufferWriteError, 3 AssertionError, 4 AttributeError, 5 ValueError,
        6 CryptoError), datagram lengths (length-prefixed) *)
Definition exec_close (t : list Z) : list Z :=
  match t with
  | patched :: client :: mds :: pc :: hc :: tok :: conf :: ki :: kh :: k1 :: code :: t =>
      let '(ft, t) := tk_opt t in
      match t with
      | reason :: slack :: _ =>
          let c := mkCfg (z2b client) mds pc hc tok None None (Some 1500) in
          let '(o, d) := close_send (z2b patched) c 0 (mkKeys (z2b conf) (z2b ki) (z2b kh) (z2b k1)) (mkEv code ft reason slack) in
          [out_outcome o; Zlen d] ++ d
      | _ => []
      end
  | _ => []
  end.
(* EXTRACT: exec_close *)
