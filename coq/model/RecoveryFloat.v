(* C08: the executable PrimFloat instance of the recovery models (IEEE binary64, round to nearest
   even = Python floats), and the printer used by the correspondence harness (vm_compute). *)
From Coq Require Import PrimFloat Uint63 FloatOps SpecFloat.
From AQ Require Import lib.Base lib.Tok model.RangeSet model.RecBase model.Pacer model.Reno model.Cubic
  model.Recovery gen.C08Consts.

(* powers of two as literals (vm_compute would otherwise recompute them on every call) *)
Definition two51 : Z := Eval vm_compute in 2 ^ 51.
Definition two52 : Z := Eval vm_compute in 2 ^ 52.
Definition two62 : Z := Eval vm_compute in 2 ^ 62.
Definition two63 : Z := Eval vm_compute in 2 ^ 63.

(* float(int): correctly rounded (sticky bit) for integers of any size *)
Definition f_of_nonneg (z : Z) : float :=
  if z <? two62 then PrimFloat.of_uint63 (Uint63.of_Z z)
  else
    let k := Z.log2 z - 61 in
    let hi := Z.shiftr z k in
    let hi' := if Z.land z (Z.ones k) =? 0 then hi else Z.lor hi 1 in
    Z.ldexp (PrimFloat.of_uint63 (Uint63.of_Z hi')) k.
Definition f_ofZ (z : Z) : float :=
  if z <? 0 then PrimFloat.opp (f_of_nonneg (- z)) else f_of_nonneg z.

(* int(x): truncation toward zero *)
Definition f_trunc (x : float) : option Z :=
  match Prim2SF x with
  | S754_zero _ => Some 0
  | S754_finite s m e =>
      let v := if e >=? 0 then Zpos m * 2 ^ e else Z.shiftr (Zpos m) (- e) in
      Some (if s then - v else v)
  | _ => None
  end.

(* the IEEE bit pattern as a non-negative integer (NaN canonicalised) *)
Definition f_bits (x : float) : Z :=
  match Prim2SF x with
  | S754_zero s => if s then two63 else 0
  | S754_infinity s => (if s then two63 else 0) + 2047 * two52
  | S754_nan => 4095 * two51
  | S754_finite s m e =>
      (if s then two63 else 0) +
      (if Zpos m <? two52 then Zpos m else (e + 1075) * two52 + (Zpos m - two52))
  end.

Definition f_const (c : fconst) : float :=
  match c with
  | CInf => infinity
  | CGranularity => K_GRANULARITY
  | CTimeThreshold => K_TIME_THRESHOLD
  | CMicro => K_MICRO_SECOND
  | CSecond => K_SECOND
  | CMaxAckDelay0 => 0x1.999999999999ap-6     (* 0.025 *)
  | CMinRtt => 0x1.0624dd2f1a9fcp-10          (* 0.001 *)
  | CRenoBeta => K_LOSS_REDUCTION_FACTOR
  | CCubicC => K_CUBIC_C
  | CCubicBeta => K_CUBIC_LOSS_REDUCTION_FACTOR
  | CCubicRtt0 => 0x1.47ae147ae147bp-6        (* 0.02 *)
  | C1_5 => 0x1.8p+0
  end%float.

Definition FF : fops float :=
  mkFops float PrimFloat.add PrimFloat.sub PrimFloat.mul PrimFloat.div PrimFloat.opp PrimFloat.abs
         PrimFloat.ltb PrimFloat.leb PrimFloat.eqb (fun a b => f_bits a =? f_bits b) f_ofZ f_trunc f_const.

(* ---------- printer ---------- *)
Definition out_f (x : float) : list Z := [f_bits x].
Definition out_optf (o : option float) : list Z :=
  match o with None => [0] | Some x => [1; f_bits x] end.

Section Print.
Context {C : Type} (cc : ccops float C).

Definition out_space (s : space (T:=float)) : list Z :=
  out_list (keys (sp_sent s)) ++ [sp_aeif s] ++ out_optf (sp_loss_time s).

Definition out_evs (l : list ev) : list Z :=
  Zlen l :: flat_map (fun e => [Z.of_nat (fst (fst e)); snd (fst e); b2z (snd e)]) l.

Definition obs (st : rec (T:=float) (C:=C)) : list Z :=
  [cc_flags cc (r_cc st); b2z (pc_anom (r_pacer st));
   cc_bif cc (r_cc st); cc_cwnd cc (r_cc st)] ++ out_opt (cc_ssthresh cc (r_cc st)) ++
  flat_map out_space (r_spaces st) ++
  out_optf (loss_detection_time FF st) ++ out_f (probe_timeout FF st) ++ [r_probes st] ++
  out_optf (pc_packet_time (r_pacer st)) ++ out_f (pc_bucket_max (r_pacer st)).

Fixpoint exec_ops (st : rec) (ops : list (rop (T:=float))) : list Z :=
  match ops with
  | [] => []
  | o :: t =>
      let '(st', evs, status, r) := step FF cc st o in
      (status :: obs st') ++ out_evs evs ++ out_optf r ++ exec_ops st' t
  end.
End Print.

(* monomorphic op constructors: arguments are parsed in the scopes bound to their types, so case files
   need no per-literal scope annotations (parsing is the dominant cost of a case) *)
Definition fSend (sp pn : Z) (i a c : bool) (t : float) (b : Z) : rop (T:=float) := OSend sp pn i a c t b.
Definition fAck (sp : Z) (r : list (Z * Z)) (d n : float) : rop (T:=float) := OAck sp r d n.
Definition fTimeout (n : float) : rop (T:=float) := OTimeout n.
Definition fDiscard (sp : Z) : rop (T:=float) := ODiscard sp.
Definition fResched (n : float) : rop (T:=float) := OResched n.
Definition fPcav (b : bool) : rop (T:=float) := OSetPcav b.
Definition fMad (v : float) : rop (T:=float) := OSetMad v.
Definition fNextSend (n : float) : rop (T:=float) := ONextSend n.
Definition fAfterSend (n : float) : rop (T:=float) := OAfterSend n.
Definition fOr (tag : Z) (a r : float) : Z * float * float := (tag, a, r).

(* entry points used by harness/props/c08.py *)
Definition run_reno (mss : Z) (initial_rtt : float) (pcav : bool) (ops : list rop) : list Z :=
  exec_ops (reno_cc FF) (rec_init FF 3 initial_rtt mss pcav (reno_init FF mss)) ops.

Definition run_cubic (mss : Z) (initial_rtt : float) (pcav : bool) (o : list (Z * float * float))
  (ops : list rop) : list Z :=
  exec_ops (cubic_cc FF) (rec_init FF 3 initial_rtt mss pcav (cubic_init FF mss o)) ops.

(* ---------- digest of the token output (printing thousands of 64-bit numerals from coqc is slow;
   the harness compares this digest first and asks for the full token list only on a mismatch) ---------- *)
Definition hmix (h : int) (z : Z) : int :=
  let a := Z.abs z in
  let h1 := (h * 1000003 + Uint63.of_Z (Z.land a (Z.ones 62)))%uint63 in
  let h2 := (h1 * 1000003 + Uint63.of_Z (Z.shiftr a 62))%uint63 in
  if z <? 0 then (h2 * 1000003 + 7)%uint63 else h2.
Definition digest (l : list Z) : list Z := [Zlen l; Uint63.to_Z (fold_left hmix l 0%uint63)].
