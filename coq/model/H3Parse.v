(* Model of the receive path of aioquic.h3.connection.H3Connection:
   handle_event, _receive_stream_data, _receive_request_or_push_data, _receive_stream_data_uni,
   _handle_request_or_push_frame, _handle_control_frame, parse_settings, parse_max_push_id,
   _validate_settings, _receive_datagram.

   QPACK (pylsqpack) and header validation (C15) are oracles: a record of functions supplied per
   handle_event call (the harness builds them from the answers recorded on the real run).

   [fixes] selects, per documented defect, the code as it is on the pinned tree (false) or the code
   with docs/C16-fix-<n>.patch / docs/C14-fix-<n>.patch applied (true).

   Deviation (documented in docs/C14.md): stream.frame_type is written here only together with
   frame_size (the Python code can leave a stale frame_type behind when the second varint of a frame
   header is incomplete; frame_type is never read while frame_size is None, except in the
   WEBTRANSPORT shortcut which also needs session_id, set only after a complete header). *)
From AQ Require Import lib.Base lib.Tok.

(* ---------------------------------------------------------------- varints (Buffer.pull_uint_var) *)
Definition be (l : list Z) : Z := fold_left (fun a b => a * 256 + b) l 0.

Definition varint_extra (f : Z) : nat :=
  if f <? 64 then 0%nat else if f <? 128 then 1%nat else if f <? 192 then 3%nat else 7%nat.

(* None = BufferReadError *)
Definition pull_uint_var (b : list Z) : option (Z * list Z) :=
  match b with
  | [] => None
  | f :: r =>
      let n := varint_extra f in
      if Nat.ltb (length r) n then None
      else Some (be ((f mod 64) :: firstn n r), skipn n r)
  end.

(* Buffer.push_uint_var for 0 <= v < 2^62 *)
Definition encode_uint_var (v : Z) : list Z :=
  if v <? 64 then [v]
  else if v <? 16384 then [64 + v / 256; v mod 256]
  else if v <? 1073741824 then [128 + v / 16777216; (v / 65536) mod 256; (v / 256) mod 256; v mod 256]
  else [192 + v / 72057594037927936; (v / 281474976710656) mod 256; (v / 1099511627776) mod 256;
        (v / 4294967296) mod 256; (v / 16777216) mod 256; (v / 65536) mod 256; (v / 256) mod 256; v mod 256].

Definition encode_frame (t : Z) (d : list Z) : list Z :=
  encode_uint_var t ++ encode_uint_var (Zlen d) ++ d.

(* ---------------------------------------------------------------- outcomes, events, oracles *)
Inductive out (A : Type) : Type :=
| Val (a : A)
| PErr (code : Z)      (* ProtocolError subclass: handle_event closes with this ErrorCode *)
| Exn (k : Z).         (* any other exception: escapes handle_event *)
Arguments Val {A} a.
Arguments PErr {A} code.
Arguments Exn {A} k.

(* Exn codes: site*10 + class *)
Definition X_MAXPUSH_READ := 11.     (* BufferReadError in parse_max_push_id *)
Definition X_MAXPUSH_ASSERT := 12.   (* AssertionError  in parse_max_push_id *)
Definition X_SETTINGS_READ := 21.    (* BufferReadError in parse_settings *)
Definition X_PUSHPROMISE_READ := 31. (* BufferReadError in _handle_request_or_push_frame *)
Definition X_UNBLOCK_KEY := 41.      (* KeyError self._stream[stream_id] *)
Definition X_UNBLOCK_BLOCKED := 42.  (* StreamBlocked escaping the resume loop *)

Definition H3_DATAGRAM_ERROR := 51.          (* 0x33 *)
Definition H3_STREAM_CREATION_ERROR := 259.  (* 0x103 *)
Definition H3_CLOSED_CRITICAL_STREAM := 260. (* 0x104 *)
Definition H3_FRAME_UNEXPECTED := 261.       (* 0x105 *)
Definition H3_FRAME_ERROR := 262.            (* 0x106 *)
Definition H3_SETTINGS_ERROR := 265.         (* 0x109 *)
Definition H3_MISSING_SETTINGS := 266.       (* 0x10a *)
Definition H3_MESSAGE_ERROR := 270.          (* 0x10e *)
Definition QPACK_DECOMPRESSION_FAILED := 512.
Definition QPACK_ENCODER_STREAM_ERROR := 513.
Definition QPACK_DECODER_STREAM_ERROR := 514.

Inductive event :=
| EData (sid : Z) (push : option Z) (d : list Z) (fin : bool)
| EHeaders (sid : Z) (push : option Z) (hid : Z) (fin : bool)   (* hid names the decoded header list *)
| EPush (sid : Z) (pushid : Z) (hid : Z)
| EWT (sid : Z) (session : Z) (d : list Z) (fin : bool)
| EDatagram (sid : Z) (d : list Z).

Inductive dres := DHeaders (hid : Z) | DBlocked | DFailed.
Inductive eres := EUnblocked (sids : list Z) | EEncErr.

Record oracle := mkO {
  o_dec : Z -> list Z -> dres;            (* Decoder.feed_header(stream_id, data) *)
  o_resume : Z -> dres;                   (* Decoder.resume_header(stream_id) *)
  o_val : Z -> Z -> bool * option Z;      (* validate_{request,response,trailers,push_promise}_headers:
                                             kind 0/1/2/3, hid -> (accepted, expected_content_length) *)
  o_enc : list Z -> eres;                 (* Decoder.feed_encoder(data), in set iteration order *)
  o_ds : list Z -> bool                   (* Encoder.feed_decoder(data) accepted *)
}.

Record fixes := mkF {
  fx_maxpush : bool;      (* C16-fix-1 parse_max_push_id *)
  fx_settings : bool;     (* C16-fix-2 parse_settings *)
  fx_pushpromise : bool;  (* C16-fix-3 PUSH_PROMISE push id *)
  fx_trunc : bool;        (* C14-fix-1 stream ends inside a frame *)
  fx_endmark : bool;      (* C14-fix-2 end of stream after a frame without end marker *)
  fx_pushblock : bool     (* C14-fix-3 PUSH_PROMISE waiting for the encoder stream *)
}.
Definition all_fixed : fixes := mkF true true true true true true.
Definition unfixed : fixes := mkF false false false false false false.

(* ---------------------------------------------------------------- H3Stream *)
Record hstream := mkS {
  s_id : Z;
  s_buf : list Z;              (* buffer *)
  s_cur : option (Z * Z);      (* frame_type, frame_size (remaining) when frame_size is not None *)
  s_session : option Z;        (* session_id *)
  s_blocked : bool;
  s_ended : bool;              (* receiving_ended *)
  s_hstate : Z;                (* headers_recv_state 0 INITIAL 1 AFTER_HEADERS 2 AFTER_TRAILERS *)
  s_clen : Z;                  (* content_length *)
  s_expect : option Z;         (* expected_content_length *)
  s_push : option Z;           (* push_id *)
  s_stype : option Z;          (* stream_type (unidirectional streams) *)
  s_btype : option Z;          (* blocked_frame_type (C14-fix-3) *)
  s_bpush : option Z           (* blocked_push_id (C14-fix-3) *)
}.
Definition new_stream (sid : Z) : hstream := mkS sid [] None None false false 0 0 None None None None None.

Definition set_buf st b := mkS (s_id st) b (s_cur st) (s_session st) (s_blocked st) (s_ended st) (s_hstate st) (s_clen st) (s_expect st) (s_push st) (s_stype st) (s_btype st) (s_bpush st).
Definition set_cur st c := mkS (s_id st) (s_buf st) c (s_session st) (s_blocked st) (s_ended st) (s_hstate st) (s_clen st) (s_expect st) (s_push st) (s_stype st) (s_btype st) (s_bpush st).
Definition set_session st x := mkS (s_id st) (s_buf st) (s_cur st) x (s_blocked st) (s_ended st) (s_hstate st) (s_clen st) (s_expect st) (s_push st) (s_stype st) (s_btype st) (s_bpush st).
Definition set_blocked st x := mkS (s_id st) (s_buf st) (s_cur st) (s_session st) x (s_ended st) (s_hstate st) (s_clen st) (s_expect st) (s_push st) (s_stype st) (s_btype st) (s_bpush st).
Definition set_ended st x := mkS (s_id st) (s_buf st) (s_cur st) (s_session st) (s_blocked st) x (s_hstate st) (s_clen st) (s_expect st) (s_push st) (s_stype st) (s_btype st) (s_bpush st).
Definition set_hstate st x := mkS (s_id st) (s_buf st) (s_cur st) (s_session st) (s_blocked st) (s_ended st) x (s_clen st) (s_expect st) (s_push st) (s_stype st) (s_btype st) (s_bpush st).
Definition set_clen st x := mkS (s_id st) (s_buf st) (s_cur st) (s_session st) (s_blocked st) (s_ended st) (s_hstate st) x (s_expect st) (s_push st) (s_stype st) (s_btype st) (s_bpush st).
Definition set_expect st x := mkS (s_id st) (s_buf st) (s_cur st) (s_session st) (s_blocked st) (s_ended st) (s_hstate st) (s_clen st) x (s_push st) (s_stype st) (s_btype st) (s_bpush st).
Definition set_push st x := mkS (s_id st) (s_buf st) (s_cur st) (s_session st) (s_blocked st) (s_ended st) (s_hstate st) (s_clen st) (s_expect st) x (s_stype st) (s_btype st) (s_bpush st).
Definition set_stype st x := mkS (s_id st) (s_buf st) (s_cur st) (s_session st) (s_blocked st) (s_ended st) (s_hstate st) (s_clen st) (s_expect st) (s_push st) x (s_btype st) (s_bpush st).
Definition set_btype st x := mkS (s_id st) (s_buf st) (s_cur st) (s_session st) (s_blocked st) (s_ended st) (s_hstate st) (s_clen st) (s_expect st) (s_push st) (s_stype st) x (s_bpush st).
Definition set_bpush st x := mkS (s_id st) (s_buf st) (s_cur st) (s_session st) (s_blocked st) (s_ended st) (s_hstate st) (s_clen st) (s_expect st) (s_push st) (s_stype st) (s_btype st) x.

Definition is_nil {A} (l : list A) : bool := match l with [] => true | _ => false end.
Definition is_none {A} (o : option A) : bool := match o with None => true | _ => false end.

(* _check_content_length: true = passes *)
Definition check_cl (st : hstream) : bool :=
  match s_expect st with Some e => s_clen st =? e | None => true end.

(* ---------------------------------------------------------------- _handle_request_or_push_frame *)
Inductive hres :=
| HVal (evs : list event) (st : hstream)
| HBlocked (st : hstream)        (* pylsqpack.StreamBlocked propagates *)
| HErr (code : Z)
| HExn (k : Z).

(* the DataReceived(b"", stream_ended=True) added by C14-fix-2 *)
Definition endmark (fx : fixes) (st : hstream) (ended : bool) (evs : list event) : hres :=
  if fx_endmark fx && ended then
    if check_cl st then HVal (evs ++ [EData (s_id st) (s_push st) [] true]) st else HErr H3_MESSAGE_ERROR
  else HVal evs st.

Definition unexpected_rp (t : Z) : bool :=
  (t =? 2) || (t =? 3) || (t =? 4) || (t =? 5) || (t =? 7) || (t =? 13) || (t =? 14).

Definition handle_rp_frame (fx : fixes) (O : oracle) (client : bool)
           (t : Z) (data : option (list Z)) (st : hstream) (ended : bool) : hres :=
  if t =? 0 then
    if negb (s_hstate st =? 1) then HErr H3_FRAME_UNEXPECTED else
    let st1 := match data with Some d => set_clen st (s_clen st + Zlen d) | None => st end in
    if ended && negb (check_cl st1) then HErr H3_MESSAGE_ERROR else
    let d := match data with Some d => d | None => [] end in
    if ended || negb (is_nil d) then HVal [EData (s_id st) (s_push st) d ended] st1 else HVal [] st1
  else if t =? 1 then
    if s_hstate st =? 2 then HErr H3_FRAME_UNEXPECTED else
    match (match data with Some d => o_dec O (s_id st) d | None => o_resume O (s_id st) end) with
    | DBlocked => HBlocked st
    | DFailed => HErr QPACK_DECOMPRESSION_FAILED
    | DHeaders hid =>
        let kind := if s_hstate st =? 0 then (if client then 1 else 0) else 2 in
        let '(ok, cl) := o_val O kind hid in
        if negb ok then HErr H3_MESSAGE_ERROR else
        let st1 := if s_hstate st =? 0 then set_expect st cl else st in
        if ended && negb (check_cl st1) then HErr H3_MESSAGE_ERROR else
        HVal [EHeaders (s_id st) (s_push st) hid ended]
             (set_hstate st1 (if s_hstate st =? 0 then 1 else 2))
    end
  else if (t =? 5) && is_none (s_push st) then
    if negb client then HErr H3_FRAME_UNEXPECTED else
    match data with
    | None =>
        if fx_pushblock fx then
          (* C14-fix-3: resume a PUSH_PROMISE that waited for the encoder stream (push_id = blocked_push_id;
             it is never None when this is reached, -1 stands for Python's None) *)
          let pid := match s_bpush st with Some p => p | None => -1 end in
          match o_resume O (s_id st) with
          | DBlocked => HBlocked st
          | DFailed => HErr QPACK_DECOMPRESSION_FAILED
          | DHeaders hid =>
              if negb (fst (o_val O 3 hid)) then HErr H3_MESSAGE_ERROR else
              endmark fx st ended [EPush (s_id st) pid hid]
          end
        else
          (* not reached on the pinned code (it resumes with HEADERS); Buffer(data=None) is an empty buffer *)
          if fx_pushpromise fx then HErr H3_FRAME_ERROR else HExn X_PUSHPROMISE_READ
    | Some d =>
        match pull_uint_var d with
        | None => if fx_pushpromise fx then HErr H3_FRAME_ERROR else HExn X_PUSHPROMISE_READ
        | Some (pid, rest) =>
            let st := if fx_pushblock fx then set_bpush st (Some pid) else st in
            match o_dec O (s_id st) rest with
            | DBlocked => HBlocked st
            | DFailed => HErr QPACK_DECOMPRESSION_FAILED
            | DHeaders hid =>
                if negb (fst (o_val O 3 hid)) then HErr H3_MESSAGE_ERROR else
                endmark fx st ended [EPush (s_id st) pid hid]
            end
        end
    end
  else if unexpected_rp t then HErr H3_FRAME_UNEXPECTED
  else endmark fx st ended [].

(* ---------------------------------------------------------------- _receive_request_or_push_data *)
Inductive rres :=
| RVal (evs : list event) (st : hstream)
| RErr (code : Z)
| RExn (k : Z).

(* the while loop; [b] = stream.buffer[consumed:] at the loop head, [e] = stream.receiving_ended,
   [fin] = the stream_ended parameter.  Returns the stream with buffer = buffer[consumed:]. *)
Fixpoint rq_loop (fuel : nat) (fx : fixes) (O : oracle) (client : bool) (fin : bool)
         (st : hstream) (b : list Z) (evs : list event) : rres :=
  match fuel with
  | O => RVal evs (set_buf st b)
  | S fuel =>
    if is_nil b then RVal evs (set_buf st b) else
    (* frame header *)
    let hdr :=
      match s_cur st with
      | Some (t, n) => Some (t, n, b)
      | None =>
          match pull_uint_var b with
          | None => None
          | Some (t, b1) =>
              match pull_uint_var b1 with
              | None => None
              | Some (n, b2) => Some (t, n, b2)
              end
          end
      end in
    match hdr with
    | None => RVal evs (set_buf st b)                        (* BufferReadError: break *)
    | Some (t, n, b2) =>
      if is_none (s_cur st) && (t =? 65) then
        (* WEBTRANSPORT_STREAM: session_id = frame_size, lasts until the end of the stream *)
        let st1 := set_buf (set_session (set_cur st None) (Some n)) [] in
        RVal (evs ++ (if negb (is_nil b2) || fin then [EWT (s_id st) n b2 fin] else [])) st1
      else
        let chunk := Z.min n (Zlen b2) in
        if negb (t =? 0) && (chunk <? n) then RVal evs (set_buf (set_cur st (Some (t, n))) b2)
        else
          let data := ztake chunk b2 in
          let b3 := zdrop chunk b2 in
          let n' := n - chunk in
          let cur' := if n' =? 0 then None else Some (t, n') in
          let st1 := set_cur st cur' in
          let ended := s_ended st && is_nil b3 && (negb (fx_trunc fx) || is_none cur') in
          match handle_rp_frame fx O client t (Some data) st1 ended with
          | HVal e st2 => rq_loop fuel fx O client fin st2 b3 (evs ++ e)
          | HBlocked st2 => RVal evs (set_buf (set_btype (set_blocked st2 true) (if fx_pushblock fx then Some t else s_btype st2)) b3)
          | HErr c => RErr c
          | HExn k => RExn k
          end
    end
  end.

Definition rq_fuel (b : list Z) : nat := S (S (length b + length b)).

Definition rq_recv (fx : fixes) (O : oracle) (client : bool) (st0 : hstream) (data : list Z) (fin : bool) : rres :=
  let st := set_ended (set_buf st0 (s_buf st0 ++ data)) (s_ended st0 || fin) in
  let buf := s_buf st in
  if s_blocked st then RVal [] st else
  (* shortcut for WEBTRANSPORT_STREAM frame fragments *)
  match s_session st with
  | Some sess => RVal [EWT (s_id st) sess buf fin] (set_buf st [])
  | None =>
    (* shortcut for DATA frame fragments *)
    let shortcut :=
      match s_cur st with
      | Some (t, n) => if (t =? 0) && (Zlen buf <? n) && negb (fx_trunc fx && fin) then Some n else None
      | None => None
      end in
    match shortcut with
    | Some n =>
        RVal [EData (s_id st) (s_push st) buf false]
             (set_buf (set_cur (set_clen st (s_clen st + Zlen buf)) (Some (0, n - Zlen buf))) [])
    | None =>
      (* lone FIN *)
      if fin && is_nil buf && (negb (fx_trunc fx) || is_none (s_cur st)) then
        if check_cl st then RVal [EData (s_id st) (s_push st) [] true] st else RErr H3_MESSAGE_ERROR
      else
        match rq_loop (rq_fuel buf) fx O client fin (set_buf st []) buf [] with
        | RVal evs st' =>
            if fx_trunc fx && fin && negb (s_blocked st') && (negb (is_nil (s_buf st')) || negb (is_none (s_cur st')))
            then RErr H3_FRAME_ERROR else RVal evs st'
        | r => r
        end
    end
  end.

(* ---------------------------------------------------------------- connection *)
Record conn := mkC {
  c_client : bool;
  c_dgram : bool;                        (* quic._remote_max_datagram_frame_size is not None *)
  c_done : bool;                         (* _is_done *)
  c_settings : option (list (Z * Z));    (* _received_settings (insertion order); Some <-> _settings_received *)
  c_ctrl : option Z;                     (* _peer_control_stream_id *)
  c_qdec : option Z;                     (* _peer_decoder_stream_id *)
  c_qenc : option Z;                     (* _peer_encoder_stream_id *)
  c_maxpush : option Z;                  (* _max_push_id *)
  c_streams : list hstream;              (* _stream, insertion order *)
  c_sent_end : list Z                    (* stream ids whose H3Stream.sending_ended is set (local send_headers /
                                            send_data with end_stream=True); kept here, not in hstream *)
}.
Definition conn_init (client dgram : bool) : conn :=
  mkC client dgram false None None None None (if client then Some 8 else None) [] [].

Definition set_done c x := mkC (c_client c) (c_dgram c) x (c_settings c) (c_ctrl c) (c_qdec c) (c_qenc c) (c_maxpush c) (c_streams c) (c_sent_end c).
Definition set_settings c x := mkC (c_client c) (c_dgram c) (c_done c) x (c_ctrl c) (c_qdec c) (c_qenc c) (c_maxpush c) (c_streams c) (c_sent_end c).
Definition set_ctrl c x := mkC (c_client c) (c_dgram c) (c_done c) (c_settings c) x (c_qdec c) (c_qenc c) (c_maxpush c) (c_streams c) (c_sent_end c).
Definition set_qdec c x := mkC (c_client c) (c_dgram c) (c_done c) (c_settings c) (c_ctrl c) x (c_qenc c) (c_maxpush c) (c_streams c) (c_sent_end c).
Definition set_qenc c x := mkC (c_client c) (c_dgram c) (c_done c) (c_settings c) (c_ctrl c) (c_qdec c) x (c_maxpush c) (c_streams c) (c_sent_end c).
Definition set_maxpush c x := mkC (c_client c) (c_dgram c) (c_done c) (c_settings c) (c_ctrl c) (c_qdec c) (c_qenc c) x (c_streams c) (c_sent_end c).
Definition set_streams c x := mkC (c_client c) (c_dgram c) (c_done c) (c_settings c) (c_ctrl c) (c_qdec c) (c_qenc c) (c_maxpush c) x (c_sent_end c).
Definition set_sent_end c x := mkC (c_client c) (c_dgram c) (c_done c) (c_settings c) (c_ctrl c) (c_qdec c) (c_qenc c) (c_maxpush c) (c_streams c) x.

Fixpoint find_stream (sid : Z) (l : list hstream) : option hstream :=
  match l with
  | [] => None
  | s :: t => if s_id s =? sid then Some s else find_stream sid t
  end.
Fixpoint put_stream (s : hstream) (l : list hstream) : list hstream :=
  match l with
  | [] => [s]
  | x :: t => if s_id x =? s_id s then s :: t else x :: put_stream s t
  end.

(* ---- parse_settings / _validate_settings / parse_max_push_id *)
Fixpoint assoc (k : Z) (l : list (Z * Z)) : option Z :=
  match l with [] => None | (a, v) :: t => if a =? k then Some v else assoc k t end.

Definition reserved_setting (s : Z) : bool := (s =? 0) || (s =? 2) || (s =? 3) || (s =? 4) || (s =? 5).

Fixpoint parse_settings (fuel : nat) (fx : fixes) (b : list Z) (acc : list (Z * Z)) : out (list (Z * Z)) :=
  match fuel with
  | O => Val acc
  | S fuel =>
    if is_nil b then Val acc else
    match pull_uint_var b with
    | None => if fx_settings fx then PErr H3_FRAME_ERROR else Exn X_SETTINGS_READ
    | Some (s, b1) =>
      match pull_uint_var b1 with
      | None => if fx_settings fx then PErr H3_FRAME_ERROR else Exn X_SETTINGS_READ
      | Some (v, b2) =>
          if reserved_setting s then PErr H3_SETTINGS_ERROR
          else if negb (is_none (assoc s acc)) then PErr H3_SETTINGS_ERROR
          else parse_settings fuel fx b2 (acc ++ [(s, v)])
      end
    end
  end.

Definition S_CONNECT := 8.
Definition S_DATAGRAM := 51.
Definition S_WEBTRANSPORT := 727725890.   (* 0x2B603742 *)

Definition bad01 (o : option Z) : bool :=
  match o with Some v => negb ((v =? 0) || (v =? 1)) | None => false end.
Definition is1 (o : option Z) : bool := match o with Some v => v =? 1 | None => false end.

Definition validate_settings (dgram : bool) (s : list (Z * Z)) : bool :=   (* true = accepted *)
  if bad01 (assoc S_CONNECT s) || bad01 (assoc S_WEBTRANSPORT s) || bad01 (assoc S_DATAGRAM s) then false
  else if is1 (assoc S_DATAGRAM s) && negb dgram then false
  else if is1 (assoc S_WEBTRANSPORT s) && negb (is1 (assoc S_DATAGRAM s)) then false
  else true.

Definition parse_max_push_id (fx : fixes) (d : list Z) : out Z :=
  match pull_uint_var d with
  | None => if fx_maxpush fx then PErr H3_FRAME_ERROR else Exn X_MAXPUSH_READ
  | Some (v, r) =>
      if is_nil r then Val v
      else if fx_maxpush fx then PErr H3_FRAME_ERROR else Exn X_MAXPUSH_ASSERT
  end.

Definition handle_control_frame (fx : fixes) (c : conn) (t : Z) (d : list Z) : out conn :=
  if negb (t =? 4) && is_none (c_settings c) then PErr H3_MISSING_SETTINGS
  else if t =? 4 then
    if negb (is_none (c_settings c)) then PErr H3_FRAME_UNEXPECTED else
    match parse_settings (S (length d)) fx d [] with
    | Val s => if validate_settings (c_dgram c) s then Val (set_settings c (Some s)) else PErr H3_SETTINGS_ERROR
    | PErr k => PErr k
    | Exn k => Exn k
    end
  else if t =? 13 then
    if c_client c then PErr H3_FRAME_UNEXPECTED else
    match parse_max_push_id fx d with
    | Val v => Val (set_maxpush c (Some v))
    | PErr k => PErr k
    | Exn k => Exn k
    end
  else if (t =? 0) || (t =? 1) || (t =? 5) || (t =? 14) then PErr H3_FRAME_UNEXPECTED
  else Val c.

(* ---- _receive_stream_data_uni *)
(* result of the while loop: the stream (buffer = buffer[consumed:]), the connection, the unblocked
   stream ids; or an early return through the push / webtransport branches *)
Inductive ures :=
| ULoop (st : hstream) (c : conn) (unb : list Z)
| URet (evs : list event) (st : hstream) (c : conn)
| UErr (code : Z) (c : conn)     (* the connection as mutated before the raise (received_settings, max_push_id) *)
| UExn (k : Z).

Definition pull_frame (b : list Z) : option (Z * list Z * list Z) :=
  match pull_uint_var b with
  | None => None
  | Some (t, b1) =>
      match pull_uint_var b1 with
      | None => None
      | Some (n, b2) => if Zlen b2 <? n then None else Some (t, ztake n b2, zdrop n b2)
      end
  end.

Definition stream_loops (o : option Z) : bool :=
  match o with Some t => (t =? 1) || (t =? 0) || (t =? 84) | None => false end.

Fixpoint uni_loop (fuel : nat) (fx : fixes) (O : oracle) (fin : bool)
         (st : hstream) (c : conn) (b : list Z) (unb : list Z) : ures :=
  match fuel with
  | O => ULoop (set_buf st b) c unb
  | S fuel =>
    if negb (stream_loops (s_stype st) || negb (is_nil b)) then ULoop (set_buf st b) c unb else
    (* stream type *)
    let typed :=
      match s_stype st with
      | Some t => Some (inl (t, b, c))
      | None =>
          match pull_uint_var b with
          | None => None
          | Some (t, b1) =>
              if t =? 0 then
                (if is_none (c_ctrl c) then Some (inl (t, b1, set_ctrl c (Some (s_id st)))) else Some (inr tt))
              else if t =? 3 then
                (if is_none (c_qdec c) then Some (inl (t, b1, set_qdec c (Some (s_id st)))) else Some (inr tt))
              else if t =? 2 then
                (if is_none (c_qenc c) then Some (inl (t, b1, set_qenc c (Some (s_id st)))) else Some (inr tt))
              else Some (inl (t, b1, c))
          end
      end in
    match typed with
    | None => ULoop (set_buf st b) c unb
    | Some (inr _) => UErr H3_STREAM_CREATION_ERROR c
    | Some (inl (t, b, c)) =>
      let st := set_stype st (Some t) in
      if t =? 0 then
        if fin then UErr H3_CLOSED_CRITICAL_STREAM c else
        match pull_frame b with
        | None => ULoop (set_buf st b) c unb
        | Some (ft, fd, b') =>
            match handle_control_frame fx c ft fd with
            | Val c' => uni_loop fuel fx O fin st c' b' unb
            | PErr k => UErr k c
            | Exn k => UExn k
            end
        end
      else if t =? 1 then
        match (match s_push st with
               | Some p => Some (st, b)
               | None => match pull_uint_var b with
                         | None => None
                         | Some (p, b1) => Some (set_push st (Some p), b1)
                         end
               end) with
        | None => ULoop (set_buf st b) c unb
        | Some (st, b) => URet [] (set_buf st b) c      (* continues in rq_recv, see uni_recv *)
        end
      else if t =? 84 then
        match (match s_session st with
               | Some p => Some (st, b)
               | None => match pull_uint_var b with
                         | None => None
                         | Some (p, b1) => Some (set_session st (Some p), b1)
                         end
               end) with
        | None => ULoop (set_buf st b) c unb
        | Some (st, b) =>
            let sess := match s_session st with Some p => p | None => 0 end in
            URet (if negb (is_nil b) || fin then [EWT (s_id st) sess b (s_ended st)] else []) (set_buf st []) c
        end
      else if t =? 3 then
        if o_ds O b then uni_loop fuel fx O fin st c [] unb else UErr QPACK_DECODER_STREAM_ERROR c
      else if t =? 2 then
        match o_enc O b with
        | EUnblocked l => uni_loop fuel fx O fin st c [] (unb ++ l)
        | EEncErr => UErr QPACK_ENCODER_STREAM_ERROR c
        end
      else uni_loop fuel fx O fin st c [] unb
    end
  end.

(* the "process unblocked streams" loop *)
Inductive rsd :=
| SVal (evs : list event) (c : conn)
| SErr (code : Z) (c : conn)
| SExn (k : Z).

Fixpoint unblock (fx : fixes) (O : oracle) (c : conn) (unb : list Z) (evs : list event) : rsd :=
  match unb with
  | [] => SVal evs c
  | sid :: rest =>
      match find_stream sid (c_streams c) with
      | None => SExn X_UNBLOCK_KEY
      | Some s =>
          let t := if fx_pushblock fx then (match s_btype s with Some t => t | None => -1 end) else 1 in
          match handle_rp_frame fx O (c_client c) t None s (s_ended s && is_nil (s_buf s)) with
          | HBlocked _ => SExn X_UNBLOCK_BLOCKED
          | HErr k => SErr k c
          | HExn k => SExn k
          | HVal e s1 =>
              let s2 := set_btype (set_blocked s1 false) (if fx_pushblock fx then None else s_btype s1) in
              if negb (is_nil (s_buf s2)) then
                match rq_recv fx O (c_client c) s2 [] (s_ended s2) with
                | RVal e2 s3 => unblock fx O (set_streams c (put_stream s3 (c_streams c))) rest (evs ++ e ++ e2)
                | RErr k => SErr k c
                | RExn k => SExn k
                end
              else unblock fx O (set_streams c (put_stream s2 (c_streams c))) rest (evs ++ e)
          end
      end
  end.

Definition is_uni (sid : Z) : bool := negb ((sid / 2) mod 2 =? 0).   (* stream_id & 2 *)

Definition get_or_create (c : conn) (sid : Z) : hstream * conn :=
  match find_stream sid (c_streams c) with
  | Some s => (s, c)
  | None => let s := new_stream sid in (s, set_streams c (c_streams c ++ [s]))
  end.

Definition uni_fuel (b : list Z) : nat := S (S (S (length b))).

(* _receive_stream_data, without the exit of the _get_or_create_stream context manager *)
Definition receive_stream_data0 (fx : fixes) (O : oracle) (c0 : conn) (sid : Z) (data : list Z) (fin : bool)
  : rsd :=
  let '(s0, c) := get_or_create c0 sid in
  if is_uni sid then
    let st := set_ended (set_buf s0 (s_buf s0 ++ data)) (s_ended s0 || fin) in
    match uni_loop (uni_fuel (s_buf st)) fx O fin st c (s_buf st) [] with
    | UErr k c' => SErr k c'
    | UExn k => SExn k
    | URet evs st c =>
        match s_stype st with
        | Some 1 =>
            match rq_recv fx O (c_client c) st [] fin with
            | RVal e st' => SVal e (set_streams c (put_stream st' (c_streams c)))
            | RErr k => SErr k c
            | RExn k => SExn k
            end
        | _ => SVal evs (set_streams c (put_stream st (c_streams c)))
        end
    | ULoop st c unb => unblock fx O (set_streams c (put_stream st (c_streams c))) unb []
    end
  else
    match rq_recv fx O (c_client c) s0 data fin with
    | RVal e st' => SVal e (set_streams c (put_stream st' (c_streams c)))
    | RErr k => SErr k c
    | RExn k => SExn k
    end.

(* H3Stream.is_ended and the exit of the _get_or_create_stream context manager:
   "if stream.is_ended(): self._stream.pop(stream_id)" (runs in a finally clause, also when a ProtocolError is raised) *)
Fixpoint memz (x : Z) (l : list Z) : bool :=
  match l with [] => false | y :: t => (x =? y) || memz x t end.
Definition is_ended (c : conn) (s : hstream) : bool :=
  memz (s_id s) (c_sent_end c) && s_ended s && negb (s_blocked s).
Fixpoint remove_stream (sid : Z) (l : list hstream) : list hstream :=
  match l with
  | [] => []
  | s :: t => if s_id s =? sid then t else s :: remove_stream sid t
  end.
Definition pop_if_ended (c : conn) (sid : Z) : conn :=
  match find_stream sid (c_streams c) with
  | Some s => if is_ended c s then set_streams c (remove_stream sid (c_streams c)) else c
  | None => c
  end.

Definition receive_stream_data (fx : fixes) (O : oracle) (c0 : conn) (sid : Z) (data : list Z) (fin : bool) : rsd :=
  match receive_stream_data0 fx O c0 sid data fin with
  | SVal evs c => SVal evs (pop_if_ended c sid)
  | SErr k c => SErr k (pop_if_ended c sid)
  | SExn k => SExn k
  end.

(* the local application ends its sending side: send_headers / send_data (..., end_stream=True) *)
Definition local_end (c0 : conn) (sid : Z) : conn :=
  let '(_, c) := get_or_create c0 sid in
  let c := if memz sid (c_sent_end c) then c else set_sent_end c (sid :: c_sent_end c) in
  pop_if_ended c sid.

Definition receive_datagram (d : list Z) : out (list event) :=
  match pull_uint_var d with
  | None => PErr H3_DATAGRAM_ERROR
  | Some (q, r) => Val [EDatagram (q * 4) r]
  end.

Inductive qevent :=
| QStream (sid : Z) (data : list Z) (fin : bool)
| QDatagram (data : list Z)
| QOther
| QLocalEnd (sid : Z).        (* not a transport event: the application finished sending on the stream *)

(* what one handle_event call shows: the returned events, or the close code, or the escaping exception *)
Inductive hout :=
| Events (evs : list event)
| Closed (code : Z)            (* returned [] after self._quic.close(error_code=code) *)
| Raised (k : Z).

Definition handle_event (fx : fixes) (O : oracle) (c : conn) (ev : qevent) : hout * conn :=
  match ev with QLocalEnd sid => (Events [], local_end c sid) | _ =>
  if c_done c then (Events [], c) else
  match ev with
  | QLocalEnd _ => (Events [], c)
  | QStream sid data fin =>
      match receive_stream_data fx O c sid data fin with
      | SVal evs c' => (Events evs, c')
      | SErr k c' => (Closed k, set_done c' true)
      | SExn k => (Raised k, c)
      end
  | QDatagram d =>
      match receive_datagram d with
      | Val evs => (Events evs, c)
      | PErr k => (Closed k, set_done c true)
      | Exn k => (Raised k, c)
      end
  | QOther => (Events [], c)
  end end.

(* run a whole trace; stops at the first escaping exception *)
Fixpoint run (fx : fixes) (c : conn) (tr : list (qevent * oracle)) : list hout :=
  match tr with
  | [] => []
  | (ev, orc) :: rest =>
      let '(o, c') := handle_event fx orc c ev in
      match o with
      | Raised _ => [o]
      | _ => o :: run fx c' rest
      end
  end.

(* ---------------------------------------------------------------- executable interface
   tokens: client dgram fx_maxpush fx_settings fx_pushpromise fx_trunc fx_endmark fx_pushblock, then ops:
     0 sid fin <bytes> <oracle tables>     StreamDataReceived
     1 <bytes>                             DatagramFrameReceived
     2                                     any other event
     3 sid                                 the local application ends its sending side of stream sid
   <bytes> = n b1..bn
   <oracle tables> =
     ndec  (sid <bytes> kind hid)*         kind 0 headers / 1 blocked / 2 failed
     nres  (sid kind hid)*
     nval  (vkind hid ok <opt cl>)*
     nenc  (<bytes> kind <list sids>)*     kind 0 ok / 1 EncoderStreamError
     nds   (<bytes> ok)*
   output per op: 0 nev events.. | 1 code | 2 exn ; then max_push_id (opt), received_settings (opt count pairs)
   event tokens: 0 sid <opt push> fin <bytes> | 1 sid <opt push> hid fin | 2 sid pushid hid
                 | 3 sid session fin <bytes> | 4 sid <bytes> *)
Fixpoint list_eqb (a b : list Z) : bool :=
  match a, b with
  | [], [] => true
  | x :: a, y :: b => (x =? y) && list_eqb a b
  | _, _ => false
  end.

Fixpoint tk_rep {A} (n : nat) (rd : list Z -> A * list Z) (t : list Z) : list A * list Z :=
  match n with
  | O => ([], t)
  | S n => let '(a, t) := rd t in let '(l, t) := tk_rep n rd t in (a :: l, t)
  end.
Definition tk_table {A} (rd : list Z -> A * list Z) (t : list Z) : list A * list Z :=
  match t with
  | n :: t => tk_rep (Z.to_nat n) rd t
  | [] => ([], [])
  end.
Definition tk1 (t : list Z) : Z * list Z := match t with x :: t => (x, t) | [] => (0, []) end.

Definition mk_dres (kind hid : Z) : dres := if kind =? 0 then DHeaders hid else if kind =? 1 then DBlocked else DFailed.

Definition rd_dec (t : list Z) : (Z * list Z * dres) * list Z :=
  let '(sid, t) := tk1 t in let '(d, t) := tk_list t in let '(k, t) := tk1 t in let '(h, t) := tk1 t in
  ((sid, d, mk_dres k h), t).
Definition rd_res (t : list Z) : (Z * dres) * list Z :=
  let '(sid, t) := tk1 t in let '(k, t) := tk1 t in let '(h, t) := tk1 t in ((sid, mk_dres k h), t).
Definition rd_val (t : list Z) : (Z * Z * (bool * option Z)) * list Z :=
  let '(vk, t) := tk1 t in let '(h, t) := tk1 t in let '(ok, t) := tk1 t in let '(cl, t) := tk_opt t in
  ((vk, h, (z2b ok, cl)), t).
Definition rd_enc (t : list Z) : (list Z * eres) * list Z :=
  let '(d, t) := tk_list t in let '(k, t) := tk1 t in let '(l, t) := tk_list t in
  ((d, if k =? 0 then EUnblocked l else EEncErr), t).
Definition rd_ds (t : list Z) : (list Z * bool) * list Z :=
  let '(d, t) := tk_list t in let '(ok, t) := tk1 t in ((d, z2b ok), t).

Fixpoint look_dec (l : list (Z * list Z * dres)) (sid : Z) (d : list Z) : dres :=
  match l with
  | [] => DFailed
  | (s, x, r) :: t => if (s =? sid) && list_eqb x d then r else look_dec t sid d
  end.
Fixpoint look_res (l : list (Z * dres)) (sid : Z) : dres :=
  match l with [] => DFailed | (s, r) :: t => if s =? sid then r else look_res t sid end.
Fixpoint look_val (l : list (Z * Z * (bool * option Z))) (vk h : Z) : bool * option Z :=
  match l with
  | [] => (false, None)
  | (k, x, r) :: t => if (k =? vk) && (x =? h) then r else look_val t vk h
  end.
Fixpoint look_enc (l : list (list Z * eres)) (d : list Z) : eres :=
  match l with [] => EEncErr | (x, r) :: t => if list_eqb x d then r else look_enc t d end.
Fixpoint look_ds (l : list (list Z * bool)) (d : list Z) : bool :=
  match l with [] => false | (x, r) :: t => if list_eqb x d then r else look_ds t d end.

Definition rd_oracle (t : list Z) : oracle * list Z :=
  let '(td, t) := tk_table rd_dec t in
  let '(tr, t) := tk_table rd_res t in
  let '(tv, t) := tk_table rd_val t in
  let '(te, t) := tk_table rd_enc t in
  let '(ts, t) := tk_table rd_ds t in
  (mkO (look_dec td) (look_res tr) (look_val tv) (look_enc te) (look_ds ts), t).

Definition out_event (e : event) : list Z :=
  match e with
  | EData sid p d f => 0 :: sid :: out_opt p ++ b2z f :: out_list d
  | EHeaders sid p h f => 1 :: sid :: out_opt p ++ [h; b2z f]
  | EPush sid pid h => [2; sid; pid; h]
  | EWT sid s d f => 3 :: sid :: s :: b2z f :: out_list d
  | EDatagram sid d => 4 :: sid :: out_list d
  end.

Definition out_pairs (l : list (Z * Z)) : list Z := flat_map (fun p => [fst p; snd p]) l.
Definition obs_conn (c : conn) : list Z :=
  out_opt (c_maxpush c) ++
  match c_settings c with None => [0] | Some l => 1 :: Zlen l :: out_pairs l end.

Definition out_hout (o : hout) : list Z :=
  match o with
  | Events evs => 0 :: Zlen evs :: flat_map out_event evs
  | Closed k => [1; k]
  | Raised k => [2; k]
  end.

Fixpoint exec_h3_ops (fuel : nat) (fx : fixes) (c : conn) (t : list Z) : list Z :=
  match fuel with O => [] | S fuel =>
  match t with
  | 0 :: sid :: fin :: t =>
      let '(d, t) := tk_list t in
      let '(orc, t) := rd_oracle t in
      let '(o, c') := handle_event fx orc c (QStream sid d (z2b fin)) in
      out_hout o ++ match o with Raised _ => [] | _ => obs_conn c' ++ exec_h3_ops fuel fx c' t end
  | 1 :: t =>
      let '(d, t) := tk_list t in
      let '(o, c') := handle_event fx (mkO (fun _ _ => DFailed) (fun _ => DFailed) (fun _ _ => (false, None))
                                           (fun _ => EEncErr) (fun _ => false)) c (QDatagram d) in
      out_hout o ++ obs_conn c' ++ exec_h3_ops fuel fx c' t
  | 2 :: t =>
      out_hout (Events []) ++ obs_conn c ++ exec_h3_ops fuel fx c t
  | 3 :: sid :: t =>
      let c' := local_end c sid in
      out_hout (Events []) ++ obs_conn c' ++ exec_h3_ops fuel fx c' t
  | _ => []
  end end.

(* EXTRACT: exec_h3 *)
Definition exec_h3 (t : list Z) : list Z :=
  match t with
  | cl :: dg :: f1 :: f2 :: f3 :: f4 :: f5 :: f6 :: ops =>
      exec_h3_ops (length ops) (mkF (z2b f1) (z2b f2) (z2b f3) (z2b f4) (z2b f5) (z2b f6)) (conn_init (z2b cl) (z2b dg)) ops
  | _ => []
  end.
