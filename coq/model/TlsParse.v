(* C05: the TLS handshake-message parsers of src/aioquic/tls.py (pull_client_hello, pull_server_hello,
   pull_encrypted_extensions, pull_certificate, pull_certificate_request, pull_certificate_verify,
   pull_finished, pull_new_session_ticket) as total functions into TYPED records, every raise site an
   explicit outcome.  Modelled at the CURRENT tree (after fix commits 9ce6631 / 759c7d3 / bb5bf12):

     BufferReadError            Err E_READ            short input in any Buffer.pull_*
     AlertDecodeError           Err E_ALERT_DECODE    pull_block exit check, legacy version != 1.2,
                                                      EncryptedExtensions ALPN list without usable entry
     AlertIllegalParameter      Err E_ALERT_ILLEGAL   unknown ServerName type, non-ASCII ServerName,
                                                      extension after pre_shared_key
     AssertionError             Err E_ASSERT          pull_handshake_type (first byte != expected type)

   The block / list combinators (pull_block, pull_opaque, pull_fold, pull_list, is_ascii) and the Buffer
   primitives are imported from C17's model/TlsCodec.v and model/Codec.v.  C17's message decoders are
   NOT reused: they return token dumps and still describe the tree before 759c7d3 (IndexError on an
   empty ALPN list, UnicodeDecodeError on a non-ASCII server name).
   Fields no handler reads (random, server_name, supported_groups, ...) are parsed and dropped. *)
From AQ Require Import lib.Base model.Codec model.TlsCodec gen.C05Tls.

Definition key_share := (Z * list Z)%type.            (* (group, key_exchange) *)
Definition extension := (Z * list Z)%type.            (* other_extensions entry *)

(* ---- list items (the `func` argument of pull_list), state = items so far ------------------- *)
Definition it_uint (w : nat) (acc : list Z) (bs : list Z) : Res (list Z * list Z) :=
  '(v, r) <- pull_be w bs ;; Ok (acc ++ [v], r).

Definition pull_key_share (bs : list Z) : Res (key_share * list Z) :=
  '(g, b1) <- pull_uint16 bs ;; '(d, b2) <- pull_opaque 2 b1 ;; Ok ((g, d), b2).
Definition it_key_share (acc : list key_share) (bs : list Z) : Res (list key_share * list Z) :=
  '(k, r) <- pull_key_share bs ;; Ok (acc ++ [k], r).

(* pull_alpn_protocol: `except UnicodeDecodeError: raise SkipItem`, SkipItem swallowed by pull_list *)
Definition it_alpn (acc : list (list Z)) (bs : list Z) : Res (list (list Z) * list Z) :=
  '(d, r) <- pull_opaque 1 bs ;; Ok (if is_ascii d then acc ++ [d] else acc, r).

(* pull_psk_identity / pull_psk_binder: only the number of entries is read by the handler *)
Definition it_psk_identity (acc : list (list Z)) (bs : list Z) : Res (list (list Z) * list Z) :=
  '(d, b1) <- pull_opaque 2 bs ;; '(_, b2) <- pull_uint32 b1 ;; Ok (acc ++ [d], b2).
Definition it_psk_binder (acc : list (list Z)) (bs : list Z) : Res (list (list Z) * list Z) :=
  '(d, b1) <- pull_opaque 1 bs ;; Ok (acc ++ [d], b1).

Definition it_certificate_entry (acc : list (list Z)) (bs : list Z) : Res (list (list Z) * list Z) :=
  '(d, b1) <- pull_opaque 3 bs ;; '(_, b2) <- pull_opaque 2 b1 ;; Ok (acc ++ [d], b2).

(* pull_server_name (after 759c7d3: UnicodeDecodeError -> AlertIllegalParameter) *)
Definition pull_server_name (bs : list Z) : Res (list Z * list Z) :=
  pull_block 2 (fun _ b =>
    '(nt, b1) <- pull_uint8 b ;;
    if negb (nt =? 0) then Err E_ALERT_ILLEGAL else
    '(d, b2) <- pull_opaque 2 b1 ;;
    if is_ascii d then Ok (d, b2) else Err E_ALERT_ILLEGAL) bs.

(* the common head of both hellos: legacy_version, random, legacy_session_id *)
Definition pull_hello_head (bs : list Z) : Res (list Z * list Z) :=
  '(ver, b1) <- pull_uint16 bs ;;
  if negb (ver =? TLS_VERSION_1_2) then Err E_ALERT_DECODE else
  '(_, b2) <- pull_bytes 32 b1 ;;
  '(sid, b3) <- pull_opaque 1 b2 ;;
  Ok (sid, b3).

(* ---- ClientHello --------------------------------------------------------------------------- *)
Record chello := mkCH {
  ch_session_id : list Z;
  ch_cipher_suites : list Z;
  ch_compression : list Z;
  ch_alpn : option (list (list Z));
  ch_early : bool;
  ch_key_share : option (list key_share);
  ch_psk : option (Z * Z);                 (* (len identities, len binders) of pre_shared_key *)
  ch_psk_modes : option (list Z);
  ch_sigalgs : option (list Z);
  ch_versions : option (list Z);
  ch_other : list extension
}.

(* the closure state of pull_extension: the hello being filled and `after_psk` *)
Definition ch_state := (chello * bool)%type.

Definition ch_set_key_share (h : chello) v := mkCH (ch_session_id h) (ch_cipher_suites h) (ch_compression h)
  (ch_alpn h) (ch_early h) (Some v) (ch_psk h) (ch_psk_modes h) (ch_sigalgs h) (ch_versions h) (ch_other h).
Definition ch_set_versions (h : chello) v := mkCH (ch_session_id h) (ch_cipher_suites h) (ch_compression h)
  (ch_alpn h) (ch_early h) (ch_key_share h) (ch_psk h) (ch_psk_modes h) (ch_sigalgs h) (Some v) (ch_other h).
Definition ch_set_sigalgs (h : chello) v := mkCH (ch_session_id h) (ch_cipher_suites h) (ch_compression h)
  (ch_alpn h) (ch_early h) (ch_key_share h) (ch_psk h) (ch_psk_modes h) (Some v) (ch_versions h) (ch_other h).
Definition ch_set_psk_modes (h : chello) v := mkCH (ch_session_id h) (ch_cipher_suites h) (ch_compression h)
  (ch_alpn h) (ch_early h) (ch_key_share h) (ch_psk h) (Some v) (ch_sigalgs h) (ch_versions h) (ch_other h).
Definition ch_set_alpn (h : chello) v := mkCH (ch_session_id h) (ch_cipher_suites h) (ch_compression h)
  (Some v) (ch_early h) (ch_key_share h) (ch_psk h) (ch_psk_modes h) (ch_sigalgs h) (ch_versions h) (ch_other h).
Definition ch_set_early (h : chello) := mkCH (ch_session_id h) (ch_cipher_suites h) (ch_compression h)
  (ch_alpn h) true (ch_key_share h) (ch_psk h) (ch_psk_modes h) (ch_sigalgs h) (ch_versions h) (ch_other h).
Definition ch_set_psk (h : chello) v := mkCH (ch_session_id h) (ch_cipher_suites h) (ch_compression h)
  (ch_alpn h) (ch_early h) (ch_key_share h) (Some v) (ch_psk_modes h) (ch_sigalgs h) (ch_versions h) (ch_other h).
Definition ch_add_other (h : chello) e := mkCH (ch_session_id h) (ch_cipher_suites h) (ch_compression h)
  (ch_alpn h) (ch_early h) (ch_key_share h) (ch_psk h) (ch_psk_modes h) (ch_sigalgs h) (ch_versions h) (ch_other h ++ [e]).

Definition ch_extension (s : ch_state) (bs : list Z) : Res (ch_state * list Z) :=
  let '(h, after_psk) := s in
  if after_psk then Err E_ALERT_ILLEGAL else          (* PreSharedKey is not the last extension *)
  '(ty, b1) <- pull_uint16 bs ;;
  '(len, b2) <- pull_uint16 b1 ;;
  if ty =? XT_KEY_SHARE then '(v, r) <- pull_list 2 it_key_share [] b2 ;; Ok ((ch_set_key_share h v, false), r)
  else if ty =? XT_SUPPORTED_VERSIONS then '(v, r) <- pull_list 1 (it_uint 2) [] b2 ;; Ok ((ch_set_versions h v, false), r)
  else if ty =? XT_SIGNATURE_ALGORITHMS then '(v, r) <- pull_list 2 (it_uint 2) [] b2 ;; Ok ((ch_set_sigalgs h v, false), r)
  else if ty =? XT_SUPPORTED_GROUPS then '(_, r) <- pull_list 2 (it_uint 2) [] b2 ;; Ok ((h, false), r)
  else if ty =? XT_PSK_KEY_EXCHANGE_MODES then '(v, r) <- pull_list 1 (it_uint 1) [] b2 ;; Ok ((ch_set_psk_modes h v, false), r)
  else if ty =? XT_SERVER_NAME then '(_, r) <- pull_server_name b2 ;; Ok ((h, false), r)
  else if ty =? XT_ALPN then '(v, r) <- pull_list 2 it_alpn [] b2 ;; Ok ((ch_set_alpn h v, false), r)
  else if ty =? XT_EARLY_DATA then Ok ((ch_set_early h, false), b2)
  else if ty =? XT_PRE_SHARED_KEY then
    '(ids, b3) <- pull_list 2 it_psk_identity [] b2 ;;
    '(bds, b4) <- pull_list 2 it_psk_binder [] b3 ;;
    Ok ((ch_set_psk h (Zlen ids, Zlen bds), true), b4)
  else '(d, r) <- pull_bytes len b2 ;; Ok ((ch_add_other h (ty, d), false), r).

Definition pull_client_hello (bs : list Z) : Res (chello * list Z) :=
  '(_, b0) <- pull_handshake_type 1 bs ;;
  pull_block 3 (fun _ b =>
    '(sid, b1) <- pull_hello_head b ;;
    '(cs, b2) <- pull_list 2 (it_uint 2) [] b1 ;;
    '(cm, b3) <- pull_list 1 (it_uint 1) [] b2 ;;
    '(s, b4) <- pull_list 2 ch_extension (mkCH sid cs cm None false None None None None None [], false) b3 ;;
    Ok (fst s, b4)) b0.

(* ---- ServerHello --------------------------------------------------------------------------- *)
Record shello := mkSH {
  sh_cipher_suite : Z;
  sh_compression : Z;
  sh_key_share : option key_share;
  sh_psk : option Z;
  sh_version : option Z
}.

Definition sh_extension (h : shello) (bs : list Z) : Res (shello * list Z) :=
  '(ty, b1) <- pull_uint16 bs ;;
  '(len, b2) <- pull_uint16 b1 ;;
  if ty =? XT_SUPPORTED_VERSIONS then
    '(v, r) <- pull_uint16 b2 ;; Ok (mkSH (sh_cipher_suite h) (sh_compression h) (sh_key_share h) (sh_psk h) (Some v), r)
  else if ty =? XT_KEY_SHARE then
    '(k, r) <- pull_key_share b2 ;; Ok (mkSH (sh_cipher_suite h) (sh_compression h) (Some k) (sh_psk h) (sh_version h), r)
  else if ty =? XT_PRE_SHARED_KEY then
    '(v, r) <- pull_uint16 b2 ;; Ok (mkSH (sh_cipher_suite h) (sh_compression h) (sh_key_share h) (Some v) (sh_version h), r)
  else '(_, r) <- pull_bytes len b2 ;; Ok (h, r).

Definition pull_server_hello (bs : list Z) : Res (shello * list Z) :=
  '(_, b0) <- pull_handshake_type 2 bs ;;
  pull_block 3 (fun _ b =>
    '(_, b1) <- pull_hello_head b ;;
    '(cs, b2) <- pull_uint16 b1 ;;
    '(cm, b3) <- pull_uint8 b2 ;;
    pull_list 2 sh_extension (mkSH cs cm None None None) b3) b0.

(* ---- EncryptedExtensions (after 759c7d3: empty / all-skipped ALPN list -> AlertDecodeError) -- *)
Definition ee_extension (other : list extension) (bs : list Z) : Res (list extension * list Z) :=
  '(ty, b1) <- pull_uint16 bs ;;
  '(len, b2) <- pull_uint16 b1 ;;
  if ty =? XT_ALPN then
    '(v, r) <- pull_list 2 it_alpn [] b2 ;;
    match v with [] => Err E_ALERT_DECODE | _ :: _ => Ok (other, r) end
  else if ty =? XT_EARLY_DATA then Ok (other, b2)
  else '(d, r) <- pull_bytes len b2 ;; Ok (other ++ [(ty, d)], r).

Definition pull_encrypted_extensions (bs : list Z) : Res (list extension * list Z) :=
  '(_, b0) <- pull_handshake_type 8 bs ;;
  pull_block 3 (fun _ b => pull_list 2 ee_extension [] b) b0.

(* ---- Certificate: the DER blobs, in order ---------------------------------------------------- *)
Definition pull_certificate (bs : list Z) : Res (list (list Z) * list Z) :=
  '(_, b0) <- pull_handshake_type 11 bs ;;
  pull_block 3 (fun _ b =>
    '(_, b1) <- pull_opaque 1 b ;;
    pull_list 3 it_certificate_entry [] b1) b0.

(* ---- CertificateRequest: signature_algorithms (None when the extension is absent) ----------- *)
Definition cr_extension (sa : option (list Z)) (bs : list Z) : Res (option (list Z) * list Z) :=
  '(ty, b1) <- pull_uint16 bs ;;
  '(len, b2) <- pull_uint16 b1 ;;
  if ty =? XT_SIGNATURE_ALGORITHMS then '(v, r) <- pull_list 2 (it_uint 2) [] b2 ;; Ok (Some v, r)
  else '(_, r) <- pull_bytes len b2 ;; Ok (sa, r).

Definition pull_certificate_request (bs : list Z) : Res (option (list Z) * list Z) :=
  '(_, b0) <- pull_handshake_type 13 bs ;;
  pull_block 3 (fun _ b =>
    '(_, b1) <- pull_opaque 1 b ;;
    pull_list 2 cr_extension None b1) b0.

(* ---- CertificateVerify: (algorithm, signature) ----------------------------------------------- *)
Definition pull_certificate_verify (bs : list Z) : Res ((Z * list Z) * list Z) :=
  '(_, b0) <- pull_handshake_type 15 bs ;;
  pull_block 3 (fun _ b =>
    '(alg, b1) <- pull_uint16 b ;;
    '(sig, b2) <- pull_opaque 2 b1 ;;
    Ok ((alg, sig), b2)) b0.

(* ---- Finished: verify_data --------------------------------------------------------------------- *)
Definition pull_finished (bs : list Z) : Res (list Z * list Z) :=
  '(_, b0) <- pull_handshake_type 20 bs ;;
  pull_opaque 3 b0.

(* ---- NewSessionTicket: max_early_data_size (None when absent); lifetime etc. cannot raise ------ *)
Definition nst_extension (med : option Z) (bs : list Z) : Res (option Z * list Z) :=
  '(ty, b1) <- pull_uint16 bs ;;
  '(len, b2) <- pull_uint16 b1 ;;
  if ty =? XT_EARLY_DATA then '(v, r) <- pull_uint32 b2 ;; Ok (Some v, r)
  else '(_, r) <- pull_bytes len b2 ;; Ok (med, r).

Definition pull_new_session_ticket (bs : list Z) : Res (option Z * list Z) :=
  '(_, b0) <- pull_handshake_type 4 bs ;;
  pull_block 3 (fun _ b =>
    '(_, b1) <- pull_uint32 b ;;
    '(_, b2) <- pull_uint32 b1 ;;
    '(_, b3) <- pull_opaque 1 b2 ;;
    '(_, b4) <- pull_opaque 2 b3 ;;
    pull_list 2 nst_extension None b4) b0.
