(* C09, composed model: the timer logic of QuicConnection with its REAL sub-computations.

   model/Timers.v takes every timer source as an input of get_timer / handle_timer.  Here they are state:

     f_c        the connection of model/Timers.v (state, _close_at, _close_pending, _close_event, _loss_at, _events ...)
     f_sp       _loss.spaces: [] until _initialize(), then Initial / Handshake / application.  Per space the fields the
                timer logic reads: ack_at (armed / cleared as in model/AckQueue.v: record, _write_ack_frame, discard),
                loss_time and ack_eliciting_in_flight (as in model/Recovery.v: on_packet_sent, on_ack_received,
                _detect_loss, reschedule_data, discard_space), discarded
     f_pcav     _loss.peer_completed_address_validation
     f_pto      _loss._pto_count
     f_pacing   _pacing_at                      (written ONLY by the pacing test of _write_application)
     f_probe    _probe_pending
     f_confirmed / f_complete   _handshake_confirmed / _handshake_complete

   get_timer() is Timers.get_timer applied to the sources COMPUTED from this state: which sources are consulted, in
   which state, and how each is armed / cleared is the code's.  What stays an input VALUE (as in C09 / C12): the float
   results -- now + ack delay, the new loss_time computed by _detect_loss, the PTO deadline
   _time_of_last_sent_ack_eliciting_packet + get_probe_timeout() * 2**_pto_count, the pacer's next_send_time --
   and what the rest of the connection decides (frames of a packet, room in the builder, keys installed).

   [reset] = does datagrams_to_send clear _pacing_at at the top of its non-closing branch (docs/C09-fix-1.patch)?
   The tree is probed for it (gen/C09Consts.v: PACING_RESET); theorems are stated for both values.
   Ghost (not in the code): ts_owed, f_probes.  No proofs in this file. *)
From AQ Require Import lib.Base lib.Tok model.Timers gen.C09Consts.

Record tspace := mkTs {
  ts_ack_at : option Z;       (* ack_at *)
  ts_loss_time : option Z;    (* loss_time *)
  ts_aeif : Z;                (* ack_eliciting_in_flight *)
  ts_disc : bool;             (* discarded (keys torn down) *)
  ts_owed : Z                 (* ghost: ack-eliciting packets recorded since the last ACK frame written in this space *)
}.
Definition ts_init : tspace := mkTs None None 0 false 0.
Definition fresh_spaces : list tspace := [ts_init; ts_init; ts_init].

(* loss.discard_space (ack_at = None, ack_eliciting_in_flight = 0, loss_time = None) + `discarded = True` *)
Definition ts_discard (s : tspace) : tspace := mkTs None None 0 true (ts_owed s).

(* "record packet as received" (connection.py receive_datagram tail; model/AckQueue.v record): an ack-eliciting packet arms
   ack_at = now + ack delay when it is None; capnow = the `len(ack_queue) >= MAX_ACK_RANGES` rule of fix 5ad94f8 applies *)
Definition ts_record (s : tspace) (elic : bool) (t d : Z) (capnow : bool) : tspace :=
  if ts_disc s then s else
  let a1 := if elic then match ts_ack_at s with None => Some (t + d) | Some a => Some a end else ts_ack_at s in
  let a2 := if capnow then match a1 with Some a => Some (Z.min a t) | None => None end else a1 in
  mkTs a2 (ts_loss_time s) (ts_aeif s) (ts_disc s) (if elic then ts_owed s + 1 else ts_owed s).

(* _write_ack_frame succeeded: `space.ack_at = None` *)
Definition ts_ack_written (s : tspace) : tspace := mkTs None (ts_loss_time s) (ts_aeif s) (ts_disc s) 0.

(* on_packet_sent of n ack-eliciting packets.  A packet can only be built with valid send keys; _discard_epoch tears
   them down, so nothing is registered in a discarded space. *)
Definition ts_sent (n : Z) (s : tspace) : tspace :=
  if ts_disc s then s else mkTs (ts_ack_at s) (ts_loss_time s) (ts_aeif s + n) (ts_disc s) (ts_owed s).

(* packets leave sent_packets (acked or declared lost): n ack-eliciting ones; _detect_loss stores a new loss_time.
   discard_space cleared sent_packets and nothing is registered afterwards, so in a discarded space the ack loop,
   _detect_loss and reschedule_data find no packet: nothing is removed and loss_time stays None. *)
Definition ts_removed (n : Z) (s : tspace) : tspace :=
  if ts_disc s then s else mkTs (ts_ack_at s) (ts_loss_time s) (ts_aeif s - n) (ts_disc s) (ts_owed s).
Definition ts_detect (n : Z) (lt : option Z) (s : tspace) : tspace :=
  if ts_disc s then s else mkTs (ts_ack_at s) lt (ts_aeif s - n) (ts_disc s) (ts_owed s).

Record full := mkFull {
  f_c : conn;
  f_sp : list tspace;
  f_pcav : bool;
  f_pto : Z;
  f_pacing : option Z;
  f_probe : bool;
  f_confirmed : bool;
  f_complete : bool;
  f_probes : Z                (* ghost: number of _send_probe() calls *)
}.

(* QuicConnection.__init__: QuicPacketRecovery(peer_completed_address_validation = not is_client), spaces = [] *)
Definition full_init (client : bool) : full :=
  mkFull (conn_init client) [] (negb client) 0 None false false false 0.

Definition set_c (c : conn) (f : full) : full :=
  mkFull c (f_sp f) (f_pcav f) (f_pto f) (f_pacing f) (f_probe f) (f_confirmed f) (f_complete f) (f_probes f).
Definition set_sp (l : list tspace) (f : full) : full :=
  mkFull (f_c f) l (f_pcav f) (f_pto f) (f_pacing f) (f_probe f) (f_confirmed f) (f_complete f) (f_probes f).
Definition set_pcav (b : bool) (f : full) : full :=
  mkFull (f_c f) (f_sp f) b (f_pto f) (f_pacing f) (f_probe f) (f_confirmed f) (f_complete f) (f_probes f).
Definition set_pto (n : Z) (f : full) : full :=
  mkFull (f_c f) (f_sp f) (f_pcav f) n (f_pacing f) (f_probe f) (f_confirmed f) (f_complete f) (f_probes f).
Definition set_pacing (p : option Z) (f : full) : full :=
  mkFull (f_c f) (f_sp f) (f_pcav f) (f_pto f) p (f_probe f) (f_confirmed f) (f_complete f) (f_probes f).
Definition set_probe (b : bool) (f : full) : full :=
  mkFull (f_c f) (f_sp f) (f_pcav f) (f_pto f) (f_pacing f) b (f_confirmed f) (f_complete f) (f_probes f).
Definition set_confirmed (f : full) : full :=
  mkFull (f_c f) (f_sp f) (f_pcav f) (f_pto f) (f_pacing f) (f_probe f) true (f_complete f) (f_probes f).
Definition set_complete (f : full) : full :=
  mkFull (f_c f) (f_sp f) (f_pcav f) (f_pto f) (f_pacing f) (f_probe f) (f_confirmed f) true (f_probes f).
(* _send_probe() *)
Definition send_probe (f : full) : full :=
  mkFull (f_c f) (f_sp f) (f_pcav f) (f_pto f) (f_pacing f) true (f_confirmed f) (f_complete f) (f_probes f + 1).

Fixpoint upd (n : nat) (g : tspace -> tspace) (l : list tspace) : list tspace :=
  match l, n with
  | [], _ => []
  | h :: t, O => g h :: t
  | h :: t, S n => h :: upd n g t
  end.
Definition sp_at (f : full) (i : nat) : tspace := nth i (f_sp f) ts_init.
Definition upd_sp (i : nat) (g : tspace -> tspace) (f : full) : full := set_sp (upd i g (f_sp f)) f.

(* _discard_epoch(epoch): `if not self._spaces[epoch].discarded:` discard_space (which resets _pto_count) *)
Definition discard_epoch (i : nat) (f : full) : full :=
  match nth_error (f_sp f) i with
  | Some s => if ts_disc s then f else set_pto 0 (upd_sp i ts_discard f)
  | None => f
  end.

(* _initialize(): three new packet spaces; the recovery object (pto count, pcav) and _pacing_at are kept *)
Definition initialize (f : full) : full := set_sp fresh_spaces f.

(* ---------- the loss detection timer (recovery.py get_loss_detection_time / _get_loss_space) ---------- *)
Fixpoint lspace_from (i : nat) (l : list tspace) (best : option (nat * Z)) : option (nat * Z) :=
  match l with
  | [] => best
  | s :: t =>
      let best' :=
        match ts_loss_time s, best with
        | Some lt, None => Some (i, lt)
        | Some lt, Some (_, b) => if lt <? b then Some (i, lt) else best
        | None, _ => best
        end in
      lspace_from (S i) t best'
  end.
Definition lspace (l : list tspace) : option (nat * Z) := lspace_from O l None.
Definition sum_aeif (l : list tspace) : Z := fold_right (fun s a => ts_aeif s + a) 0 l.

(* ptod = the VALUE of _time_of_last_sent_ack_eliciting_packet + get_probe_timeout() * 2**_pto_count *)
Definition loss_time_of (f : full) (ptod : Z) : option Z :=
  match lspace (f_sp f) with
  | Some (_, lt) => Some lt
  | None => if negb (f_pcav f) || (sum_aeif (f_sp f) >? 0) then Some ptod else None
  end.

(* ---------- get_timer ---------- *)
Definition acks_of (f : full) : list (option Z) := map ts_ack_at (f_sp f).

Definition fget_timer (ptod : Z) (f : full) : Res (option Z) * full :=
  let '(r, c') := get_timer (acks_of f) (loss_time_of f ptod) (f_pacing f) (f_c f) in (r, set_c c' f).

(* which source the returned value came from (the LAST assignment to timer_at in get_timer) *)
Inductive src := SrcClose | SrcAck (i : nat) | SrcLossTime (i : nat) | SrcPto | SrcPacing.

Fixpoint ack_scan (i : nat) (l : list tspace) (cur : Z * src) : Z * src :=
  match l with
  | [] => cur
  | s :: t => ack_scan (S i) t (match ts_ack_at s with
                                | Some a => if a <? fst cur then (a, SrcAck i) else cur
                                | None => cur end)
  end.

(* for a connection that is not in an END state and has _close_at = Some d *)
Definition timer_src (ptod d : Z) (f : full) : Z * src :=
  let cur := ack_scan O (f_sp f) (d, SrcClose) in
  let cur := match lspace (f_sp f) with
             | Some (i, lt) => if lt <? fst cur then (lt, SrcLossTime i) else cur
             | None => if negb (f_pcav f) || (sum_aeif (f_sp f) >? 0)
                       then (if ptod <? fst cur then (ptod, SrcPto) else cur) else cur
             end in
  match f_pacing f with
  | Some p => if p <? fst cur then (p, SrcPacing) else cur
  | None => cur
  end.

(* ---------- handle_timer ---------- *)
(* what on_loss_detection_timeout's float / packet-level work produced *)
Record teff := mkTe {
  te_lt : option Z;       (* loss-time branch: the loss_time _detect_loss stored *)
  te_ae : list Z          (* ack-eliciting packets removed: loss-time branch [n]; PTO branch one number per space
                             (CRYPTO packets rescheduled by reschedule_data) *)
}.

Fixpoint removed_all (ns : list Z) (l : list tspace) : list tspace :=
  match l, ns with
  | s :: t, n :: ns' => ts_removed n s :: removed_all ns' t
  | _, _ => l
  end.

(* reschedule_data: CRYPTO packets of every space are declared lost, then _send_probe() *)
Definition reschedule_data (ae : list Z) (f : full) : full := send_probe (set_sp (removed_all ae (f_sp f)) f).

Definition on_loss_detection_timeout (te : teff) (f : full) : full :=
  match lspace (f_sp f) with
  | Some (i, _) => upd_sp i (ts_detect (hd 0 (te_ae te)) (te_lt te)) f
  | None => reschedule_data (te_ae te) (set_pto (f_pto f + 1) f)
  end.

(* _close_end also runs `for epoch in self._spaces.keys(): self._discard_epoch(epoch)` *)
Definition discard_all (f : full) : full :=
  discard_epoch 2 (discard_epoch 1 (discard_epoch 0 f)).

Definition fired (now : Z) (c : conn) : bool :=
  match c_close_at c with Some ca => now >=? ca | None => false end.

Definition ftimer (now : Z) (te : teff) (f : full) : Res full :=
  match timer now (f_c f) with
  | Err k => Err k
  | Ok c' =>
      if fired now (f_c f) then Ok (set_c c' (discard_all f))
      else match c_loss_at (f_c f) with          (* the value stored by the last get_timer() *)
           | Some la => if now >=? la then Ok (on_loss_detection_timeout te (set_c c' f)) else Ok (set_c c' f)
           | None => Ok (set_c c' f)
           end
  end.

(* ---------- receive_datagram ---------- *)
(* what the frames of one decrypted packet do to the timer-relevant state, in frame order *)
Inductive feff :=
| EAck (newly : option (Z * option Z))   (* ACK frame (_handle_ack_frame): Handshake / 1-RTT epoch sets pcav; if it newly
                                            acknowledged a packet: (ack-eliciting packets removed, acked + lost;
                                            loss_time stored by _detect_loss) and _pto_count = 0 *)
| EComplete                              (* the handshake completes while this packet's CRYPTO frame is handled *)
| EHsDone                                (* HANDSHAKE_DONE (client) *)
| EResched (ae : list Z).                (* reschedule_data: duplicate CRYPTO in an Initial packet (server) *)

Definition apply_feff (sp : nat) (e : feff) (f : full) : full :=
  match e with
  | EAck newly =>
      let f := if (Nat.eqb sp 1 || Nat.eqb sp 2) then set_pcav true f else f in
      match newly with
      | Some (n, lt) => set_pto 0 (upd_sp sp (ts_detect n lt) f)
      | None => f
      end
  | EComplete =>
      let f := set_complete f in
      if c_client (f_c f) then f else set_confirmed (discard_epoch 1 f)
  | EHsDone =>
      if f_confirmed f then f else set_pcav true (set_confirmed (discard_epoch 1 f))
  | EResched ae => reschedule_data ae f
  end.

Record fpkt := mkFp {
  fp_base : pkt;                 (* the fate of the packet as in model/Timers.v *)
  fp_space : nat;                (* 0 Initial, 1 Handshake, 2 application (0-RTT / 1-RTT) *)
  fp_effs : list feff;           (* frame effects, in order (PProc only) *)
  fp_elic : bool;                (* is_ack_eliciting *)
  fp_d : Z;                      (* enc(now + _ack_delay) - enc(now) *)
  fp_capnow : bool               (* MAX_ACK_RANGES ranges queued after recording (fix 5ad94f8) *)
}.

(* "Server initialization": `self._initialize(header.destination_cid)` *)
Definition fsrv_init (f : full) : full :=
  let f' := set_c (srv_init (f_c f)) f in
  if negb (c_client (f_c f)) && is_firstflight (c_state (f_c f)) then initialize f' else f'.

(* `if not self._is_client and epoch == HANDSHAKE: self._discard_epoch(INITIAL)` (before the payload) *)
Definition srv_discard_initial (sp : nat) (f : full) : full :=
  if negb (c_client (f_c f)) && Nat.eqb sp 1 then discard_epoch 0 f else f.

Fixpoint frecv_pkts (now : Z) (f : full) (ps : list fpkt) : full :=
  match ps with
  | [] => f
  | p :: rest =>
    match fp_base p with
    | PStop => f
    | PSkip => frecv_pkts now (fsrv_init f) rest
    | PVN verdict idle =>
        let c' := vn_pkt now verdict idle (f_c f) in
        if c_client (f_c f) && is_firstflight (c_state (f_c f)) && negb (c_vn_done (f_c f)) then
          if verdict =? 0 then f
          else if verdict =? 1 then set_c c' (discard_all f)       (* _close_end *)
          else initialize (set_c c' f)                             (* _connect -> _initialize *)
        else f
    | PRetry valid idle =>
        if c_client (f_c f) && valid then initialize (set_c (connect_internal now idle (f_c f)) f) else f
    | PReserved => let f1 := fsrv_init f in set_c (do_close EV_ERROR (f_c f1)) f1
    | PProc nev pc err idle =>
        let f0 := fsrv_init f in
        let f1 := srv_discard_initial (fp_space p) f0 in
        let f2 := fold_left (fun g e => apply_feff (fp_space p) e g) (fp_effs p) f1 in
        let c1 := proc_pkt now nev pc err (f_c f) in
        let f3 := set_c c1 f2 in
        if is_end (c_state c1) || c_close_pending c1 then f3
        else
          let f4 := set_c (set_close_at (Some (now + idle)) c1) f3 in
          frecv_pkts now (upd_sp (fp_space p) (fun s => ts_record s (fp_elic p) now (fp_d p) (fp_capnow p)) f4) rest
    end
  end.

Definition freceive (now idle0 : Z) (ps : list fpkt) (f : full) : full :=
  if is_end (c_state (f_c f)) then f else if c_close_pending (f_c f) then f else
  let c := if is_none (c_close_at (f_c f)) then set_close_at (Some (now + idle0)) (f_c f) else f_c f in
  frecv_pkts now (set_c c f) ps.

(* ---------- datagrams_to_send ---------- *)
(* _write_handshake(epoch) for one space *)
Record hsw := mkHw {
  hw_keys : bool;       (* crypto.send.is_valid() *)
  hw_stop : Z;          (* 0 no QuicPacketBuilderStop; 1 raised by the first start_packet; 2 raised later (after the
                           ACK part of the first packet) *)
  hw_room : bool        (* start_frame(ACK) has room *)
}.

(* returns (QuicPacketBuilderStop escaped, state) *)
Definition whs (i : nat) (h : hsw) (f : full) : bool * full :=
  let s := sp_at f i in
  if ts_disc s || negb (hw_keys h) then (false, f) else
  if hw_stop h =? 1 then (true, f) else
  match ts_ack_at s with
  | Some _ => if hw_room h then (hw_stop h =? 2, upd_sp i ts_ack_written f) else (true, f)
  | None => (hw_stop h =? 2, f)
  end.

(* one iteration of _write_application's `while True:` *)
Record appit := mkAi {
  ai_pacer : option Z;   (* result of _pacer.next_send_time(now) if it is consulted *)
  ai_stop : bool;        (* start_packet raises QuicPacketBuilderStop *)
  ai_room : bool;        (* start_frame(ACK) has room *)
  ai_empty : bool        (* builder.packet_is_empty at the end of the iteration *)
}.

Definition is_some {A} (o : option A) : bool := match o with Some _ => true | None => false end.

Fixpoint wapp (now : Z) (its : list appit) (f : full) : full :=
  match its with
  | [] => f
  | it :: rest =>
      let s := sp_at f 2 in
      (* `if space.ack_at is None or space.ack_at > now:` *)
      let consult := match ts_ack_at s with None => true | Some a => a >? now end in
      let f1 := if consult then set_pacing (ai_pacer it) f else f in
      if consult && is_some (ai_pacer it) then f1 else
      if ai_stop it then f1 else
      (* `if self._handshake_complete: ... if space.ack_at is not None and space.ack_at <= now: _write_ack_frame` *)
      let due := match ts_ack_at s with Some a => a <=? now | None => false end in
      if f_complete f && due && negb (ai_room it) then f1 else
      let f2 := if f_complete f && due then upd_sp 2 ts_ack_written f1 else f1 in
      if ai_empty it then f2 else wapp now rest f2
  end.

Record sendw := mkSw {
  sw_produced : bool;        (* datagrams came out *)
  sw_nev : Z;                (* events queued while writing *)
  sw_h0 : hsw;               (* _write_handshake(INITIAL) *)
  sw_h1 : hsw;               (* _write_handshake(HANDSHAKE) *)
  sw_appkeys : bool;         (* 1-RTT or 0-RTT send keys valid *)
  sw_app : list appit;       (* iterations of _write_application *)
  sw_ae : list Z;            (* ack-eliciting packets registered per space (on_packet_sent) *)
  sw_sent_hs : bool;         (* a Handshake packet was sent *)
  sw_probe_clr : bool        (* the probe was written: _probe_pending = False *)
}.

Fixpoint sent_all (ns : list Z) (l : list tspace) : list tspace :=
  match l, ns with
  | s :: t, n :: ns' => ts_sent n s :: sent_all ns' t
  | _, _ => l
  end.

(* `try: if not self._handshake_confirmed: for epoch in [INITIAL, HANDSHAKE]: self._write_handshake(...)
         self._write_application(...)  except QuicPacketBuilderStop: pass` *)
Definition writers (now : Z) (w : sendw) (f : full) : full :=
  let '(stopped, f1) :=
    if f_confirmed f then (false, f) else
    let '(st0, f0) := whs 0 (sw_h0 w) f in
    if st0 then (true, f0) else whs 1 (sw_h1 w) f0 in
  if stopped then f1 else
  if sw_appkeys w then wapp now (sw_app w) f1 else f1.

(* the ordinary (non-closing) branch is taken *)
Definition ordinary_send (c : conn) : bool :=
  c_has_path c && negb (is_end (c_state c)) && negb (c_close_pending c).

Definition fsend (reset : bool) (now pto3 : Z) (w : sendw) (f : full) : Res (sent * full) :=
  match send now pto3 (sw_produced w) (sw_nev w) (f_c f) with
  | Err k => Err k
  | Ok (s, c') =>
      if ordinary_send (f_c f) then
        let f0 := if reset then set_pacing None f else f in      (* docs/C09-fix-1.patch *)
        let f1 := writers now w f0 in
        let f2 := if sw_probe_clr w then set_probe false f1 else f1 in
        let f3 := if sw_produced w then
                    let g := set_sp (sent_all (sw_ae w) (f_sp f2)) f2 in
                    (* `if sent_handshake and self._is_client: self._discard_epoch(INITIAL)` *)
                    if sw_sent_hs w && c_client (f_c f) then discard_epoch 0 g else g
                  else f2 in
        Ok (s, set_c c' f3)
      else Ok (s, set_c c' f)
  end.

(* ---------- connect ---------- *)
Definition fconnect (now idle : Z) (f : full) : Res full :=
  match connect now idle (f_c f) with
  | Ok c' => Ok (initialize (set_c c' f))
  | Err k => Err k
  end.

(* ---------- operations ---------- *)
Inductive fop :=
| FConnect (now idle : Z)
| FReceive (now idle0 : Z) (ps : list fpkt)
| FClose
| FSend (now pto3 : Z) (w : sendw)
| FTimer (now : Z) (te : teff)
| FNextEvent
| FGetTimer (ptod : Z).

Definition fstep (reset : bool) (f : full) (o : fop) : ores * full :=
  match o with
  | FConnect now idle =>
      match fconnect now idle f with Ok f' => (RUnit, f') | Err k => (RExn k, f) end
  | FReceive now idle0 ps => (RUnit, freceive now idle0 ps f)
  | FClose => (RUnit, set_c (do_close EV_LOCAL (f_c f)) f)
  | FSend now pto3 w =>
      match fsend reset now pto3 w f with Ok (s, f') => (RSent s, f') | Err k => (RExn k, f) end
  | FTimer now te =>
      match ftimer now te f with Ok f' => (RUnit, f') | Err k => (RExn k, f) end
  | FNextEvent => let '(e, c') := next_event (f_c f) in (REvent e, set_c c' f)
  | FGetTimer ptod =>
      let '(r, f') := fget_timer ptod f in
      (match r with Ok t => RTimer t | Err k => RExn k end, f')
  end.

Fixpoint frun (reset : bool) (f : full) (ops : list fop) : list ores * full :=
  match ops with
  | [] => ([], f)
  | o :: t => let '(r, f1) := fstep reset f o in let '(rs, f2) := frun reset f1 t in (r :: rs, f2)
  end.

(* the op of model/Timers.v that an op of the composed model is, given the state it is applied to *)
Definition base_op (f : full) (o : fop) : op :=
  match o with
  | FConnect now idle => OConnect now idle
  | FReceive now idle0 ps => OReceive now idle0 (map fp_base ps)
  | FClose => OClose
  | FSend now pto3 w => OSend now pto3 (sw_produced w) (sw_nev w)
  | FTimer now _ => OTimer now
  | FNextEvent => ONextEvent
  | FGetTimer ptod => OGetTimer (acks_of f) (loss_time_of f ptod) (f_pacing f)
  end.

Fixpoint base_ops (reset : bool) (f : full) (ops : list fop) : list op :=
  match ops with
  | [] => []
  | o :: t => base_op f o :: base_ops reset (snd (fstep reset f o)) t
  end.

(* ---------- executable interface: the sub-states are INJECTED per call (projected from the real connection) -----
   input: ops
     6 close_at(opt) end nsp (ack_at(opt) loss_time(opt) aeif disc)*nsp pcav pto pacing(opt) ptod
         get_timer on that state  ->  0 (None) | 1 value source [loss detection time (opt), when not in an END state]
                                       (source: 0 close, 10+i ack of space i, 20+i loss_time of space i, 30 PTO,
                                       40 pacing)
     4 now close_at(opt) loss_at(opt) nsp (...)*nsp pcav pto probe  lt(opt) nae ae*nae
         handle_timer on that state -> branch (1 terminated: all spaces discarded | 2 i loss detection on space i |
                                       3 PTO: count + 1, probe | 0 nothing), then pto count, probe flag, nsp, per space
                                       (ack_at(opt) loss_time(opt) aeif disc)
     3 reset stopped appkeys app_ack_at(opt) complete now pacing(opt) n (pacer(opt) stop room empty)*n
         the pacing part of datagrams_to_send (ordinary branch): stopped = QuicPacketBuilderStop escaped from
         _write_handshake -> _pacing_at afterwards (opt) *)
Definition tk_space (l : list Z) : tspace * list Z :=
  let '(a, l) := tk_opt l in
  let '(lt, l) := tk_opt l in
  match l with
  | ae :: d :: t => (mkTs a lt ae (z2b d) 0, t)
  | _ => (ts_init, [])
  end.
Fixpoint tk_spaces (n : nat) (l : list Z) : list tspace * list Z :=
  match n with O => ([], l) | S n =>
    let '(s, t) := tk_space l in let '(ss, r) := tk_spaces n t in (s :: ss, r)
  end.
Fixpoint tk_appits (n : nat) (l : list Z) : list appit * list Z :=
  match n with O => ([], l) | S n =>
    let '(p, l) := tk_opt l in
    match l with
    | st :: ro :: em :: t => let '(its, r) := tk_appits n t in (mkAi p (z2b st) (z2b ro) (z2b em) :: its, r)
    | _ => ([], [])
    end
  end.

Definition src_code (s : src) : Z :=
  match s with
  | SrcClose => 0 | SrcAck i => 10 + Z.of_nat i | SrcLossTime i => 20 + Z.of_nat i | SrcPto => 30 | SrcPacing => 40
  end.

Definition out_space (s : tspace) : list Z :=
  out_opt (ts_ack_at s) ++ out_opt (ts_loss_time s) ++ [ts_aeif s; b2z (ts_disc s)].

Definition mk_conn (close_at loss_at : option Z) (endst : bool) : conn :=
  mkConn true true (if endst then CLOSING else CONNECTED) close_at false None loss_at false true [].

Definition exec_get (l : list Z) : list Z * list Z :=
  let '(ca, l) := tk_opt l in
  match l with
  | endst :: nsp :: l =>
      let '(sps, l) := tk_spaces (Z.to_nat nsp) l in
      match l with
      | pcav :: pto :: l =>
          let '(pac, l) := tk_opt l in
          match l with
          | ptod :: rest =>
              let f := mkFull (mk_conn ca None (z2b endst)) sps (z2b pcav) pto pac false false false 0 in
              (match fst (fget_timer ptod f) with
               | Ok None => [0]
               | Ok (Some v) =>
                   if z2b endst then [1; v; 0] else
                   [1; v; match ca with Some d => src_code (snd (timer_src ptod d f)) | None => -1 end]
                   ++ out_opt (loss_time_of f ptod)
               | Err k => [k]
               end, rest)
          | _ => ([], [])
          end
      | _ => ([], [])
      end
  | _ => ([], [])
  end.

Definition exec_timer (l : list Z) : list Z * list Z :=
  match l with
  | now :: l =>
      let '(ca, l) := tk_opt l in
      let '(la, l) := tk_opt l in
      match l with
      | nsp :: l =>
          let '(sps, l) := tk_spaces (Z.to_nat nsp) l in
          match l with
          | pcav :: pto :: probe :: l =>
              let '(lt, l) := tk_opt l in
              let '(ae, rest) := tk_list l in
              let f := mkFull (mk_conn ca la false) sps (z2b pcav) pto None (z2b probe) false false 0 in
              (match ftimer now (mkTe lt ae) f with
               | Err k => [k]
               | Ok f' =>
                   (if fired now (f_c f) then [1]
                    else match la with
                         | Some a => if now >=? a then
                                       match lspace sps with Some (i, _) => [2; Z.of_nat i] | None => [3] end
                                     else [0]
                         | None => [0]
                         end)
                   ++ [f_pto f'; b2z (f_probe f'); Zlen (f_sp f')] ++ flat_map out_space (f_sp f')
               end, rest)
          | _ => ([], [])
          end
      | _ => ([], [])
      end
  | _ => ([], [])
  end.

Definition exec_pace (l : list Z) : list Z * list Z :=
  match l with
  | reset :: stopped :: appkeys :: l =>
      let '(aa, l) := tk_opt l in
      match l with
      | complete :: now :: l =>
          let '(pac, l) := tk_opt l in
          match l with
          | n :: l =>
              let '(its, rest) := tk_appits (Z.to_nat n) l in
              let f := mkFull (mk_conn (Some 0) None false) [ts_init; ts_init; mkTs aa None 0 false 0]
                              true 0 pac false true (z2b complete) 0 in
              let f0 := if z2b reset then set_pacing None f else f in
              let f1 := if z2b stopped then f0 else if z2b appkeys then wapp now its f0 else f0 in
              (out_opt (f_pacing f1), rest)
          | _ => ([], [])
          end
      | _ => ([], [])
      end
  | _ => ([], [])
  end.

Fixpoint exec_full_loop (fuel : nat) (l : list Z) : list Z :=
  match fuel with O => [] | S fuel =>
  match l with
  | 6 :: t => let '(o, r) := exec_get t in o ++ exec_full_loop fuel r
  | 4 :: t => let '(o, r) := exec_timer t in o ++ exec_full_loop fuel r
  | 3 :: t => let '(o, r) := exec_pace t in o ++ exec_full_loop fuel r
  | _ => []
  end end.

(* EXTRACT: exec_timersfull *)
Definition exec_timersfull (toks : list Z) : list Z := exec_full_loop (length toks) toks.
