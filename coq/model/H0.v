(* Model of aioquic.h0.connection.H0Connection.handle_event.
   [fixed] = with docs/C16-fix-4.patch (request line without a space no longer raises ValueError). *)
From AQ Require Import lib.Base lib.Tok.

Inductive h0event :=
| H0Headers (sid : Z) (hs : option (list Z * list Z))   (* None: headers=[] (client); Some (method, path) *)
| H0Data (sid : Z) (d : list Z) (fin : bool).

Inductive h0out :=
| H0Events (evs : list h0event)
| H0Raised (k : Z).            (* 51 = ValueError (tuple unpacking) *)

Record h0conn := mkH0 {
  h_client : bool;
  h_bufs : list (Z * list Z);     (* _buffer *)
  h_recvd : list Z                (* stream ids with _headers_received[sid] = True *)
}.
Definition h0_init (client : bool) : h0conn := mkH0 client [] [].

Fixpoint pop_buf (sid : Z) (l : list (Z * list Z)) : list Z * list (Z * list Z) :=
  match l with
  | [] => ([], [])
  | (s, b) :: t => if s =? sid then (b, t) else let '(r, t') := pop_buf sid t in (r, (s, b) :: t')
  end.
Fixpoint memz (x : Z) (l : list Z) : bool :=
  match l with [] => false | y :: t => (x =? y) || memz x t end.

Definition is_ws (b : Z) : bool := (b =? 32) || ((9 <=? b) && (b <=? 13)).   (* bytes.rstrip() *)
Fixpoint rstrip (l : list Z) : list Z :=
  match l with
  | [] => []
  | x :: t => match rstrip t with
              | [] => if is_ws x then [] else [x]
              | r => x :: r
              end
  end.
(* split(b" ", 1): None when there is no space *)
Fixpoint split_sp (l : list Z) : option (list Z * list Z) :=
  match l with
  | [] => None
  | x :: t => if x =? 32 then Some ([], t)
              else match split_sp t with Some (a, b) => Some (x :: a, b) | None => None end
  end.
Fixpoint ends_crlf (l : list Z) : bool :=
  match l with
  | [13; 10] => true
  | _ :: t => ends_crlf t
  | [] => false
  end.

Definition h0_handle (fixed : bool) (c : h0conn) (sid : Z) (d : list Z) (fin : bool) : h0out * h0conn :=
  if negb (sid mod 4 =? 0) then (H0Events [], c) else
  let '(old, bufs) := pop_buf sid (h_bufs c) in
  let data := old ++ d in
  if memz sid (h_recvd c) then
    (H0Events [H0Data sid data fin], mkH0 (h_client c) bufs (h_recvd c))
  else if h_client c then
    (H0Events [H0Headers sid None; H0Data sid data fin], mkH0 true bufs (sid :: h_recvd c))
  else if ends_crlf data || fin then
    match split_sp (rstrip data) with
    | Some (m, p) =>
        (H0Events [H0Headers sid (Some (m, p)); H0Data sid [] fin], mkH0 false bufs (sid :: h_recvd c))
    | None =>
        if fixed then
          (H0Events [H0Headers sid (Some (rstrip data, [])); H0Data sid [] fin], mkH0 false bufs (sid :: h_recvd c))
        else (H0Raised 51, mkH0 false bufs (h_recvd c))
    end
  else (H0Events [], mkH0 false (bufs ++ [(sid, data)]) (h_recvd c)).

Fixpoint h0_run (fixed : bool) (c : h0conn) (tr : list (Z * list Z * bool)) : list h0out :=
  match tr with
  | [] => []
  | (sid, d, fin) :: rest =>
      let '(o, c') := h0_handle fixed c sid d fin in
      match o with
      | H0Raised _ => [o]
      | _ => o :: h0_run fixed c' rest
      end
  end.

(* tokens: client fixed, then ops  0 sid fin <bytes>.
   output per op: 0 nev events | 2 k ; events: 0 sid fin <bytes> | 1 sid 0 | 1 sid 1 <method> <path> *)
Definition out_h0event (e : h0event) : list Z :=
  match e with
  | H0Data sid d f => 0 :: sid :: b2z f :: out_list d
  | H0Headers sid None => [1; sid; 0]
  | H0Headers sid (Some (m, p)) => 1 :: sid :: 1 :: out_list m ++ out_list p
  end.

Fixpoint exec_h0_ops (fuel : nat) (fixed : bool) (c : h0conn) (t : list Z) : list Z :=
  match fuel with O => [] | S fuel =>
  match t with
  | 0 :: sid :: fin :: t =>
      let '(d, t) := tk_list t in
      let '(o, c') := h0_handle fixed c sid d (z2b fin) in
      match o with
      | H0Events evs => 0 :: Zlen evs :: flat_map out_h0event evs ++ exec_h0_ops fuel fixed c' t
      | H0Raised k => [2; k]
      end
  | _ => []
  end end.

(* EXTRACT: exec_h0 *)
Definition exec_h0 (t : list Z) : list Z :=
  match t with
  | cl :: fx :: ops => exec_h0_ops (length ops) (z2b fx) (h0_init (z2b cl)) ops
  | _ => []
  end.
