(* C03  Two-party system with a network adversary, over the handshake model of model/TlsSymbolic.v.

   ONE client Context (configuration cc) and ONE server Context (configuration sc) - the step functions of
   TlsSymbolic.v, unchanged - joined by a network that the adversary controls completely: a run is a list of events
     EvStart            the application starts the client (connect(): _client_send_hello)
     EvToClient m       the adversary hands the byte string m to the client   (Context.handle_message)
     EvToServer m       the adversary hands the byte string m to the server
   Every message an endpoint emits goes to the adversary (y_out), nothing is delivered unless the adversary does it.
   As in QuicConnection, an endpoint whose handler raised an Alert / a QuicConnectionError is closed: it processes
   nothing more (y_cdead / y_sdead; exceptions of other classes escape receive_datagram and leave it open).  The raw
   tls.Context behaviour (an Alert does not stop the Context) is [sys_step_raw].

   Adversary knowledge [knows adv outs] = Dolev-Yao closure over
     (i)   every message output by either honest endpoint so far (outs),
     (ii)  byte strings of its own (adv: constants, nonces, its own keys and tickets - an arbitrary predicate),
     (iii) the public functions applied to known values: concatenation, truncation / slicing, hash, hmac / hkdf with
           KNOWN keys, public-key derivation and DH with a KNOWN private key, signing with a KNOWN key, every message
           builder on known fields, every message parser (all fields of a known message are known).
   A run is adversary-valid ([valid_run]) when every delivered byte string is known at the time it is delivered.
   The symbolic-crypto idealisation is [dy_sound outs] (what the adversary can NOT do at knowledge state outs):
   it is a premise, at every prefix, of the theorems in proofs/TlsTwoPartyP*.v ([sound_run]).  No proofs here. *)
From AQ Require Import lib.Base lib.Tok gen.TlsDispatch model.TlsSymbolic.

Inductive event := EvStart | EvToClient (m : bytes) | EvToServer (m : bytes).

Record sys := mkSys {
  y_c : tst; y_s : tst;
  y_cdead : bool; y_sdead : bool;      (* connection closed after an alert *)
  y_out : list bytes                   (* every message output by an honest endpoint so far, in order *)
}.

(* Alert -> QuicConnectionError(CRYPTO_ERROR + description) -> close(); QuicConnectionError from alpn_cb -> close() *)
Definition fatal (o : outcome) : bool := match o with OAlert _ | OQuic _ => true | _ => false end.

(* the byte-string fields of the parsed views (numbers - suites, groups, algorithms, versions - are public) *)
Definition oget {A} (o : option (list A)) : list A := match o with Some l => l | None => [] end.
Definition ch_fields (v : ch_view) : list bytes :=
  [ch_random v; ch_sid v] ++ oget (ch_alpn v) ++ map snd (oget (ch_key_share v)) ++
  match ch_psk v with Some (ids, bs) => map fst ids ++ bs | None => [] end ++
  match ch_server_name v with Some n => [n] | None => [] end ++ map snd (ch_other v).
Definition sh_fields (v : sh_view) : list bytes :=
  [sh_random v; sh_sid v] ++ match sh_key_share v with Some (_, pk) => [pk] | None => [] end.
Definition ee_fields (v : ee_view) : list bytes :=
  match ee_alpn v with Some a => [a] | None => [] end ++ map snd (ee_other v).
Definition cr_fields (v : cr_view) : list bytes := [cr_context v].
Definition ct_fields (v : ct_view) : list bytes := ct_context v :: map fst (ct_certs v) ++ map snd (ct_certs v).
Definition cv_fields (v : cv_view) : list bytes := [cv_sig v].

Section TwoParty.
Variable O : oracles.
Variable cc sc : cfg.

Definition sys_init : sys := mkSys (init_client cc) (init_server sc) false false [].

Definition sys_step (y : sys) (e : event) : sys :=
  match e with
  | EvStart =>
      if y_cdead y then y else
      match t_state (y_c y) with
      | CLIENT_HANDSHAKE_START =>
          let '(o, s', out0) := client_send_hello O cc (y_c y) in
          mkSys s' (y_s y) (fatal o) (y_sdead y) (y_out y ++ map snd out0)
      | _ => y
      end
  | EvToClient m =>
      if y_cdead y then y else
      let '(o, s', out0) := step O cc (y_c y) m in
      mkSys s' (y_s y) (fatal o) (y_sdead y) (y_out y ++ map snd out0)
  | EvToServer m =>
      if y_sdead y then y else
      let '(o, s', out0) := step O sc (y_s y) m in
      mkSys (y_c y) s' (y_cdead y) (fatal o) (y_out y ++ map snd out0)
  end.

(* tls.Context alone: an Alert does not stop the object *)
Definition sys_step_raw (y : sys) (e : event) : sys :=
  sys_step (mkSys (y_c y) (y_s y) false false (y_out y)) e.

Fixpoint sys_run (y : sys) (tr : list event) : sys :=
  match tr with [] => y | e :: r => sys_run (sys_step y e) r end.
Fixpoint sys_run_raw (y : sys) (tr : list event) : sys :=
  match tr with [] => y | e :: r => sys_run_raw (sys_step_raw y e) r end.

(* ---------- adversary knowledge ------------------------------------------------------------------------------ *)
Variable adv : bytes -> Prop.

Inductive knows (outs : list bytes) : bytes -> Prop :=
| kn_out : forall m, In m outs -> knows outs m
| kn_adv : forall b, adv b -> knows outs b
| kn_app : forall a b, knows outs a -> knows outs b -> knows outs (a ++ b)
| kn_take : forall n a, knows outs a -> knows outs (ztake n a)
| kn_drop : forall n a, knows outs a -> knows outs (zdrop n a)
| kn_hash : forall a x, knows outs x -> knows outs (o_hash O a x)
| kn_hmac : forall a k m, knows outs k -> knows outs m -> knows outs (o_hmac O a k m)
| kn_extract : forall a s k, knows outs s -> knows outs k -> knows outs (o_extract O a s k)
| kn_expand : forall a s l h, knows outs s -> knows outs l -> knows outs h -> knows outs (o_expand O a s l h)
| kn_pub : forall g p, knows outs p -> knows outs (o_pub O g p)
| kn_dh : forall g p pk s, knows outs p -> knows outs pk -> o_dh O g p pk = Some s -> knows outs s
| kn_sign : forall key a d, knows outs key -> knows outs d -> knows outs (o_sign O key a d)
| kn_build_ch : forall v, (forall b, In b (ch_fields v) -> knows outs b) -> knows outs (o_build_ch O v)
| kn_build_sh : forall v, (forall b, In b (sh_fields v) -> knows outs b) -> knows outs (o_build_sh O v)
| kn_build_ee : forall v, (forall b, In b (ee_fields v) -> knows outs b) -> knows outs (o_build_ee O v)
| kn_build_cr : forall v, (forall b, In b (cr_fields v) -> knows outs b) -> knows outs (o_build_cr O v)
| kn_build_ct : forall v, (forall b, In b (ct_fields v) -> knows outs b) -> knows outs (o_build_ct O v)
| kn_build_cv : forall v, (forall b, In b (cv_fields v) -> knows outs b) -> knows outs (o_build_cv O v)
| kn_build_fin : forall vd, knows outs vd -> knows outs (o_build_fin O vd)
| kn_parse_ch : forall m v b, knows outs m -> o_parse_ch O m = POk v -> In b (ch_fields v) -> knows outs b
| kn_parse_sh : forall m v b, knows outs m -> o_parse_sh O m = POk v -> In b (sh_fields v) -> knows outs b
| kn_parse_ee : forall m v b, knows outs m -> o_parse_ee O m = POk v -> In b (ee_fields v) -> knows outs b
| kn_parse_cr : forall m v b, knows outs m -> o_parse_cr O m = POk v -> In b (cr_fields v) -> knows outs b
| kn_parse_ct : forall m v b, knows outs m -> o_parse_ct O m = POk v -> In b (ct_fields v) -> knows outs b
| kn_parse_cv : forall m v b, knows outs m -> o_parse_cv O m = POk v -> In b (cv_fields v) -> knows outs b
| kn_parse_fin : forall m vd, knows outs m -> o_parse_fin O m = POk vd -> knows outs vd.

(* a run the adversary can schedule: every delivered byte string is known when it is delivered *)
Fixpoint valid_run (y : sys) (tr : list event) : Prop :=
  match tr with
  | [] => True
  | e :: r =>
      match e with
      | EvStart => True
      | EvToClient m | EvToServer m => knows (y_out y) m
      end /\ valid_run (sys_step y e) r
  end.

(* ---------- the symbolic-crypto idealisation, at one knowledge state ------------------------------------------
   MAC values and signatures that honest endpoints put on the wire: Finished.verify_data, the PSK binders of a
   ClientHello, CertificateVerify.signature *)
Definition macs_of (m : bytes) : list bytes :=
  match o_parse_fin O m with POk vd => [vd] | _ => [] end ++
  match o_parse_ch O m with
  | POk v => match ch_psk v with Some (_, bs) => bs | None => [] end
  | _ => []
  end.
Definition sigs_of (m : bytes) : list bytes :=
  match o_parse_cv O m with POk v => [cv_sig v] | _ => [] end.

Record dy_sound (outs : list bytes) : Prop := mkDS {
  (* HMAC unforgeability: the adversary holds hmac(k, h) only if it knows k or that exact value was put on the wire
     by an honest endpoint *)
  ds_mac : forall a k h, knows outs (o_hmac O a k h) ->
             knows outs k \/ exists m, In m outs /\ In (o_hmac O a k h) (macs_of m);
  (* signature unforgeability, any key *)
  ds_sig : forall key a d, knows outs (o_sign O key a d) ->
             knows outs key \/ exists m, In m outs /\ In (o_sign O key a d) (sigs_of m);
  (* HKDF-Expand-Label output is known only with its secret; HKDF-Extract output only with BOTH inputs (it is a PRF
     keyed by either argument: the (EC)DHE secret protects a full handshake, the PSK a resumed one) *)
  ds_kdf : forall a s l h, knows outs (o_expand O a s l h) -> knows outs s;
  ds_ext : forall a s k, knows outs (o_extract O a s k) -> knows outs s /\ knows outs k;
  (* DH secrecy: the shared secret of x and pub(y) is known only to who knows x or y *)
  ds_dh : forall g x y s, o_dh O g x (o_pub O g y) = Some s -> knows outs s -> knows outs x \/ knows outs y
}.

(* the idealisation holds at every knowledge state of the run (the adversary never breaks the cryptography) *)
Fixpoint sound_run (y : sys) (tr : list event) : Prop :=
  dy_sound (y_out y) /\ match tr with [] => True | e :: r => sound_run (sys_step y e) r end.

End TwoParty.
