(* Model of QuicStreamSender (src/aioquic/quic/stream.py). *)
From AQ Require Import lib.Base lib.Tok model.RangeSet.

Record send := mkSend {
  s_empty : bool;           (* buffer_is_empty *)
  s_highest : Z;            (* highest_offset *)
  s_finished : bool;        (* is_finished *)
  s_reset_pending : bool;   (* reset_pending *)
  s_acked : rs;             (* _acked *)
  s_acked_fin : bool;       (* _acked_fin *)
  s_buf : list Z;           (* _buffer *)
  s_fin : option Z;         (* _buffer_fin *)
  s_start : Z;              (* _buffer_start *)
  s_stop : Z;               (* _buffer_stop *)
  s_pending : rs;           (* _pending *)
  s_pending_eof : bool;     (* _pending_eof *)
  s_reset : option Z        (* _reset_error_code *)
}.

Definition send_init (writable : bool) : send :=
  mkSend true 0 (negb writable) false [] false [] None 0 0 [] false None.

(* Python slice semantics b[a:c] for possibly negative indices *)
Definition pyidx (i len : Z) : Z :=
  if i <? 0 then Z.max 0 (i + len) else Z.min i len.
Definition pyslice {A} (l : list A) (a c : Z) : list A :=
  let n := Zlen l in
  let a' := pyidx a n in let c' := pyidx c n in
  if c' <=? a' then [] else ztake (c' - a') (zdrop a' l).

Inductive sout :=
| SNone                                        (* returned None *)
| SFrame (offset : Z) (data : list Z) (fin : bool)
| SResetFrame (code : option Z) (final_size : Z)
| SAssert.                                     (* AssertionError *)

Definition next_offset (st : send) : Z :=
  match s_pending st with (s, _) :: _ => s | [] => s_stop st end.

Definition set_empty (st : send) (b : bool) : send :=
  mkSend b (s_highest st) (s_finished st) (s_reset_pending st) (s_acked st) (s_acked_fin st) (s_buf st)
         (s_fin st) (s_start st) (s_stop st) (s_pending st) (s_pending_eof st) (s_reset st).

Definition get_frame (st : send) (max_size : Z) (max_offset : option Z) : sout * send :=
  match s_reset st with Some _ => (SAssert, st) | None =>
  match s_pending st with
  | [] =>
      if s_pending_eof st then
        (SFrame (match s_fin st with Some f => f | None => 0 end) [] true,
         mkSend (s_empty st) (s_highest st) (s_finished st) (s_reset_pending st) (s_acked st) (s_acked_fin st)
                (s_buf st) (s_fin st) (s_start st) (s_stop st) (s_pending st) false (s_reset st))
      else (SNone, set_empty st true)
  | (start, rstop) :: _ =>
      let stop := Z.min rstop (start + max_size) in
      let stop := match max_offset with Some m => if stop >? m then m else stop | None => stop end in
      if stop <=? start then (SNone, st) else
      let data := pyslice (s_buf st) (start - s_start st) (stop - s_start st) in
      let pending' := subtract start stop (s_pending st) in
      let highest' := if stop >? s_highest st then stop else s_highest st in
      let isfin := match s_fin st with Some f => f =? stop | None => false end in
      (SFrame start data isfin,
       mkSend (s_empty st) highest' (s_finished st) (s_reset_pending st) (s_acked st) (s_acked_fin st)
              (s_buf st) (s_fin st) (s_start st) (s_stop st) pending'
              (if isfin then false else s_pending_eof st) (s_reset st))
  end end.

Definition get_reset_frame (st : send) : sout * send :=
  (SResetFrame (s_reset st) (s_highest st),
   mkSend (s_empty st) (s_highest st) (s_finished st) false (s_acked st) (s_acked_fin st) (s_buf st)
          (s_fin st) (s_start st) (s_stop st) (s_pending st) (s_pending_eof st) (s_reset st)).

(* delivery: true = ACKED, false = anything else (LOST) *)
Definition on_data_delivery (st : send) (acked : bool) (start stop : Z) (fin : bool) : sout * send :=
  if fin && negb (match s_fin st with Some f => stop =? f | None => false end) then (SAssert, st) else
  match s_reset st with Some _ => (SNone, st) | None =>
  if acked then
    let '(acked', bstart', buf') :=
      if stop >? start then
        let a := add start stop (s_acked st) in
        match a with
        | (fs, fe) :: rest =>
            if fs =? s_start st then (rest, s_start st + (fe - fs), zdrop (fe - fs) (s_buf st))
            else (a, s_start st, s_buf st)
        | [] => (a, s_start st, s_buf st)
        end
      else (s_acked st, s_start st, s_buf st) in
    let acked_fin' := if fin then true else s_acked_fin st in
    let done := (match s_fin st with Some f => bstart' =? f | None => false end) && acked_fin' in
    (SNone,
     mkSend (s_empty st) (s_highest st) (if done then true else s_finished st) (s_reset_pending st)
            acked' acked_fin' buf' (s_fin st) bstart' (s_stop st) (s_pending st) (s_pending_eof st) (s_reset st))
  else
    let st1 :=
      if stop >? start then
        mkSend false (s_highest st) (s_finished st) (s_reset_pending st) (s_acked st) (s_acked_fin st) (s_buf st)
               (s_fin st) (s_start st) (s_stop st) (add start stop (s_pending st)) (s_pending_eof st) (s_reset st)
      else st in
    let st2 :=
      if fin then
        mkSend false (s_highest st1) (s_finished st1) (s_reset_pending st1) (s_acked st1) (s_acked_fin st1) (s_buf st1)
               (s_fin st1) (s_start st1) (s_stop st1) (s_pending st1) true (s_reset st1)
      else st1 in
    (SNone, st2)
  end.

Definition on_reset_delivery (st : send) (acked : bool) : sout * send :=
  (SNone,
   if acked then
     mkSend (s_empty st) (s_highest st) true (s_reset_pending st) (s_acked st) (s_acked_fin st) (s_buf st)
            (s_fin st) (s_start st) (s_stop st) (s_pending st) (s_pending_eof st) (s_reset st)
   else
     mkSend (s_empty st) (s_highest st) (s_finished st) true (s_acked st) (s_acked_fin st) (s_buf st)
            (s_fin st) (s_start st) (s_stop st) (s_pending st) (s_pending_eof st) (s_reset st)).

Definition reset (st : send) (code : Z) : sout * send :=
  (SNone,
   match s_reset st with
   | Some _ => st
   | None =>
     mkSend true (s_highest st) (s_finished st) true (s_acked st) (s_acked_fin st) (s_buf st)
            (s_fin st) (s_start st) (s_stop st) (s_pending st) (s_pending_eof st) (Some code)
   end).

Definition write (st : send) (data : list Z) (end_stream : bool) : sout * send :=
  match s_fin st, s_reset st with
  | Some _, _ => (SAssert, st)
  | _, Some _ => (SAssert, st)
  | None, None =>
    let size := Zlen data in
    let st1 :=
      if negb (size =? 0) then
        mkSend false (s_highest st) (s_finished st) (s_reset_pending st) (s_acked st) (s_acked_fin st)
               (s_buf st ++ data) (s_fin st) (s_start st) (s_stop st + size)
               (add (s_stop st) (s_stop st + size) (s_pending st)) (s_pending_eof st) (s_reset st)
      else st in
    let st2 :=
      if end_stream then
        mkSend false (s_highest st1) (s_finished st1) (s_reset_pending st1) (s_acked st1) (s_acked_fin st1)
               (s_buf st1) (Some (s_stop st1)) (s_start st1) (s_stop st1) (s_pending st1) true (s_reset st1)
      else st1 in
    (SNone, st2)
  end.

(* ---------- executable interface ---------------------------------------------------
   ops: 0 fin n bytes = write ; 1 max_size (0 | 1 max_offset) = get_frame ; 2 = get_reset_frame
        3 acked start stop fin = on_data_delivery ; 4 acked = on_reset_delivery ; 5 code = reset
   out per op: result (0 None | 1 off fin n bytes | 2 (0|1 code) final | 3 AssertionError), then
               buffer_is_empty highest_offset is_finished reset_pending next_offset *)
Definition out_sout (o : sout) : list Z :=
  match o with
  | SNone => [0]
  | SFrame off d f => 1 :: off :: b2z f :: out_list d
  | SResetFrame c fs => 2 :: out_opt c ++ [fs]
  | SAssert => [3]
  end.
Definition obs_send (st : send) : list Z :=
  [b2z (s_empty st); s_highest st; b2z (s_finished st); b2z (s_reset_pending st); next_offset st].

Fixpoint exec_send (fuel : nat) (st : send) (ops : list Z) : list Z :=
  match fuel with O => [] | S fuel =>
  let k (r : sout * send) (t : list Z) :=
    out_sout (fst r) ++ obs_send (snd r) ++ exec_send fuel (snd r) t in
  match ops with
  | 0 :: fin :: t => let '(d, t) := tk_list t in k (write st d (z2b fin)) t
  | 1 :: ms :: t => let '(mo, t) := tk_opt t in k (get_frame st ms mo) t
  | 2 :: t => k (get_reset_frame st) t
  | 3 :: a :: s :: e :: f :: t => k (on_data_delivery st (z2b a) s e (z2b f)) t
  | 4 :: a :: t => k (on_reset_delivery st (z2b a)) t
  | 5 :: c :: t => k (reset st c) t
  | _ => []
  end end.

(* EXTRACT: exec_streamsend *)
Definition exec_streamsend (ops : list Z) : list Z := exec_send (length ops) (send_init true) ops.
