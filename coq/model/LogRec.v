(* C20  one_record_per_packet: control skeletons of the code that produces qlog packet / frame records
   (GENERATED from connection.py / packet_builder.py by tools/gen/c20_records.py into coq/gen/LogRecords.v),
   their decision-driven semantics, record automata and a checker.  No proofs here (proofs/LogRecP.v).

   A skeleton keeps only: the EVENTS (a frame started, a frame record appended, a packet record logged, a
   decryption succeeded / failed, ...), branching (every test is an unknown decision, except the logger guard
   `self._quic_logger is not None`, which is taken: these are the skeletons of a wrun WITH a logger), loops, and the
   exits (return / continue / raise). *)
From Coq Require Import String.
From AQ Require Import lib.Base.
Open Scope string_scope.
Open Scope Z_scope.

Definition ev := (string * string)%type.          (* (kind, argument) *)

Inductive ws :=
| WSkip
| WEv (e : ev)
| WSeq (a b : ws)
| WIf (a b : ws)              (* unknown decision *)
| WLoop (body : ws)           (* zero or more iterations, each decided *)
| WExit (k : string).         (* "return" | "continue" | "raise" | "stop" (QuicPacketBuilderStop) *)

Inductive outcome := Fall | Exited (k : string).

(* wrun: None = out of fuel.  ds = the decisions (true = then-branch / iterate once more; exhausted = false) *)
Definition next (ds : list bool) : bool * list bool :=
  match ds with [] => (false, []) | d :: r => (d, r) end.

Fixpoint wrun (fuel : nat) (s : ws) (ds : list bool) : option (list ev * list bool * outcome) :=
  match fuel with
  | O => None
  | S f =>
      match s with
      | WSkip => Some ([], ds, Fall)
      | WEv e => Some ([e], ds, Fall)
      | WExit k => Some ([], ds, Exited k)
      | WSeq a b =>
          match wrun f a ds with
          | Some (t1, ds1, Fall) =>
              match wrun f b ds1 with
              | Some (t2, ds2, o) => Some ((t1 ++ t2)%list, ds2, o)
              | None => None
              end
          | r => r
          end
      | WIf a b => let (d, ds1) := next ds in if d then wrun f a ds1 else wrun f b ds1
      | WLoop body =>
          let (d, ds1) := next ds in
          if d then
            match wrun f body ds1 with
            | Some (t1, ds2, Fall) =>
                match wrun f (WLoop body) ds2 with
                | Some (t2, ds3, o) => Some ((t1 ++ t2)%list, ds3, o)
                | None => None
                end
            | r => r
            end
          else Some ([], ds1, Fall)
      end
  end.

(* ---- record automata --------------------------------------------------------------------------------- *)
Definition Q := (Z * string)%type.
Definition q_eqb (a b : Q) : bool := (fst a =? fst b) && String.eqb (snd a) (snd b).

Record dfa := mkDfa {
  delta : Q -> ev -> option Q;
  accept : Q -> string -> bool        (* may the unit be left in state q by an exit of kind k ("end" = falling off the end) *)
}.

Fixpoint dfa_exec (D : dfa) (q : Q) (t : list ev) : option Q :=
  match t with
  | [] => Some q
  | e :: r => match delta D q e with Some q' => dfa_exec D q' r | None => None end
  end.

(* check D s S = Some S': from every state of S every wrun of s is accepted so far, an exit happens only in a
   state that allows it, and a wrun that falls through ends in a state of S' *)
Fixpoint all_some {A} (l : list (option A)) : option (list A) :=
  match l with
  | [] => Some []
  | Some a :: r => match all_some r with Some r' => Some (a :: r') | None => None end
  | None :: _ => None
  end.

Definition q_in (q : Q) (S : list Q) : bool := existsb (q_eqb q) S.

Fixpoint check (D : dfa) (s : ws) (S : list Q) : option (list Q) :=
  match s with
  | WSkip => Some S
  | WEv e => all_some (map (fun q => delta D q e) S)
  | WExit k => if forallb (fun q => accept D q k) S then Some [] else None
  | WSeq a b => match check D a S with Some S1 => check D b S1 | None => None end
  | WIf a b =>
      match check D a S, check D b S with
      | Some x, Some y => Some (x ++ y)%list
      | _, _ => None
      end
  | WLoop body =>
      match check D body S with
      | Some S1 => if forallb (fun q => q_in q S) S1 then Some S else None
      | None => None
      end
  end.

Definition unit_ok (D : dfa) (q0 : Q) (s : ws) : bool :=
  match check D s [q0] with
  | Some St => forallb (fun q => accept D q "end") St
  | None => false
  end.

(* ---- the automata --------------------------------------------------------------------------------------
   SEND, a frame writer: (0,"") nothing pending; (1, ft) frame ft started, its record not yet appended.
   Frame then Log, strictly alternating, matching kinds; the writer may only be left with nothing pending. *)
Definition kind_ok (pairs : list (string * string)) (ft enc : string) : bool :=
  existsb (fun p => String.eqb (fst p) ft && String.eqb (snd p) enc) pairs.

Definition writer_dfa (pairs : list (string * string)) : dfa :=
  mkDfa
    (fun q e =>
       if String.eqb (fst e) "frame" then (if fst q =? 0 then Some (1, snd e) else None)
       else if String.eqb (fst e) "log" then (if (fst q =? 1) && kind_ok pairs (snd q) (snd e) then Some (0, "") else None)
       else None)
    (fun q _ => fst q =? 0).

(* RECEIVE, one frame handler: at most one frame record; exactly one when the handler returns normally *)
Definition handler_dfa : dfa :=
  mkDfa
    (fun q e => if String.eqb (fst e) "log" then (if fst q =? 0 then Some (1, snd e) else None) else None)
    (fun q k => if String.eqb k "raise" then true else fst q =? 1).

(* RECEIVE, one iteration of receive_datagram's packet loop:
   0 start | 1 decryption failed, no record yet | 2 decrypted, no record yet | 3 exactly one record *)
Definition packet_dfa (pre_triggers fail_triggers : list string) : dfa :=
  mkDfa
    (fun q e =>
       let k := fst e in
       if String.eqb k "drop" then
         (if (fst q =? 0) && existsb (String.eqb (snd e)) pre_triggers then Some (3, "")
          else if (fst q =? 1) && existsb (String.eqb (snd e)) fail_triggers then Some (3, "")
          else None)
       else if String.eqb k "decrypt_fail" then (if fst q =? 0 then Some (1, "") else None)
       else if String.eqb k "decrypt_ok" then (if fst q =? 0 then Some (2, "") else None)
       else if String.eqb k "recv" then (if fst q =? 2 then Some (3, "") else None)
       else if String.eqb k "handler" then (if fst q =? 0 then Some (3, "") else None)
       else None)
    (fun q _ => fst q =? 3).

(* the Version Negotiation / Retry packet handlers: exactly one packet record on every path *)
Definition one_record_dfa : dfa :=
  mkDfa
    (fun q e =>
       if String.eqb (fst e) "drop" || String.eqb (fst e) "recv" then (if fst q =? 0 then Some (3, "") else None)
       else None)
    (fun q _ => fst q =? 3).

(* SEND, one iteration of datagrams_to_send's loop over the packets returned by builder.flush(): exactly one
   packet_sent record; and QuicPacketBuilder._end_packet: a packet is appended to the list flush() returns at
   most once, the PADDING it adds is logged before *)
Definition sent_dfa : dfa :=
  mkDfa
    (fun q e => if String.eqb (fst e) "sent" then (if fst q =? 0 then Some (3, "") else None) else None)
    (fun q _ => fst q =? 3).

Definition end_packet_dfa : dfa :=
  mkDfa
    (fun q e =>
       if String.eqb (fst e) "frame" then (if fst q =? 0 then Some (1, snd e) else None)
       else if String.eqb (fst e) "log" then (if (fst q =? 1) && String.eqb (snd e) "encode_padding_frame" then Some (0, "") else None)
       else if String.eqb (fst e) "packet_appended" then (if fst q =? 0 then Some (3, "") else None)
       else None)
    (fun q _ => negb (fst q =? 1)).

(* number of frames / frame records in a trace *)
Definition count (k : string) (t : list ev) : Z := Zlen (filter (fun e => String.eqb (fst e) k) t).
