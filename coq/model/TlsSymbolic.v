(* C03  Symbolic model of the TLS 1.3 handshake of src/aioquic/tls.py (KeySchedule, KeyScheduleProxy,
   negotiate, Context._client_* / _server_* handlers) and of the QUIC-side checks of
   src/aioquic/quic/connection.py (_parse_transport_parameters: ODCID / ISCID / RSCID / version_information,
   _alpn_handler version choice, is_version_compatible, _receive_version_negotiation_packet).

   Cryptography, X.509 and the message codecs are ORACLES: one record [oracles] of functions
   (hash, hmac, hkdf_extract, hkdf_expand_label, DH, sign / verify, certificate validation, pull_* / push_* of
   every handshake message).  In the theorems (proofs/TlsSymbolicP*.v) the record is a Section variable
   and the ideal behaviour assumed of it is stated as Section hypotheses (injectivity of hash / hmac / hkdf,
   codec round trips); in examples it is instantiated by a free "tagging" algebra over byte strings.

   What IS modelled, as in the code: the transcript = the exact byte strings given to update_hash, in order
   (whole raw messages; for a PSK ClientHello the binder split), which secret is derived at which transcript,
   the order of checks in every handler and what each failure raises, the state pollution a raising
   handler leaves behind, negotiate(), the (direction, epoch, suite, secret) sequence of
   update_traffic_key_cb.  Bytes = list Z, exceptions are outcomes.  No proofs in this file. *)
From AQ Require Import lib.Base lib.Tok gen.TlsDispatch.

Definition bytes := list Z.

Inductive outcome := OOk | OAlert (d : Z) | OExn (k : Z) | OQuic (code : Z).
Inductive pres (A : Type) := POk (a : A) | PAlert (d : Z) | PExn (k : Z).
Arguments POk {A} a.
Arguments PAlert {A} d.
Arguments PExn {A} k.

(* exception kinds (as in model/TlsSM.v) *)
Definition EX_ASSERT : Z := 1.
Definition EX_ATTRIBUTE : Z := 2.
Definition EX_KEY : Z := 5.

(* ---------- parsed views of the messages (the dataclasses of tls.py) ------------------------------ *)
Definition ext := (Z * bytes)%type.
Definition key_share := (Z * bytes)%type.

Record ch_view := mkCH {
  ch_random : bytes; ch_sid : bytes;
  ch_suites : list Z; ch_comp : list Z;
  ch_alpn : option (list bytes);
  ch_early : bool;
  ch_key_share : option (list key_share);
  ch_psk : option (list (bytes * Z) * list bytes);     (* OfferedPsks: identities, binders *)
  ch_kex_modes : option (list Z);
  ch_server_name : option bytes;
  ch_sigalgs : option (list Z);
  ch_groups : option (list Z);
  ch_versions : option (list Z);
  ch_other : list ext
}.

Record sh_view := mkSH {
  sh_random : bytes; sh_sid : bytes;
  sh_suite : Z; sh_comp : Z;
  sh_key_share : option key_share;
  sh_psk : option Z;
  sh_version : option Z
}.

Record ee_view := mkEE { ee_alpn : option bytes; ee_early : bool; ee_other : list ext }.
Record cr_view := mkCR { cr_context : bytes; cr_sigalgs : option (list Z) }.
Record ct_view := mkCT { ct_context : bytes; ct_certs : list (bytes * bytes) }.
Record cv_view := mkCV { cv_alg : Z; cv_sig : bytes }.

(* ---------- the oracles ----------------------------------------------------------------------------- *)
Record oracles := mkO {
  (* hash algorithm ids: 1 = SHA-256, 2 = SHA-384 *)
  o_hash : Z -> bytes -> bytes;
  o_hmac : Z -> bytes -> bytes -> bytes;                    (* alg key message *)
  o_extract : Z -> bytes -> bytes -> bytes;                 (* hkdf_extract alg salt key_material *)
  o_expand : Z -> bytes -> bytes -> bytes -> bytes;         (* hkdf_expand_label alg secret label hash_value (length = digest size) *)
  o_pub : Z -> bytes -> bytes;                              (* group, private key -> encoded public key *)
  o_decode : Z -> bytes -> Z;                               (* decode_public_key: 0 unknown group (None) | 1 usable | 2 ValueError *)
  o_dh : Z -> bytes -> bytes -> option bytes;               (* group, own private, peer public -> shared (None: ValueError) *)
  o_sign : bytes -> Z -> bytes -> bytes;                    (* private key, signature algorithm, data *)
  o_sig_verify : bytes -> Z -> bytes -> bytes -> bool;      (* certificate (DER), algorithm, data, signature *)
  o_load : bytes -> bool;                                   (* x509.load_der_x509_certificate succeeds *)
  o_key_kind : bytes -> Z;                                  (* public key of a certificate: 0 unsupported | 1 RSA | 2 EC | 3 Ed25519 | 4 Ed448 | 5 other *)
  o_cert_ok : option bytes -> list bytes -> Z;              (* verify_certificate(server_name, chain): 0 = passes, else the alert *)
  o_is_ip : bytes -> bool;                                  (* ipaddress.ip_address(name) does not raise ValueError: the name is an IPv4 / IPv6 literal *)
  (* codecs: pull_* on one raw message (BufferReadError already turned into decode_error) *)
  o_parse_ch : bytes -> pres ch_view;
  o_parse_sh : bytes -> pres sh_view;
  o_parse_ee : bytes -> pres ee_view;
  o_parse_cr : bytes -> pres cr_view;
  o_parse_ct : bytes -> pres ct_view;
  o_parse_cv : bytes -> pres cv_view;
  o_parse_fin : bytes -> pres bytes;
  o_parse_nst : bytes -> pres unit;
  (* push_* *)
  o_build_ch : ch_view -> bytes;
  o_build_sh : sh_view -> bytes;
  o_build_ee : ee_view -> bytes;
  o_build_cr : cr_view -> bytes;
  o_build_ct : ct_view -> bytes;
  o_build_cv : cv_view -> bytes;
  o_build_fin : bytes -> bytes
}.

(* ---------- tables (pinned here; proofs/TlsSymbolicPGen.v shows they are the ones extracted from the
   current source by tools/gen/c03_transcript.py) -------------------------------------------------------- *)
Definition SHA256 : Z := 1.
Definition SHA384 : Z := 2.
(* CIPHER_SUITES: suite -> hash *)
Definition suite_alg (suite : Z) : Z :=
  if suite =? 0x1301 then SHA256 else if suite =? 0x1302 then SHA384 else if suite =? 0x1303 then SHA256 else 0.
Definition dsize (alg : Z) : Z := if alg =? SHA384 then 48 else 32.
(* SIGNATURE_ALGORITHMS padding class + the two EdDSA branches of _check_certificate_verify_signature:
   which public-key kind (o_key_kind) the algorithm needs; 0 = not in the table (KeyError) *)
Definition sig_kind (alg : Z) : Z :=
  if alg =? 0x0807 then 3 else if alg =? 0x0808 then 4
  else if (alg =? 0x0403) || (alg =? 0x0503) || (alg =? 0x0603) then 2
  else if (alg =? 0x0201) || (alg =? 0x0401) || (alg =? 0x0501) || (alg =? 0x0601)
          || (alg =? 0x0804) || (alg =? 0x0805) || (alg =? 0x0806) then 1
  else 0.

(* labels (ASCII) *)
Definition L_derived : bytes := [100; 101; 114; 105; 118; 101; 100].
Definition L_finished : bytes := [102; 105; 110; 105; 115; 104; 101; 100].
Definition L_res_binder : bytes := [114; 101; 115; 32; 98; 105; 110; 100; 101; 114].
Definition L_c_e_traffic : bytes := [99; 32; 101; 32; 116; 114; 97; 102; 102; 105; 99].
Definition L_c_hs_traffic : bytes := [99; 32; 104; 115; 32; 116; 114; 97; 102; 102; 105; 99].
Definition L_s_hs_traffic : bytes := [115; 32; 104; 115; 32; 116; 114; 97; 102; 102; 105; 99].
Definition L_c_ap_traffic : bytes := [99; 32; 97; 112; 32; 116; 114; 97; 102; 102; 105; 99].
Definition L_s_ap_traffic : bytes := [115; 32; 97; 112; 32; 116; 114; 97; 102; 102; 105; 99].
(* b"TLS 1.3, server CertificateVerify" / b"TLS 1.3, client CertificateVerify" *)
Definition SERVER_CONTEXT_STRING : bytes :=
  [84; 76; 83; 32; 49; 46; 51; 44; 32; 115; 101; 114; 118; 101; 114; 32; 67; 101; 114; 116; 105; 102; 105; 99; 97; 116; 101;
   86; 101; 114; 105; 102; 121].
Definition CLIENT_CONTEXT_STRING : bytes :=
  [84; 76; 83; 32; 49; 46; 51; 44; 32; 99; 108; 105; 101; 110; 116; 32; 67; 101; 114; 116; 105; 102; 105; 99; 97; 116; 101;
   86; 101; 114; 105; 102; 121].

(* ---------- small helpers ------------------------------------------------------------------------------ *)
Fixpoint beqb (a b : bytes) : bool :=
  match a, b with
  | [], [] => true
  | x :: a', y :: b' => (x =? y) && beqb a' b'
  | _, _ => false
  end.

Definition memz (x : Z) (l : list Z) : bool := existsb (fun y => x =? y) l.
Definition memb (x : bytes) (l : list bytes) : bool := existsb (fun y => beqb x y) l.

(* tls.negotiate: the first SUPPORTED value that is offered *)
Fixpoint negotiate {A} (mem : A -> list A -> bool) (supported offered : list A) : option A :=
  match supported with
  | [] => None
  | c :: r => if mem c offered then Some c else negotiate mem r offered
  end.
Definition negotiate_opt {A} (mem : A -> list A -> bool) (supported : list A) (offered : option (list A)) : option A :=
  match offered with Some o => negotiate mem supported o | None => None end.

Definition slice (b : bytes) (start len : Z) : bytes := ztake len (zdrop start b).

(* one complete handshake message: type byte, 24-bit length, body *)
Definition msg_type (m : bytes) : Z := match m with t :: _ => t | [] => -1 end.
Definition be24 (m : bytes) : Z :=
  match m with _ :: a :: b :: c :: _ => a * 65536 + b * 256 + c | _ => -5 end.
Definition framedb (m : bytes) : bool := Zlen m =? 4 + be24 m.

(* ---------- KeySchedule -------------------------------------------------------------------------------- *)
Record ksched := mkKS {
  k_suite : Z;
  k_gen : Z;
  k_tr : bytes;          (* every byte given to update_hash so far, in order *)
  k_secret : bytes
}.

Section WithOracles.
Variable O : oracles.

Definition k_alg (k : ksched) : Z := suite_alg (k_suite k).
Definition ks_new (suite : Z) : ksched := mkKS suite 0 [] (zeros (dsize (suite_alg suite))).
Definition ks_hashval (k : ksched) : bytes := o_hash O (k_alg k) (k_tr k).
Definition ks_update (k : ksched) (data : bytes) : ksched :=
  mkKS (k_suite k) (k_gen k) (k_tr k ++ data) (k_secret k).
Definition ks_extract (k : ksched) (km : option bytes) : ksched :=
  let alg := k_alg k in
  let km' := match km with Some x => x | None => zeros (dsize alg) end in
  let salt := if k_gen k =? 0 then k_secret k
              else o_expand O alg (k_secret k) L_derived (o_hash O alg []) in
  mkKS (k_suite k) (k_gen k + 1) (k_tr k) (o_extract O alg salt km').
Definition ks_derive (k : ksched) (label : bytes) : bytes :=
  o_expand O (k_alg k) (k_secret k) label (ks_hashval k).
Definition ks_finished (k : ksched) (secret : bytes) : bytes :=
  o_hmac O (k_alg k) (o_expand O (k_alg k) secret L_finished []) (ks_hashval k).
Definition ks_cv_data (k : ksched) (context_string : bytes) : bytes :=
  repeat 32 64%nat ++ context_string ++ [0] ++ ks_hashval k.

(* KeyScheduleProxy: one schedule per offered suite (dict: a repeated suite keeps its first slot) *)
Definition proxy := list (Z * ksched).
Fixpoint proxy_new (suites : list Z) (seen : list Z) : proxy :=
  match suites with
  | [] => []
  | s :: r => if memz s seen then proxy_new r seen else (s, ks_new s) :: proxy_new r (s :: seen)
  end.
Definition proxy_map (f : ksched -> ksched) (p : proxy) : proxy := map (fun e => (fst e, f (snd e))) p.
Fixpoint proxy_select (p : proxy) (suite : Z) : option ksched :=
  match p with [] => None | (s, k) :: r => if s =? suite then Some k else proxy_select r suite end.

(* ---------- configuration and state ------------------------------------------------------------------- *)
Record ticket := mkTicket {
  tk_suite : Z; tk_secret : bytes; tk_id : bytes; tk_age : Z;
  tk_early : bool;       (* max_early_data_size is not None *)
  tk_valid : bool        (* is_valid at the time of use *)
}.

Record cfg := mkCfg {
  (* both roles *)
  f_suites : list Z;              (* _cipher_suites *)
  f_comp : list Z;                (* _legacy_compression_methods *)
  f_versions : list Z;            (* _supported_versions *)
  f_sigalgs : list Z;             (* _signature_algorithms *)
  f_kex_modes : list Z;           (* _psk_key_exchange_modes *)
  f_alpn : option (list bytes);   (* _alpn_protocols *)
  f_ext : list ext;               (* handshake_extensions *)
  f_chain : list bytes;           (* [certificate] + certificate_chain, DER; [] = no certificate *)
  f_key : bytes;                  (* certificate_private_key *)
  f_key_sigalgs : list Z;         (* _signature_algorithms_for_private_key() *)
  f_random : bytes;               (* client_random / server_random (os.urandom) *)
  (* client *)
  f_privs : list (Z * bytes);     (* one fresh private key per supported group, in _supported_groups order *)
  f_server_name : option bytes;   (* the `server_name` argument of Context(...): the name the application REQUESTED (DNS name or IP literal) *)
  f_verify : bool;                (* _verify_mode != CERT_NONE *)
  f_ticket : option ticket;       (* session_ticket *)
  f_nst_cb : bool;                (* new_session_ticket_cb is not None *)
  f_sid : bytes;                  (* legacy_session_id *)
  (* server *)
  f_reqcert : bool;               (* _request_client_certificate *)
  f_ticket_cb : bool;             (* get_session_ticket_cb is not None *)
  f_lookup : bytes -> option ticket;
  f_spriv : Z -> bytes;           (* the private key the server generates for a group *)
  (* alpn_cb: (ALPN, received other_extensions) -> 0 and the handshake_extensions to use from now on, or a
     QuicConnectionError code *)
  f_alpn_cb : option bytes -> list ext -> (Z * option (list ext))
}.

Definition keyev := (Z * Z * Z * bytes)%type.    (* update_traffic_key_cb (direction, epoch, cipher_suite, secret) *)

Record tst := mkT {
  t_state : State;
  t_ks : option ksched;            (* key_schedule *)
  t_kpsk : option ksched;          (* _key_schedule_psk *)
  t_kproxy : option proxy;         (* _key_schedule_proxy *)
  t_resumed : bool;                (* _session_resumed *)
  t_alpn : option bytes;           (* alpn_negotiated *)
  t_early : bool;                  (* early_data_accepted *)
  t_creq : option cr_view;         (* _certificate_request *)
  t_peer : list bytes;             (* _peer_certificate :: _peer_certificate_chain, [] = None *)
  t_enc : bytes;                   (* _enc_key *)
  t_dec : bytes;                   (* _dec_key *)
  t_next_dec : bytes;              (* _next_dec_key *)
  t_expected : bytes;              (* _expected_verify_data *)
  t_recv_ext : list ext;           (* received_extensions *)
  t_ext : list ext;                (* handshake_extensions (the QUIC layer may replace them in alpn_cb) *)
  t_kex_mode : option Z;           (* _psk_key_exchange_mode *)
  t_keys : list keyev              (* every update_traffic_key_cb call so far, in order *)
}.

Definition out := list (Z * bytes).        (* (epoch, raw message) emitted *)
Definition result := (outcome * tst * out)%type.

Definition init_client (c : cfg) : tst :=
  mkT CLIENT_HANDSHAKE_START None None None false None false None [] [] [] [] [] [] (f_ext c) None [].
Definition init_server (c : cfg) : tst :=
  mkT SERVER_EXPECT_CLIENT_HELLO None None None false None false None [] [] [] [] [] [] (f_ext c) None [].

Definition set_state (s : tst) (x : State) : tst :=
  mkT x (t_ks s) (t_kpsk s) (t_kproxy s) (t_resumed s) (t_alpn s) (t_early s) (t_creq s) (t_peer s) (t_enc s) (t_dec s)
      (t_next_dec s) (t_expected s) (t_recv_ext s) (t_ext s) (t_kex_mode s) (t_keys s).
Definition set_ks (s : tst) (k : ksched) : tst :=
  mkT (t_state s) (Some k) (t_kpsk s) (t_kproxy s) (t_resumed s) (t_alpn s) (t_early s) (t_creq s) (t_peer s) (t_enc s)
      (t_dec s) (t_next_dec s) (t_expected s) (t_recv_ext s) (t_ext s) (t_kex_mode s) (t_keys s).
(* _setup_traffic_protection / a direct update_traffic_key_cb call *)
Definition add_key (s : tst) (d e suite : Z) (secret : bytes) : tst :=
  mkT (t_state s) (t_ks s) (t_kpsk s) (t_kproxy s) (t_resumed s) (t_alpn s) (t_early s) (t_creq s) (t_peer s)
      (if d =? DIR_ENCRYPT then secret else t_enc s) (if d =? DIR_ENCRYPT then t_dec s else secret)
      (t_next_dec s) (t_expected s) (t_recv_ext s) (t_ext s) (t_kex_mode s) (t_keys s ++ [(d, e, suite, secret)]).
(* only the callback, _enc_key/_dec_key untouched *)
Definition log_key (s : tst) (d e suite : Z) (secret : bytes) : tst :=
  mkT (t_state s) (t_ks s) (t_kpsk s) (t_kproxy s) (t_resumed s) (t_alpn s) (t_early s) (t_creq s) (t_peer s)
      (t_enc s) (t_dec s) (t_next_dec s) (t_expected s) (t_recv_ext s) (t_ext s) (t_kex_mode s)
      (t_keys s ++ [(d, e, suite, secret)]).

Definition with_parse {A} (s : tst) (p : pres A) (k : A -> result) : result :=
  match p with
  | POk v => k v
  | PAlert d => (OAlert d, s, [])
  | PExn e => (OExn e, s, [])
  end.

(* ---------- the name flow of tls.Context ---------------------------------------------------------------------
   Context.__init__ stores its `server_name` argument unchanged in self._server_name (attr_server_name).  Two readers:
     * _client_send_hello: "literal IPv4 and IPv6 addresses are not permitted in SNI": a LOCAL value, None when
       ipaddress.ip_address(self._server_name) succeeds (ip_address(None) raises ValueError), goes into the ClientHello
       extension ONLY (sni_of_name);
     * _client_handle_certificate_verify: verify_certificate(..., server_name=self._server_name): the configured name
       itself, IP literals included (verify_name).
   proofs/TlsNamesP.v ties both to the expressions re-extracted from the current source (gen/TlsNames.v). *)
Definition attr_server_name (c : cfg) : option bytes := f_server_name c.
Definition name_is_ip (n : option bytes) : bool := match n with Some b => o_is_ip O b | None => false end.
Definition sni_of_name (n : option bytes) : option bytes := if name_is_ip n then None else n.
Definition verify_name (c : cfg) : option bytes := attr_server_name c.

(* ---------- client: _client_send_hello -------------------------------------------------------------------- *)
Definition client_key_shares (c : cfg) : list key_share := map (fun gp => (fst gp, o_pub O (fst gp) (snd gp))) (f_privs c).

Definition hello_base (c : cfg) : ch_view :=
  mkCH (f_random c) (f_sid c) (f_suites c) (f_comp c) (f_alpn c) false (Some (client_key_shares c)) None
       (match f_ticket c with Some _ => Some (f_kex_modes c) | None => if f_nst_cb c then Some (f_kex_modes c) else None end)
       (sni_of_name (attr_server_name c)) (Some (f_sigalgs c)) (Some (map fst (f_privs c))) (Some (f_versions c)) (f_ext c).

Definition hello_with_psk (h : ch_view) (t : ticket) (binder : bytes) : ch_view :=
  mkCH (ch_random h) (ch_sid h) (ch_suites h) (ch_comp h) (ch_alpn h) (tk_early t) (ch_key_share h)
       (Some ([(tk_id t, tk_age t)], [binder])) (ch_kex_modes h) (ch_server_name h) (ch_sigalgs h) (ch_groups h)
       (ch_versions h) (ch_other h).

Definition use_ticket (c : cfg) : option ticket :=
  match f_ticket c with Some t => if tk_valid t then Some t else None | None => None end.

(* the PSK schedule after the binder computation: (schedule, binder) *)
Definition client_psk_schedule (c : cfg) (t : ticket) : ksched * bytes :=
  let k0 := ks_extract (ks_new (tk_suite t)) (Some (tk_secret t)) in
  let binder_key := ks_derive k0 L_res_binder in
  let bl := dsize (k_alg k0) in
  let tmp := o_build_ch O (hello_with_psk (hello_base c) t (zeros bl)) in
  let off := Zlen tmp - bl - 3 in
  let k1 := ks_update k0 (ztake off tmp) in
  let binder := ks_finished k1 binder_key in
  (ks_update k1 (slice tmp off 3 ++ binder), binder).

(* the ClientHello as sent *)
Definition client_hello_msg (c : cfg) : bytes :=
  match use_ticket c with
  | Some t => o_build_ch O (hello_with_psk (hello_base c) t (snd (client_psk_schedule c t)))
  | None => o_build_ch O (hello_base c)
  end.

Definition client_send_hello (c : cfg) (s : tst) : result :=
  let m := client_hello_msg c in
  let px := proxy_map (fun k => ks_update (ks_extract k None) m) (proxy_new (f_suites c) []) in
  let s1 := mkT CLIENT_EXPECT_SERVER_HELLO (t_ks s)
                (match use_ticket c with Some t => Some (fst (client_psk_schedule c t)) | None => None end)
                (Some px) (t_resumed s) (t_alpn s) (t_early s) (t_creq s) (t_peer s) (t_enc s) (t_dec s) (t_next_dec s)
                (t_expected s) (t_recv_ext s) (t_ext s) (t_kex_mode s) (t_keys s) in
  let s2 := match use_ticket c with
            | Some t => if tk_early t
                        then let kp := fst (client_psk_schedule c t) in
                             log_key s1 DIR_ENCRYPT EP_ZERO_RTT (k_suite kp) (ks_derive kp L_c_e_traffic)
                        else s1
            | None => s1
            end in
  (OOk, s2, [(EP_INITIAL, m)]).

(* ---------- key exchange helpers ---------------------------------------------------------------------- *)
(* the private key the client holds for a group: the LAST one generated for it *)
Fixpoint find_priv (g : Z) (l : list (Z * bytes)) (acc : option bytes) : option bytes :=
  match l with
  | [] => acc
  | (g', p) :: r => find_priv g r (if g' =? g then Some p else acc)
  end.

(* ---------- client handlers ---------------------------------------------------------------------------- *)
Definition client_handle_hello (c : cfg) (s : tst) (m : bytes) : result :=
  with_parse s (o_parse_sh O m) (fun v =>
  match negotiate memz (f_suites c) [sh_suite v] with
  | None => (OAlert AD_handshake_failure, s, [])
  | Some suite =>
  if negb (memz (sh_comp v) (f_comp c)) then (OAlert AD_illegal_parameter, s, []) else
  if negb (match sh_version v with Some x => memz x (f_versions c) | None => false end)
  then (OAlert AD_illegal_parameter, s, []) else
  (* select key schedule *)
  let sel : pres (ksched * bool) :=
    match sh_psk v with
    | Some idx =>
        match t_kpsk s with
        | Some kp => if (idx =? 0) && (suite =? k_suite kp) then POk (kp, true) else PAlert AD_illegal_parameter
        | None => PAlert AD_illegal_parameter
        end
    | None =>
        match t_kproxy s with
        | Some px => match proxy_select px suite with Some k => POk (k, false) | None => PExn EX_KEY end
        | None => PExn EX_ATTRIBUTE
        end
    end in
  with_parse s sel (fun kr =>
  let '(ks, psk) := kr in
  let s1 := mkT (t_state s) (Some ks) None None (if psk then true else t_resumed s) (t_alpn s) (t_early s) (t_creq s)
                (t_peer s) (t_enc s) (t_dec s) (t_next_dec s) (t_expected s) (t_recv_ext s) (t_ext s) (t_kex_mode s)
                (t_keys s) in
  match sh_key_share v with
  | None => (OAlert AD_illegal_parameter, s1, [])
  | Some (g, pk) =>
  let d := o_decode O g pk in
  if d =? 2 then (OAlert AD_illegal_parameter, s1, []) else
  match (if d =? 1 then find_priv g (f_privs c) None else None) with
  | None => (OAlert AD_illegal_parameter, s1, [])
  | Some priv =>
  match o_dh O g priv pk with
  | None => (OAlert AD_illegal_parameter, s1, [])
  | Some shared =>
      let k2 := ks_extract (ks_update ks m) (Some shared) in
      let s2 := add_key (set_ks s1 k2) DIR_DECRYPT EP_HANDSHAKE (k_suite k2) (ks_derive k2 L_s_hs_traffic) in
      (OOk, set_state s2 CLIENT_EXPECT_ENCRYPTED_EXTENSIONS, [])
  end end end)
  end).

Definition the_ks (s : tst) : ksched := match t_ks s with Some k => k | None => ks_new 0 end.

Definition client_handle_encrypted_extensions (c : cfg) (s : tst) (m : bytes) : result :=
  with_parse s (o_parse_ee O m) (fun v =>
  let s1 := mkT (t_state s) (t_ks s) (t_kpsk s) (t_kproxy s) (t_resumed s) (ee_alpn v) (ee_early v) (t_creq s) (t_peer s)
                (t_enc s) (t_dec s) (t_next_dec s) (t_expected s) (ee_other v) (t_ext s) (t_kex_mode s) (t_keys s) in
  let '(code, _) := f_alpn_cb c (ee_alpn v) (ee_other v) in
  if negb (code =? 0) then (OQuic code, s1, []) else
  let k := the_ks s1 in
  let s2 := add_key s1 DIR_ENCRYPT EP_HANDSHAKE (k_suite k) (ks_derive k L_c_hs_traffic) in
  let s3 := set_ks s2 (ks_update k m) in
  (OOk, set_state s3 (if t_resumed s then CLIENT_EXPECT_FINISHED else CLIENT_EXPECT_CERTIFICATE_REQUEST_OR_CERTIFICATE), [])).

Definition client_handle_certificate_request (c : cfg) (s : tst) (m : bytes) : result :=
  with_parse s (o_parse_cr O m) (fun v =>
  let s1 := mkT CLIENT_EXPECT_CERTIFICATE (Some (ks_update (the_ks s) m)) (t_kpsk s) (t_kproxy s) (t_resumed s) (t_alpn s)
                (t_early s) (Some v) (t_peer s) (t_enc s) (t_dec s) (t_next_dec s) (t_expected s) (t_recv_ext s) (t_ext s)
                (t_kex_mode s) (t_keys s) in
  (OOk, s1, [])).

(* _set_peer_certificate *)
Definition set_peer (s : tst) (certs : list (bytes * bytes)) : pres tst :=
  match certs with
  | [] => PAlert AD_decode_error
  | _ => if forallb (fun e => o_load O (fst e)) certs
         then POk (mkT (t_state s) (t_ks s) (t_kpsk s) (t_kproxy s) (t_resumed s) (t_alpn s) (t_early s) (t_creq s)
                       (map fst certs) (t_enc s) (t_dec s) (t_next_dec s) (t_expected s) (t_recv_ext s) (t_ext s)
                       (t_kex_mode s) (t_keys s))
         else PAlert AD_bad_certificate
  end.

Definition client_handle_certificate (c : cfg) (s : tst) (m : bytes) : result :=
  with_parse s (o_parse_ct O m) (fun v =>
  let s1 := set_ks s (ks_update (the_ks s) m) in               (* hashed BEFORE the certificate is looked at *)
  with_parse s1 (set_peer s1 (ct_certs v)) (fun s2 =>
  (OOk, set_state s2 CLIENT_EXPECT_CERTIFICATE_VERIFY, []))).

(* _check_certificate_verify_signature: None = passes *)
Definition check_cv (c : cfg) (s : tst) (v : cv_view) (context_string : bytes) : option outcome :=
  if negb (memz (cv_alg v) (f_sigalgs c)) then Some (OAlert AD_decrypt_error) else
  let leaf := hd [] (t_peer s) in
  let kind := o_key_kind O leaf in
  if kind =? 0 then Some (OAlert AD_bad_certificate) else
  if sig_kind (cv_alg v) =? 0 then Some (OExn EX_KEY) else
  if negb (sig_kind (cv_alg v) =? kind) then Some (OAlert AD_illegal_parameter) else
  if negb (o_sig_verify O leaf (cv_alg v) (ks_cv_data (the_ks s) context_string) (cv_sig v))
  then Some (OAlert AD_decrypt_error) else None.

Definition client_handle_certificate_verify (c : cfg) (s : tst) (m : bytes) : result :=
  with_parse s (o_parse_cv O m) (fun v =>
  match check_cv c s v SERVER_CONTEXT_STRING with
  | Some o => (o, s, [])
  | None =>
  let verdict := if f_verify c then o_cert_ok O (verify_name c) (t_peer s) else 0 in
  if negb (verdict =? 0) then (OAlert verdict, s, []) else
  (OOk, set_state (set_ks s (ks_update (the_ks s) m)) CLIENT_EXPECT_FINISHED, [])
  end).

Definition client_handle_finished (c : cfg) (s : tst) (m : bytes) : result :=
  with_parse s (o_parse_fin O m) (fun vd =>
  let k := the_ks s in
  if negb (beqb vd (ks_finished k (t_dec s))) then (OAlert AD_decrypt_error, s, []) else
  let k1 := ks_update k m in
  let s1 := set_ks s k1 in
  if negb (k_gen k1 =? 2) then (OExn EX_ASSERT, s1, []) else
  let k2 := ks_extract k1 None in
  let s2 := add_key (set_ks s1 k2) DIR_DECRYPT EP_ONE_RTT (k_suite k2) (ks_derive k2 L_s_ap_traffic) in
  let next_enc := ks_derive k2 L_c_ap_traffic in
  (* answer a CertificateRequest *)
  let '(k3, msgs) :=
    match t_creq s with
    | None => (k2, [])
    | Some cr =>
        let alg := match f_chain c with
                   | [] => None
                   | _ => negotiate_opt memz (f_key_sigalgs c) (cr_sigalgs cr)
                   end in
        let certm := o_build_ct O (mkCT (cr_context cr)
                                        (match alg with Some _ => map (fun d => (d, [])) (f_chain c) | None => [] end)) in
        let ka := ks_update k2 certm in
        match alg with
        | None => (ka, [certm])
        | Some a =>
            let cvm := o_build_cv O (mkCV a (o_sign O (f_key c) a (ks_cv_data ka CLIENT_CONTEXT_STRING))) in
            (ks_update ka cvm, [certm; cvm])
        end
    end in
  let finm := o_build_fin O (ks_finished k3 (t_enc s2)) in
  let k4 := ks_update k3 finm in
  let s3 := add_key (set_ks s2 k4) DIR_ENCRYPT EP_ONE_RTT (k_suite k4) next_enc in
  (OOk, set_state s3 CLIENT_POST_HANDSHAKE, map (fun x => (EP_HANDSHAKE, x)) (msgs ++ [finm]))).

Definition client_handle_new_session_ticket (c : cfg) (s : tst) (m : bytes) : result :=
  with_parse s (o_parse_nst O m) (fun _ => (OOk, s, [])).

(* ---------- server ---------------------------------------------------------------------------------------- *)
(* _server_expect_finished (the NewSessionTicket it may emit is post-handshake and not in the transcript) *)
Definition server_expect_finished (s : tst) : tst :=
  let k := the_ks s in
  let expected := ks_finished k (t_dec s) in
  let k1 := ks_update k (o_build_fin O expected) in
  mkT SERVER_EXPECT_FINISHED (Some k1) (t_kpsk s) (t_kproxy s) (t_resumed s) (t_alpn s) (t_early s) (t_creq s) (t_peer s)
      (t_enc s) (t_dec s) (t_next_dec s) expected (t_recv_ext s) (t_ext s) (t_kex_mode s) (t_keys s).

(* the key exchange loop over the offered key shares *)
Fixpoint server_kex (c : cfg) (l : list key_share) : pres (option (Z * bytes * bytes)) :=   (* group, own public, shared *)
  match l with
  | [] => POk None
  | (g, pk) :: r =>
      let d := o_decode O g pk in
      if d =? 2 then PAlert AD_illegal_parameter
      else if d =? 1 then
        match o_dh O g (f_spriv c g) pk with
        | Some sh => POk (Some (g, o_pub O g (f_spriv c g), sh))
        | None => PAlert AD_illegal_parameter
        end
      else server_kex c r
  end.

(* the server's flight once parameters, key schedule and key exchange are settled (second half of
   _server_handle_hello) *)
Definition server_flight (c : cfg) (s5 : tst) (sid : bytes) (suite comp sigalg version : Z) (kex_mode : option Z)
                         (psk : bool) (g : Z) (pubk shared : bytes) : result :=
  let shm := o_build_sh O (mkSH (f_random c) sid suite comp (Some (g, pubk)) (if psk then Some 0 else None) (Some version)) in
  let k1 := ks_extract (ks_update (the_ks s5) shm) (Some shared) in
  let s6 := add_key (set_ks s5 k1) DIR_ENCRYPT EP_HANDSHAKE (k_suite k1) (ks_derive k1 L_s_hs_traffic) in
  let s7 := add_key s6 DIR_DECRYPT EP_HANDSHAKE (k_suite k1) (ks_derive k1 L_c_hs_traffic) in
  let eem := o_build_ee O (mkEE (t_alpn s7) (t_early s7) (t_ext s7)) in
  let k2 := ks_update k1 eem in
  let '(k3, authmsgs) :=
    if psk then (k2, []) else
    let '(ka, crl) := if f_reqcert c
                      then let crm := o_build_cr O (mkCR [] (Some (f_sigalgs c))) in (ks_update k2 crm, [crm])
                      else (k2, []) in
    let ctm := o_build_ct O (mkCT [] (map (fun d => (d, [])) (f_chain c))) in
    let kb := ks_update ka ctm in
    let cvm := o_build_cv O (mkCV sigalg (o_sign O (f_key c) sigalg (ks_cv_data kb SERVER_CONTEXT_STRING))) in
    (ks_update kb cvm, crl ++ [ctm; cvm]) in
  let finm := o_build_fin O (ks_finished k3 (t_enc s7)) in
  let k4 := ks_update k3 finm in
  let s8 := set_ks s7 k4 in
  if negb (k_gen k4 =? 2) then (OExn EX_ASSERT, s8, []) else
  let k5 := ks_extract k4 None in
  let s9 := add_key (set_ks s8 k5) DIR_ENCRYPT EP_ONE_RTT (k_suite k5) (ks_derive k5 L_s_ap_traffic) in
  let s10 := mkT (t_state s9) (t_ks s9) (t_kpsk s9) (t_kproxy s9) (t_resumed s9) (t_alpn s9) (t_early s9) (t_creq s9)
                 (t_peer s9) (t_enc s9) (t_dec s9) (ks_derive k5 L_c_ap_traffic) (t_expected s9) (t_recv_ext s9) (t_ext s9)
                 kex_mode (t_keys s9) in
  let outm := (EP_INITIAL, shm) :: map (fun x => (EP_HANDSHAKE, x)) ([eem] ++ authmsgs ++ [finm]) in
  if f_reqcert c then (OOk, set_state s10 SERVER_EXPECT_CERTIFICATE, outm)
  else (OOk, server_expect_finished s10, outm).

(* the PSK part of _server_handle_hello: Some state = PSK accepted (schedule keyed by the ticket's secret, binder
   verified over the truncated hello, the rest of the hello hashed), None = full handshake *)
Definition server_select_psk (c : cfg) (s2 : tst) (v : ch_view) (m : bytes) (suite : Z) (kex_mode : option Z)
  : pres (option tst) :=
    match ch_psk v with
    | Some ([ident], [_]) =>
        if f_ticket_cb c && (match kex_mode with Some _ => true | None => false end) then
          match f_lookup c (fst ident) with
          | Some t =>
              if tk_valid t && (tk_suite t =? suite) then
                let k0 := ks_extract (ks_new suite) (Some (tk_secret t)) in
                let binder_key := ks_derive k0 L_res_binder in
                let bl := dsize (k_alg k0) in
                let off := Zlen m - bl - 3 in
                if off <? 0 then PAlert AD_decode_error else
                let binder := slice m (off + 3) bl in
                let k1 := ks_update k0 (ztake off m) in
                if negb (beqb binder (ks_finished k1 binder_key)) then PAlert AD_handshake_failure else
                let k2 := ks_update k1 (slice m off (3 + bl)) in
                let s3 := mkT (t_state s2) (Some k2) (t_kpsk s2) (t_kproxy s2) true (t_alpn s2) (t_early s2) (t_creq s2)
                              (t_peer s2) (t_enc s2) (t_dec s2) (t_next_dec s2) (t_expected s2) (t_recv_ext s2) (t_ext s2)
                              (t_kex_mode s2) (t_keys s2) in
                if ch_early v then
                  let s4 := mkT (t_state s3) (t_ks s3) (t_kpsk s3) (t_kproxy s3) (t_resumed s3) (t_alpn s3) true (t_creq s3)
                                (t_peer s3) (t_enc s3) (t_dec s3) (t_next_dec s3) (t_expected s3) (t_recv_ext s3) (t_ext s3)
                                (t_kex_mode s3) (t_keys s3) in
                  POk (Some (log_key s4 DIR_DECRYPT EP_ZERO_RTT (k_suite k2) (ks_derive k2 L_c_e_traffic)))
                else POk (Some s3)
              else POk None
          | None => POk None
          end
        else POk None
    | _ => POk None
    end.

Definition server_handle_hello (c : cfg) (s : tst) (m : bytes) : result :=
  with_parse s (o_parse_ch O m) (fun v =>
  match negotiate memz (f_suites c) (ch_suites v) with None => (OAlert AD_handshake_failure, s, []) | Some suite =>
  match negotiate memz (f_comp c) (ch_comp v) with None => (OAlert AD_handshake_failure, s, []) | Some comp =>
  let kex_mode := negotiate_opt memz (f_kex_modes c) (ch_kex_modes v) in
  match negotiate_opt memz (f_key_sigalgs c) (ch_sigalgs v) with None => (OAlert AD_handshake_failure, s, []) | Some sigalg =>
  match negotiate_opt memz (f_versions c) (ch_versions v) with None => (OAlert AD_protocol_version, s, []) | Some version =>
  let alpn_r : pres (option bytes) :=
    match f_alpn c with
    | Some l => match negotiate_opt memb l (ch_alpn v) with Some a => POk (Some a) | None => PAlert AD_handshake_failure end
    | None => POk (t_alpn s)
    end in
  with_parse s alpn_r (fun alpn =>
  let s1 := mkT (t_state s) (t_ks s) (t_kpsk s) (t_kproxy s) (t_resumed s) alpn (t_early s) (t_creq s) (t_peer s) (t_enc s)
                (t_dec s) (t_next_dec s) (t_expected s) (ch_other v) (t_ext s) (t_kex_mode s) (t_keys s) in
  let '(code, newext) := f_alpn_cb c alpn (ch_other v) in
  if negb (code =? 0) then (OQuic code, s1, []) else
  let s2 := mkT (t_state s1) (t_ks s1) (t_kpsk s1) (t_kproxy s1) (t_resumed s1) (t_alpn s1) (t_early s1) (t_creq s1)
                (t_peer s1) (t_enc s1) (t_dec s1) (t_next_dec s1) (t_expected s1) (t_recv_ext s1)
                (match newext with Some e => e | None => t_ext s1 end) (t_kex_mode s1) (t_keys s1) in
  (* select key schedule: PSK ? *)
  let psk_r := server_select_psk c s2 v m suite kex_mode in
  with_parse s2 psk_r (fun pskst =>
  let psk := match pskst with Some _ => true | None => false end in
  let s5 := match pskst with
            | Some x => x
            | None => set_ks s2 (ks_update (ks_extract (ks_new suite) None) m)
            end in
  with_parse s5 (server_kex c (match ch_key_share v with Some l => l | None => [] end)) (fun kx =>
  match kx with
  | None => (OAlert AD_handshake_failure, s5, [])
  | Some (g, pubk, shared) => server_flight c s5 (ch_sid v) suite comp sigalg version kex_mode psk g pubk shared
  end)))
  end end end end).

Definition server_handle_certificate (c : cfg) (s : tst) (m : bytes) : result :=
  with_parse s (o_parse_ct O m) (fun v =>
  let s1 := set_ks s (ks_update (the_ks s) m) in
  match ct_certs v with
  | [] => (OOk, server_expect_finished s1, [])
  | certs => with_parse s1 (set_peer s1 certs) (fun s2 => (OOk, set_state s2 SERVER_EXPECT_CERTIFICATE_VERIFY, []))
  end).

Definition server_handle_certificate_verify (c : cfg) (s : tst) (m : bytes) : result :=
  with_parse s (o_parse_cv O m) (fun v =>
  match check_cv c s v CLIENT_CONTEXT_STRING with
  | Some o => (o, s, [])
  | None => (OOk, server_expect_finished (set_ks s (ks_update (the_ks s) m)), [])
  end).

Definition server_handle_finished (c : cfg) (s : tst) (m : bytes) : result :=
  with_parse s (o_parse_fin O m) (fun vd =>
  if negb (beqb vd (t_expected s)) then (OAlert AD_decrypt_error, s, []) else
  let s1 := mkT (t_state s) (t_ks s) (t_kpsk s) (t_kproxy s) (t_resumed s) (t_alpn s) (t_early s) (t_creq s) (t_peer s)
                (t_enc s) (t_next_dec s) [] (t_expected s) (t_recv_ext s) (t_ext s) (t_kex_mode s)
                (t_keys s ++ [(DIR_DECRYPT, EP_ONE_RTT, k_suite (the_ks s), t_next_dec s)]) in
  (OOk, set_state s1 SERVER_POST_HANDSHAKE, [])).

(* ---------- dispatch (generated table of C11) -------------------------------------------------------------- *)
Definition run_handler (h : handler) (c : cfg) (s : tst) (m : bytes) : result :=
  match h with
  | H_client_handle_hello => client_handle_hello c s m
  | H_client_handle_encrypted_extensions => client_handle_encrypted_extensions c s m
  | H_client_handle_certificate_request => client_handle_certificate_request c s m
  | H_client_handle_certificate => client_handle_certificate c s m
  | H_client_handle_certificate_verify => client_handle_certificate_verify c s m
  | H_client_handle_finished => client_handle_finished c s m
  | H_client_handle_new_session_ticket => client_handle_new_session_ticket c s m
  | H_server_handle_hello => server_handle_hello c s m
  | H_server_handle_certificate => server_handle_certificate c s m
  | H_server_handle_certificate_verify => server_handle_certificate_verify c s m
  | H_server_handle_finished => server_handle_finished c s m
  | H_client_send_hello => client_send_hello c s
  end.

(* Context.handle_message given exactly one complete (framed) message; anything else stays in the receive
   buffer (modelled as: no effect) *)
Definition step (c : cfg) (s : tst) (m : bytes) : result :=
  match t_state s with
  | CLIENT_HANDSHAKE_START => client_send_hello c s
  | x =>
      if negb (framedb m) then (OOk, s, []) else
      match dispatch x (msg_type m) with
      | DHandler h => run_handler h c s m
      | DUnexpected => (OAlert AD_unexpected_message, s, [])
      | DFallthrough => (OExn EX_ASSERT, s, [])
      end
  end.

Fixpoint run (c : cfg) (s : tst) (ms : list bytes) : tst :=
  match ms with
  | [] => s
  | m :: r => let '(_, s', _) := step c s m in run c s' r
  end.

Definition client_started (c : cfg) : tst := snd (fst (client_send_hello c (init_client c))).

End WithOracles.

(* ---------- QUIC: version negotiation and transport-parameter authentication -------------------------------
   connection.py: is_version_compatible, _receive_version_negotiation_packet, the checks of
   _parse_transport_parameters that authenticate connection IDs and the version, the server's choice in
   _alpn_handler, the client's adoption of the version of the packet that carried the ServerHello
   (_update_traffic_key). *)
Definition V1 : Z := 1.
Definition V2 : Z := 0x6b3343cf.
Definition is_version_compatible (a b : Z) : bool :=
  ((a =? V1) && (b =? V2)) || ((a =? V2) && (b =? V1)).

(* client: Version Negotiation packet while in FIRSTFLIGHT.  None = ignored; Some None = no common version
   (connection terminated); Some (Some v) = reconnect with v *)
Definition client_receive_vn (supported : list Z) (current : Z) (vn : list Z) : option (option Z) :=
  if memz current vn then None
  else match filter (fun x => memz x vn) supported with
       | [] => Some None
       | v :: _ => Some (Some v)
       end.

Record tparams := mkTP {
  tp_odcid : option bytes;      (* original_destination_connection_id *)
  tp_iscid : option bytes;      (* initial_source_connection_id *)
  tp_rscid : option bytes;      (* retry_source_connection_id *)
  tp_vi : option (Z * list Z)   (* version_information: chosen, available *)
}.

Definition obeqb (a b : option bytes) : bool :=
  match a, b with Some x, Some y => beqb x y | None, None => true | _, _ => false end.

Definition QE_TRANSPORT_PARAMETER_ERROR : Z := 8.
Definition QE_VERSION_NEGOTIATION_ERROR : Z := 17.

(* the identity / version checks of _parse_transport_parameters; 0 = accepted *)
Definition tp_check (is_client : bool) (remote_iscid odcid rscid : option bytes) (crypto_packet_version : Z) (tp : tparams) : Z :=
  if negb is_client && (match tp_odcid tp, tp_rscid tp with None, None => false | _, _ => true end)
  then QE_TRANSPORT_PARAMETER_ERROR else
  if negb (obeqb (tp_iscid tp) remote_iscid) then QE_TRANSPORT_PARAMETER_ERROR else
  if is_client && negb (obeqb (tp_odcid tp) odcid) then QE_TRANSPORT_PARAMETER_ERROR else
  if is_client && negb (obeqb (tp_rscid tp) rscid) then QE_TRANSPORT_PARAMETER_ERROR else
  match tp_vi tp with
  | None => 0
  | Some (chosen, avail) =>
      if negb is_client && negb (memz chosen avail) then QE_TRANSPORT_PARAMETER_ERROR
      else if negb (chosen =? crypto_packet_version) then QE_VERSION_NEGOTIATION_ERROR
      else 0
  end.

(* server, _alpn_handler: first of the client's available versions that is the current one (stay) or is
   supported and compatible (change) *)
Fixpoint server_choose_version (supported : list Z) (current : Z) (avail : list Z) : Z :=
  match avail with
  | [] => current
  | v :: r => if v =? current then current
              else if memz v supported && is_version_compatible current v then v
              else server_choose_version supported current r
  end.
Definition server_negotiated_version (supported : list Z) (current : Z) (vi : option (Z * list Z)) : Z :=
  match vi with Some (_, avail) => server_choose_version supported current avail | None => current end.

(* ---------- executable interface ---------------------------------------------------------------------------
   The negotiation decisions of the model, run side by side with the implementation (harness/props/c03.py):
     5 <server cfg> <client hello view>   the model's server_handle_hello on a ClientHello with these option lists, with
                                          oracles that always succeed: outcome kind, value, negotiated suite, ALPN
     1 current n supported.. hasvi n avail..      server_negotiated_version
     2 current n supported.. n vn..               client_receive_vn: 0 ignored | 1 no common version | 2 v
     3 is_client <opt bytes>x3 cpv <tp>           tp_check
   lists: n x1..xn; optional things: 0 | 1 <thing>; byte strings: n b1..bn *)
Definition tk_bytes := tk_list.
Fixpoint tk_blist_n (n : nat) (t : list Z) : list bytes * list Z :=
  match n with
  | O => ([], t)
  | S n' => let '(b, t1) := tk_bytes t in let '(r, t2) := tk_blist_n n' t1 in (b :: r, t2)
  end.
Definition tk_blist (t : list Z) : list bytes * list Z :=
  match t with n :: t' => tk_blist_n (Z.to_nat n) t' | [] => ([], []) end.
Definition tk_optl {A} (rd : list Z -> A * list Z) (t : list Z) : option A * list Z :=
  match t with
  | 0 :: t' => (None, t')
  | _ :: t' => let '(v, t'') := rd t' in (Some v, t'')
  | [] => (None, [])
  end.

Definition exec_oracles_ip (v : ch_view) (ip : bool) : oracles :=
  mkO (fun a _ => [a]) (fun a _ _ => [a]) (fun a _ _ => [a]) (fun a _ _ _ => [a])
      (fun _ p => p) (fun _ _ => 1) (fun _ _ _ => Some [])
      (fun _ _ _ => []) (fun _ _ _ _ => true) (fun _ => true) (fun _ => 2) (fun _ _ => 0) (fun _ => ip)
      (fun _ => POk v) (fun _ => PAlert 50) (fun _ => PAlert 50) (fun _ => PAlert 50) (fun _ => PAlert 50)
      (fun _ => PAlert 50) (fun _ => PAlert 50) (fun _ => PAlert 50)
      (fun _ => []) (fun _ => []) (fun _ => []) (fun _ => []) (fun _ => []) (fun _ => []) (fun _ => []).
Definition exec_oracles (v : ch_view) : oracles := exec_oracles_ip v false.

Definition out_outcome (o : outcome) : list Z :=
  match o with OOk => [0; 0] | OAlert d => [1; d] | OExn k => [2; k] | OQuic c => [3; c] end.

Definition exec_server_hello (t : list Z) : list Z :=
  let '(s_suites, t) := tk_list t in
  let '(s_keysig, t) := tk_list t in
  let '(s_versions, t) := tk_list t in
  let '(s_alpn, t) := tk_optl tk_blist t in
  let '(c_suites, t) := tk_list t in
  let '(c_sigalgs, t) := tk_optl tk_list t in
  let '(c_versions, t) := tk_optl tk_list t in
  let '(c_alpn, t) := tk_optl tk_blist t in
  let '(c_groups, t) := tk_list t in
  let v := mkCH [] [] c_suites [0] c_alpn false (Some (map (fun g => (g, [1])) c_groups)) None None None c_sigalgs
                (Some c_groups) c_versions [] in
  let c := mkCfg s_suites [0] s_versions [] [1] s_alpn [] [[1]] [1] s_keysig [] [] None false None false [] false false
                 (fun _ => None) (fun _ => [1]) (fun _ _ => (0, None)) in
  let '(o, s', _) := server_handle_hello (exec_oracles v) c (init_server c) [1; 0; 0; 0] in
  out_outcome o ++ [match t_ks s' with Some k => k_suite k | None => 0 end] ++
  match t_alpn s' with Some a => 1 :: out_list a | None => [0] end.

Definition tk_optb (t : list Z) : option bytes * list Z := tk_optl tk_bytes t.

Definition exec_c03 (t : list Z) : list Z :=
  match t with
  | 5 :: t' => exec_server_hello t'
  | 1 :: current :: t' =>
      let '(supported, t1) := tk_list t' in
      let '(vi, _) := tk_optl tk_list t1 in
      [server_negotiated_version supported current (match vi with Some a => Some (0, a) | None => None end)]
  | 2 :: current :: t' =>
      let '(supported, t1) := tk_list t' in
      let '(vn, _) := tk_list t1 in
      match client_receive_vn supported current vn with
      | None => [0] | Some None => [1] | Some (Some v) => [2; v]
      end
  | 3 :: is_client :: t' =>
      let '(iscid, t1) := tk_optb t' in
      let '(odcid, t2) := tk_optb t1 in
      let '(rscid, t3) := tk_optb t2 in
      match t3 with
      | cpv :: t4 =>
          let '(p_odcid, t5) := tk_optb t4 in
          let '(p_iscid, t6) := tk_optb t5 in
          let '(p_rscid, t7) := tk_optb t6 in
          let vi := match t7 with
                    | 1 :: chosen :: t8 => Some (chosen, fst (tk_list t8))
                    | _ => None
                    end in
          [tp_check (z2b is_client) iscid odcid rscid cpv (mkTP p_odcid p_iscid p_rscid vi)]
      | [] => []
      end
  | _ => []
  end.
(* EXTRACT: exec_c03 *)
