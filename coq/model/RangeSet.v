(* Model of src/aioquic/quic/rangeset.py (RangeSet): a list of (start, stop) pairs. *)
From AQ Require Import lib.Base lib.Tok.

Definition rs := list (Z * Z).

(* inner while loop of RangeSet.add: swallow following ranges that start at or before [stop] *)
Fixpoint absorb (stop : Z) (l : rs) : Z * rs :=
  match l with
  | (s, e) :: t => if s <=? stop then absorb (Z.max e stop) t else (stop, l)
  | [] => (stop, [])
  end.

Fixpoint add (start stop : Z) (l : rs) : rs :=
  match l with
  | [] => [(start, stop)]
  | (s, e) :: t =>
      if stop <? s then (start, stop) :: l
      else if start >? e then (s, e) :: add start stop t
      else let '(stop', t') := absorb (Z.max stop e) t in (Z.min start s, stop') :: t'
  end.

Fixpoint subtract (start stop : Z) (l : rs) : rs :=
  match l with
  | [] => []
  | (s, e) :: t =>
      if stop <=? s then l
      else if start >=? e then (s, e) :: subtract start stop t
      else if (start <=? s) && (stop >=? e) then subtract start stop t
      else if start >? s then
        if stop <? e then (s, start) :: (stop, e) :: t     (* inserted piece is examined next and stops the loop *)
        else (s, start) :: subtract start stop t
      else (stop, e) :: subtract start stop t
  end.

Definition shift (l : rs) : option ((Z * Z) * rs) :=
  match l with r :: t => Some (r, t) | [] => None end.

Definition bounds (l : rs) : option (Z * Z) :=
  match l with
  | [] => None
  | (s, _) :: _ => Some (s, snd (last l (0, 0)))
  end.

Definition contains (x : Z) (l : rs) : bool :=
  existsb (fun r => (fst r <=? x) && (x <? snd r)) l.

(* ---------- executable interface -------------------------------------------------- *)
(* ops: 0 start stop = add ; 1 start stop = subtract ; 2 = shift ; 3 x = contains ; 4 = bounds
   output per op: status (0 ok, 1 AssertionError, 2 IndexError), op result, then the whole set *)
Fixpoint flat (l : rs) : list Z :=
  match l with [] => [] | (s, e) :: t => s :: e :: flat t end.
Definition dump (l : rs) : list Z := Zlen l :: flat l.

Fixpoint exec_rs (fuel : nat) (st : rs) (ops : list Z) : list Z :=
  match fuel with O => [] | S fuel =>
  match ops with
  | 0 :: a :: b :: t =>
      if b >? a then let st' := add a b st in 0 :: dump st' ++ exec_rs fuel st' t
      else 1 :: dump st ++ exec_rs fuel st t
  | 1 :: a :: b :: t =>
      if b >? a then let st' := subtract a b st in 0 :: dump st' ++ exec_rs fuel st' t
      else 1 :: dump st ++ exec_rs fuel st t
  | 2 :: t =>
      match shift st with
      | Some ((s, e), st') => 0 :: s :: e :: dump st' ++ exec_rs fuel st' t
      | None => 2 :: dump st ++ exec_rs fuel st t
      end
  | 3 :: x :: t => 0 :: b2z (contains x st) :: dump st ++ exec_rs fuel st t
  | 4 :: t =>
      match bounds st with
      | Some (s, e) => 0 :: s :: e :: dump st ++ exec_rs fuel st t
      | None => 2 :: dump st ++ exec_rs fuel st t
      end
  | _ => []
  end end.

(* EXTRACT: exec_rangeset *)
Definition exec_rangeset (ops : list Z) : list Z := exec_rs (length ops) [] ops.
