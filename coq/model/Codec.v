(* Model of src/aioquic/_buffer.c (Buffer): fixed-width big-endian integers and byte strings.

   A Buffer being READ is the remaining suffix of the data: every pull_* has type
   [list Z -> Res (A * list Z)]; "never reads past the end" is structural.
   A Buffer being WRITTEN is (capacity, data so far); an encoder is a list of [chunk]s, one per
   push_* call, each either the bytes that call appends or the exception it raises *before* the
   bounds check (only push_uint_var has one: ValueError).  [w_chunks] replays the calls in order
   against the capacity (CHECK_WRITE_BOUNDS per call), [flatten] is the capacity-free reading.

   The PyArg formats "B" "H" "I" "K" do NOT range-check: the Python int is reduced modulo 2^8 /
   2^16 / 2^32 / 2^64 (two's complement for negative ints).  [be_enc] models exactly that:
   it emits the n low-order bytes of v, for every v : Z. *)
From AQ Require Import lib.Base.

(* ---- exception classes (Err kinds) ------------------------------------------------- *)
Definition E_READ : Z := 1.          (* aioquic.buffer.BufferReadError (a ValueError subclass) *)
Definition E_VALUE : Z := 2.         (* ValueError raised by packet.py / push_uint_var *)
Definition E_WRITE : Z := 3.         (* aioquic.buffer.BufferWriteError *)
Definition E_ALERT_DECODE : Z := 5.  (* tls.AlertDecodeError *)
Definition E_ALERT_ILLEGAL : Z := 6. (* tls.AlertIllegalParameter *)
(* exceptions that are NOT documented parse errors *)
Definition E_INDEX : Z := 100.       (* IndexError *)
Definition E_ASSERT : Z := 101.      (* AssertionError *)
Definition E_UNICODE : Z := 102.     (* UnicodeDecodeError *)

(* ---- bytes --------------------------------------------------------------------------- *)
Definition byte_okb (b : Z) : bool := (0 <=? b) && (b <? 256).
Definition bytes_okb (bs : list Z) : bool := forallb byte_okb bs.

(* the n low-order bytes of v, most significant first  ( *(pos++) = value >> 8k ) *)
Fixpoint be_enc (n : nat) (v : Z) : list Z :=
  match n with
  | O => []
  | S n' => (v / 256 ^ Z.of_nat n') mod 256 :: be_enc n' v
  end.

(* value = b0 << 8(n-1) | ... | b(n-1)  (disjoint bit ranges: | is +) *)
Fixpoint be_dec (acc : Z) (bs : list Z) : Z :=
  match bs with
  | [] => acc
  | b :: t => be_dec (acc * 256 + b) t
  end.

(* ---- reading ------------------------------------------------------------------------- *)
(* Buffer.pull_bytes(len): CHECK_READ_BOUNDS rejects len < 0 and len > remaining *)
Definition pull_bytes (n : Z) (bs : list Z) : Res (list Z * list Z) :=
  if (n <? 0) || (Zlen bs <? n) then Err E_READ
  else Ok (ztake n bs, zdrop n bs).

Definition pull_be (n : nat) (bs : list Z) : Res (Z * list Z) :=
  if Zlen bs <? Z.of_nat n then Err E_READ
  else Ok (be_dec 0 (firstn n bs), skipn n bs).

Definition pull_uint8 := pull_be 1.
Definition pull_uint16 := pull_be 2.
Definition pull_uint32 := pull_be 4.
Definition pull_uint64 := pull_be 8.

(* ---- writing ------------------------------------------------------------------------- *)
Definition chunk := Res (list Z).

Definition push_bytes (bs : list Z) : chunk := Ok bs.
Definition push_uint8 (v : Z) : chunk := Ok (be_enc 1 v).
Definition push_uint16 (v : Z) : chunk := Ok (be_enc 2 v).
Definition push_uint32 (v : Z) : chunk := Ok (be_enc 4 v).
Definition push_uint64 (v : Z) : chunk := Ok (be_enc 8 v).

(* capacity-free reading of an encoder: the bytes, or the first exception *)
Fixpoint flatten (cs : list chunk) : Res (list Z) :=
  match cs with
  | [] => Ok []
  | Ok bs :: t => r <- flatten t ;; Ok (bs ++ r)
  | Err k :: _ => Err k
  end.

(* the calls replayed against a Buffer of capacity [cap] that already holds [data] *)
Fixpoint w_chunks (cap : Z) (data : list Z) (cs : list chunk) : Res (list Z) :=
  match cs with
  | [] => Ok data
  | Ok bs :: t =>
      if Zlen data + Zlen bs >? cap then Err E_WRITE
      else w_chunks cap (data ++ bs) t
  | Err k :: _ => Err k
  end.

(* ---- executable interface helpers ------------------------------------------------------ *)
Definition out_res {A} (f : A -> list Z) (r : Res A) : list Z :=
  match r with Ok a => 0 :: f a | Err k => [k] end.
Definition out_bytes (bs : list Z) : list Z := Zlen bs :: bs.
