(* Model of the packet-header codecs: pull_quic_header, encode_long_header_first_byte,
   encode_quic_retry, encode_quic_version_negotiation (src/aioquic/quic/packet.py) and the header
   writer of QuicPacketBuilder._end_packet (src/aioquic/quic/packet_builder.py).

   Python `|` `&` `<<` `>>` on ints are Z.lor / Z.land / Z.shiftl / Z.shiftr.
   The buffer passed to pull_quic_header may stand in the middle of a datagram (coalesced
   packets): [bs] is the part from the packet start to the end of the datagram, so
   buf.capacity - packet_start = Zlen bs, and every quantity the function computes is relative to
   the packet start. *)
From AQ Require Import lib.Base lib.Tok model.Codec model.Varint.

Definition E_KEY : Z := 103.       (* KeyError: packet type not in PACKET_LONG_TYPE_ENCODE_* *)

(* QuicPacketType values *)
Definition PT_INITIAL : Z := 0.
Definition PT_ZERO_RTT : Z := 1.
Definition PT_HANDSHAKE : Z := 2.
Definition PT_RETRY : Z := 3.
Definition PT_VERSION_NEGOTIATION : Z := 4.
Definition PT_ONE_RTT : Z := 5.

Definition VERSION_2 : Z := 0x6B3343CF.
Definition CONNECTION_ID_MAX_SIZE : Z := 20.
Definition RETRY_INTEGRITY_TAG_SIZE : Z := 16.

Record header := mkHeader {
  h_version : option Z;
  h_type : Z;
  h_length : Z;              (* packet_length *)
  h_dcid : list Z;
  h_scid : list Z;
  h_token : list Z;
  h_tag : list Z;            (* integrity_tag *)
  h_versions : list Z        (* supported_versions *)
}.

(* PACKET_LONG_TYPE_DECODE_VERSION_1 / _2 : total on the four 2-bit codes *)
Definition decode_long_type (version bits : Z) : Z :=
  if version =? VERSION_2 then
    (if bits =? 1 then PT_INITIAL else if bits =? 2 then PT_ZERO_RTT
     else if bits =? 3 then PT_HANDSHAKE else PT_RETRY)
  else
    (if bits =? 0 then PT_INITIAL else if bits =? 1 then PT_ZERO_RTT
     else if bits =? 2 then PT_HANDSHAKE else PT_RETRY).

(* PACKET_LONG_TYPE_ENCODE_VERSION_1 / _2 : KeyError outside the four long types *)
Definition encode_long_type (version ptype : Z) : Res Z :=
  if (ptype <? 0) || (ptype >? 3) then Err E_KEY
  else if version =? VERSION_2 then Ok (if ptype =? PT_RETRY then 0 else ptype + 1)
  else Ok ptype.

Definition encode_long_header_first_byte (version ptype bits : Z) : Res Z :=
  t <- encode_long_type version ptype ;;
  Ok (Z.lor (Z.lor (Z.lor 128 64) (Z.shiftl t 4)) bits).

Definition is_long_header (first : Z) : bool := negb (Z.land first 128 =? 0).
Definition has_fixed_bit (first : Z) : bool := negb (Z.land first 64 =? 0).

(* `while not buf.eof(): supported_versions.append(buf.pull_uint32())` *)
Fixpoint pull_versions (bs : list Z) : Res (list Z) :=
  match bs with
  | [] => Ok []
  | b0 :: b1 :: b2 :: b3 :: t => vs <- pull_versions t ;; Ok (be_dec 0 [b0; b1; b2; b3] :: vs)
  | _ => Err E_READ
  end.

(* "Check remainder length": packet_end = buf.tell() + rest_length > buf.capacity *)
Definition finish_long (total version ptype : Z) (dcid scid token tag : list Z) (rest_length : Z)
                       (rest : list Z) : Res (header * list Z) :=
  if rest_length >? Zlen rest then Err E_VALUE
  else Ok (mkHeader (Some version) ptype (total - Zlen rest + rest_length) dcid scid token tag [], rest).

Definition pull_quic_header (host_cid_length : Z) (bs : list Z) : Res (header * list Z) :=
  let total := Zlen bs in
  '(first, b1) <- pull_uint8 bs ;;
  if is_long_header first then
    '(version, b2) <- pull_uint32 b1 ;;
    '(dl, b3) <- pull_uint8 b2 ;;
    if dl >? CONNECTION_ID_MAX_SIZE then Err E_VALUE else
    '(dcid, b4) <- pull_bytes dl b3 ;;
    '(sl, b5) <- pull_uint8 b4 ;;
    if sl >? CONNECTION_ID_MAX_SIZE then Err E_VALUE else
    '(scid, b6) <- pull_bytes sl b5 ;;
    if version =? 0 then
      vs <- pull_versions b6 ;;
      Ok (mkHeader (Some version) PT_VERSION_NEGOTIATION total dcid scid [] [] vs, [])
    else if negb (has_fixed_bit first) then Err E_VALUE
    else
      let ptype := decode_long_type version (Z.shiftr (Z.land first 48) 4) in
      if ptype =? PT_INITIAL then
        '(tl, b7) <- pull_uint_var b6 ;;
        '(token, b8) <- pull_bytes tl b7 ;;
        '(rl, b9) <- pull_uint_var b8 ;;
        finish_long total version ptype dcid scid token [] rl b9
      else if (ptype =? PT_ZERO_RTT) || (ptype =? PT_HANDSHAKE) then
        '(rl, b7) <- pull_uint_var b6 ;;
        finish_long total version ptype dcid scid [] [] rl b7
      else
        '(token, b7) <- pull_bytes (Zlen b6 - RETRY_INTEGRITY_TAG_SIZE) b6 ;;
        '(tag, b8) <- pull_bytes RETRY_INTEGRITY_TAG_SIZE b7 ;;
        finish_long total version ptype dcid scid token tag 0 b8
  else if negb (has_fixed_bit first) then Err E_VALUE
  else
    '(dcid, b2) <- pull_bytes host_cid_length b1 ;;
    Ok (mkHeader None PT_ONE_RTT total dcid [] [] [] [], b2).

(* ---- encoders ---------------------------------------------------------------------------- *)
Definition lift_first (r : Res Z) : chunk :=
  match r with Ok v => push_uint8 v | Err k => Err k end.

(* QuicPacketBuilder._end_packet, long header (PACKET_NUMBER_SEND_SIZE = 2):
   first byte, version, DCID, SCID, [token], 2-byte varint length, 2-byte packet number *)
Definition builder_long_header (version ptype : Z) (peer_cid host_cid peer_token : list Z)
                               (length pn : Z) : list chunk :=
  [ lift_first (encode_long_header_first_byte version ptype 1);
    push_uint32 version;
    push_uint8 (Zlen peer_cid); push_bytes peer_cid;
    push_uint8 (Zlen host_cid); push_bytes host_cid ] ++
  (if ptype =? PT_INITIAL then [ push_uint_var (Zlen peer_token); push_bytes peer_token ] else []) ++
  [ push_uint16 (Z.lor length 16384); push_uint16 (Z.land pn 65535) ].

(* short header: PACKET_FIXED_BIT | spin << 5 | key_phase << 2 | 1, DCID, 2-byte packet number *)
Definition builder_short_header (spin key_phase : Z) (peer_cid : list Z) (pn : Z) : list chunk :=
  [ push_uint8 (Z.lor (Z.lor (Z.lor 64 (Z.shiftl spin 5)) (Z.shiftl key_phase 2)) 1);
    push_bytes peer_cid; push_uint16 (Z.land pn 65535) ].

(* encode_quic_retry; [tag] = get_retry_integrity_tag(...) (AES-128-GCM, supplied by the harness).
   The Buffer capacity is exactly the sum of the pieces, so no bounds check can fail. *)
Definition encode_quic_retry (version : Z) (scid dcid token : list Z) (unused : Z) (tag : list Z)
  : list chunk :=
  [ lift_first (encode_long_header_first_byte version PT_RETRY unused);
    push_uint32 version;
    push_uint8 (Zlen dcid); push_bytes dcid;
    push_uint8 (Zlen scid); push_bytes scid;
    push_bytes token; push_bytes tag ].

(* encode_quic_version_negotiation; [r] = os.urandom(1)[0] *)
Definition encode_quic_version_negotiation (r : Z) (scid dcid versions : list Z) : list chunk :=
  [ push_uint8 (Z.lor r 128); push_uint32 0;
    push_uint8 (Zlen dcid); push_bytes dcid;
    push_uint8 (Zlen scid); push_bytes scid ] ++ map push_uint32 versions.

(* ---------- executable interface -------------------------------------------------------
     0 hcl n b..                                   pull_quic_header(buf, hcl)
     1 version ptype pn length [pcid] [hcid] [tok] builder long header
     2 spin kp pn [pcid]                           builder short header
     3 version unused [scid] [dcid] [token] [tag]  encode_quic_retry
     4 r [scid] [dcid] [versions]                  encode_quic_version_negotiation
   ([x] = length-prefixed token list) *)
Definition out_header (total : Z) (p : header * list Z) : list Z :=
  let '(h, rest) := p in
  out_opt (h_version h) ++ [h_type h; h_length h] ++ out_bytes (h_dcid h) ++ out_bytes (h_scid h) ++
  out_bytes (h_token h) ++ out_bytes (h_tag h) ++ out_bytes (h_versions h) ++ [total - Zlen rest].

Definition exec_quic_header (toks : list Z) : list Z :=
  match toks with
  | 0 :: hcl :: t =>
      let '(bs, _) := tk_list t in out_res (out_header (Zlen bs)) (pull_quic_header hcl bs)
  | 1 :: version :: ptype :: pn :: length :: t =>
      let '(pcid, t) := tk_list t in
      let '(hcid, t) := tk_list t in
      let '(tok, _) := tk_list t in
      out_res out_bytes (flatten (builder_long_header version ptype pcid hcid tok length pn))
  | 2 :: spin :: kp :: pn :: t =>
      let '(pcid, _) := tk_list t in
      out_res out_bytes (flatten (builder_short_header spin kp pcid pn))
  | 3 :: version :: unused :: t =>
      let '(scid, t) := tk_list t in
      let '(dcid, t) := tk_list t in
      let '(tok, t) := tk_list t in
      let '(tag, _) := tk_list t in
      out_res out_bytes (flatten (encode_quic_retry version scid dcid tok unused tag))
  | 4 :: r :: t =>
      let '(scid, t) := tk_list t in
      let '(dcid, t) := tk_list t in
      let '(vs, _) := tk_list t in
      out_res out_bytes (flatten (encode_quic_version_negotiation r scid dcid vs))
  | _ => []
  end.
(* EXTRACT: exec_quic_header *)
