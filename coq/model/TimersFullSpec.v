(* Specification vocabulary for the composed timer model (model/TimersFull.v); no proofs here. *)
From AQ Require Import lib.Base lib.Tok model.Timers model.TimersSpec model.TimersFull.

(* how a run of the composed model may begin *)
Definition ffirst_op (client : bool) (o : fop) : Prop :=
  match o with
  | FConnect _ _ => client = true
  | FReceive _ _ _ => client = false
  | _ => False
  end.

(* a discarded space contributes nothing; ack_at is armed exactly while an ACK is owed *)
Definition sp_ok (s : tspace) : Prop :=
  (ts_disc s = true -> ts_ack_at s = None /\ ts_loss_time s = None /\ ts_aeif s = 0) /\
  (ts_ack_at s <> None -> ts_owed s > 0) /\
  (ts_disc s = false -> ts_owed s > 0 -> ts_ack_at s <> None) /\
  0 <= ts_owed s.

Definition sinv (f : full) : Prop :=
  Forall sp_ok (f_sp f) /\ (f_pacing f <> None -> c_has_path (f_c f) = true).

Definition oks (f : full) : Prop := Forall sp_ok (f_sp f).

Definition src_legit (ptod d : Z) (f : full) (v : Z) (s : src) : Prop :=
  match s with
  | SrcClose => v = d
  | SrcAck i => exists sp, nth_error (f_sp f) i = Some sp /\ ts_ack_at sp = Some v /\ ts_disc sp = false /\ ts_owed sp > 0
  | SrcLossTime i => exists sp, nth_error (f_sp f) i = Some sp /\ ts_loss_time sp = Some v /\ ts_disc sp = false /\
                                lspace (f_sp f) = Some (i, v)
  | SrcPto => v = ptod /\ lspace (f_sp f) = None /\
              (f_pcav f = false \/ exists sp, In sp (f_sp f) /\ ts_disc sp = false /\ ts_aeif sp > 0)
  | SrcPacing => f_pacing f = Some v
  end.

Definition lower_bound (ptod d : Z) (f : full) (v : Z) : Prop :=
  v <= d /\ (forall sp a, In sp (f_sp f) -> ts_ack_at sp = Some a -> v <= a) /\
  (forall l, loss_time_of f ptod = Some l -> v <= l) /\ (forall p, f_pacing f = Some p -> v <= p).

(* The adapter honours get_timer(): it returned v; the adapter calls handle_timer(now = v) and then transmits
   (datagrams_to_send(now = v)), as aioquic.asyncio's _handle_timer does. *)
Definition fire1 (reset : bool) (ptod v : Z) (te : teff) (f : full) : full :=
  snd (fstep reset (snd (fstep reset f (FGetTimer ptod))) (FTimer v te)).

Definition fire2 (reset : bool) (ptod v pto3 : Z) (te : teff) (w : sendw) (f : full) : full :=
  snd (fstep reset (fire1 reset ptod v te f) (FSend v pto3 w)).

(* QuicPacketBuilderStop does not escape from _write_handshake, and 1-RTT / 0-RTT send keys exist *)
Definition reaches_app (w : sendw) (f : full) : Prop :=
  (f_confirmed f = true \/
   (fst (whs 0 (sw_h0 w) f) = false /\ fst (whs 1 (sw_h1 w) (snd (whs 0 (sw_h0 w) f))) = false)) /\
  sw_appkeys w = true.

(* ... and the first iteration of _write_application applies pacing (no application ACK is due) *)
Definition app_consults (now : Z) (w : sendw) (f : full) : Prop :=
  reaches_app w f /\ sw_app w <> [] /\ match ts_ack_at (sp_at f 2) with None => True | Some a => now < a end.

(* next_send_time returns None or now + packet_time with packet_time > 0 *)
Definition pacer_sane (now : Z) (w : sendw) : Prop :=
  Forall (fun it => match ai_pacer it with Some p => now < p | None => True end) (sw_app w).

(* ---- the ack_at source: handle_timer does nothing for it; the ACK leaves with the next datagrams_to_send, provided
   the packet of that space can be started and has room for the frame ---- *)
(* ---- the ack_at source: handle_timer does nothing for it; the ACK leaves with the next datagrams_to_send, provided
   the packet of that space can be started and has room for the frame ---- *)
Definition hs_writes (h : hsw) : Prop := hw_keys h = true /\ hw_stop h <> 1 /\ hw_room h = true.

Definition ack_can_send (i : nat) (w : sendw) (f : full) : Prop :=
  ordinary_send (f_c f) = true /\
  match i with
  | O => f_confirmed f = false /\ hs_writes (sw_h0 w)
  | S O => f_confirmed f = false /\ fst (whs 0 (sw_h0 w) f) = false /\ hs_writes (sw_h1 w)
  | _ => reaches_app w f /\ f_complete f = true /\
         exists it rest, sw_app w = it :: rest /\ ai_stop it = false /\ ai_room it = true
  end.

(* the state in which the writers of datagrams_to_send run *)
Definition send_state (reset : bool) (f : full) : full := if reset then set_pacing None f else f.

(* what firing the timer at the returned time v does to the source s that armed it *)
Definition progress_of (reset : bool) (ptod pto3 : Z) (te : teff) (w : sendw) (f : full) (v : Z) (s : src) : Prop :=
  match s with
  | SrcClose => c_state (f_c (fire1 reset ptod v te f)) = TERMINATED
  | SrcLossTime i =>
      sp_at (fire1 reset ptod v te f) i = ts_detect (hd 0 (te_ae te)) (te_lt te) (sp_at f i) /\ ts_disc (sp_at f i) = false
  | SrcPto =>
      f_pto (fire1 reset ptod v te f) = f_pto f + 1 /\ f_probe (fire1 reset ptod v te f) = true /\
      f_probes (fire1 reset ptod v te f) = f_probes f + 1
  | SrcPacing =>
      pacer_sane v w -> (reset = true \/ app_consults v w (fire1 reset ptod v te f)) ->
      is_end (c_state (f_c (fire2 reset ptod v pto3 te w f))) = true \/
      match f_pacing (fire2 reset ptod v pto3 te w f) with None => True | Some p => v < p end
  | SrcAck i =>
      (i <= 2)%nat -> ack_can_send i w (send_state reset (fire1 reset ptod v te f)) ->
      ts_ack_at (sp_at (fire2 reset ptod v pto3 te w f) i) = None
  end.

(* ================= the stale _pacing_at: timer_progress fails for the pacing source (reset = false) ===========

   History of a server whose packets do not reach the client (lost, or the Initial came from a spoofed address); it is
   the history replayed on the real QuicConnection by docs/C09-repro-pacing.py (model time: 1 = 1 microsecond after
   T0 + 0.2 s is written 201; T0 = 0, the first PTO = 200):
     t=0     the client's Initial arrives (ack-eliciting): spaces created, ack_at[Initial] armed; the application queues
             0.5-RTT stream data
     t=0     datagrams_to_send: Initial (ACK + ServerHello), Handshake flight and 1-RTT data written; the pacer has no
             packet_time yet (next_send_time = None); the anti-amplification budget (3 x 1200) is used up
     t=200   get_timer() = the PTO deadline; handle_timer: PTO, count 1, CRYPTO rescheduled, probe -- and
             _on_packets_lost gives the pacer a packet_time (update_rate with smoothed_rtt = 0: 1 microsecond)
     t=200   datagrams_to_send: budget 0, start_packet(INITIAL) raises QuicPacketBuilderStop: nothing
     t=200   the client's PTO retransmission of its Initial arrives: budget 3600 again
     t=200   datagrams_to_send: flight again and one 1-RTT packet; second iteration of _write_application: bucket empty,
             _pacing_at = 201, break
     t=201   get_timer() = 201 = _pacing_at; handle_timer: nothing; datagrams_to_send: the last 38 bytes of budget go
             into a 1-RTT packet, then _pacing_at = 202, break
     t=202   get_timer() = 202 = _pacing_at (idle deadline 60200, PTO deadline 601); handle_timer(202): nothing;
             datagrams_to_send(202): start_packet(INITIAL) raises QuicPacketBuilderStop (header 28 >= capacity 0);
             _write_application is never reached; _pacing_at keeps 202
     get_timer() = 202 again, in the same state: the adapter spins until the client's next datagram or _close_at. *)
Definition hw_ok : hsw := mkHw true 0 true.

Definition hw_stopped : hsw := mkHw true 1 true.

Definition stale_te : teff := mkTe None [].

Definition stale_history : list fop :=
  [ FReceive 0 60000 [mkFp (PProc 0 None false 60000) 0 [] true 25 false];
    FSend 0 900 (mkSw true 0 hw_ok hw_ok true
                   [mkAi None false true false; mkAi None false true false; mkAi None false true true] [1; 1; 2] true false);
    FGetTimer 200;
    FTimer 200 (mkTe None [1; 1; 0]);
    FSend 200 900 (mkSw false 0 hw_stopped hw_ok true [] [] false false);
    FReceive 200 60000 [mkFp (PProc 0 None false 60000) 0 [] true 25 false];
    FSend 200 900 (mkSw true 0 hw_ok hw_ok true [mkAi None false true false; mkAi (Some 201) false true true] [1; 1; 1] true true);
    FGetTimer 601;
    FTimer 201 stale_te;
    FSend 201 900 (mkSw true 0 hw_ok hw_ok true [mkAi None false true false; mkAi (Some 202) false true true] [0; 0; 1] false false) ].

Definition stale_send : sendw := mkSw false 0 hw_stopped hw_ok true [mkAi (Some 203) false true true] [] false false.

Definition stale_loop (ptod v : Z) : list fop := [FTimer v stale_te; FSend v 900 stale_send; FGetTimer ptod].

Fixpoint spin (reset : bool) (n : nat) (round : list fop) (f : full) : full :=
  match n with O => f | S n => spin reset n round (snd (frun reset f round)) end.
