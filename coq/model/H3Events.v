(* C15: the receive path of H3Connection (coq/model/H3Parse.v, owned by C14) composed with the REAL header
   validators of coq/model/H3Validate.v.

   H3Parse takes header validation as an oracle field [o_val : kind -> hid -> accepted * expected_content_length]
   and names decoded header lists by an id [hid].  Here the QPACK decoder stays an oracle (it may answer any header
   list, "blocked" or "failed", for any bytes), [hdrs : Z -> list header] is the header list an id stands for, and
   [o_val] is the Gallina function [validate] of H3Validate.v applied to that list:
     validate_request_headers / validate_response_headers / validate_trailers / validate_push_promise_headers
   raise MessageError (-> not accepted) or return, having stored stream.expected_content_length (requests and
   responses only).  No proofs in this file. *)
From AQ Require Import lib.Base lib.Tok model.H3Validate model.H3Parse.

(* H3Parse numbers the four wrappers 0 request / 1 response / 2 trailers / 3 push promise
   (harness/props/h3common.py _install_validation_wrappers) *)
Definition hkind (k : Z) : kind :=
  if k =? 0 then KRequest else if k =? 1 then KResponse else if k =? 2 then KTrailers else KPushPromise.

(* the validator call as H3Parse sees it: accepted?, expected_content_length stored on the stream.
   Any outcome other than a normal return is "not accepted" = MessageError = H3_MESSAGE_ERROR in H3Parse;
   theorem validate_outcomes (C15) shows the only other outcome IS MessageError (no exception can escape). *)
Definition real_val (hdrs : Z -> list header) (k hid : Z) : bool * option Z :=
  match validate (hkind k) (hdrs hid) with
  | VOk ecl => (true, ecl)
  | _ => (false, None)
  end.

(* an H3Parse oracle whose QPACK part is [Q] and whose validation part is the real validators *)
Definition with_validators (hdrs : Z -> list header) (Q : oracle) : oracle :=
  mkO (o_dec Q) (o_resume Q) (real_val hdrs) (o_enc Q) (o_ds Q).

(* handle_event of the composed model *)
Definition h3_handle_event (fx : fixes) (hdrs : Z -> list header) (Q : oracle) (c : conn) (ev : qevent) : hout * conn :=
  handle_event fx (with_validators hdrs Q) c ev.

(* a whole connection: one QPACK oracle per handle_event call (the decoder's answers change when encoder-stream
   data arrives), one meaning of header ids for the whole run *)
Definition with_validators_tr (hdrs : Z -> list header) (tr : list (qevent * oracle)) : list (qevent * oracle) :=
  map (fun p => (fst p, with_validators hdrs (snd p))) tr.

Definition h3_run (fx : fixes) (hdrs : Z -> list header) (c : conn) (tr : list (qevent * oracle)) : list hout :=
  run fx c (with_validators_tr hdrs tr).

(* everything the application is handed, in order *)
Definition events_of (outs : list hout) : list event :=
  flat_map (fun o => match o with Events e => e | _ => [] end) outs.

(* ---------------------------------------------------------------- executable interface
   tokens: client dgram fx_maxpush fx_settings fx_pushpromise fx_trunc fx_endmark fx_pushblock,
           nhid (hid nh (nlen name.. vlen value..)* )*      the header list of every id of the run,
           then the ops of exec_h3 (H3Parse.v) unchanged; the validation table of each op is read and IGNORED.
   output: as exec_h3. *)
Fixpoint look_hdrs (l : list (Z * list header)) (hid : Z) : list header :=
  match l with
  | [] => []
  | (h, hs) :: t => if h =? hid then hs else look_hdrs t hid
  end.

Fixpoint rd_hdr_table (fuel : nat) (n : Z) (t : list Z) : list (Z * list header) * list Z :=
  match fuel with O => ([], t) | S fuel =>
  if n <=? 0 then ([], t) else
  match t with
  | hid :: nh :: t =>
      let '(hs, t) := tk_headers (length t) nh t in
      let '(l, t) := rd_hdr_table fuel (n - 1) t in
      ((hid, hs) :: l, t)
  | _ => ([], [])
  end end.

Fixpoint exec_h3e_ops (fuel : nat) (fx : fixes) (hdrs : Z -> list header) (c : conn) (t : list Z) : list Z :=
  match fuel with O => [] | S fuel =>
  match t with
  | 0 :: sid :: fin :: t =>
      let '(d, t) := tk_list t in
      let '(orc, t) := rd_oracle t in
      let '(o, c') := h3_handle_event fx hdrs orc c (QStream sid d (z2b fin)) in
      out_hout o ++ match o with Raised _ => [] | _ => obs_conn c' ++ exec_h3e_ops fuel fx hdrs c' t end
  | 1 :: t =>
      let '(d, t) := tk_list t in
      let '(o, c') := h3_handle_event fx hdrs (mkO (fun _ _ => DFailed) (fun _ => DFailed) (fun _ _ => (false, None))
                                                  (fun _ => EEncErr) (fun _ => false)) c (QDatagram d) in
      out_hout o ++ obs_conn c' ++ exec_h3e_ops fuel fx hdrs c' t
  | 2 :: t =>
      out_hout (Events []) ++ obs_conn c ++ exec_h3e_ops fuel fx hdrs c t
  | 3 :: sid :: t =>
      let c' := local_end c sid in
      out_hout (Events []) ++ obs_conn c' ++ exec_h3e_ops fuel fx hdrs c' t
  | _ => []
  end end.

(* EXTRACT: exec_h3events *)
Definition exec_h3events (t : list Z) : list Z :=
  match t with
  | cl :: dg :: f1 :: f2 :: f3 :: f4 :: f5 :: f6 :: nhid :: rest =>
      let '(tab, ops) := rd_hdr_table (length rest) nhid rest in
      exec_h3e_ops (length ops) (mkF (z2b f1) (z2b f2) (z2b f3) (z2b f4) (z2b f5) (z2b f6)) (look_hdrs tab)
                   (conn_init (z2b cl) (z2b dg)) ops
  | _ => []
  end.
