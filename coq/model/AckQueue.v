(* Model of the acknowledgement bookkeeping of one packet number space of QuicConnection
   (src/aioquic/quic/recovery.py QuicPacketSpace: ack_queue, ack_at, largest_received_packet/_time, discarded;
    src/aioquic/quic/connection.py: the tail of receive_datagram ("record packet as received"), _on_ack_delivery,
    _write_ack_frame (with the MAX_ACK_RANGES cap of commit 8675461), the ACK part of _write_application /
    _write_handshake with the pacing bypass, loss.discard_space + _discard_epoch, get_timer's minimum;
    src/aioquic/quic/packet.py push_ack_frame through model/AckFrame.v; packet_builder.start_frame's space check).

   Times are Z on any linear grid (the harness uses units of 2^-52 s, exact for doubles >= 1): the code only
   compares times and adds the acknowledgement delay to `now`; the float sum now + _ack_delay is evaluated by the
   harness and handed to the model as the integer duration d of the op (as for C09), likewise the encoded ACK
   delay field.  What the rest of the connection decides is an input of the op: whether the packet was processed
   without a connection error (ok), which of our ACK frames it newly acknowledged (dels: the handler argument
   highest_acked of each), the room left in the packet when the ACK frame is started, whether the pacer blocks.
   Ghost fields (not in the code): rcvd, owed, frames, clk.  No proofs in this file. *)
From AQ Require Import lib.Base lib.Tok model.Codec model.Varint model.RangeSet model.AckFrame gen.C12Consts.

Record space := mkSp {
  app : bool;              (* the application space (0-RTT/1-RTT packets); false: Initial or Handshake *)
  aq : rs;                 (* ack_queue *)
  ack_at : option Z;       (* ack_at *)
  lrp : Z;                 (* largest_received_packet *)
  lrt : Z;                 (* largest_received_time (meaningful once lrp >= 0) *)
  disc : bool;             (* discarded (and the epoch's keys torn down) *)
  complete : bool;         (* connection: _handshake_complete *)
  closing : bool;          (* connection: close() was called or an END state was entered *)
  rcvd : list Z;           (* ghost: packet numbers recorded (decrypted + processed without error) in this space *)
  owed : list (Z * Z);     (* ghost: (pn, arrival time) of ack-eliciting packets that carried the largest packet number
                              when recorded (application space: after handshake completion), and that no ACK frame
                              written since covers *)
  frames : list (rs * Z);  (* ghost: ACK frames written: (ranges, handler argument highest_acked) *)
  clk : Z                  (* ghost: time of the last operation *)
}.

Definition init (is_app : bool) : space := mkSp is_app [] None (-1) 0 false false false [] [] [] 0.

Definition set_aq (s : space) (q : rs) : space :=
  mkSp (app s) q (ack_at s) (lrp s) (lrt s) (disc s) (complete s) (closing s) (rcvd s) (owed s) (frames s) (clk s).
Definition set_closing (s : space) : space :=
  mkSp (app s) (aq s) (ack_at s) (lrp s) (lrt s) (disc s) (complete s) true (rcvd s) (owed s) (frames s) (clk s).
Definition set_complete (s : space) : space :=
  mkSp (app s) (aq s) (ack_at s) (lrp s) (lrt s) (disc s) true (closing s) (rcvd s) (owed s) (frames s) (clk s).
Definition set_clk (s : space) (t : Z) : space :=
  mkSp (app s) (aq s) (ack_at s) (lrp s) (lrt s) (disc s) (complete s) (closing s) (rcvd s) (owed s) (frames s) t.

(* loss.discard_space (ack_at = None) + _discard_epoch (discarded = True, keys torn down) *)
Definition discard (s : space) : space :=
  mkSp (app s) (aq s) None (lrp s) (lrt s) true (complete s) (closing s) (rcvd s) (owed s) (frames s) (clk s).

(* ---- receive side ---------------------------------------------------------------------- *)

(* _on_ack_delivery(ACKED, space, highest_acked): ack_queue.subtract(0, highest_acked + 1), with subtract's
   `assert stop > start`; LOST does nothing and is not an op *)
Definition deliver (q : rs) (h : Z) : Res rs :=
  if h + 1 >? 0 then Ok (subtract 0 (h + 1) q) else Err E_ASSERT.

Fixpoint delivers (q : rs) (hs : list Z) : Res rs :=
  match hs with
  | [] => Ok q
  | h :: t => q' <- deliver q h ;; delivers q' t
  end.

Definition cap_now (b : bool) (t : Z) (a1 : option Z) : option Z :=
  if b then match a1 with Some a => Some (Z.min a t) | None => None end else a1.

(* "record packet as received" *)
Definition record (s : space) (pn : Z) (elic : bool) (t d : Z) : space :=
  if disc s then s else
  let newl := pn >? lrp s in
  let q' := add pn (pn + 1) (aq s) in
  let a1 := if elic then match ack_at s with None => Some (t + d) | Some a => Some a end else ack_at s in
  (* docs/C12-fix-2.patch (probed from the source: CAP_ACK_NOW): once MAX_ACK_RANGES ranges are queued a pending ACK
     is due now -- `if space.ack_at is not None and len(space.ack_queue) >= MAX_ACK_RANGES: ack_at = min(ack_at, now)` *)
  let a2 := cap_now (CAP_ACK_NOW && (Zlen q' >=? MAX_ACK_RANGES)) t a1 in
  mkSp (app s)
       q'
       a2
       (if newl then pn else lrp s)
       (if newl then t else lrt s)
       (disc s) (complete s) (closing s)
       (pn :: rcvd s)
       (if elic && newl && (negb (app s) || complete s) then (pn, t) :: owed s else owed s)
       (frames s) (clk s).

(* one decrypted packet: its ACK frames acknowledge some of our ACK-bearing packets (dels), then -- unless the
   payload raised a connection error, close() is pending or the connection is in an END state -- it is recorded *)
Definition recv (s : space) (pn : Z) (elic : bool) (t d : Z) (dels : list Z) (ok : bool) : Res space :=
  q <- delivers (aq s) dels ;;
  let s1 := set_clk (set_aq s q) t in
  Ok (if ok && negb (closing s) then record s1 pn elic t d else set_closing s1).

(* ---- send side ------------------------------------------------------------------------- *)

(* `while len(space.ack_queue) > MAX_ACK_RANGES: space.ack_queue.shift()` *)
Fixpoint cap_loop (fuel : nat) (q : rs) : rs :=
  match fuel with
  | O => q
  | S f => if Zlen q >? MAX_ACK_RANGES then match q with _ :: t => cap_loop f t | [] => [] end else q
  end.
Definition cap_ranges (q : rs) : rs := cap_loop (length q) q.

Definition ack_capacity (q : rs) : Z := ACK_FRAME_CAPACITY + 2 * UINT_VAR_MAX_SIZE * (Zlen q - 1).

Inductive sres :=
| SNothing (why : Z)      (* no ACK frame attempted: 0 closing, 1 paced, 2 no ACK due, 3 handshake not complete, 4 no keys *)
| SStop                   (* start_frame raised QuicPacketBuilderStop: nothing more is written by this call *)
| SExn (k : Z)            (* an exception escapes _write_ack_frame *)
| SFrame (bytes : list Z) (q : rs).   (* the frame (type byte included) and the ranges it was built from *)

Definition covered (q : rs) (o : Z * Z) : bool := contains (fst o) q.

(* _write_ack_frame with [room] = builder.remaining_buffer_space when start_frame is called *)
Definition write_ack (s : space) (delay room : Z) : sres * space :=
  let q := cap_ranges (aq s) in
  let s1 := set_aq s q in
  if room <? Z.max (ack_capacity q) MIN_FRAME_CAPACITY then (SStop, s1) else
  match w_chunks room [] (push_uint_var FT_ACK :: push_ack_frame q delay) with
  | Err k => (SExn k, s1)
  | Ok bytes =>
      (SFrame bytes q,
       mkSp (app s) q None (lrp s) (lrt s) (disc s) (complete s) (closing s) (rcvd s)
            (filter (fun o => negb (covered q o)) (owed s)) ((q, lrp s) :: frames s) (clk s))
  end.

(* the ACK part of one datagrams_to_send(now = t) for this space, given that a packet of the space can be started:
   _write_application: pacing is skipped only when `ack_at < now` (with docs/C12-fix-2.patch, probed as PACING_LE:
   when `ack_at <= now`); the ACK is written when the handshake is complete and `ack_at <= now`;  _write_handshake: whenever ack_at is set *)
Definition send (s : space) (t delay room : Z) (blocked : bool) : sres * space :=
  let s := set_clk s t in
  if closing s then (SNothing 0, s) else
  if disc s then (SNothing 4, s) else
  if app s then
    let overdue := match ack_at s with Some a => if PACING_LE then a <=? t else a <? t | None => false end in
    if negb overdue && blocked then (SNothing 1, s)
    else if complete s then
      match ack_at s with
      | Some a => if a <=? t then write_ack s delay room else (SNothing 2, s)
      | None => (SNothing 2, s)
      end
    else (SNothing 3, s)
  else
    match ack_at s with
    | Some _ => write_ack s delay room
    | None => (SNothing 2, s)
    end.

(* get_timer(): timer_at = _close_at, then `if x is not None and x < timer_at: timer_at = x` over the three
   ack_at values, the loss detection time and the pacing time *)
Definition tmin (cur : Z) (src : option Z) : Z :=
  match src with Some x => if x <? cur then x else cur | None => cur end.
Definition get_timer (close_at : Z) (srcs : list (option Z)) : Z := fold_left tmin srcs close_at.

(* ---- operations -------------------------------------------------------------------------- *)
Inductive op :=
| Complete                                                   (* handshake completes *)
| Recv (pn : Z) (elic : bool) (t d : Z) (dels : list Z) (ok : bool)
| Send (t delay room : Z) (blocked : bool)
| Discard
| Close.                                                     (* close() by the application *)

Inductive out :=
| ODone
| OExn (k : Z)
| OSend (r : sres).

Definition step (s : space) (o : op) : out * space :=
  match o with
  | Complete => (ODone, set_complete s)
  | Recv pn elic t d dels ok =>
      match recv s pn elic t d dels ok with Ok s' => (ODone, s') | Err k => (OExn k, s) end
  | Send t delay room blocked => let '(r, s') := send s t delay room blocked in (OSend r, s')
  | Discard => (ODone, discard s)
  | Close => (ODone, set_closing s)
  end.

Fixpoint run (s : space) (ops : list op) : space :=
  match ops with [] => s | o :: t => run (snd (step s o)) t end.

(* ---------- executable interface ---------------------------------------------------------
   input : is_app, then ops
     0                              handshake complete
     1 pn elic t d n h1..hn ok      one decrypted packet
     2 t delay room blocked         the ACK part of datagrams_to_send
     3                              discard the space
     4                              close()
     5 close_at n opt*n             get_timer over the given sources (opt: 0 | 1 v); prints the value only
   output per op: result, then obs
     result: 0 done | 1 k exception | 10 nothing (the reason is not observable, not printed) | 11 stop | 12 k exception in the writer |
             13 len bytes.. frame
     obs: ack_at (0 | 1 v), lrp, ack_queue (count, then start stop ...) *)
Definition obs (s : space) : list Z := out_opt (ack_at s) ++ [lrp s] ++ dump (aq s).

Definition out_sres (r : sres) : list Z :=
  match r with
  | SNothing _ => [10]
  | SStop => [11]
  | SExn k => [12; k]
  | SFrame b _ => 13 :: out_list b
  end.
Definition out_out (o : out) : list Z :=
  match o with ODone => [0] | OExn k => [1; k] | OSend r => out_sres r end.

Fixpoint tk_opts (n : nat) (l : list Z) : list (option Z) * list Z :=
  match n with O => ([], l) | S n =>
    let '(o, t) := tk_opt l in let '(os, r) := tk_opts n t in (o :: os, r)
  end.

Fixpoint exec_aq_loop (fuel : nat) (s : space) (toks : list Z) : list Z :=
  match fuel with O => [] | S fuel =>
  match toks with
  | 0 :: t => let '(o, s') := step s Complete in out_out o ++ obs s' ++ exec_aq_loop fuel s' t
  | 1 :: pn :: elic :: tm :: d :: t =>
      let '(dels, t1) := tk_list t in
      match t1 with
      | ok :: t2 =>
          let '(o, s') := step s (Recv pn (z2b elic) tm d dels (z2b ok)) in
          out_out o ++ obs s' ++ exec_aq_loop fuel s' t2
      | [] => []
      end
  | 2 :: tm :: delay :: room :: blocked :: t =>
      let '(o, s') := step s (Send tm delay room (z2b blocked)) in out_out o ++ obs s' ++ exec_aq_loop fuel s' t
  | 3 :: t => let '(o, s') := step s Discard in out_out o ++ obs s' ++ exec_aq_loop fuel s' t
  | 4 :: t => let '(o, s') := step s Close in out_out o ++ obs s' ++ exec_aq_loop fuel s' t
  | 5 :: ca :: n :: t =>
      let '(srcs, t1) := tk_opts (Z.to_nat n) t in get_timer ca srcs :: exec_aq_loop fuel s t1
  | _ => []
  end end.

(* EXTRACT: exec_ackqueue *)
Definition exec_ackqueue (toks : list Z) : list Z :=
  match toks with
  | a :: t => exec_aq_loop (length t) (init (z2b a)) t
  | [] => []
  end.

(* ---------- the three spaces of one connection ---------------------------------------------
   input : ops as above, each preceded by the index of the space it applies to (0 Initial, 1 Handshake,
           2 application); handshake completion and close() apply to all three (index ignored);
           additionally  sp 7  prints obs of that space (the other ops print their result only) *)
Definition conn := (space * space * space)%type.
Definition conn_init : conn := (init false, init false, init true).
Definition get_sp (c : conn) (i : Z) : space :=
  let '(a, b, d) := c in if i =? 0 then a else if i =? 1 then b else d.
Definition set_sp (c : conn) (i : Z) (s : space) : conn :=
  let '(a, b, d) := c in if i =? 0 then (s, b, d) else if i =? 1 then (a, s, d) else (a, b, s).
Definition all_sp (c : conn) (o : op) : conn :=
  let '(a, b, d) := c in (snd (step a o), snd (step b o), snd (step d o)).

Fixpoint exec_ac_loop (fuel : nat) (c : conn) (toks : list Z) : list Z :=
  match fuel with O => [] | S fuel =>
  match toks with
  | _ :: 0 :: t => 0 :: exec_ac_loop fuel (all_sp c Complete) t
  | _ :: 4 :: t => 0 :: exec_ac_loop fuel (all_sp c Close) t
  | i :: 1 :: pn :: elic :: tm :: d :: t =>
      let '(dels, t1) := tk_list t in
      match t1 with
      | ok :: t2 =>
          let '(o, s') := step (get_sp c i) (Recv pn (z2b elic) tm d dels (z2b ok)) in
          out_out o ++ exec_ac_loop fuel (set_sp c i s') t2
      | [] => []
      end
  | i :: 2 :: tm :: delay :: room :: blocked :: t =>
      let '(o, s') := step (get_sp c i) (Send tm delay room (z2b blocked)) in
      out_out o ++ exec_ac_loop fuel (set_sp c i s') t
  | i :: 3 :: t => let '(o, s') := step (get_sp c i) Discard in out_out o ++ exec_ac_loop fuel (set_sp c i s') t
  | _ :: 5 :: ca :: n :: t =>
      let '(srcs, t1) := tk_opts (Z.to_nat n) t in get_timer ca srcs :: exec_ac_loop fuel c t1
  | i :: 7 :: t => obs (get_sp c i) ++ exec_ac_loop fuel c t
  | _ => []
  end end.

(* EXTRACT: exec_ackconn *)
Definition exec_ackconn (toks : list Z) : list Z := exec_ac_loop (length toks) conn_init toks.

