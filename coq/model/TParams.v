(* Model of push/pull_quic_transport_parameters, pull/push_quic_preferred_address and
   pull/push_quic_version_information (src/aioquic/quic/packet.py).
   A QuicTransportParameters object is modelled as an association list param-id -> value
   holding the attributes that are not None / False.  IP addresses are their packed bytes
   (the ipaddress text conversion is outside the model). *)
From AQ Require Import lib.Base lib.Tok model.Codec model.Varint.

Inductive pval :=
| PInt (v : Z)
| PBytes (b : list Z)
| PTrue
| PPref (v4 v6 : option (list Z * Z)) (cid tok : list Z)
| PVer (chosen : Z) (avail : list Z).

Definition tparams := list (Z * pval).

(* PARAMS: id -> kind (0 int, 1 bytes, 2 bool, 3 QuicPreferredAddress, 4 QuicVersionInformation),
   in the dict's insertion order *)
Definition PARAMS : list (Z * Z) :=
  [ (0x00, 1); (0x01, 0); (0x02, 1); (0x03, 0); (0x04, 0); (0x05, 0); (0x06, 0); (0x07, 0);
    (0x08, 0); (0x09, 0); (0x0A, 0); (0x0B, 0); (0x0C, 2); (0x0D, 3); (0x0E, 0); (0x0F, 1);
    (0x10, 1); (0x11, 4); (0x20, 0); (0x0C37, 1) ].

Fixpoint assoc {A} (k : Z) (l : list (Z * A)) : option A :=
  match l with
  | [] => None
  | (k', v) :: t => if k' =? k then Some v else assoc k t
  end.

Definition tp_set (id : Z) (v : pval) (l : tparams) : tparams :=
  filter (fun p => negb (fst p =? id)) l ++ [(id, v)].

Definition all_zero (bs : list Z) : bool := forallb (fun b => b =? 0) bs.

(* pull_quic_preferred_address *)
Definition pull_preferred_address (bs : list Z) : Res (pval * list Z) :=
  '(h4, b1) <- pull_bytes 4 bs ;;
  '(p4, b2) <- pull_uint16 b1 ;;
  '(h6, b3) <- pull_bytes 16 b2 ;;
  '(p6, b4) <- pull_uint16 b3 ;;
  '(cl, b5) <- pull_uint8 b4 ;;
  '(cid, b6) <- pull_bytes cl b5 ;;
  '(tok, b7) <- pull_bytes 16 b6 ;;
  Ok (PPref (if all_zero h4 then None else Some (h4, p4))
            (if all_zero h6 then None else Some (h6, p6)) cid tok, b7).

Definition push_preferred_address (v4 v6 : option (list Z * Z)) (cid tok : list Z) : list chunk :=
  (match v4 with Some (h, p) => [push_bytes h; push_uint16 p] | None => [push_bytes (zeros 6)] end) ++
  (match v6 with Some (h, p) => [push_bytes h; push_uint16 p] | None => [push_bytes (zeros 18)] end) ++
  [push_uint8 (Zlen cid); push_bytes cid; push_bytes tok].

(* `for i in range(length // 4 - 1): available_versions.append(buf.pull_uint32())` *)
Fixpoint pull_u32s (fuel : nat) (count : Z) (bs : list Z) : Res (list Z * list Z) :=
  if count <=? 0 then Ok ([], bs) else
  match fuel with
  | O => Err E_READ
  | S f => '(v, r) <- pull_uint32 bs ;; '(vs, r') <- pull_u32s f (count - 1) r ;; Ok (v :: vs, r')
  end.

Definition pull_version_information (len : Z) (bs : list Z) : Res (pval * list Z) :=
  '(chosen, b1) <- pull_uint32 bs ;;
  '(avail, b2) <- pull_u32s (length b1) (len / 4 - 1) b1 ;;
  if (chosen =? 0) || existsb (fun v => v =? 0) avail then Err E_VALUE
  else Ok (PVer chosen avail, b2).

(* the `if param_id in PARAMS: ... else: buf.pull_bytes(param_len)` dispatch *)
Definition pull_param_value (id len : Z) (b2 : list Z) : Res (option pval * list Z) :=
  match assoc id PARAMS with
  | Some k =>
      if k =? 0 then '(v, r) <- pull_uint_var b2 ;; Ok (Some (PInt v), r)
      else if k =? 1 then '(v, r) <- pull_bytes len b2 ;; Ok (Some (PBytes v), r)
      else if k =? 3 then '(v, r) <- pull_preferred_address b2 ;; Ok (Some v, r)
      else if k =? 4 then '(v, r) <- pull_version_information len b2 ;; Ok (Some v, r)
      else Ok (Some PTrue, b2)
  | None => '(_, r) <- pull_bytes len b2 ;; Ok (None, r)
  end.

(* `while not buf.eof()`: every iteration pulls at least two bytes *)
Fixpoint pull_tparams (fuel : nat) (acc : tparams) (bs : list Z) : Res tparams :=
  match bs with
  | [] => Ok acc
  | _ =>
    match fuel with
    | O => Err E_READ
    | S f =>
      '(id, b1) <- pull_uint_var bs ;;
      '(len, b2) <- pull_uint_var b1 ;;
      '(v, b3) <- pull_param_value id len b2 ;;
      if negb (Zlen b2 - Zlen b3 =? len) then Err E_VALUE   (* "Transport parameter length does not match" *)
      else pull_tparams f (match v with Some v => tp_set id v acc | None => acc end) b3
    end
  end.

Definition pull_quic_transport_parameters (bs : list Z) : Res tparams :=
  pull_tparams (length bs) [] bs.

(* push: one inner Buffer(capacity=65536) per parameter that is set, in PARAMS order *)
Definition push_pval (v : pval) : list chunk :=
  match v with
  | PInt x => [push_uint_var x]
  | PBytes b => [push_bytes b]
  | PTrue => []
  | PPref v4 v6 cid tok => push_preferred_address v4 v6 cid tok
  | PVer c a => push_uint32 c :: map push_uint32 a
  end.

Definition push_param (id : Z) (v : pval) : list chunk :=
  match w_chunks 65536 [] (push_pval v) with
  | Ok body => [push_uint_var id; push_uint_var (Zlen body); push_bytes body]
  | Err k => [Err k]
  end.

Definition push_quic_transport_parameters (p : tparams) : list chunk :=
  flat_map (fun e => match assoc (fst e) p with Some v => push_param (fst e) v | None => [] end) PARAMS.

(* ---------- executable interface -------------------------------------------------------
     0 n b..            pull_quic_transport_parameters
     1 cap k entries..  push into Buffer(capacity=cap); entry = id kind payload
     2 n b..            pull, shown as the dataclass (every attribute, 0 | 1 payload)
     3 cap record       push of a dataclass given attribute by attribute
   value tokens: kind 0: v | 1: n b.. | 2: (nothing) | 3: has4 [4 bytes port] has6 [16 bytes port] n cid.. n tok..
                 | 4: chosen n avail.. *)
Definition out_addr (o : option (list Z * Z)) : list Z :=
  match o with None => [0] | Some (h, p) => 1 :: h ++ [p] end.

Definition out_pval (v : pval) : list Z :=
  match v with
  | PInt x => [0; x]
  | PBytes b => 1 :: out_bytes b
  | PTrue => [2]
  | PPref v4 v6 cid tok => 3 :: out_addr v4 ++ out_addr v6 ++ out_bytes cid ++ out_bytes tok
  | PVer c a => 4 :: c :: out_bytes a
  end.

Definition out_tparams (p : tparams) : list Z :=
  flat_map (fun e => match assoc (fst e) p with Some v => fst e :: out_pval v | None => [] end) PARAMS.

Definition tk_addr (n : Z) (t : list Z) : option (list Z * Z) * list Z :=
  match t with
  | 0 :: t' => (None, t')
  | _ :: t' => let '(h, t'') := tk_take n t' in
               match t'' with p :: t3 => (Some (h, p), t3) | [] => (Some (h, 0), []) end
  | [] => (None, [])
  end.

Definition tk_pval (t : list Z) : pval * list Z :=
  match t with
  | 0 :: x :: t' => (PInt x, t')
  | 1 :: t' => let '(b, t'') := tk_list t' in (PBytes b, t'')
  | 3 :: t' =>
      let '(v4, t1) := tk_addr 4 t' in
      let '(v6, t2) := tk_addr 16 t1 in
      let '(cid, t3) := tk_list t2 in
      let '(tok, t4) := tk_list t3 in (PPref v4 v6 cid tok, t4)
  | 4 :: c :: t' => let '(a, t'') := tk_list t' in (PVer c a, t'')
  | _ :: t' => (PTrue, t')
  | [] => (PTrue, [])
  end.

Fixpoint tk_tparams (n : nat) (t : list Z) : tparams :=
  match n, t with
  | S n', id :: t' => let '(v, t'') := tk_pval t' in (id, v) :: tk_tparams n' t''
  | _, _ => []
  end.

(* ---------- the dataclass view (added for the round-trip theorem) -------------------------
   QuicTransportParameters as a record, one field per dataclass attribute, in the order of the
   dataclass (= the order of PARAMS).  `disable_active_migration: Optional[bool] = False` is the only
   attribute with three values: None and False are both "not sent"; pull starts from
   QuicTransportParameters() (False) and sets True when the parameter is present. *)
Definition addr := option (list Z * Z).
Definition pref := (addr * addr * list Z * list Z)%type.    (* ipv4, ipv6, connection_id, stateless_reset_token *)
Definition verinfo := (Z * list Z)%type.                     (* chosen_version, available_versions *)

Record qtp := mkQtp {
  q_original_destination_connection_id : option (list Z);
  q_max_idle_timeout : option Z;
  q_stateless_reset_token : option (list Z);
  q_max_udp_payload_size : option Z;
  q_initial_max_data : option Z;
  q_initial_max_stream_data_bidi_local : option Z;
  q_initial_max_stream_data_bidi_remote : option Z;
  q_initial_max_stream_data_uni : option Z;
  q_initial_max_streams_bidi : option Z;
  q_initial_max_streams_uni : option Z;
  q_ack_delay_exponent : option Z;
  q_max_ack_delay : option Z;
  q_disable_active_migration : option bool;
  q_preferred_address : option pref;
  q_active_connection_id_limit : option Z;
  q_initial_source_connection_id : option (list Z);
  q_retry_source_connection_id : option (list Z);
  q_version_information : option verinfo;
  q_max_datagram_frame_size : option Z;
  q_quantum_readiness : option (list Z)
}.

Definition opt_pv {A} (f : A -> pval) (o : option A) : option pval :=
  match o with Some a => Some (f a) | None => None end.
Definition pv_pref (p : pref) : pval := let '(a4, a6, cid, tok) := p in PPref a4 a6 cid tok.
Definition pv_ver (v : verinfo) : pval := PVer (fst v) (snd v).
Definition pv_flag (o : option bool) : option pval :=
  match o with Some true => Some PTrue | _ => None end.       (* `is not None and is not False` *)

(* getattr(params, name) for every PARAMS entry, in PARAMS order *)
Definition qtp_fields (r : qtp) : list (option pval) :=
  [ opt_pv PBytes (q_original_destination_connection_id r); opt_pv PInt (q_max_idle_timeout r);
    opt_pv PBytes (q_stateless_reset_token r); opt_pv PInt (q_max_udp_payload_size r);
    opt_pv PInt (q_initial_max_data r); opt_pv PInt (q_initial_max_stream_data_bidi_local r);
    opt_pv PInt (q_initial_max_stream_data_bidi_remote r); opt_pv PInt (q_initial_max_stream_data_uni r);
    opt_pv PInt (q_initial_max_streams_bidi r); opt_pv PInt (q_initial_max_streams_uni r);
    opt_pv PInt (q_ack_delay_exponent r); opt_pv PInt (q_max_ack_delay r);
    pv_flag (q_disable_active_migration r); opt_pv pv_pref (q_preferred_address r);
    opt_pv PInt (q_active_connection_id_limit r); opt_pv PBytes (q_initial_source_connection_id r);
    opt_pv PBytes (q_retry_source_connection_id r); opt_pv pv_ver (q_version_information r);
    opt_pv PInt (q_max_datagram_frame_size r); opt_pv PBytes (q_quantum_readiness r) ].

(* the association list of the attributes that are set, in table order *)
Fixpoint entries (ks : list (Z * Z)) (fs : list (option pval)) : tparams :=
  match ks, fs with
  | (id, _) :: ks', Some v :: fs' => (id, v) :: entries ks' fs'
  | _ :: ks', None :: fs' => entries ks' fs'
  | _, _ => []
  end.

Definition tp_of_qtp (r : qtp) : tparams := entries PARAMS (qtp_fields r).

Definition get_int (id : Z) (p : tparams) : option Z :=
  match assoc id p with Some (PInt v) => Some v | _ => None end.
Definition get_bytes (id : Z) (p : tparams) : option (list Z) :=
  match assoc id p with Some (PBytes b) => Some b | _ => None end.
Definition get_pref (id : Z) (p : tparams) : option pref :=
  match assoc id p with Some (PPref a4 a6 cid tok) => Some (a4, a6, cid, tok) | _ => None end.
Definition get_ver (id : Z) (p : tparams) : option verinfo :=
  match assoc id p with Some (PVer c a) => Some (c, a) | _ => None end.
Definition get_flag (id : Z) (p : tparams) : option bool :=
  match assoc id p with Some _ => Some true | None => Some false end.

(* the object pull_quic_transport_parameters returns: QuicTransportParameters() + setattr per entry *)
Definition qtp_of_tp (p : tparams) : qtp :=
  mkQtp (get_bytes 0x00 p) (get_int 0x01 p) (get_bytes 0x02 p) (get_int 0x03 p) (get_int 0x04 p)
        (get_int 0x05 p) (get_int 0x06 p) (get_int 0x07 p) (get_int 0x08 p) (get_int 0x09 p)
        (get_int 0x0A p) (get_int 0x0B p) (get_flag 0x0C p) (get_pref 0x0D p) (get_int 0x0E p)
        (get_bytes 0x0F p) (get_bytes 0x10 p) (get_ver 0x11 p) (get_int 0x20 p) (get_bytes 0x0C37 p).

Definition pull_qtp (bs : list Z) : Res qtp :=
  p <- pull_quic_transport_parameters bs ;; Ok (qtp_of_tp p).
Definition push_qtp (r : qtp) : list chunk := push_quic_transport_parameters (tp_of_qtp r).

(* record <-> tokens: every field as 0 | 1 payload, in record order *)
Definition out_o {A} (f : A -> list Z) (o : option A) : list Z :=
  match o with None => [0] | Some a => 1 :: f a end.
Definition out_pref (p : pref) : list Z :=
  let '(a4, a6, cid, tok) := p in out_addr a4 ++ out_addr a6 ++ out_bytes cid ++ out_bytes tok.
Definition out_ver (v : verinfo) : list Z := fst v :: out_bytes (snd v).
Definition out_qtp (r : qtp) : list Z :=
  let i := out_o (fun v : Z => [v]) in
  let b := out_o out_bytes in
  b (q_original_destination_connection_id r) ++ i (q_max_idle_timeout r) ++ b (q_stateless_reset_token r) ++
  i (q_max_udp_payload_size r) ++ i (q_initial_max_data r) ++ i (q_initial_max_stream_data_bidi_local r) ++
  i (q_initial_max_stream_data_bidi_remote r) ++ i (q_initial_max_stream_data_uni r) ++
  i (q_initial_max_streams_bidi r) ++ i (q_initial_max_streams_uni r) ++ i (q_ack_delay_exponent r) ++
  i (q_max_ack_delay r) ++ out_o (fun x : bool => [b2z x]) (q_disable_active_migration r) ++
  out_o out_pref (q_preferred_address r) ++ i (q_active_connection_id_limit r) ++
  b (q_initial_source_connection_id r) ++ b (q_retry_source_connection_id r) ++
  out_o out_ver (q_version_information r) ++ i (q_max_datagram_frame_size r) ++ b (q_quantum_readiness r).

Definition tk_o {A} (f : list Z -> A * list Z) (t : list Z) : option A * list Z :=
  match t with
  | 0 :: t' => (None, t')
  | _ :: t' => let '(a, t'') := f t' in (Some a, t'')
  | [] => (None, [])
  end.
Definition tk_int (t : list Z) : Z * list Z := match t with v :: t' => (v, t') | [] => (0, []) end.
Definition tk_bool (t : list Z) : bool * list Z := match t with v :: t' => (z2b v, t') | [] => (false, []) end.
Definition tk_pref (t : list Z) : pref * list Z :=
  let '(a4, t1) := tk_addr 4 t in
  let '(a6, t2) := tk_addr 16 t1 in
  let '(cid, t3) := tk_list t2 in
  let '(tok, t4) := tk_list t3 in ((a4, a6, cid, tok), t4).
Definition tk_ver (t : list Z) : verinfo * list Z :=
  let '(c, t1) := tk_int t in let '(a, t2) := tk_list t1 in ((c, a), t2).

Definition tk_qtp (t : list Z) : qtp :=
  let i := tk_o tk_int in
  let b := tk_o tk_list in
  let '(f0, t) := b t in let '(f1, t) := i t in let '(f2, t) := b t in let '(f3, t) := i t in
  let '(f4, t) := i t in let '(f5, t) := i t in let '(f6, t) := i t in let '(f7, t) := i t in
  let '(f8, t) := i t in let '(f9, t) := i t in let '(f10, t) := i t in let '(f11, t) := i t in
  let '(f12, t) := tk_o tk_bool t in let '(f13, t) := tk_o tk_pref t in let '(f14, t) := i t in
  let '(f15, t) := b t in let '(f16, t) := b t in let '(f17, t) := tk_o tk_ver t in
  let '(f18, t) := i t in let '(f19, _) := b t in
  mkQtp f0 f1 f2 f3 f4 f5 f6 f7 f8 f9 f10 f11 f12 f13 f14 f15 f16 f17 f18 f19.

Definition exec_tparams (toks : list Z) : list Z :=
  match toks with
  | 0 :: t => let '(bs, _) := tk_list t in out_res out_tparams (pull_quic_transport_parameters bs)
  | 1 :: cap :: k :: t =>
      out_res out_bytes (w_chunks cap [] (push_quic_transport_parameters (tk_tparams (Z.to_nat k) t)))
  | 2 :: t => let '(bs, _) := tk_list t in out_res out_qtp (pull_qtp bs)
  | 3 :: cap :: t => out_res out_bytes (w_chunks cap [] (push_qtp (tk_qtp t)))
  | _ => []
  end.
(* EXTRACT: exec_tparams *)
