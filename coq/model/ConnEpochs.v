(* C05: the epoch-keyed tables of QuicConnection (src/aioquic/quic/connection.py)

     self._cryptos         Epoch -> CryptoPair        value here: keys installed and not torn down
     self._crypto_buffers  Epoch -> Buffer            (TLS output)
     self._crypto_streams  Epoch -> QuicStream
     self._spaces          Epoch -> QuicPacketSpace   value here: .discarded

   as Python dicts (association lists in insertion order) on top of the frame layer of model/ConnRecv.v: every
   subscript `self._T[k]` is a lookup that can fail (KeyError escapes receive_datagram / datagrams_to_send, nothing
   catches it), `_initialize` builds the four tables from the GENERATED key lists (gen/C05Epochs.v: INIT_CRYPTOS .. INIT_SPACES),
   `_discard_epoch` INTERPRETS the GENERATED statement list DISCARD_BODY, and the frame loop of _payload_received
   goes on with the next frame of the same packet after a handler has discarded an epoch.

   What the frame layer adds to ConnRecv.frame_step (same generated dispatch table, same epoch check, same
   ConnRecv.run_handler for parsing / checks / TLS):
     _handle_ack_frame             self._spaces[context.epoch]
     _handle_crypto_frame          self._crypto_streams[context.epoch]; the TLS engine's output_buf[Epoch.X] subscripts on
                                   self._crypto_buffers and its update_traffic_key_cb -> self._cryptos[epoch] (which X: INPUT,
                                   any sub-list of the generated TLS_OUTPUT_EPOCHS / TLS_KEY_EPOCHS -- an over-approximation of
                                   "lazily per TLS state"); _alpn_handler's store self._cryptos[INITIAL] = ...;
                                   _push_crypto_data: for epoch in self._crypto_buffers: self._crypto_streams[epoch];
                                   the "handshake complete" block: servers _discard_epoch(HANDSHAKE) IN THE MIDDLE OF THE PACKET
     _handle_handshake_done_frame  clients _discard_epoch(HANDSHAKE)
   The lookups sit after the frame is parsed and logged and before every raise site that comes after logging, so they
   are performed exactly when run_handler's result is not a before-logging failure.
   Over-approximations (each only ADDS lookups / discards, so the total theorem is about more behaviours than the code
   has): the TLS lookups are made for every CRYPTO frame that got past parsing, not only when `event is not None`; the
   handshake-complete block runs when `not _handshake_complete and tls.state in POST_HANDSHAKE` after ANY normally returning
   CRYPTO frame (the code additionally requires `event is not None`; in the code the TLS state only changes inside
   handle_message, so the two coincide); _write_handshake goes on to the stream / space lookups whenever the pair has keys
   (the code: when the SEND key is valid).
   The connection snapshot [cst] of each packet is INPUT (ConnDgram.v sets the context CID and the TLS oracle records per
   packet); within a packet it evolves through the real handlers. *)
From Coq Require Import ZArith List Bool String.
From AQ Require Import lib.Base lib.Tok model.RangeSet model.StreamRecv model.Frames gen.C05Tables gen.C05Epochs model.ConnRecv.
From AQ Require gen.TlsDispatch model.TlsRecv.
Import ListNotations.
Open Scope Z_scope.

(* ---------- Python dict with int keys *)
Definition dict := list (Z * bool).

Fixpoint dget (k : Z) (d : dict) : option bool :=
  match d with
  | [] => None
  | (k', v) :: r => if k' =? k then Some v else dget k r
  end.

(* d[k] = v: keeps the position of an existing key, appends a new one *)
Fixpoint dset (k : Z) (v : bool) (d : dict) : dict :=
  match d with
  | [] => [(k, v)]
  | (k', v') :: r => if k' =? k then (k', v) :: r else (k', v') :: dset k v r
  end.

(* d.pop(k, None) *)
Fixpoint dpop (k : Z) (d : dict) : dict :=
  match d with
  | [] => []
  | (k', v') :: r => if k' =? k then r else (k', v') :: dpop k r
  end.

Definition dkeys (d : dict) : list Z := map fst d.
Definition dhas (k : Z) (d : dict) : bool := match dget k d with Some _ => true | None => false end.

Record etabs := mkTabs {
  t_cryptos : dict;      (* value: the pair has keys (set up, not torn down) *)
  t_buffers : dict;      (* value unused (false) *)
  t_streams : dict;      (* value unused (false) *)
  t_spaces : dict        (* value: .discarded *)
}.

Definition tget (t : tab) (T : etabs) : dict :=
  match t with TCryptos => t_cryptos T | TBuffers => t_buffers T | TStreams => t_streams T | TSpaces => t_spaces T end.
Definition tput (t : tab) (d : dict) (T : etabs) : etabs :=
  match t with
  | TCryptos => mkTabs d (t_buffers T) (t_streams T) (t_spaces T)
  | TBuffers => mkTabs (t_cryptos T) d (t_streams T) (t_spaces T)
  | TStreams => mkTabs (t_cryptos T) (t_buffers T) d (t_spaces T)
  | TSpaces => mkTabs (t_cryptos T) (t_buffers T) (t_streams T) d
  end.

(* outcome of code that subscripts the tables *)
Inductive eres (A : Type) : Type :=
| EOk (a : A)
| EKey (t : tab) (k : Z).        (* KeyError at self.<t>[k] *)
Arguments EOk {A} a.
Arguments EKey {A} t k.

Definition ebind {A B : Type} (r : eres A) (f : A -> eres B) : eres B :=
  match r with EOk a => f a | EKey t k => EKey t k end.

(* self.<t>[k] as an expression whose value is not needed *)
Definition need (t : tab) (k : Z) (T : etabs) : eres etabs :=
  if dhas k (tget t T) then EOk T else EKey t k.

Fixpoint need_all (t : tab) (ks : list Z) (T : etabs) : eres etabs :=
  match ks with
  | [] => EOk T
  | k :: r => ebind (need t k T) (need_all t r)
  end.

(* ---------- __init__ and _initialize *)
Definition ctor_tabs : etabs := mkTabs [] [] [] [].

Definition mk_dict (keys : list Z) (v : Z -> bool) : dict := fold_left (fun d k => dset k (v k) d) keys [].

(* _cryptos: create_crypto_pair(epoch) has no keys yet; _cryptos[INITIAL] = _cryptos_initial[self._version] has
   (setup_initial).  Buffers, streams, spaces are fresh objects. *)
Definition initialize_tabs : etabs :=
  mkTabs (mk_dict INIT_CRYPTOS (fun k => k =? EPOCH_INITIAL))
         (mk_dict INIT_BUFFERS (fun _ => false))
         (mk_dict INIT_STREAMS (fun _ => false))
         (mk_dict INIT_SPACES (fun _ => false)).

(* ---------- _discard_epoch: interpreter of the generated statement list *)
Definition run_dop (op : dop) (epoch : Z) (T : etabs) : eres etabs :=
  match op with
  | DTeardown =>
      ebind (need TCryptos epoch T) (fun T => EOk (tput TCryptos (dset epoch false (t_cryptos T)) T))
  | DTeardownInitials => EOk T         (* _cryptos_initial is not one of the four tables; the pair of the version in
                                          use IS _cryptos[INITIAL], torn down by DTeardown *)
  | DLossDiscard => need TSpaces epoch T
  | DMarkDiscarded =>
      ebind (need TSpaces epoch T) (fun T => EOk (tput TSpaces (dset epoch true (t_spaces T)) T))
  | DPop t => EOk (tput t (dpop epoch (tget t T)) T)
  | DDel t => ebind (need t epoch T) (fun T => EOk (tput t (dpop epoch (tget t T)) T))
  end.

Fixpoint run_dops (body : list dop) (epoch : Z) (T : etabs) : eres etabs :=
  match body with
  | [] => EOk T
  | op :: r => ebind (run_dop op epoch T) (run_dops r epoch)
  end.

(* if not self._spaces[epoch].discarded: <body> *)
Definition discard_epoch_with (body : list dop) (epoch : Z) (T : etabs) : eres etabs :=
  match dget epoch (t_spaces T) with
  | None => EKey TSpaces epoch
  | Some true => EOk T
  | Some false => run_dops body epoch T
  end.

(* the seeded behaviour (seeded/C05/seed5): the generated body of the unchanged tree followed by
   self._crypto_streams.pop(epoch, None); self._crypto_buffers.pop(epoch, None) *)
Definition head_discard_body : list dop := [DTeardown; DTeardownInitials; DLossDiscard; DMarkDiscarded].
Definition seeded_discard_body : list dop := head_discard_body ++ [DPop TStreams; DPop TBuffers].

(* does a statement list remove a table entry? *)
Definition dop_keeps (op : dop) : bool :=
  match op with DPop _ => false | DDel _ => false | _ => true end.
Definition no_removal (body : list dop) : bool := forallb dop_keeps body.

(* ---------- connection-level state next to the tables *)
Record est := mkE {
  e_tabs : etabs;
  e_client : bool;          (* _is_client *)
  e_complete : bool;        (* _handshake_complete *)
  e_confirmed : bool        (* _handshake_confirmed *)
}.
Definition with_tabs (s : est) (T : etabs) : est := mkE T (e_client s) (e_complete s) (e_confirmed s).

(* what the TLS engine touches during one handle_message call: output_buf subscripts, update_traffic_key_cb epochs,
   whether _alpn_handler switches the version (store into _cryptos[INITIAL]) *)
Definition tlsuse := (list Z * list Z * bool)%type.
Definition tlsuse0 : tlsuse := ([], [], false).

Fixpoint install_keys (ks : list Z) (T : etabs) : eres etabs :=      (* _update_traffic_key: crypto = self._cryptos[epoch]; setup *)
  match ks with
  | [] => EOk T
  | k :: r => ebind (need TCryptos k T) (fun T => install_keys r (tput TCryptos (dset k true (t_cryptos T)) T))
  end.

Definition tls_tables (u : tlsuse) (T : etabs) : eres etabs :=
  let '(bufs, keys, switch) := u in
  ebind (need_all TBuffers (filter (fun e => zmem e TLS_OUTPUT_EPOCHS) bufs) T) (fun T =>
  ebind (install_keys (filter (fun e => zmem e TLS_KEY_EPOCHS) keys) T) (fun T =>
  EOk (if switch then tput TCryptos (dset EPOCH_INITIAL true (t_cryptos T)) T else T))).

(* _push_crypto_data: for epoch, buf in self._crypto_buffers.items(): self._crypto_streams[epoch].sender.write(...) *)
Definition push_crypto_data (T : etabs) : eres etabs := need_all TStreams (dkeys (t_buffers T)) T.

Definition tls_post_handshake (st : cst) : bool :=
  match TlsRecv.t_state (ts_ctx (c_tls st)) with
  | TlsDispatch.CLIENT_POST_HANDSHAKE => true
  | TlsDispatch.SERVER_POST_HANDSHAKE => true
  | _ => false
  end.

(* the result of a handler that failed BEFORE the frame was logged: the table lookups were not reached *)
Definition pre_log (r : hres) : bool :=
  match r with HBuf => true | HErr false _ _ => true | HExn false _ => true | _ => false end.

(* the table part of one handler call whose parsing part [r] got past logging; exhaustive over the GENERATED handler type *)
Definition handler_tables (body : list dop) (h : handler) (s : est) (epoch : Z) (u : tlsuse) (r : hres) : eres est :=
  match h with
  | H_handle_ack_frame =>
      ebind (need TSpaces epoch (e_tabs s)) (fun T => EOk (with_tabs s T))
  | H_handle_crypto_frame =>
      ebind (need TStreams epoch (e_tabs s)) (fun T =>
      ebind (tls_tables u T) (fun T =>
      match r with
      | HOk st' _ =>
          ebind (push_crypto_data T) (fun T =>
          if negb (e_complete s) && tls_post_handshake st' then
            if negb (e_client s) then
              ebind (discard_epoch_with body EPOCH_HANDSHAKE T) (fun T => EOk (mkE T (e_client s) true true))
            else EOk (mkE T (e_client s) true (e_confirmed s))
          else EOk (with_tabs s T))
      | _ => EOk (with_tabs s T)
      end))
  | H_handle_handshake_done_frame =>
      match r with
      | HOk _ _ =>
          if e_client s && negb (e_confirmed s) then
            ebind (discard_epoch_with body EPOCH_HANDSHAKE (e_tabs s)) (fun T => EOk (mkE T (e_client s) (e_complete s) true))
          else EOk s
      | _ => EOk s
      end
  | H_handle_padding_frame => EOk s
  | H_handle_ping_frame => EOk s
  | H_handle_reset_stream_frame => EOk s
  | H_handle_stop_sending_frame => EOk s
  | H_handle_new_token_frame => EOk s
  | H_handle_stream_frame => EOk s
  | H_handle_max_data_frame => EOk s
  | H_handle_max_stream_data_frame => EOk s
  | H_handle_max_streams_bidi_frame => EOk s
  | H_handle_max_streams_uni_frame => EOk s
  | H_handle_data_blocked_frame => EOk s
  | H_handle_stream_data_blocked_frame => EOk s
  | H_handle_streams_blocked_frame => EOk s
  | H_handle_new_connection_id_frame => EOk s
  | H_handle_retire_connection_id_frame => EOk s
  | H_handle_path_challenge_frame => EOk s
  | H_handle_path_response_frame => EOk s
  | H_handle_connection_close_frame => EOk s
  | H_handle_datagram_frame => EOk s
  end.

(* ---------- one iteration of _payload_received's loop *)
Inductive estep : Type :=
| ESNext (s : est) (st : cst) (rest : list Z)      (* frame handled: the loop goes on with [rest] *)
| ESStop (s : est)                                 (* QuicConnectionError (close()) or another modelled exception of the
                                                      frame layer: ConnRecv.v's business; the tables are as left *)
| ESKey (t : tab) (k : Z).                         (* KeyError from an epoch table escapes receive_datagram *)

Definition eframe_step (body : list dop) (patched : bool) (s : est) (st : cst) (epoch : Z) (u : tlsuse)
           (b : list Z) : estep :=
  match pull_uint_var b with
  | PErr => ESStop s
  | POk ft b' =>
      match lookup_frame ft frame_table with
      | None => ESStop s
      | Some (h, epochs) =>
          if negb (zmem epoch epochs) then ESStop s
          else
            let r := run_handler patched h st epoch ft b' in
            if pre_log r then ESStop s
            else match handler_tables body h s epoch u r with
                 | EKey t k => ESKey t k
                 | EOk s' =>
                     match r with
                     | HOk st' rest => ESNext s' st' rest
                     | HFin st' rest => ESNext s' st' rest
                     | _ => ESStop s'
                     end
                 end
      end
  end.

Fixpoint epayload_loop (fuel : nat) (body : list dop) (patched : bool) (s : est) (st : cst) (epoch : Z)
         (us : list tlsuse) (b : list Z) : eres est :=
  match b with
  | [] => EOk s
  | _ =>
    match fuel with
    | O => EOk s
    | S fuel =>
        match eframe_step body patched s st epoch (hd tlsuse0 us) b with
        | ESNext s' st' rest => epayload_loop fuel body patched s' st' epoch (tl us) rest
        | ESStop s' => EOk s'
        | ESKey t k => EKey t k
        end
    end
  end.

(* ---------- one decrypted long / short header packet inside receive_datagram *)
Inductive pspace : Set := PInitial | PZeroRtt | PHandshake | POneRtt.
Definition epoch_of_pspace (p : pspace) : Z :=       (* get_epoch(header.packet_type) *)
  match p with PInitial => EPOCH_INITIAL | PZeroRtt => EPOCH_ZERO_RTT | PHandshake => EPOCH_HANDSHAKE | POneRtt => EPOCH_ONE_RTT end.

Definition epacket (body : list dop) (patched : bool) (s : est) (p : pspace) (st : cst) (us : list tlsuse)
           (payload : list Z) : eres est :=
  let epoch := epoch_of_pspace p in
  (* crypto = self._cryptos_initial[header.version] (ConnDgram.v) / self._cryptos[epoch] *)
  ebind (if epoch =? EPOCH_INITIAL then EOk (e_tabs s) else need TCryptos epoch (e_tabs s)) (fun T =>
  (* space = self._spaces[ONE_RTT if epoch == ZERO_RTT else epoch] *)
  ebind (need TSpaces (if epoch =? EPOCH_ZERO_RTT then EPOCH_ONE_RTT else epoch) T) (fun T =>
  (* (decryption succeeded, reserved bits fine: otherwise the packet does not reach the frames)
     if not self._is_client and epoch == HANDSHAKE: self._discard_epoch(INITIAL) *)
  ebind (if negb (e_client s) && (epoch =? EPOCH_HANDSHAKE) then discard_epoch_with body EPOCH_INITIAL T else EOk T) (fun T =>
  epayload_loop (S (length payload)) body patched (with_tabs s T) st epoch us payload))).

(* ---------- datagrams_to_send (not close-pending) *)
Definition write_handshake (epoch : Z) (T : etabs) : eres etabs :=
  match dget epoch (t_cryptos T) with
  | None => EKey TCryptos epoch
  | Some false => EOk T                      (* if not crypto.send.is_valid(): return *)
  | Some true => ebind (need TStreams epoch T) (need TSpaces epoch)
  end.

Definition write_application (T : etabs) : eres etabs :=
  match dget EPOCH_ONE_RTT (t_cryptos T) with
  | None => EKey TCryptos EPOCH_ONE_RTT
  | Some true => ebind (need TStreams EPOCH_ONE_RTT T) (need TSpaces EPOCH_ONE_RTT)
  | Some false =>
      match dget EPOCH_ZERO_RTT (t_cryptos T) with
      | None => EKey TCryptos EPOCH_ZERO_RTT
      | Some true => need TSpaces EPOCH_ONE_RTT T
      | Some false => EOk T
      end
  end.

(* [sent] = epochs of the packets the builder produced (on_packet_sent: self._spaces[packet.epoch]); only epochs whose
   pair has keys can produce a packet *)
Definition esend (body : list dop) (s : est) (sent : list Z) : eres est :=
  ebind (if negb (e_confirmed s)
         then ebind (write_handshake EPOCH_INITIAL (e_tabs s)) (write_handshake EPOCH_HANDSHAKE)
         else EOk (e_tabs s)) (fun T =>
  ebind (write_application T) (fun T =>
  let sent := filter (fun e => match dget e (t_cryptos T) with Some true => true | _ => false end) sent in
  ebind (need_all TSpaces (map (fun e => if e =? EPOCH_ZERO_RTT then EPOCH_ONE_RTT else e) sent) T) (fun T =>
  if zmem EPOCH_HANDSHAKE sent && e_client s
  then ebind (discard_epoch_with body EPOCH_INITIAL T) (fun T => EOk (with_tabs s T))
  else EOk (with_tabs s T)))).

(* ---------- _close_end: for epoch in self._spaces.keys(): self._discard_epoch(epoch)
   (the key list is taken once: a body that removes entries of _spaces itself would make Python raise RuntimeError
   "dictionary changed size during iteration"; not modelled, [no_removal] excludes it) *)
Fixpoint discard_all (body : list dop) (ks : list Z) (T : etabs) : eres etabs :=
  match ks with
  | [] => EOk T
  | k :: r => ebind (discard_epoch_with body k T) (discard_all body r)
  end.

(* ---------- histories *)
Inductive eev : Type :=
| EvInitialize                         (* _initialize again: Retry / version negotiation -> _connect *)
| EvPacket (p : pspace) (st : cst) (us : list tlsuse) (payload : list Z)
| EvSend (sent : list Z)
| EvCloseEnd.

Definition estep_ev (body : list dop) (patched : bool) (s : est) (e : eev) : eres est :=
  match e with
  | EvInitialize => EOk (with_tabs s initialize_tabs)
  | EvPacket p st us payload => epacket body patched s p st us payload
  | EvSend sent => esend body s sent
  | EvCloseEnd => ebind (discard_all body (dkeys (t_spaces (e_tabs s))) (e_tabs s)) (fun T => EOk (with_tabs s T))
  end.

Fixpoint erun (body : list dop) (patched : bool) (s : est) (evs : list eev) : eres est :=
  match evs with
  | [] => EOk s
  | e :: r => ebind (estep_ev body patched s e) (fun s' => erun body patched s' r)
  end.

(* the state right after _initialize (client: connect(); server: the first Initial packet) *)
Definition einit (is_client : bool) : est := mkE initialize_tabs is_client false false.

(* ---------- the invariant: every key _initialize creates is present *)
Definition has_all (ks : list Z) (d : dict) : bool := forallb (fun k => dhas k d) ks.
Definition tabs_full (T : etabs) : bool :=
  has_all INIT_CRYPTOS (t_cryptos T) && has_all INIT_BUFFERS (t_buffers T) &&
  has_all INIT_STREAMS (t_streams T) && has_all INIT_SPACES (t_spaces T).

(* ---------- the listings of gen/C05Epochs.epoch_sites this model was written against *)
Open Scope string_scope.
Definition epoch_sites_expected : list (string * list string) := [
  ("statements that assign or mutate a table", [
    "QuicConnection.__init__: self._cryptos: dict[tls.Epoch, CryptoPair] = {}";
    "QuicConnection.__init__: self._crypto_buffers: dict[tls.Epoch, Buffer] = {}";
    "QuicConnection.__init__: self._crypto_streams: dict[tls.Epoch, QuicStream] = {}";
    "QuicConnection.__init__: self._spaces: dict[tls.Epoch, QuicPacketSpace] = {}";
    "QuicConnection._alpn_handler: self._cryptos[tls.Epoch.INITIAL] = self._cryptos_initial[version]";
    "QuicConnection._initialize: self._cryptos = <constructor>";
    "QuicConnection._initialize: self._cryptos[tls.Epoch.INITIAL] = self._cryptos_initial[self._version]";
    "QuicConnection._initialize: self._crypto_buffers = <constructor>";
    "QuicConnection._initialize: self._crypto_streams = <constructor>";
    "QuicConnection._initialize: self._spaces = <constructor>"]);
  ("other mentions of a table", [
    "QuicConnection.datagrams_to_send: self._cryptos[epoch]";
    "QuicConnection.datagrams_to_send: self._spaces[packet.epoch]";
    "QuicConnection.receive_datagram: self._cryptos[epoch]";
    "QuicConnection.receive_datagram: self._spaces[tls.Epoch.ONE_RTT]";
    "QuicConnection.receive_datagram: self._spaces[epoch]";
    "QuicConnection.request_key_update: self._cryptos[tls.Epoch.ONE_RTT]";
    "QuicConnection._close_end: self._spaces.keys()";
    "QuicConnection._connect: self.tls.handle_message(.. self._crypto_buffers ..)";
    "QuicConnection._discard_epoch: self._spaces[epoch]";
    "QuicConnection._discard_epoch: self._cryptos[epoch]";
    "QuicConnection._discard_epoch: self._spaces[epoch]";
    "QuicConnection._discard_epoch: self._spaces[epoch]";
    "QuicConnection._initialize: self._spaces.values()";
    "QuicConnection._handle_ack_frame: self._spaces[context.epoch]";
    "QuicConnection._handle_crypto_frame: self._crypto_streams[context.epoch]";
    "QuicConnection._handle_crypto_frame: self.tls.handle_message(.. self._crypto_buffers ..)";
    "QuicConnection._push_crypto_data: self._crypto_buffers.items()";
    "QuicConnection._push_crypto_data: self._crypto_streams[epoch]";
    "QuicConnection._update_traffic_key: self._cryptos[epoch]";
    "QuicConnection._write_application: self._cryptos[tls.Epoch.ONE_RTT]";
    "QuicConnection._write_application: self._cryptos[tls.Epoch.ONE_RTT]";
    "QuicConnection._write_application: self._crypto_streams[tls.Epoch.ONE_RTT]";
    "QuicConnection._write_application: self._cryptos[tls.Epoch.ZERO_RTT]";
    "QuicConnection._write_application: self._cryptos[tls.Epoch.ZERO_RTT]";
    "QuicConnection._write_application: self._spaces[tls.Epoch.ONE_RTT]";
    "QuicConnection._write_handshake: self._cryptos[epoch]";
    "QuicConnection._write_handshake: self._crypto_streams[epoch]";
    "QuicConnection._write_handshake: self._spaces[epoch]";
    "QuicConnection._write_handshake: self._cryptos[tls.Epoch.HANDSHAKE]"]);
  ("calls of _initialize / _discard_epoch / _push_crypto_data / _close_end", [
    "QuicConnection.datagrams_to_send: self._discard_epoch(tls.Epoch.INITIAL)";
    "QuicConnection.handle_timer: self._close_end()";
    "QuicConnection.receive_datagram: self._initialize(header.destination_cid)";
    "QuicConnection.receive_datagram: self._discard_epoch(tls.Epoch.INITIAL)";
    "QuicConnection._close_end: self._discard_epoch(epoch)";
    "QuicConnection._connect: self._initialize(self._peer_cid.cid)";
    "QuicConnection._connect: self._push_crypto_data()";
    "QuicConnection._handle_crypto_frame: self._push_crypto_data()";
    "QuicConnection._handle_crypto_frame: self._discard_epoch(tls.Epoch.HANDSHAKE)";
    "QuicConnection._handle_handshake_done_frame: self._discard_epoch(tls.Epoch.HANDSHAKE)";
    "QuicConnection._receive_version_negotiation_packet: self._close_end()"])
].
Close Scope string_scope.
