(* Model of push_ack_frame / pull_ack_frame (src/aioquic/quic/packet.py) over the RangeSet model. *)
From AQ Require Import lib.Base lib.Tok model.Codec model.Varint model.RangeSet.

(* the `while index > 0` loop; [d] = the ranges below the current one, highest first *)
Fixpoint push_ack_ranges (start : Z) (d : rs) : list chunk :=
  match d with
  | [] => []
  | (s, e) :: d' =>
      push_uint_var (start - e - 1) :: push_uint_var (e - s - 1) :: push_ack_ranges s d'
  end.

Definition push_ack_frame (l : rs) (delay : Z) : list chunk :=
  match rev l with
  | [] => [Err E_INDEX]                          (* rangeset[-1] of an empty RangeSet *)
  | (s, e) :: d =>
      push_uint_var (e - 1) :: push_uint_var delay :: push_uint_var (Zlen l - 1) ::
      push_uint_var (e - 1 - s) :: push_ack_ranges s d
  end.

(* rangeset.add(start, stop) with its `assert stop > start` *)
Definition rs_add_checked (start stop : Z) (l : rs) : Res rs :=
  if stop >? start then Ok (add start stop l) else Err E_ASSERT.

(* `for _ in range(ack_range_count)`: every iteration pulls at least two bytes, so the number of
   remaining bytes bounds the number of iterations that can complete; with no fuel left the
   buffer is empty and the next pull raises BufferReadError. *)
Fixpoint pull_ack_ranges (fuel : nat) (count end_ : Z) (acc : rs) (bs : list Z) : Res (rs * list Z) :=
  if count <=? 0 then Ok (acc, bs) else
  match fuel with
  | O => Err E_READ
  | S fuel' =>
      '(gap, bs1) <- pull_uint_var bs ;;
      let end1 := end_ - (gap + 2) in
      '(cnt, bs2) <- pull_uint_var bs1 ;;
      acc' <- rs_add_checked (end1 - cnt) (end1 + 1) acc ;;
      pull_ack_ranges fuel' (count - 1) (end1 - cnt) acc' bs2
  end.

Definition pull_ack_frame (bs : list Z) : Res ((rs * Z) * list Z) :=
  '(end_, bs1) <- pull_uint_var bs ;;
  '(delay, bs2) <- pull_uint_var bs1 ;;
  '(count, bs3) <- pull_uint_var bs2 ;;
  '(first, bs4) <- pull_uint_var bs3 ;;
  acc <- rs_add_checked (end_ - first) (end_ + 1) [] ;;
  '(l, rest) <- pull_ack_ranges (length bs4) count (end_ - first) acc bs4 ;;
  Ok ((l, delay), rest).

(* well-formed range sets: ascending, non-empty ranges inside [lo, hi), separated by gaps >= 1
   (what RangeSet.add maintains) *)
Fixpoint asc (lo : Z) (l : rs) (hi : Z) : bool :=
  match l with
  | [] => true
  | (s, e) :: t => (lo <=? s) && (s <? e) && (e <=? hi) && asc (e + 1) t hi
  end.

Definition ack_wf (l : rs) : bool :=
  match l with [] => false | _ => asc 0 l (2 ^ 62) end.

(* ---------- executable interface -------------------------------------------------------
     0 cap delay n s1 e1 .. sn en    push_ack_frame into an empty Buffer(capacity=cap)
     1 n b1..bn                      pull_ack_frame on the bytes
   output: status, then bytes / (delay, ranges, consumed) *)
Fixpoint tk_ranges (n : nat) (t : list Z) : rs :=
  match n, t with
  | S n', s :: e :: t' => (s, e) :: tk_ranges n' t'
  | _, _ => []
  end.

Definition exec_ack (toks : list Z) : list Z :=
  match toks with
  | 0 :: cap :: delay :: n :: t =>
      let l := tk_ranges (Z.to_nat n) t in
      out_res out_bytes (w_chunks cap [] (push_ack_frame l delay))
  | 1 :: t =>
      let '(bs, _) := tk_list t in
      out_res (fun r => let '((l, delay), rest) := r in delay :: dump l ++ [Zlen bs - Zlen rest])
              (pull_ack_frame bs)
  | _ => []
  end.
(* EXTRACT: exec_ack *)
