(* Model of QUIC packet protection as implemented by src/aioquic/_crypto.c (AEAD nonce,
   HeaderProtection_apply / _remove) and src/aioquic/quic/crypto.py (CryptoContext.encrypt_packet /
   decrypt_packet incl. key-phase selection).  The cryptographic primitives are Section variables
   (DESIGN.md 3.4): maskf = header-protection mask of a 16-byte sample, seal/open_ = AEAD,
   next_ctx = next_key_phase (HKDF).  No proofs in this file. *)
From AQ Require Import lib.Base lib.Tok model.PacketNumber.

Definition byte_at (l : list Z) (i : Z) : Z := nth (Z.to_nat i) l 0.

(* a[i] ^= m[i] for i < |m| (and i < |a|); the rest of a is unchanged *)
Fixpoint xor_list (a m : list Z) : list Z :=
  match a, m with
  | x :: a', y :: m' => Z.lxor x y :: xor_list a' m'
  | _, _ => a
  end.

(* buffer[off + i] ^= m[i] *)
Definition xor_at (buf : list Z) (off : Z) (m : list Z) : list Z :=
  ztake off buf ++ xor_list (zdrop off buf) m.

(* if (buffer[0] & 0x80) mask 0x0F else mask 0x1F *)
Definition first_mask (b0 : Z) : Z := if Z.land b0 128 =? 0 then 31 else 15.

(* mask[1 .. 1+pnl) ; the C mask buffer always has 31 bytes, absent entries read as 0 here *)
Definition pn_mask (m : list Z) (pnl : Z) : list Z :=
  ztake pnl [byte_at m 1; byte_at m 2; byte_at m 3; byte_at m 4].

(* pn_truncated = buffer[..] | (pn_truncated << 8) *)
Fixpoint be_int_acc (acc : Z) (l : list Z) : Z :=
  match l with
  | [] => acc
  | b :: t => be_int_acc (Z.lor b (Z.shiftl acc 8)) t
  end.
Definition be_int (l : list Z) : Z := be_int_acc 0 l.

(* Py_BuildValue("y#i", ..., pn_truncated) with uint32_t pn_truncated: the value is converted as a
   C int, i.e. values >= 2^31 come out negative.  Modelled as it is. *)
Definition as_c_int (v : Z) : Z := if v >=? 2147483648 then v - 4294967296 else v.

(* nonce: memcpy(nonce, iv, 12); nonce[11 - i] ^= (uint8_t)(pn >> 8*i) for i < 8.
   pn is parsed with format "K" (unsigned long long, no overflow check: reduced modulo 2^64). *)
Definition pn_bytes8 (pn : Z) : list Z :=
  map (fun i => Z.land (Z.shiftr (pn mod 18446744073709551616) (8 * i)) 255) [7; 6; 5; 4; 3; 2; 1; 0].
Definition nonce (iv : list Z) (pn : Z) : list Z := xor_at iv 4 (pn_bytes8 pn).

Definition PACKET_LENGTH_MAX : Z := 1500.
Definition AEAD_TAG_LENGTH : Z := 16.

Section Oracles.
  Variable K : Type.                                    (* key material *)
  Variable maskf : K -> list Z -> list Z.               (* hp key -> 16-byte sample -> mask bytes *)
  Variable seal : K -> list Z -> list Z -> list Z -> list Z.            (* key nonce ad plaintext *)
  Variable open_ : K -> list Z -> list Z -> list Z -> option (list Z).  (* key nonce ad ciphertext *)

  (* HeaderProtection_apply(header, payload) *)
  Definition hp_apply (hp : K) (hdr payload : list Z) : list Z :=
    let pnl := Z.land (byte_at hdr 0) 3 + 1 in
    let pn_off := Zlen hdr - pnl in
    let m := maskf hp (ztake 16 (zdrop (4 - pnl) payload)) in
    let buf := hdr ++ payload in
    let buf := xor_at buf 0 [Z.land (byte_at m 0) (first_mask (byte_at buf 0))] in
    xor_at buf pn_off (pn_mask m pnl).

  (* HeaderProtection_remove(packet, pn_offset) -> (plain header, truncated pn as C int) *)
  Definition hp_remove_raw (hp : K) (pkt : list Z) (pn_off : Z) : list Z * Z :=
    let m := maskf hp (ztake 16 (zdrop (pn_off + 4) pkt)) in
    let buf := ztake (pn_off + 4) pkt in
    let buf := xor_at buf 0 [Z.land (byte_at m 0) (first_mask (byte_at buf 0))] in
    let pnl := Z.land (byte_at buf 0) 3 + 1 in
    let buf := xor_at buf pn_off (pn_mask m pnl) in
    (ztake (pn_off + pnl) buf, be_int (ztake pnl (zdrop pn_off buf))).

  (* conv = how the uint32_t pn_truncated reaches Python: as_c_int on the pinned tree ("i" format) *)
  Definition hp_remove_conv (conv : Z -> Z) (hp : K) (pkt : list Z) (pn_off : Z) : list Z * Z :=
    let '(h, t) := hp_remove_raw hp pkt pn_off in (h, conv t).
  Definition hp_remove : K -> list Z -> Z -> list Z * Z := hp_remove_conv as_c_int.

  (* CryptoContext: aead key, iv, hp key, key phase *)
  Record cctx := mkCtx { c_key : K; c_iv : list Z; c_hp : K; c_phase : Z }.
  Variable next_ctx : cctx -> cctx.                     (* next_key_phase *)

  (* AEAD.encrypt: None = CryptoError("Invalid payload length") *)
  Definition aead_encrypt (cx : cctx) (data ad : list Z) (pn : Z) : option (list Z) :=
    if Zlen data >? PACKET_LENGTH_MAX then None
    else Some (seal (c_key cx) (nonce (c_iv cx) pn) ad data).

  (* AEAD.decrypt: None = CryptoError *)
  Definition aead_decrypt (cx : cctx) (data ad : list Z) (pn : Z) : option (list Z) :=
    if (Zlen data <? AEAD_TAG_LENGTH) || (Zlen data >? PACKET_LENGTH_MAX) then None
    else open_ (c_key cx) (nonce (c_iv cx) pn) ad data.

  (* CryptoContext.encrypt_packet *)
  Definition encrypt_packet (cx : cctx) (hdr payload : list Z) (pn : Z) : option (list Z) :=
    match aead_encrypt cx payload hdr pn with
    | Some ct => Some (hp_apply (c_hp cx) hdr ct)
    | None => None
    end.

  (* which context decrypts a packet whose unprotected first byte is [first] *)
  Definition select_ctx (cx : cctx) (first : Z) : cctx * bool :=
    if negb (Z.land first 128 =? 0) then (cx, false)
    else if Z.shiftr (Z.land first 4) 2 =? c_phase cx then (cx, false)
    else (next_ctx cx, true).

  (* CryptoContext.decrypt_packet -> (plain_header, payload, packet_number, key_updated) *)
  Definition decrypt_packet_conv (conv : Z -> Z) (cx : cctx) (pkt : list Z) (enc_off expected : Z)
    : option (list Z * list Z * Z * bool) :=
    let '(hdr, tpn) := hp_remove_conv conv (c_hp cx) pkt enc_off in
    let first := byte_at hdr 0 in
    let pnl := Z.land first 3 + 1 in
    let pn := decode_packet_number tpn (pnl * 8) expected in
    let '(cr, upd) := select_ctx cx first in
    match aead_decrypt cr (zdrop (Zlen hdr) pkt) hdr pn with
    | Some p => Some (hdr, p, pn, upd)
    | None => None
    end.
  Definition decrypt_packet : cctx -> list Z -> Z -> Z -> option (list Z * list Z * Z * bool) :=
    decrypt_packet_conv as_c_int.
End Oracles.

(* Retry integrity: pseudo packet = len(odcid) || odcid || retry packet without tag (packet.py
   get_retry_integrity_tag); the tag is AES-128-GCM(key_v, nonce_v, ad = pseudo, pt = "") *)
Definition retry_pseudo (odcid pkt_wo_tag : list Z) : list Z := Zlen odcid :: odcid ++ pkt_wo_tag.

(* ---------- executable interface -----------------------------------------------------------
   The oracles are supplied as tables computed by the harness with the real primitives:
     tab  = n  (key-list value-list)*n          lists are length-prefixed
   mask table:  key = sample                      value = mask bytes
   seal table:  key = kid :: len-prefixed nonce ++ len-prefixed ad ++ len-prefixed pt   value = ct
   open table:  same key with ct                  value = [] (reject) or 1 :: pt
   ops:
     1 hdr payload masktab                        -> hp_apply
     2 pkt pn_off masktab                         -> hdr, truncated pn (as C int)
     12 / 15 = ops 2 / 5 for a tree in which the truncated pn is returned unsigned ("I" format);
              the harness probes the implementation and picks the variant (docs/C02.md)
     3 iv pn                                      -> nonce
     4 hdr payload pn iv masktab sealtab          -> 0 | 1 packet
     5 pkt enc_off expected phase iv iv_next masktab opentab -> 0 | 1 hdr payload pn updated *)
Fixpoint list_eqb (a b : list Z) : bool :=
  match a, b with
  | [], [] => true
  | x :: a', y :: b' => (x =? y) && list_eqb a' b'
  | _, _ => false
  end.

Fixpoint lookup (k : list Z) (tab : list (list Z * list Z)) : option (list Z) :=
  match tab with
  | [] => None
  | (k', v) :: t => if list_eqb k k' then Some v else lookup k t
  end.

Fixpoint tk_tab_n (n : nat) (toks : list Z) : list (list Z * list Z) * list Z :=
  match n with
  | O => ([], toks)
  | S n' =>
      let '(k, t1) := tk_list toks in
      let '(v, t2) := tk_list t1 in
      let '(rest, t3) := tk_tab_n n' t2 in
      ((k, v) :: rest, t3)
  end.
Definition tk_tab (toks : list Z) : list (list Z * list Z) * list Z :=
  match toks with
  | n :: t => tk_tab_n (Z.to_nat n) t
  | [] => ([], [])
  end.

Definition tab_mask (tab : list (list Z * list Z)) (_ : Z) (sample : list Z) : list Z :=
  match lookup sample tab with Some m => m | None => [] end.
Definition tab_key (kid : Z) (n ad d : list Z) : list Z := kid :: out_list n ++ out_list ad ++ out_list d.
Definition tab_seal (tab : list (list Z * list Z)) (kid : Z) (n ad pt : list Z) : list Z :=
  match lookup (tab_key kid n ad pt) tab with Some c => c | None => [] end.
Definition tab_open (tab : list (list Z * list Z)) (kid : Z) (n ad ct : list Z) : option (list Z) :=
  match lookup (tab_key kid n ad ct) tab with Some (1 :: p) => Some p | _ => None end.

(* EXTRACT: exec_protect *)
Definition exec_protect (toks : list Z) : list Z :=
  match toks with
  | 1 :: t =>
      let '(hdr, t) := tk_list t in
      let '(payload, t) := tk_list t in
      let '(mt, _) := tk_tab t in
      out_list (hp_apply Z (tab_mask mt) 0 hdr payload)
  | 2 :: t =>
      let '(pkt, t) := tk_list t in
      match t with
      | pn_off :: t =>
          let '(mt, _) := tk_tab t in
          let '(h, tpn) := hp_remove Z (tab_mask mt) 0 pkt pn_off in
          out_list h ++ [tpn]
      | _ => []
      end
  | 12 :: t =>
      let '(pkt, t) := tk_list t in
      match t with
      | pn_off :: t =>
          let '(mt, _) := tk_tab t in
          let '(h, tpn) := hp_remove_conv Z (tab_mask mt) (fun v => v) 0 pkt pn_off in
          out_list h ++ [tpn]
      | _ => []
      end
  | 3 :: t =>
      let '(iv, t) := tk_list t in
      match t with pn :: _ => out_list (nonce iv pn) | _ => [] end
  | 4 :: t =>
      let '(hdr, t) := tk_list t in
      let '(payload, t) := tk_list t in
      match t with
      | pn :: t =>
          let '(iv, t) := tk_list t in
          let '(mt, t) := tk_tab t in
          let '(st, _) := tk_tab t in
          match encrypt_packet Z (tab_mask mt) (tab_seal st) (mkCtx Z 0 iv 0 0) hdr payload pn with
          | Some p => 1 :: out_list p
          | None => [0]
          end
      | _ => []
      end
  | 5 :: t =>
      let '(pkt, t) := tk_list t in
      match t with
      | enc_off :: expected :: phase :: t =>
          let '(iv, t) := tk_list t in
          let '(iv_next, t) := tk_list t in
          let '(mt, t) := tk_tab t in
          let '(ot, _) := tk_tab t in
          let cx := mkCtx Z 0 iv 0 phase in
          let nx := fun _ : cctx Z => mkCtx Z 1 iv_next 0 (1 - phase) in
          match decrypt_packet Z (tab_mask mt) (tab_open ot) nx cx pkt enc_off expected with
          | Some (h, p, pn, upd) => 1 :: out_list h ++ out_list p ++ [pn; b2z upd]
          | None => [0]
          end
      | _ => []
      end
  | 15 :: t =>
      let '(pkt, t) := tk_list t in
      match t with
      | enc_off :: expected :: phase :: t =>
          let '(iv, t) := tk_list t in
          let '(iv_next, t) := tk_list t in
          let '(mt, t) := tk_tab t in
          let '(ot, _) := tk_tab t in
          let cx := mkCtx Z 0 iv 0 phase in
          let nx := fun _ : cctx Z => mkCtx Z 1 iv_next 0 (1 - phase) in
          match decrypt_packet_conv Z (tab_mask mt) (tab_open ot) nx (fun v => v) cx pkt enc_off expected with
          | Some (h, p, pn, upd) => 1 :: out_list h ++ out_list p ++ [pn; b2z upd]
          | None => [0]
          end
      | _ => []
      end
  | _ => []
  end.
