(* C01: NetSys + connection-level flow control.

   model/NetSys.v has no flow control: NEmit takes its caps from the schedule.  This extension adds what
   src/aioquic/quic/connection.py puts around one stream direction:

   sender   _remote_max_data / _remote_max_data_used  ([f_max] / [f_used]).  _write_application calls
            _write_stream_frame(max_offset = min(BASE + _remote_max_data - _remote_max_data_used,
            stream.max_stream_data_remote)) and adds the growth of sender.highest_offset to
            _remote_max_data_used.  BASE is [sender.highest_offset] in the source ([BaseHighest]); the variant
            that takes [sender.next_offset] ([BaseNext]) is modelled as well: it asks for connection credit to
            RE-send bytes that were charged when they were first sent (proofs/NetSysFCP.v refutes liveness for it).
            Which of the two the tree under test contains is read from the source by tools/gen/c01_consts.py
            (gen/C01Consts.v, [code_fc_base]).
   receiver _local_max_data.value / .used ([f_lval] / [f_lused]): _handle_stream_frame refuses a frame with
            used + newly_received > value (FLOW_CONTROL_ERROR closes the connection), newly_received =
            max(0, frame end - receiver.highest_offset); _write_connection_limits doubles value when
            used * 2 > value and advertises it in a MAX_DATA frame ([FRaise]; [f_adv] = every value ever
            advertised, the initial transport parameter included; a lost MAX_DATA frame is re-sent with the
            current value, so "which values can reach the sender, in any order, any number of times" is the set);
   sender   _handle_max_data_frame: _remote_max_data = max(_remote_max_data, v) ([FMaxData v], v advertised).

   One stream, so the connection credit is this stream's alone; the stream-level limit (max_stream_data_remote,
   an ABSOLUTE offset, the same for both bases) is taken as not binding.  No proofs in this file. *)
From AQ Require Import lib.Base lib.Tok model.RangeSet model.StreamRecv model.StreamSend model.NetSys model.NetSysLive.

Inductive fcbase := BaseHighest | BaseNext.

Record fc := mkFC {
  f_net : net;
  f_max : Z;          (* sender: _remote_max_data *)
  f_used : Z;         (* sender: _remote_max_data_used *)
  f_lval : Z;         (* receiver: _local_max_data.value *)
  f_lused : Z;        (* receiver: _local_max_data.used *)
  f_adv : list Z      (* MAX_DATA values advertised so far (initial_max_data first) *)
}.

(* both ends start from the receiver's initial_max_data = w *)
Definition fc_init (w : Z) : fc := mkFC net_init w 0 w 0 [w].

Definition base_off (b : fcbase) (st : send) : Z :=
  match b with BaseHighest => s_highest st | BaseNext => next_offset st end.

(* the max_offset handed to _write_stream_frame *)
Definition fc_max_offset (b : fcbase) (s : fc) : Z := base_off b (n_send (f_net s)) + f_max s - f_used s.

Inductive fop :=
| FWrite (d : list Z) (fin : bool)
| FEmit (ms : Z)                  (* one _write_stream_frame call of the stream loop, packet room ms *)
| FDeliver (i : Z)
| FOutcome (i : Z) (acked : bool)
| FRaise                          (* receiver: _write_connection_limits *)
| FMaxData (v : Z)                (* sender: a MAX_DATA frame with an advertised value arrives *)
| FPop.

Inductive fres :=
| FOk (o : nout)
| FFlowControlError.              (* connection closed with FLOW_CONTROL_ERROR *)

Definition with_net (s : fc) (n : net) : fc := mkFC n (f_max s) (f_used s) (f_lval s) (f_lused s) (f_adv s).

Definition lift_net (s : fc) (r : option (nout * net)) : option (fres * fc) :=
  match r with Some (o, n') => Some (FOk o, with_net s n') | None => None end.

Definition raised (s : fc) : Z := if f_lused s * 2 >? f_lval s then f_lval s * 2 else f_lval s.

Definition fc_step (b : fcbase) (s : fc) (op : fop) : option (fres * fc) :=
  let n := f_net s in
  match op with
  | FWrite d fin => lift_net s (net_step n (NWrite d fin))
  | FEmit ms =>
      match net_step n (NEmit ms (Some (fc_max_offset b s))) with
      | Some (o, n') =>
          Some (FOk o, mkFC n' (f_max s) (f_used s + (s_highest (n_send n') - s_highest (n_send n)))
                           (f_lval s) (f_lused s) (f_adv s))
      | None => None
      end
  | FDeliver i =>
      match nthE (n_emitted n) i with
      | Some f =>
          let newly := Z.max 0 (ef_off f + Zlen (ef_data f) - r_highest (n_recv n)) in
          if f_lused s + newly >? f_lval s then Some (FFlowControlError, s) else
          match net_step n (NDeliver i) with
          | Some (OFinalSizeError, _) => Some (FOk OFinalSizeError, s)
          | Some (o, n') => Some (FOk o, mkFC n' (f_max s) (f_used s) (f_lval s) (f_lused s + newly) (f_adv s))
          | None => None
          end
      | None => None
      end
  | FOutcome i a => lift_net s (net_step n (NOutcome i a))
  | FRaise =>
      Some (FOk ONone,
            mkFC n (f_max s) (f_used s) (raised s) (f_lused s)
                 (if f_lused s * 2 >? f_lval s then f_adv s ++ [raised s] else f_adv s))
  | FMaxData v =>
      if existsb (Z.eqb v) (f_adv s) then
        Some (FOk ONone, mkFC n (if v >? f_max s then v else f_max s) (f_used s) (f_lval s) (f_lused s) (f_adv s))
      else None
  | FPop => lift_net s (net_step n NPop)
  end.

(* run a schedule: None when a step is not enabled or closes the connection (FLOW_CONTROL_ERROR, FINAL_SIZE_ERROR) *)
Fixpoint run_fc (b : fcbase) (s : fc) (ops : list fop) : option fc :=
  match ops with
  | [] => Some s
  | op :: t =>
      match fc_step b s op with
      | Some (FOk OFinalSizeError, _) => None
      | Some (FOk _, s') => run_fc b s' t
      | _ => None
      end
  end.

(* ---------- the completing continuation under flow control ----------
   phase A as in NetSysLive.complete: LOST for every frame without outcome;
   phase B, per round: the receiver raises its limit if its rule says so, the sender learns the current limit,
   emits one frame (packet room ms, max_offset as the code computes it), the frame is delivered and acknowledged. *)
Definition fc_lose_all (s : fc) : list fop :=
  map (fun op => match op with NOutcome i a => FOutcome i a | _ => FPop end) (lose_all (f_net s)).

Definition fc_round (ms : Z) (s : fc) : list fop :=
  let k := Zlen (n_emitted (f_net s)) in
  [FRaise; FMaxData (raised s); FEmit ms; FDeliver k; FOutcome k true].

Definition fc_idle (s : fc) : bool :=
  match s_pending (n_send (f_net s)) with [] => negb (s_pending_eof (n_send (f_net s))) | _ => false end.

Fixpoint fc_pump (fuel : nat) (b : fcbase) (ms : Z) (s : fc) : list fop :=
  match fuel with
  | O => []
  | S fuel =>
      if fc_idle s then [] else
      match run_fc b s (fc_round ms s) with
      | Some s' => fc_round ms s ++ fc_pump fuel b ms s'
      | None => []
      end
  end.

Fixpoint pbytes (l : rs) : Z := match l with [] => 0 | (a, b) :: t => (b - a) + pbytes t end.

Definition fc_complete (b : fcbase) (ms : Z) (s : fc) : list fop :=
  match run_fc b s (fc_lose_all s) with
  | Some s1 => fc_lose_all s ++ fc_pump (Z.to_nat (pbytes (s_pending (n_send (f_net s1))) + 1)) b ms s1
  | None => fc_lose_all s
  end.

(* ---------- executable interface ---------------------------------------------------
   input: base (0 = highest_offset, 1 = next_offset), w, then ops:
        0 fin n bytes = Write ; 1 ms = Emit ; 2 i = Deliver ; 3 i acked = Outcome ; 4 = Raise ; 5 v = MaxData ; 8 = Pop
        6 ms = run [fc_complete base ms] from here and stop
   out per op: 9 = not enabled, 3 = FLOW_CONTROL_ERROR, else as exec_netsys; after every op: credit = f_max - f_used,
        f_lval, f_lused;   for op 6: the number of steps of the continuation, then 1 if it ran to a state with
        everything reported (and is_finished iff a FIN was written) else 0 *)
Fixpoint zlist_eqb (a b : list Z) : bool :=
  match a, b with
  | [], [] => true
  | x :: a', y :: b' => (x =? y) && zlist_eqb a' b'
  | _, _ => false
  end.

Definition fc_done (s : fc) : bool :=
  let n := f_net s in
  zlist_eqb (n_dbytes n) (n_written n) &&
  (match s_fin (n_send n) with Some _ => (n_ends n =? 1) && s_finished (n_send n) | None => n_ends n =? 0 end).

Definition base_of (z : Z) : fcbase := if z =? 0 then BaseHighest else BaseNext.

Fixpoint exec_fc (fuel : nat) (b : fcbase) (s : fc) (ops : list Z) : list Z :=
  match fuel with O => [] | S fuel =>
  let obs (s : fc) := [f_max s - f_used s; f_lval s; f_lused s] in
  let k (r : option (fres * fc)) (t : list Z) :=
    match r with
    | Some (FOk o, s') => out_nout o ++ obs s' ++ exec_fc fuel b s' t
    | Some (FFlowControlError, s') => 3 :: obs s' ++ exec_fc fuel b s' t
    | None => 9 :: obs s ++ exec_fc fuel b s t
    end in
  match ops with
  | 0 :: fin :: t => let '(d, t) := tk_list t in k (fc_step b s (FWrite d (z2b fin))) t
  | 1 :: ms :: t => k (fc_step b s (FEmit ms)) t
  | 2 :: i :: t => k (fc_step b s (FDeliver i)) t
  | 3 :: i :: a :: t => k (fc_step b s (FOutcome i (z2b a))) t
  | 4 :: t => k (fc_step b s FRaise) t
  | 5 :: v :: t => k (fc_step b s (FMaxData v)) t
  | 8 :: t => k (fc_step b s FPop) t
  | 6 :: ms :: _ =>
      let c := fc_complete b ms s in
      [Zlen c; match run_fc b s c with Some s' => b2z (fc_done s') | None => 0 end]
  | _ => []
  end end.

(* EXTRACT: exec_netsys_fc *)
Definition exec_netsys_fc (toks : list Z) : list Z :=
  match toks with
  | b :: w :: ops => exec_fc (length ops) (base_of b) (fc_init w) ops
  | _ => []
  end.
