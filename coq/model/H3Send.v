(* Model of the SENDING API of aioquic.h3.connection.H3Connection: send_headers, send_data, send_push_promise
   (frame encoding = varint type + varint length + payload: encode_frame of model/H3Parse.v).

   What is observed: the calls self._quic.send_stream_data(stream_id, data, end_stream) in order (including the
   encoder-stream write of _encode_headers, also when it is empty), the value returned by send_push_promise, and the
   exception class raised to the caller.  pylsqpack.Encoder.encode is an oracle: (stream id, header list id) ->
   (encoder-stream bytes, header block).

   Scope: the sending half of H3Stream (headers_send_state, sending_ended).  The exit of _get_or_create_stream can drop a
   stream whose two directions have ended (a later send on that id would start from a new H3Stream); the model is of an
   endpoint whose receiving side of these streams has not ended, where that never happens. *)
From AQ Require Import lib.Base lib.Tok model.H3Parse.

Record sstream := mkSS { ss_id : Z; ss_hstate : Z (* headers_send_state 0 / 1 / 2 *); ss_ended : bool (* sending_ended *) }.

Record sconn := mkSC {
  sc_client : bool;
  sc_streams : list sstream;
  sc_next_push : Z;              (* _next_push_id *)
  sc_max_push : option Z;        (* _max_push_id *)
  sc_next_uni : Z;               (* what quic.get_next_available_stream_id(is_unidirectional=True) returns next *)
  sc_enc : Z                     (* _local_encoder_stream_id *)
}.

(* after _init_connection: control, encoder, decoder streams are the first three unidirectional streams *)
Definition sconn_init (client : bool) (max_push : option Z) : sconn :=
  if client then mkSC true [] 0 max_push 14 6 else mkSC false [] 0 max_push 15 7.

Fixpoint sfind (sid : Z) (l : list sstream) : option sstream :=
  match l with [] => None | s :: t => if ss_id s =? sid then Some s else sfind sid t end.
Fixpoint sput (s : sstream) (l : list sstream) : list sstream :=
  match l with [] => [s] | x :: t => if ss_id x =? ss_id s then s :: t else x :: sput s t end.
Definition sget (c : sconn) (sid : Z) : sstream :=
  match sfind sid (sc_streams c) with Some s => s | None => mkSS sid 0 false end.
Definition sset (c : sconn) (s : sstream) : sconn :=
  mkSC (sc_client c) (sput s (sc_streams c)) (sc_next_push c) (sc_max_push c) (sc_next_uni c) (sc_enc c).

Definition write := (Z * list Z * bool)%type.      (* stream id, data, end_stream *)

Inductive sres :=
| SOk (ws : list write) (ret : option Z)
| SRaise (k : Z).
Definition E_FRAME_UNEXPECTED := 1.     (* FrameUnexpected raised to the caller *)
Definition E_NO_PUSH_ID := 2.           (* NoAvailablePushIDError *)
Definition E_STREAM_TYPE := 3.          (* InvalidStreamTypeError *)
Definition E_ASSERT := 4.               (* AssertionError: only servers may send a push promise *)

(* send_headers(stream_id, headers, end_stream); (encb, block) = Encoder.encode(stream_id, headers).
   The stream object is created (and stays) even when the call raises. *)
Definition send_headers (c : sconn) (sid : Z) (encb block : list Z) (fin : bool) : sres * sconn :=
  let s := sget c sid in
  let c0 := sset c s in
  if ss_hstate s =? 2 then (SRaise E_FRAME_UNEXPECTED, c0) else
  if fin && ss_ended s then (SRaise E_FRAME_UNEXPECTED, c0) else
  let s1 := mkSS sid (if ss_hstate s =? 0 then 1 else 2) (ss_ended s || fin) in
  (SOk [(sc_enc c, encb, false); (sid, encode_frame 1 block, fin)] None, sset c s1).

(* send_data(stream_id, data, end_stream) *)
Definition send_data (c : sconn) (sid : Z) (d : list Z) (fin : bool) : sres * sconn :=
  let s := sget c sid in
  let c0 := sset c s in
  if negb (ss_hstate s =? 1) then (SRaise E_FRAME_UNEXPECTED, c0) else
  if fin && ss_ended s then (SRaise E_FRAME_UNEXPECTED, c0) else
  (SOk [(sid, encode_frame 0 d, fin)] None, sset c (mkSS sid (ss_hstate s) (ss_ended s || fin))).

(* send_push_promise(stream_id, headers): returns the id of the new push stream *)
Definition send_push_promise (c : sconn) (sid : Z) (encb block : list Z) : sres * sconn :=
  if sc_client c then (SRaise E_ASSERT, c) else
  if negb (sid mod 4 =? 0) then (SRaise E_STREAM_TYPE, c) else
  match sc_max_push c with
  | None => (SRaise E_NO_PUSH_ID, c)
  | Some m =>
      if sc_next_push c >=? m then (SRaise E_NO_PUSH_ID, c) else
      let pid := sc_next_push c in
      let psid := sc_next_uni c in
      (SOk [(sc_enc c, encb, false);
            (sid, encode_frame 5 (encode_uint_var pid ++ block), false);
            (psid, encode_uint_var 1, false);
            (psid, encode_uint_var pid, false)] (Some psid),
       mkSC false (sc_streams c) (pid + 1) (sc_max_push c) (psid + 4) (sc_enc c))
  end.

Inductive sop :=
| OHeaders (sid : Z) (encb block : list Z) (fin : bool)
| OData (sid : Z) (d : list Z) (fin : bool)
| OPush (sid : Z) (encb block : list Z).

Definition sstep (c : sconn) (o : sop) : sres * sconn :=
  match o with
  | OHeaders sid e b f => send_headers c sid e b f
  | OData sid d f => send_data c sid d f
  | OPush sid e b => send_push_promise c sid e b
  end.

(* all writes of a sequence of calls, in order (calls that raise write nothing) *)
Fixpoint swrites (c : sconn) (ops : list sop) : list write :=
  match ops with
  | [] => []
  | o :: t => let '(r, c') := sstep c o in (match r with SOk ws _ => ws | SRaise _ => [] end) ++ swrites c' t
  end.

(* the bytes one stream receives, and whether it was ended *)
Definition stream_bytes (sid : Z) (ws : list write) : list Z :=
  flat_map (fun w => let '(s, d, _) := w in if s =? sid then d else []) ws.
Definition stream_fin (sid : Z) (ws : list write) : bool :=
  existsb (fun w => let '(s, _, f) := w in (s =? sid) && f) ws.

(* ---------------------------------------------------------------- executable interface
   tokens: client max_push_opt, then ops:
     0 sid fin <encb> <block>     send_headers
     1 sid fin <bytes>            send_data
     2 sid <encb> <block>         send_push_promise
   output per op: 0 nwrites (sid fin <bytes>)* ret_opt | 1 k *)
Definition out_write (w : write) : list Z := let '(s, d, f) := w in s :: b2z f :: out_list d.
Definition out_sres (r : sres) : list Z :=
  match r with
  | SOk ws ret => 0 :: Zlen ws :: flat_map out_write ws ++ out_opt ret
  | SRaise k => [1; k]
  end.

Fixpoint exec_send_ops (fuel : nat) (c : sconn) (t : list Z) : list Z :=
  match fuel with O => [] | S fuel =>
  match t with
  | 0 :: sid :: fin :: t =>
      let '(e, t) := tk_list t in let '(b, t) := tk_list t in
      let '(r, c') := send_headers c sid e b (z2b fin) in out_sres r ++ exec_send_ops fuel c' t
  | 1 :: sid :: fin :: t =>
      let '(d, t) := tk_list t in
      let '(r, c') := send_data c sid d (z2b fin) in out_sres r ++ exec_send_ops fuel c' t
  | 2 :: sid :: t =>
      let '(e, t) := tk_list t in let '(b, t) := tk_list t in
      let '(r, c') := send_push_promise c sid e b in out_sres r ++ exec_send_ops fuel c' t
  | _ => []
  end end.

(* EXTRACT: exec_h3send *)
Definition exec_h3send (t : list Z) : list Z :=
  match t with
  | cl :: t => let '(mp, ops) := tk_opt t in exec_send_ops (length ops) (sconn_init (z2b cl) mp) ops
  | _ => []
  end.
