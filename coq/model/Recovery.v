(* Model of QuicPacketRecovery / QuicPacketSpace (src/aioquic/quic/recovery.py), parameterised over
   the float interface [F : fops T] and a congestion controller [cc : ccops T C].

   sent_packets is a dict: an association list in INSERTION order (the loss scan iterates in that
   order and stops at the first packet number above largest_acked_packet; the ack loop iterates over
   sorted(keys)).  Delivery handlers are modelled by the list of events they would receive:
   (space index, packet number, lost?) in invocation order. *)
From AQ Require Import lib.Base lib.Tok model.RangeSet model.RecBase model.Pacer gen.C08Consts.

Section Recovery.
Context {T C : Type} (F : fops T) (cc : ccops T C).

Record space := mkSpace {
  sp_sent : list (pkt T);        (* sent_packets, insertion order *)
  sp_aeif : Z;                   (* ack_eliciting_in_flight *)
  sp_largest_acked : Z;          (* largest_acked_packet *)
  sp_loss_time : option T        (* loss_time *)
}.

Definition space_init : space := mkSpace [] 0 0 None.

Record rec := mkRec {
  r_spaces : list space;         (* spaces *)
  r_pcav : bool;                 (* peer_completed_address_validation *)
  r_mad : T;                     (* max_ack_delay *)
  r_pto : Z;                     (* _pto_count *)
  r_rtt_initial : T;
  r_rtt_init : bool;             (* _rtt_initialized *)
  r_latest : T;
  r_min : T;
  r_smoothed : T;
  r_var : T;
  r_tlast : T;                   (* _time_of_last_sent_ack_eliciting_packet *)
  r_cc : C;
  r_pacer : pacer (T:=T);
  r_probes : Z                   (* number of send_probe() calls so far *)
}.

Definition rec_init (nspaces : nat) (initial_rtt : T) (mss : Z) (pcav : bool) (c0 : C) : rec :=
  mkRec (repeat space_init nspaces) pcav (fconstv F CMaxAckDelay0) 0 initial_rtt false
        (fofZ F 0) (fconstv F CInf) (fofZ F 0) (fofZ F 0) (fofZ F 0) c0 (pacer_init F mss) 0.

Definition ev := (nat * Z * bool)%type.   (* space index, packet number, lost (false = ACKED) *)

(* ---------- dict helpers ---------- *)
Fixpoint dict_set (p : pkt T) (l : list (pkt T)) : list (pkt T) :=
  match l with
  | [] => [p]
  | q :: t => if p_pn q =? p_pn p then p :: t else q :: dict_set p t
  end.

Fixpoint pop (k : Z) (l : list (pkt T)) : option (pkt T) * list (pkt T) :=
  match l with
  | [] => (None, [])
  | q :: t => if p_pn q =? k then (Some q, t)
              else let '(r, t') := pop k t in (r, q :: t')
  end.

Fixpoint zinsert (x : Z) (l : list Z) : list Z :=
  match l with
  | [] => [x]
  | y :: t => if x <=? y then x :: l else y :: zinsert x t
  end.
Definition zsort (l : list Z) : list Z := fold_right zinsert [] l.

Definition keys (l : list (pkt T)) : list Z := map p_pn l.

Definition flight (l : list (pkt T)) : Z :=
  fold_right (fun p a => (if p_inflight p then p_bytes p else 0) + a) 0 l.
Definition aecount (l : list (pkt T)) : Z :=
  fold_right (fun p a => b2z (p_ackel p) + a) 0 l.

Fixpoint upd_nth {A} (n : nat) (f : A -> A) (l : list A) : list A :=
  match l, n with
  | [], _ => []
  | h :: t, O => f h :: t
  | h :: t, S n => h :: upd_nth n f t
  end.

(* ---------- timers ---------- *)
Definition probe_timeout (st : rec) : T :=
  if r_rtt_init st then
    fadd F (fadd F (r_smoothed st) (pymax F (fmul F (fofZ F 4) (r_var st)) (fconstv F CGranularity))) (r_mad st)
  else fmul F (fofZ F 2) (r_rtt_initial st).

(* _get_loss_space: index and loss_time of the first space with the smallest loss_time *)
Fixpoint loss_space_from (i : nat) (l : list space) (best : option (nat * T)) : option (nat * T) :=
  match l with
  | [] => best
  | s :: t =>
      let best' :=
        match sp_loss_time s, best with
        | Some lt, None => Some (i, lt)
        | Some lt, Some (_, b) => if fltb F lt b then Some (i, lt) else best
        | None, _ => best
        end in
      loss_space_from (S i) t best'
  end.
Definition loss_space (st : rec) : option (nat * T) := loss_space_from O (r_spaces st) None.

Definition sum_aeif (l : list space) : Z := fold_right (fun s a => sp_aeif s + a) 0 l.

Definition loss_detection_time (st : rec) : option T :=
  match loss_space st with
  | Some (_, lt) => Some lt
  | None =>
      if negb (r_pcav st) || (sum_aeif (r_spaces st) >? 0) then
        Some (fadd F (r_tlast st) (fmul F (probe_timeout st) (fofZ F (2 ^ r_pto st))))
      else None
  end.

(* ---------- on_packet_sent ---------- *)
Definition space_sent (s : space) (p : pkt T) : space :=
  mkSpace (dict_set p (sp_sent s)) (if p_ackel p then sp_aeif s + 1 else sp_aeif s)
          (sp_largest_acked s) (sp_loss_time s).

Definition set_spaces_cc (st : rec) (sps : list space) (c : C) (pc : pacer) : rec :=
  mkRec sps (r_pcav st) (r_mad st) (r_pto st) (r_rtt_initial st) (r_rtt_init st) (r_latest st) (r_min st)
        (r_smoothed st) (r_var st) (r_tlast st) c pc (r_probes st).

Definition on_packet_sent (st : rec) (i : nat) (p : pkt T) : rec :=
  match nth_error (r_spaces st) i with
  | None => st          (* not a space of this recovery object: not expressible, no-op *)
  | Some _ =>
  let sps := upd_nth i (fun s => space_sent s p) (r_spaces st) in
  let tlast := if p_inflight p && p_ackel p then p_time p else r_tlast st in
  let c := if p_inflight p then cc_on_sent cc (r_cc st) p else r_cc st in
  mkRec sps (r_pcav st) (r_mad st) (r_pto st) (r_rtt_initial st) (r_rtt_init st) (r_latest st) (r_min st)
        (r_smoothed st) (r_var st) tlast c (r_pacer st) (r_probes st)
  end.

(* ---------- _on_packets_lost ---------- *)
Definition del_all (lost : list (pkt T)) (sent : list (pkt T)) : list (pkt T) :=
  fold_left (fun s p => snd (pop (p_pn p) s)) lost sent.

(* returns the new space, controller, pacer; the LOST events are [keys lost] in order *)
Definition packets_lost (s : space) (c : C) (pc : pacer) (smoothed now : T) (lost : list (pkt T))
  : space * C * pacer :=
  let s' := mkSpace (del_all lost (sp_sent s)) (sp_aeif s - aecount lost) (sp_largest_acked s) (sp_loss_time s) in
  match filter p_inflight lost with
  | [] => (s', c, pc)
  | lcc => let c' := cc_on_lost cc c now lcc in
           (s', c', update_rate F pc (cc_cwnd cc c') smoothed)
  end.

(* ---------- _detect_loss ---------- *)
Fixpoint detect_scan (la pth : Z) (tth delay : T) (l : list (pkt T)) (lt : option T)
  : list (pkt T) * option T :=
  match l with
  | [] => ([], lt)
  | p :: t =>
      if p_pn p >? la then ([], lt)
      else if (p_pn p <=? pth) || fleb F (p_time p) tth then
        let '(lost, lt') := detect_scan la pth tth delay t lt in (p :: lost, lt')
      else
        let plt := fadd F (p_time p) delay in
        let lt1 := match lt with
                   | None => Some plt
                   | Some x => if fltb F plt x then Some plt else lt
                   end in
        detect_scan la pth tth delay t lt1
  end.

Definition loss_delay (st : rec) : T :=
  fmul F (fconstv F CTimeThreshold)
       (if r_rtt_init st then pymax F (r_latest st) (r_smoothed st) else r_rtt_initial st).

Definition detect_loss (st : rec) (s : space) (c : C) (pc : pacer) (now : T)
  : space * C * pacer * list Z :=
  let delay := loss_delay st in
  let pth := sp_largest_acked s - K_PACKET_THRESHOLD in
  let tth := fsub F now delay in
  let '(lost, lt) := detect_scan (sp_largest_acked s) pth tth delay (sp_sent s) None in
  let s1 := mkSpace (sp_sent s) (sp_aeif s) (sp_largest_acked s) lt in
  let '(s2, c', pc') := packets_lost s1 c pc (r_smoothed st) now lost in
  (s2, c', pc', keys lost).

Definition lost_evs (i : nat) (pns : list Z) : list ev := map (fun k => (i, k, true)) pns.
Definition acked_evs (i : nat) (pns : list Z) : list ev := map (fun k => (i, k, false)) pns.

(* ---------- on_ack_received ---------- *)
Record ackst := mkAck {
  a_sent : list (pkt T);
  a_aeif : Z;
  a_cc : C;
  a_isae : bool;          (* is_ack_eliciting *)
  a_lna : option Z;       (* largest_newly_acked *)
  a_lst : T;              (* largest_sent_time *)
  a_evs : list Z          (* packet numbers reported ACKED, in order *)
}.

Fixpoint ack_loop (ks : list Z) (la : Z) (rsn : rs) (now : T) (a : ackst) : ackst :=
  match ks with
  | [] => a
  | k :: t =>
      if k >? la then a
      else if contains k rsn then
        match pop k (a_sent a) with
        | (Some p, sent') =>
            ack_loop t la rsn now
              (mkAck sent'
                     (if p_ackel p then a_aeif a - 1 else a_aeif a)
                     (if p_inflight p then cc_on_acked cc (a_cc a) now p else a_cc a)
                     (a_isae a || p_ackel p) (Some k) (p_time p) (a_evs a ++ [k]))
        | (None, _) => ack_loop t la rsn now a
        end
      else ack_loop t la rsn now a
  end.

(* the RTT estimator update; returns the new rec (spaces/cc/pacer untouched) and latest_rtt *)
Definition rtt_update (st : rec) (now lst ack_delay : T) : rec * T :=
  let latest_rtt := fsub F now lst in
  let ad := pymin F ack_delay (r_mad st) in
  let rl := pymax F latest_rtt (fconstv F CMinRtt) in
  let rmin := if fltb F rl (r_min st) then rl else r_min st in
  let rl := if fltb F (fadd F rmin ad) rl then fsub F rl ad else rl in
  let '(var, smoothed) :=
    if r_rtt_init st then
      (fadd F (fmul F (fdiv F (fofZ F 3) (fofZ F 4)) (r_var st))
              (fmul F (fdiv F (fofZ F 1) (fofZ F 4)) (fabs F (fsub F rmin rl))),
       fadd F (fmul F (fdiv F (fofZ F 7) (fofZ F 8)) (r_smoothed st))
              (fmul F (fdiv F (fofZ F 1) (fofZ F 8)) rl))
    else (fdiv F latest_rtt (fofZ F 2), latest_rtt) in
  (mkRec (r_spaces st) (r_pcav st) (r_mad st) (r_pto st) (r_rtt_initial st) true rl rmin smoothed var
         (r_tlast st) (r_cc st) (r_pacer st) (r_probes st), latest_rtt).

Definition set_pto (st : rec) (n : Z) : rec :=
  mkRec (r_spaces st) (r_pcav st) (r_mad st) n (r_rtt_initial st) (r_rtt_init st) (r_latest st) (r_min st)
        (r_smoothed st) (r_var st) (r_tlast st) (r_cc st) (r_pacer st) (r_probes st).

(* status: 0 = returned normally, 1 = IndexError (empty range set: ack_rangeset.bounds()) *)
Definition on_ack_received (st : rec) (i : nat) (rsn : rs) (ack_delay now : T) : rec * list ev * Z :=
  match bounds rsn, nth_error (r_spaces st) i with
  | None, _ => (st, [], 1)
  | _, None => (st, [], 0)
  | Some (_, stop), Some s =>
      let la := stop - 1 in
      let s0 := mkSpace (sp_sent s) (sp_aeif s)
                        (if la >? sp_largest_acked s then la else sp_largest_acked s) (sp_loss_time s) in
      let a := ack_loop (zsort (keys (sp_sent s0))) la rsn now
                        (mkAck (sp_sent s0) (sp_aeif s0) (r_cc st) false None (fofZ F 0) []) in
      match a_lna a with
      | None => (set_spaces_cc st (upd_nth i (fun _ => s0) (r_spaces st)) (r_cc st) (r_pacer st), [], 0)
      | Some lna =>
          let s1 := mkSpace (a_sent a) (a_aeif a) (sp_largest_acked s0) (sp_loss_time s0) in
          let '(st1, c1, pc1) :=
            if (la =? lna) && a_isae a then
              let '(st1, latest_rtt) := rtt_update st now (a_lst a) ack_delay in
              let c1 := cc_on_rtt cc (a_cc a) now latest_rtt in
              (st1, c1, update_rate F (r_pacer st) (cc_cwnd cc c1) (r_smoothed st1))
            else (st, a_cc a, r_pacer st) in
          let '(s2, c2, pc2, lost) := detect_loss st1 s1 c1 pc1 now in
          (set_pto (set_spaces_cc st1 (upd_nth i (fun _ => s2) (r_spaces st)) c2 pc2) 0,
           acked_evs i (a_evs a) ++ lost_evs i lost, 0)
      end
  end.

(* ---------- reschedule_data / on_loss_detection_timeout ---------- *)
(* `for space in self.spaces:` one space at a time, by index *)
Definition resched_one (st : rec) (i : nat) (now : T) : rec * list ev :=
  match nth_error (r_spaces st) i with
  | None => (st, [])
  | Some s =>
      match filter p_crypto (sp_sent s) with
      | [] => (st, [])
      | crypto =>
          let '(s', c, pc) := packets_lost s (r_cc st) (r_pacer st) (r_smoothed st) now crypto in
          (set_spaces_cc st (upd_nth i (fun _ => s') (r_spaces st)) c pc, lost_evs i (keys crypto))
      end
  end.

Fixpoint resched_from (n i : nat) (st : rec) (now : T) : rec * list ev :=
  match n with
  | O => (st, [])
  | S n' =>
      let '(st1, e1) := resched_one st i now in
      let '(st2, e2) := resched_from n' (S i) st1 now in
      (st2, e1 ++ e2)
  end.

Definition add_probe (st : rec) : rec :=
  mkRec (r_spaces st) (r_pcav st) (r_mad st) (r_pto st) (r_rtt_initial st) (r_rtt_init st) (r_latest st) (r_min st)
        (r_smoothed st) (r_var st) (r_tlast st) (r_cc st) (r_pacer st) (r_probes st + 1).

Definition reschedule_data (st : rec) (now : T) : rec * list ev :=
  let '(st', evs) := resched_from (length (r_spaces st)) O st now in
  (add_probe st', evs).   (* self._send_probe() *)

Definition on_loss_detection_timeout (st : rec) (now : T) : rec * list ev :=
  match loss_space st with
  | Some (i, _) =>
      match nth_error (r_spaces st) i with
      | Some s =>
          let '(s', c, pc, lost) := detect_loss st s (r_cc st) (r_pacer st) now in
          (set_spaces_cc st (upd_nth i (fun _ => s') (r_spaces st)) c pc, lost_evs i lost)
      | None => (st, [])
      end
  | None => reschedule_data (set_pto st (r_pto st + 1)) now
  end.

(* ---------- discard_space ---------- *)
Definition discard_space (st : rec) (i : nat) : rec :=
  match nth_error (r_spaces st) i with
  | Some s =>
      let c := cc_on_expired cc (r_cc st) (filter p_inflight (sp_sent s)) in
      let s' := mkSpace [] 0 (sp_largest_acked s) None in
      set_pto (set_spaces_cc st (upd_nth i (fun _ => s') (r_spaces st)) c (r_pacer st)) 0
  | None => st     (* assert space in self.spaces *)
  end.

(* ---------- op sequences ---------- *)
Inductive rop :=
| OSend (sp pn : Z) (inflight ackel crypto : bool) (time : T) (bytes : Z)
| OAck (sp : Z) (ranges : list (Z * Z)) (delay now : T)     (* ranges are add()ed to a fresh RangeSet *)
| OTimeout (now : T)                                        (* on_loss_detection_timeout *)
| ODiscard (sp : Z)
| OResched (now : T)                                        (* reschedule_data *)
| OSetPcav (b : bool)                                       (* peer_completed_address_validation = b *)
| OSetMad (v : T)                                           (* max_ack_delay = v *)
| ONextSend (now : T)                                       (* _pacer.next_send_time *)
| OAfterSend (now : T).                                     (* _pacer.update_after_send *)

Definition mk_rs (ranges : list (Z * Z)) : rs :=
  fold_left (fun s r => add (fst r) (snd r) s) ranges [].

Definition set_pacer (st : rec) (pc : pacer) : rec := set_spaces_cc st (r_spaces st) (r_cc st) pc.

(* result: new state, delivery events, status, optional float result (next_send_time) *)
Definition step (st : rec) (o : rop) : rec * list ev * Z * option T :=
  match o with
  | OSend sp pn inf ae cr tm by_ =>
      (on_packet_sent st (Z.to_nat sp) (mkPkt pn inf ae cr tm by_), [], 0, None)
  | OAck sp ranges delay now =>
      let '(st', evs, status) := on_ack_received st (Z.to_nat sp) (mk_rs ranges) delay now in
      (st', evs, status, None)
  | OTimeout now => let '(st', evs) := on_loss_detection_timeout st now in (st', evs, 0, None)
  | ODiscard sp => (discard_space st (Z.to_nat sp), [], 0, None)
  | OResched now => let '(st', evs) := reschedule_data st now in (st', evs, 0, None)
  | OSetPcav b =>
      (mkRec (r_spaces st) b (r_mad st) (r_pto st) (r_rtt_initial st) (r_rtt_init st) (r_latest st) (r_min st)
             (r_smoothed st) (r_var st) (r_tlast st) (r_cc st) (r_pacer st) (r_probes st), [], 0, None)
  | OSetMad v =>
      (mkRec (r_spaces st) (r_pcav st) v (r_pto st) (r_rtt_initial st) (r_rtt_init st) (r_latest st) (r_min st)
             (r_smoothed st) (r_var st) (r_tlast st) (r_cc st) (r_pacer st) (r_probes st), [], 0, None)
  | ONextSend now =>
      let '(r, pc) := next_send_time F (r_pacer st) now in (set_pacer st pc, [], 0, r)
  | OAfterSend now => (set_pacer st (update_after_send F (r_pacer st) now), [], 0, None)
  end.

(* run a history, collecting all delivery events *)
Fixpoint run (st : rec) (ops : list rop) : rec * list ev :=
  match ops with
  | [] => (st, [])
  | o :: t =>
      let '(st1, evs, _, _) := step st o in
      let '(st2, evs') := run st1 t in
      (st2, evs ++ evs')
  end.

End Recovery.
