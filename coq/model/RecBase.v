(* C08 shared definitions: abstract float interface, sent packets, congestion-controller interface,
   QuicRttMonitor (src/aioquic/quic/congestion/base.py).

   Every model of the recovery code is written against an abstract number type [T] with an
   operation record [fops T] (Python float arithmetic).  The executable instance is PrimFloat
   (model/RecoveryFloat.v, bit-exact IEEE binary64); the theorems are proved for EVERY [T] and
   EVERY [fops T], i.e. for arbitrary outcomes of all float operations and comparisons. *)
From AQ Require Import lib.Base.

(* float constants that appear in the code; values are given by the instance *)
Inductive fconst :=
| CInf                 (* math.inf *)
| CGranularity         (* K_GRANULARITY *)
| CTimeThreshold       (* K_TIME_THRESHOLD *)
| CMicro               (* K_MICRO_SECOND *)
| CSecond              (* K_SECOND *)
| CMaxAckDelay0        (* 0.025, initial max_ack_delay *)
| CMinRtt              (* 0.001 in max(latest_rtt, 0.001) *)
| CRenoBeta            (* K_LOSS_REDUCTION_FACTOR *)
| CCubicC              (* K_CUBIC_C *)
| CCubicBeta           (* K_CUBIC_LOSS_REDUCTION_FACTOR *)
| CCubicRtt0           (* 0.02 *)
| C1_5.                (* 1.5 *)

Record fops (T : Type) := mkFops {
  fadd : T -> T -> T;
  fsub : T -> T -> T;
  fmul : T -> T -> T;
  fdiv : T -> T -> T;
  fneg : T -> T;
  fabs : T -> T;
  fltb : T -> T -> bool;        (* a < b ; a > b is written fltb b a *)
  fleb : T -> T -> bool;        (* a <= b ; a >= b is written fleb b a *)
  feqb : T -> T -> bool;        (* a == b *)
  fsame : T -> T -> bool;       (* identical value (bit pattern); only used to check oracle arguments *)
  fofZ : Z -> T;                (* float(int) *)
  ftrunc : T -> option Z;       (* int(x); None = OverflowError / ValueError (inf, nan) *)
  fconstv : fconst -> T
}.
Arguments fadd {T}. Arguments fsub {T}. Arguments fmul {T}. Arguments fdiv {T}. Arguments fneg {T}.
Arguments fabs {T}. Arguments fltb {T}. Arguments fleb {T}. Arguments feqb {T}. Arguments fsame {T}.
Arguments fofZ {T}. Arguments ftrunc {T}. Arguments fconstv {T}.

(* QuicSentPacket, the fields the recovery code reads *)
Record pkt (T : Type) := mkPkt {
  p_pn : Z;            (* packet_number *)
  p_inflight : bool;   (* in_flight *)
  p_ackel : bool;      (* is_ack_eliciting *)
  p_crypto : bool;     (* is_crypto_packet *)
  p_time : T;          (* sent_time *)
  p_bytes : Z          (* sent_bytes *)
}.
Arguments mkPkt {T}. Arguments p_pn {T}. Arguments p_inflight {T}. Arguments p_ackel {T}.
Arguments p_crypto {T}. Arguments p_time {T}. Arguments p_bytes {T}.

(* QuicCongestionControl interface (congestion/base.py) *)
Record ccops (T C : Type) := mkCc {
  cc_bif : C -> Z;                           (* bytes_in_flight *)
  cc_cwnd : C -> Z;                          (* congestion_window *)
  cc_ssthresh : C -> option Z;               (* ssthresh *)
  cc_flags : C -> Z;                         (* sticky anomaly flags, 0 = none: 1 int(inf/nan) would raise, 2 oracle miss, 4 FloatAnomaly *)
  cc_on_sent : C -> pkt T -> C;              (* on_packet_sent *)
  cc_on_acked : C -> T -> pkt T -> C;        (* on_packet_acked(now, packet) *)
  cc_on_expired : C -> list (pkt T) -> C;    (* on_packets_expired *)
  cc_on_lost : C -> T -> list (pkt T) -> C;  (* on_packets_lost(now, packets) *)
  cc_on_rtt : C -> T -> T -> C               (* on_rtt_measurement(now, rtt) *)
}.
Arguments cc_bif {T C}. Arguments cc_cwnd {T C}. Arguments cc_ssthresh {T C}. Arguments cc_flags {T C}.
Arguments cc_on_sent {T C}. Arguments cc_on_acked {T C}. Arguments cc_on_expired {T C}.
Arguments cc_on_lost {T C}. Arguments cc_on_rtt {T C}.

Section Base.
Context {T : Type} (F : fops T).

(* Python's max(a, b) / min(a, b) on floats: the first argument wins unless the second is
   strictly greater / smaller. *)
Definition pymax (a b : T) : T := if fltb F a b then b else a.
Definition pymin (a b : T) : T := if fltb F b a then b else a.

(* int(x) with the sticky anomaly flag *)
Definition trunc_flag (x : T) (anom : bool) : Z * bool :=
  match ftrunc F x with Some z => (z, anom) | None => (0, true) end.

Definition sum_bytes (l : list (pkt T)) : Z := fold_right (fun p a => p_bytes p + a) 0 l.

(* last sent_time of the list, starting from [d] (lost_largest_time loop) *)
Definition last_time (d : T) (l : list (pkt T)) : T := fold_left (fun _ p => p_time p) l d.

(* ---------- QuicRttMonitor ---------- *)
Record rttmon := mkMon {
  m_increases : Z;
  m_ready : bool;
  m_filtered_min : option T;
  m_idx : Z;
  m_smax : T;          (* _sample_max (None until ready; never read before) *)
  m_smin : T;
  m_stime : T;         (* _sample_time *)
  m_samples : list T   (* 5 samples *)
}.

Definition mon_size : Z := 5.
Definition mon_init : rttmon :=
  mkMon 0 false None 0 (fofZ F 0) (fofZ F 0) (fofZ F 0) (repeat (fofZ F 0) 5).

Fixpoint set_nth {A} (n : nat) (x : A) (l : list A) : list A :=
  match l, n with
  | [], _ => []
  | _ :: t, O => x :: t
  | h :: t, S n => h :: set_nth n x t
  end.

(* for sample in samples[1:]: if sample < min: min = sample elif sample > max: max = sample *)
Fixpoint scan_minmax (l : list T) (mn mx : T) : T * T :=
  match l with
  | [] => (mn, mx)
  | s :: t => if fltb F s mn then scan_minmax t s mx
              else if fltb F mx s then scan_minmax t mn s
              else scan_minmax t mn mx
  end.

Definition add_rtt (m : rttmon) (rtt : T) : rttmon :=
  let samples := set_nth (Z.to_nat (m_idx m)) rtt (m_samples m) in
  let idx := m_idx m + 1 in
  let '(idx, ready) := if idx >=? mon_size then (0, true) else (idx, m_ready m) in
  if ready then
    let s0 := hd (fofZ F 0) samples in
    let '(mn, mx) := scan_minmax (tl samples) s0 s0 in
    mkMon (m_increases m) ready (m_filtered_min m) idx mx mn (m_stime m) samples
  else
    mkMon (m_increases m) ready (m_filtered_min m) idx (m_smax m) (m_smin m) (m_stime m) samples.

Definition is_rtt_increasing (m : rttmon) (now rtt : T) : bool * rttmon :=
  if fltb F (fadd F (m_stime m) (fconstv F CGranularity)) now then
    let m1 := add_rtt m rtt in
    let m2 := mkMon (m_increases m1) (m_ready m1) (m_filtered_min m1) (m_idx m1) (m_smax m1) (m_smin m1)
                    now (m_samples m1) in
    if m_ready m2 then
      let fm := match m_filtered_min m2 with
                | None => m_smax m2
                | Some f => if fltb F (m_smax m2) f then m_smax m2 else f
                end in
      let delta := fsub F (m_smin m2) fm in
      let m3 inc := mkMon inc (m_ready m2) (Some fm) (m_idx m2) (m_smax m2) (m_smin m2) (m_stime m2) (m_samples m2) in
      if fleb F fm (fmul F delta (fofZ F 4)) then
        let inc := m_increases m2 + 1 in
        (inc >=? mon_size, m3 inc)
      else if fltb F (fofZ F 0) delta then (false, m3 0)
      else (false, m3 (m_increases m2))
    else (false, m2)
  else (false, m).

End Base.
