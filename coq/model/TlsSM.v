(* Model of the TLS 1.3 handshake state machine of src/aioquic/tls.py (class Context):
   handle_message for ONE complete handshake message, _handle_reassembled_message (through the
   GENERATED dispatch table gen/TlsDispatch.v) and the _client_handle_* / _server_handle_* handlers.

   Cryptography, parsing and X.509 validation are abstract: every message carries the answers of
   those checks as oracle fields (the harness computes them from how the message was built).
   What is modelled per handler: which checks run in which order and what each failure raises, the
   watched flags (_session_resumed, _certificate_request, _key_schedule_psk/_proxy being None), the
   update_traffic_key_cb (direction, epoch) calls in order, and the state transition.
   The code is modelled as it is, including the non-Alert exceptions that escape (OExn). *)
From AQ Require Import lib.Base lib.Tok gen.TlsDispatch.

(* configuration of the Context under test *)
Record cfg := mkCfg {
  c_psk : bool;       (* client: session_ticket present and valid when the hello is sent *)
  c_early : bool;     (* client: that ticket has max_early_data_size *)
  c_verify : bool;    (* client: _verify_mode != ssl.CERT_NONE *)
  c_reqcert : bool    (* server: _request_client_certificate *)
}.

(* one reassembled handshake message with the oracle answers for the checks made on it *)
Record msg := mkMsg {
  m_type : Z;         (* first byte of the message *)
  m_parse : Z;        (* pull_*: 0 parses | 1 BufferReadError / AlertDecodeError | other: another exception *)
  m_fire : Z;         (* which "other" raise site of the handler fires, 0 = none
                         (client hello: 1 cipher suite 2 compression 3 version 6 key exchange ValueError;
                          server hello: 1 cipher suite 2 compression 3 signature algorithm 4 version 5 ALPN
                                        6 key exchange ValueError (invalid public key);
                          CertificateVerify: 3 algorithm not advertised, 1 certificate public key unusable,
                                        2 algorithm does not match the certificate's key) *)
  m_psk : bool;       (* ServerHello: pre_shared_key present
                         ClientHello: a PSK is offered and the server finds a valid matching ticket *)
  m_psk_ok : bool;    (* ServerHello: selected index 0 and cipher suite of the ticket
                         ClientHello: binder verifies *)
  m_early : bool;     (* ClientHello: early_data extension present *)
  m_share : bool;     (* a usable key share is present (else: client AlertIllegalParameter, server
                         AlertHandshakeFailure -- was `assert shared_key is not None` before fix 9ce6631) *)
  m_nonempty : bool;  (* Certificate: certificate list non-empty *)
  m_load : bool;      (* Certificate: x509.load_der_x509_certificate succeeds *)
  m_sig : bool;       (* CertificateVerify: algorithm was advertised and the signature verifies *)
  m_cert : Z;         (* CertificateVerify at the client: 0 = verify_certificate passes, else its alert *)
  m_mac : bool        (* Finished: verify_data equals the expected value *)
}.

Record st := mkSt {
  s_state : State;    (* Context.state *)
  s_resumed : bool;   (* _session_resumed *)
  s_kpsk : bool;      (* _key_schedule_psk is not None *)
  s_kproxy : bool;    (* _key_schedule_proxy is not None *)
  s_creq : bool       (* _certificate_request is not None *)
}.

Inductive outcome := OOk | OAlert (d : Z) | OExn (k : Z).
(* exception kinds *)
Definition EX_ASSERT : Z := 1.
Definition EX_ATTRIBUTE : Z := 2.
Definition EX_INDEX : Z := 3.
Definition EX_VALUE : Z := 4.
Definition EX_OTHER : Z := 9.

Definition key := (Z * Z)%type.       (* (Direction, Epoch) of one update_traffic_key_cb call *)
Definition result := (outcome * st * list key)%type.

Definition set_state (s : st) (x : State) : st :=
  mkSt x (s_resumed s) (s_kpsk s) (s_kproxy s) (s_creq s).

(* pull_xxx(input_buf) at the top of every handler; BufferReadError becomes AlertDecodeError in
   handle_message *)
Definition parsed (s : st) (m : msg) (k : result) : result :=
  if m_parse m =? 0 then k
  else if m_parse m =? 1 then (OAlert AD_decode_error, s, [])
  else (OExn EX_OTHER, s, []).

(* _client_send_hello (reached through the CLIENT_HANDSHAKE_START shortcut of handle_message) *)
Definition client_send_hello (c : cfg) (s : st) : result :=
  (OOk,
   mkSt CLIENT_EXPECT_SERVER_HELLO (s_resumed s) (c_psk c) true (s_creq s),
   if c_psk c && c_early c then [(DIR_ENCRYPT, EP_ZERO_RTT)] else []).

Definition client_handle_hello (c : cfg) (s : st) (m : msg) : result :=
  parsed s m (
  if m_fire m =? 1 then (OAlert AD_handshake_failure, s, []) else
  if m_fire m =? 2 then (OAlert AD_illegal_parameter, s, []) else
  if m_fire m =? 3 then (OAlert AD_illegal_parameter, s, []) else
  if m_psk m && (negb (s_kpsk s) || negb (m_psk_ok m)) then (OAlert AD_illegal_parameter, s, []) else
  if negb (m_psk m) && negb (s_kproxy s) then (OExn EX_ATTRIBUTE, s, []) else
  let s1 := mkSt (s_state s) (if m_psk m then true else s_resumed s) false false (s_creq s) in
  if negb (m_share m) then (OAlert AD_illegal_parameter, s1, []) else   (* no / unknown-group key share *)
  if m_fire m =? 6 then (OAlert AD_illegal_parameter, s1, []) else       (* invalid point: ValueError *)
  (OOk, set_state s1 CLIENT_EXPECT_ENCRYPTED_EXTENSIONS, [(DIR_DECRYPT, EP_HANDSHAKE)])).

Definition client_handle_encrypted_extensions (c : cfg) (s : st) (m : msg) : result :=
  parsed s m
  (OOk,
   set_state s (if s_resumed s then CLIENT_EXPECT_FINISHED else CLIENT_EXPECT_CERTIFICATE_REQUEST_OR_CERTIFICATE),
   [(DIR_ENCRYPT, EP_HANDSHAKE)]).

Definition client_handle_certificate_request (c : cfg) (s : st) (m : msg) : result :=
  parsed s m
  (OOk, mkSt CLIENT_EXPECT_CERTIFICATE (s_resumed s) (s_kpsk s) (s_kproxy s) true, []).

Definition client_handle_certificate (c : cfg) (s : st) (m : msg) : result :=
  parsed s m (
  if negb (m_nonempty m) then (OAlert AD_decode_error, s, []) else      (* _set_peer_certificate: empty list *)
  if negb (m_load m) then (OAlert AD_bad_certificate, s, []) else       (* load_der_x509_certificate ValueError *)
  (OOk, set_state s CLIENT_EXPECT_CERTIFICATE_VERIFY, [])).

(* _check_certificate_verify_signature: not advertised -> decrypt_error; public_key() unusable ->
   bad_certificate; algorithm/key mismatch -> illegal_parameter; InvalidSignature/ValueError -> decrypt_error *)
Definition check_cv (s : st) (m : msg) (k : result) : result :=
  if m_fire m =? 3 then (OAlert AD_decrypt_error, s, []) else
  if m_fire m =? 1 then (OAlert AD_bad_certificate, s, []) else
  if m_fire m =? 2 then (OAlert AD_illegal_parameter, s, []) else
  if negb (m_sig m) then (OAlert AD_decrypt_error, s, []) else k.

Definition client_handle_certificate_verify (c : cfg) (s : st) (m : msg) : result :=
  parsed s m (check_cv s m (
  if c_verify c && negb (m_cert m =? 0) then (OAlert (m_cert m), s, []) else
  (OOk, set_state s CLIENT_EXPECT_FINISHED, []))).

Definition client_handle_finished (c : cfg) (s : st) (m : msg) : result :=
  parsed s m (
  if negb (m_mac m) then (OAlert AD_decrypt_error, s, []) else
  (OOk, set_state s CLIENT_POST_HANDSHAKE, [(DIR_DECRYPT, EP_ONE_RTT); (DIR_ENCRYPT, EP_ONE_RTT)])).

Definition client_handle_new_session_ticket (c : cfg) (s : st) (m : msg) : result :=
  parsed s m (OOk, s, []).

Definition server_handle_hello (c : cfg) (s : st) (m : msg) : result :=
  parsed s m (
  if m_fire m =? 1 then (OAlert AD_handshake_failure, s, []) else
  if m_fire m =? 2 then (OAlert AD_handshake_failure, s, []) else
  if m_fire m =? 3 then (OAlert AD_handshake_failure, s, []) else
  if m_fire m =? 4 then (OAlert AD_protocol_version, s, []) else
  if m_fire m =? 5 then (OAlert AD_handshake_failure, s, []) else
  if m_psk m && negb (m_psk_ok m) then (OAlert AD_handshake_failure, s, []) else
  let s1 := mkSt (s_state s) (if m_psk m then true else s_resumed s) (s_kpsk s) (s_kproxy s) (s_creq s) in
  let k0 := if m_psk m && m_early m then [(DIR_DECRYPT, EP_ZERO_RTT)] else [] in
  if m_fire m =? 6 then (OAlert AD_illegal_parameter, s1, k0) else      (* invalid public key: ValueError *)
  if negb (m_share m) then (OAlert AD_handshake_failure, s1, k0) else    (* no supported key share *)
  (OOk,
   set_state s1 (if c_reqcert c then SERVER_EXPECT_CERTIFICATE else SERVER_EXPECT_FINISHED),
   k0 ++ [(DIR_ENCRYPT, EP_HANDSHAKE); (DIR_DECRYPT, EP_HANDSHAKE); (DIR_ENCRYPT, EP_ONE_RTT)])).

Definition server_handle_certificate (c : cfg) (s : st) (m : msg) : result :=
  parsed s m (
  if m_nonempty m then
    if negb (m_load m) then (OAlert AD_bad_certificate, s, []) else
    (OOk, set_state s SERVER_EXPECT_CERTIFICATE_VERIFY, [])
  else (OOk, set_state s SERVER_EXPECT_FINISHED, [])).

Definition server_handle_certificate_verify (c : cfg) (s : st) (m : msg) : result :=
  parsed s m (check_cv s m
  (OOk, set_state s SERVER_EXPECT_FINISHED, [])).

Definition server_handle_finished (c : cfg) (s : st) (m : msg) : result :=
  parsed s m (
  if negb (m_mac m) then (OAlert AD_decrypt_error, s, []) else
  (OOk, set_state s SERVER_POST_HANDSHAKE, [(DIR_DECRYPT, EP_ONE_RTT)])).

Definition run_handler (h : handler) (c : cfg) (s : st) (m : msg) : result :=
  match h with
  | H_client_handle_hello => client_handle_hello c s m
  | H_client_handle_encrypted_extensions => client_handle_encrypted_extensions c s m
  | H_client_handle_certificate_request => client_handle_certificate_request c s m
  | H_client_handle_certificate => client_handle_certificate c s m
  | H_client_handle_certificate_verify => client_handle_certificate_verify c s m
  | H_client_handle_finished => client_handle_finished c s m
  | H_client_handle_new_session_ticket => client_handle_new_session_ticket c s m
  | H_server_handle_hello => server_handle_hello c s m
  | H_server_handle_certificate => server_handle_certificate c s m
  | H_server_handle_certificate_verify => server_handle_certificate_verify c s m
  | H_server_handle_finished => server_handle_finished c s m
  | H_client_send_hello => client_send_hello c s
  end.

(* Context.handle_message given exactly one complete message *)
Definition step (c : cfg) (s : st) (m : msg) : result :=
  match s_state s with
  | CLIENT_HANDSHAKE_START => client_send_hello c s      (* input is ignored, not even buffered *)
  | x =>
      match dispatch x (m_type m) with
      | DHandler h => run_handler h c s m
      | DUnexpected => (OAlert AD_unexpected_message, s, [])
      | DFallthrough => (OExn EX_ASSERT, s, [])          (* `assert input_buf.eof()` *)
      end
  end.

(* a run: per message the outcome, the state afterwards and the key callbacks made *)
Definition event := (msg * outcome * st * list key)%type.
Fixpoint run (c : cfg) (s : st) (ms : list msg) : list event :=
  match ms with
  | [] => []
  | m :: r => let '(o, s', ks) := step c s m in (m, o, s', ks) :: run c s' r
  end.

Definition init_client : st := mkSt CLIENT_HANDSHAKE_START false false false false.
Definition init_server : st := mkSt SERVER_EXPECT_CLIENT_HELLO false false false false.

(* ---------- executable interface -----------------------------------------------------
   input : is_client c_psk c_early c_verify c_reqcert, then 12 tokens per message (the fields of
           [msg] in order, booleans as 0/1)
   output per message: kind (0 ok | 1 alert | 2 exception) value  state  nkeys (dir epoch)*  *)
Definition out_outcome (o : outcome) : list Z :=
  match o with OOk => [0; 0] | OAlert d => [1; d] | OExn k => [2; k] end.
Fixpoint out_keys (ks : list key) : list Z :=
  match ks with [] => [] | (d, e) :: r => d :: e :: out_keys r end.

Fixpoint exec_sm (fuel : nat) (c : cfg) (s : st) (t : list Z) : list Z :=
  match fuel with O => [] | S fuel =>
  match t with
  | ty :: pa :: fi :: ps :: po :: ea :: sh :: ne :: lo :: sg :: ce :: ma :: t' =>
      let m := mkMsg ty pa fi (z2b ps) (z2b po) (z2b ea) (z2b sh) (z2b ne) (z2b lo) (z2b sg) ce (z2b ma) in
      let '(o, s', ks) := step c s m in
      out_outcome o ++ [state_val (s_state s'); Zlen ks] ++ out_keys ks ++ exec_sm fuel c s' t'
  | _ => []
  end end.

(* EXTRACT: exec_tlssm *)
Definition exec_tlssm (t : list Z) : list Z :=
  match t with
  | cl :: a :: b :: v :: r :: t' =>
      exec_sm (length t') (mkCfg (z2b a) (z2b b) (z2b v) (z2b r)) (if z2b cl then init_client else init_server) t'
  | _ => []
  end.
