(* Model of the receive-side limit logic of QuicConnection (src/aioquic/quic/connection.py):
   class Limit, _get_or_create_stream, _handle_stream_frame, _handle_reset_stream_frame,
   _handle_stream_data_blocked_frame / _handle_max_stream_data_frame (stream creation only),
   _write_connection_limits, _write_stream_limits, stream discarding in _write_application,
   _on_connection_limit_delivery / _on_max_stream_data_delivery, _handle_crypto_frame,
   _handle_path_challenge_frame, _add_local_challenge, _handle_new_connection_id_frame.
   The per-stream receiver is the C10 model (model/StreamRecv.v).  Constants come from gen/C07Consts.v.
   The code is modelled as it is.  A QuicConnectionError closes the connection: [step] returns the
   error and the run stops there. *)
From AQ Require Import lib.Base lib.Tok model.RangeSet model.StreamRecv gen.C07Consts.

Record limit := mkLimit { l_value : Z; l_used : Z; l_sent : Z }.

Record strm := mkStrm {
  sm_msd : Z;          (* max_stream_data_local *)
  sm_sent : Z;         (* max_stream_data_local_sent *)
  sm_sendfin : bool;   (* sender.is_finished: true from creation for a peer-initiated unidirectional stream *)
  sm_recv : recv       (* receiver *)
}.

Record conn := mkConn {
  c_client : bool;               (* _is_client *)
  c_msd : Z;                     (* configuration.max_stream_data = _local_max_stream_data_{bidi_local,bidi_remote,uni} *)
  c_data : limit;                (* _local_max_data *)
  c_bidi : limit;                (* _local_max_streams_bidi *)
  c_uni : limit;                 (* _local_max_streams_uni *)
  c_streams : list (Z * strm);   (* _streams, insertion order *)
  c_done : list Z;               (* _streams_finished *)
  c_crypto : recv;               (* _crypto_streams[epoch].receiver (one epoch; the handler is epoch-independent) *)
  c_chal : list Z;               (* network_path.remote_challenges *)
  c_lchal : list Z;              (* _local_challenges (keys, insertion order) *)
  c_cid_active : Z;              (* _peer_cid.sequence_number *)
  c_cid_avail : list Z;          (* _peer_cid_available (sequence numbers) *)
  c_cid_seen : list Z;           (* _peer_cid_sequence_numbers *)
  c_cid_rpt : Z;                 (* _peer_retire_prior_to *)
  c_retire : list Z;             (* _retire_connection_ids *)
  c_gone : Z;                    (* GHOST (not in the code): sum of highest_offset of the streams discarded so far *)
  c_tls : list Z;                (* tls.Context._receive_buffer: in-order CRYPTO bytes of a not yet complete handshake message *)
  c_paths : list (Z * list Z)    (* _network_paths[1:]: (source address, remote_challenges) of the non-active paths *)
}.

Definition recv_at (base : Z) : recv := mkRecv base false [] base None [].

Definition conn_init (client : bool) (msd max_data crypto_base : Z) : conn :=
  mkConn client msd (mkLimit max_data 0 max_data)
         (mkLimit INIT_MAX_STREAMS_BIDI 0 INIT_MAX_STREAMS_BIDI) (mkLimit INIT_MAX_STREAMS_UNI 0 INIT_MAX_STREAMS_UNI)
         [] [] (recv_at crypto_base) [] [] 0 [] [0] 0 [] 0 [] [].

(* setters *)
Definition set_streams (c : conn) (l : list (Z * strm)) : conn :=
  mkConn (c_client c) (c_msd c) (c_data c) (c_bidi c) (c_uni c) l (c_done c) (c_crypto c) (c_chal c) (c_lchal c)
         (c_cid_active c) (c_cid_avail c) (c_cid_seen c) (c_cid_rpt c) (c_retire c) (c_gone c) (c_tls c) (c_paths c).
Definition set_limits (c : conn) (d b u : limit) : conn :=
  mkConn (c_client c) (c_msd c) d b u (c_streams c) (c_done c) (c_crypto c) (c_chal c) (c_lchal c)
         (c_cid_active c) (c_cid_avail c) (c_cid_seen c) (c_cid_rpt c) (c_retire c) (c_gone c) (c_tls c) (c_paths c).
Definition set_data (c : conn) (d : limit) : conn := set_limits c d (c_bidi c) (c_uni c).
Definition set_done (c : conn) (l : list Z) : conn :=
  mkConn (c_client c) (c_msd c) (c_data c) (c_bidi c) (c_uni c) (c_streams c) l (c_crypto c) (c_chal c) (c_lchal c)
         (c_cid_active c) (c_cid_avail c) (c_cid_seen c) (c_cid_rpt c) (c_retire c) (c_gone c) (c_tls c) (c_paths c).
Definition set_crypto (c : conn) (r : recv) : conn :=
  mkConn (c_client c) (c_msd c) (c_data c) (c_bidi c) (c_uni c) (c_streams c) (c_done c) r (c_chal c) (c_lchal c)
         (c_cid_active c) (c_cid_avail c) (c_cid_seen c) (c_cid_rpt c) (c_retire c) (c_gone c) (c_tls c) (c_paths c).
Definition set_chal (c : conn) (l : list Z) : conn :=
  mkConn (c_client c) (c_msd c) (c_data c) (c_bidi c) (c_uni c) (c_streams c) (c_done c) (c_crypto c) l (c_lchal c)
         (c_cid_active c) (c_cid_avail c) (c_cid_seen c) (c_cid_rpt c) (c_retire c) (c_gone c) (c_tls c) (c_paths c).
Definition set_lchal (c : conn) (l : list Z) : conn :=
  mkConn (c_client c) (c_msd c) (c_data c) (c_bidi c) (c_uni c) (c_streams c) (c_done c) (c_crypto c) (c_chal c) l
         (c_cid_active c) (c_cid_avail c) (c_cid_seen c) (c_cid_rpt c) (c_retire c) (c_gone c) (c_tls c) (c_paths c).
Definition set_tls (c : conn) (r : recv) (t : list Z) : conn :=
  mkConn (c_client c) (c_msd c) (c_data c) (c_bidi c) (c_uni c) (c_streams c) (c_done c) r (c_chal c) (c_lchal c)
         (c_cid_active c) (c_cid_avail c) (c_cid_seen c) (c_cid_rpt c) (c_retire c) (c_gone c) t (c_paths c).
Definition set_paths (c : conn) (l : list (Z * list Z)) : conn :=
  mkConn (c_client c) (c_msd c) (c_data c) (c_bidi c) (c_uni c) (c_streams c) (c_done c) (c_crypto c) (c_chal c) (c_lchal c)
         (c_cid_active c) (c_cid_avail c) (c_cid_seen c) (c_cid_rpt c) (c_retire c) (c_gone c) (c_tls c) l.
Definition set_cids (c : conn) (active : Z) (avail seen : list Z) (rpt : Z) (retire : list Z) : conn :=
  mkConn (c_client c) (c_msd c) (c_data c) (c_bidi c) (c_uni c) (c_streams c) (c_done c) (c_crypto c) (c_chal c) (c_lchal c)
         active avail seen rpt retire (c_gone c) (c_tls c) (c_paths c).

(* _streams dict *)
Fixpoint sget (sid : Z) (l : list (Z * strm)) : option strm :=
  match l with
  | [] => None
  | (k, s) :: t => if k =? sid then Some s else sget sid t
  end.
Fixpoint sset (sid : Z) (s : strm) (l : list (Z * strm)) : list (Z * strm) :=
  match l with
  | [] => [(sid, s)]
  | (k, s0) :: t => if k =? sid then (k, s) :: t else (k, s0) :: sset sid s t
  end.

Definition client_initiated (sid : Z) : bool := Z.even sid.          (* not (stream_id & 1) *)
Definition unidirectional (sid : Z) : bool := Z.testbit sid 1.       (* bool(stream_id & 2) *)
Definition can_receive (c : conn) (sid : Z) : bool :=
  negb (Bool.eqb (client_initiated sid) (c_client c)) || negb (unidirectional sid).
Definition can_send (c : conn) (sid : Z) : bool :=
  Bool.eqb (client_initiated sid) (c_client c) || negb (unidirectional sid).

(* ---------- outcomes ---------- *)
Inductive wire := W (ft a b : Z).      (* a frame this endpoint wrote: type, stream id / 0, value *)

Inductive outcome :=
| OOk (ev : rout)            (* frame accepted; event appended (RNone: no event) *)
| OIgnored                   (* StreamFinishedError: state for the stream was discarded, frame ignored *)
| OWrote (w : list wire)     (* frames put on the wire by a write pass *)
| OErr (code ft : Z)         (* QuicConnectionError -> connection closes *)
| OExn.                      (* an exception that is not a QuicConnectionError escapes the handler *)

(* _get_or_create_stream *)
Inductive gres := GStream (s : strm) (c : conn) | GFinished | GErr (code : Z).

Definition get_or_create (c : conn) (sid : Z) : gres :=
  if existsb (Z.eqb sid) (c_done c) then GFinished else
  match sget sid (c_streams c) with
  | Some s => GStream s c
  | None =>
      if Bool.eqb (client_initiated sid) (c_client c) then GErr E_STREAM_STATE_ERROR else
      let uni := unidirectional sid in
      let lim := if uni then c_uni c else c_bidi c in
      let count := sid / 4 + 1 in
      if count >? l_value lim then GErr E_STREAM_LIMIT_ERROR else
      let lim' := if count >? l_used lim then mkLimit (l_value lim) count (l_sent lim) else lim in
      let s := mkStrm (c_msd c) (c_msd c) uni recv_init in
      let c1 := set_streams c (c_streams c ++ [(sid, s)]) in
      GStream s (if uni then set_limits c1 (c_data c1) (c_bidi c1) lim' else set_limits c1 (c_data c1) lim' (c_uni c1))
  end.

Definition add_used (c : conn) (n : Z) : conn :=
  set_data c (mkLimit (l_value (c_data c)) (l_used (c_data c) + n) (l_sent (c_data c))).

Definition with_recv (s : strm) (r : recv) : strm := mkStrm (sm_msd s) (sm_sent s) (sm_sendfin s) r.

(* _handle_stream_frame: ft is the frame type byte (FIN = bit 0) *)
Definition handle_stream (c : conn) (ft sid off : Z) (data : list Z) : outcome * conn :=
  let len := Zlen data in
  let fin := Z.odd ft in
  if off + len >? UINT_VAR_MAX then (OErr E_FRAME_ENCODING_ERROR ft, c) else
  if negb (can_receive c sid) then (OErr E_STREAM_STATE_ERROR ft, c) else
  match get_or_create c sid with
  | GFinished => (OIgnored, c)
  | GErr code => (OErr code ft, c)
  | GStream s c1 =>
      if off + len >? sm_msd s then (OErr E_FLOW_CONTROL_ERROR ft, c) else
      let newly := Z.max 0 (off + len - r_highest (sm_recv s)) in
      if l_used (c_data c1) + newly >? l_value (c_data c1) then (OErr E_FLOW_CONTROL_ERROR ft, c) else
      let '(o, r') := handle_frame (sm_recv s) off data fin in
      match o with
      | RFinalSizeError => (OErr E_FINAL_SIZE_ERROR ft, c)
      | _ => (* "if event is not None and not was_finished" in trees that have it (probed): a frame arriving
                after the receiving part finished is accounted but not reported *)
             (OOk (if EVENT_SUPPRESSED_WHEN_FINISHED && r_finished (sm_recv s) then RNone else o),
              add_used (set_streams c1 (sset sid (with_recv s r') (c_streams c1))) newly)
      end
  end.

(* after an accepted reset: "if final_size > stream.receiver.highest_offset: ... = final_size" (only in trees
   that have this statement; RESET_ADVANCES_HIGHEST is probed from the source by tools/gen/c07_consts.py) *)
Definition bump_highest (r : recv) (fs : Z) : recv :=
  if RESET_ADVANCES_HIGHEST && (fs >? r_highest r)
  then mkRecv fs (r_finished r) (r_buf r) (r_start r) (r_final r) (r_ranges r) else r.

(* _handle_reset_stream_frame *)
Definition handle_reset_stream (c : conn) (sid final_size : Z) : outcome * conn :=
  let ft := FT_RESET_STREAM in
  if negb (can_receive c sid) then (OErr E_STREAM_STATE_ERROR ft, c) else
  match get_or_create c sid with
  | GFinished => (OIgnored, c)
  | GErr code => (OErr code ft, c)
  | GStream s c1 =>
      if final_size >? sm_msd s then (OErr E_FLOW_CONTROL_ERROR ft, c) else
      let newly := Z.max 0 (final_size - r_highest (sm_recv s)) in
      if l_used (c_data c1) + newly >? l_value (c_data c1) then (OErr E_FLOW_CONTROL_ERROR ft, c) else
      let '(o, r') := handle_reset (sm_recv s) final_size in
      match o with
      | RFinalSizeError => (OErr E_FINAL_SIZE_ERROR ft, c)
      | _ => (OOk o, add_used (set_streams c1 (sset sid (with_recv s (bump_highest r' final_size)) (c_streams c1))) newly)
      end
  end.

(* frames that only check the direction and call _get_or_create_stream:
   MAX_STREAM_DATA (send direction), STREAM_DATA_BLOCKED (receive direction) *)
Definition handle_touch (c : conn) (ft sid : Z) : outcome * conn :=
  let dir_ok := if ft =? FT_MAX_STREAM_DATA then can_send c sid else can_receive c sid in
  if negb dir_ok then (OErr E_STREAM_STATE_ERROR ft, c) else
  match get_or_create c sid with
  | GFinished => (OIgnored, c)
  | GErr code => (OErr code ft, c)
  | GStream _ c1 => (OOk RNone, c1)
  end.

(* _get_or_create_stream_for_send (API call send_stream_data / reset_stream ...; no limit is checked on the receive side).
   The two ValueErrors of the code leave the state untouched: "Cannot send data on peer-initiated unidirectional
   stream" (not _stream_can_send) and "Cannot send data on unknown peer-initiated stream" (unknown id that is not ours).
   _streams_finished is NOT consulted: the id of a discarded stream can be opened again (its frames stay ignored). *)
Definition local_open (c : conn) (sid : Z) : conn :=
  if negb (can_send c sid) then c else
  match sget sid (c_streams c) with
  | Some _ => c
  | None => if negb (Bool.eqb (client_initiated sid) (c_client c)) then c else
            let m := if unidirectional sid then 0 else c_msd c in
            set_streams c (c_streams c ++ [(sid, mkStrm m m false recv_init)])
  end.

(* ---------- the write pass (_write_application, handshake complete) ---------- *)
(* _write_connection_limits, one Limit *)
Definition raise_limit (ft : Z) (l : limit) : limit * list wire :=
  let v := if l_used l * 2 >? l_value l then l_value l * 2 else l_value l in
  if negb (v =? l_sent l) then (mkLimit v (l_used l) v, [W ft 0 v]) else (mkLimit v (l_used l) (l_sent l), []).

(* _write_stream_limits *)
Definition raise_stream (sid : Z) (s : strm) : strm * list wire :=
  let v := if negb (sm_msd s =? 0) && (r_highest (sm_recv s) * 2 >? sm_msd s) then sm_msd s * 2 else sm_msd s in
  if negb (sm_sent s =? v) then (mkStrm v v (sm_sendfin s) (sm_recv s), [W FT_MAX_STREAM_DATA sid v])
  else (mkStrm v (sm_sent s) (sm_sendfin s) (sm_recv s), []).

Fixpoint raise_streams (l : list (Z * strm)) : list (Z * strm) * list wire :=
  match l with
  | [] => ([], [])
  | (sid, s) :: t =>
      let '(s', w) := raise_stream sid s in
      let '(t', w') := raise_streams t in
      ((sid, s') :: t', w ++ w')
  end.

Definition stream_finished (s : strm) : bool := r_finished (sm_recv s) && sm_sendfin s.

Definition write (c : conn) : outcome * conn :=
  let w_resp := map (fun d => W FT_PATH_RESPONSE 0 d) (c_chal c) in
  let w_ret := map (fun q => W FT_RETIRE_CONNECTION_ID 0 q) (c_retire c) in
  let '(d, wd) := raise_limit FT_MAX_DATA (c_data c) in
  let '(b, wb) := raise_limit FT_MAX_STREAMS_BIDI (c_bidi c) in
  let '(u, wu) := raise_limit FT_MAX_STREAMS_UNI (c_uni c) in
  let '(ss, ws) := raise_streams (c_streams c) in
  let keep := filter (fun p => negb (stream_finished (snd p))) ss in
  let gone := map fst (filter (fun p => stream_finished (snd p)) ss) in
  (OWrote (w_resp ++ w_ret ++ wd ++ wb ++ wu ++ ws),
   mkConn (c_client c) (c_msd c) d b u keep (c_done c ++ gone) (c_crypto c) [] (c_lchal c)
          (c_cid_active c) (c_cid_avail c) (c_cid_seen c) (c_cid_rpt c) []
          (c_gone c + fold_right (fun p a => r_highest (sm_recv (snd p)) + a) 0 (filter (fun p => stream_finished (snd p)) ss))
          (c_tls c) (c_paths c)).

(* _on_connection_limit_delivery / _on_max_stream_data_delivery with delivery != ACKED *)
Definition limit_lost (c : conn) (which : Z) : conn :=
  let z l := mkLimit (l_value l) (l_used l) 0 in
  if which =? 0 then set_limits c (z (c_data c)) (c_bidi c) (c_uni c)
  else if which =? 1 then set_limits c (c_data c) (z (c_bidi c)) (c_uni c)
  else set_limits c (c_data c) (c_bidi c) (z (c_uni c)).
Definition stream_limit_lost (c : conn) (sid : Z) : conn :=
  match sget sid (c_streams c) with
  | Some s => set_streams c (sset sid (mkStrm (sm_msd s) 0 (sm_sendfin s) (sm_recv s)) (c_streams c))
  | None => c
  end.

(* ---------- CRYPTO ---------- *)
(* tls.Context.handle_message: _receive_buffer += data; while len >= 4: message_length = 4 + 24-bit length;
   [if message_length > MAX_HANDSHAKE_MESSAGE_SIZE: AlertDecodeError]; if incomplete: break; else the message is cut
   off and given to the TLS state machine (outside this model: the harness never completes a message).
   None = the alert.  TLS_MESSAGE_CAP = None in trees without the check. *)
Definition byte_at (l : list Z) (i : nat) : Z := (nth i l 0) mod 256.
Fixpoint tls_parse (fuel : nat) (buf : list Z) : option (list Z) :=
  match fuel with
  | O => Some buf
  | S fuel =>
      if Zlen buf <? 4 then Some buf else
      let mlen := 4 + (byte_at buf 1 * 65536 + byte_at buf 2 * 256 + byte_at buf 3) in
      if (match TLS_MESSAGE_CAP with Some m => mlen >? m | None => false end) then None
      else if Zlen buf <? mlen then Some buf
      else tls_parse fuel (zdrop mlen buf)
  end.

Definition handle_crypto (c : conn) (off : Z) (data : list Z) : outcome * conn :=
  let len := Zlen data in
  if off + len >? UINT_VAR_MAX then (OErr E_FRAME_ENCODING_ERROR FT_CRYPTO, c) else
  let pending := off + len - r_start (c_crypto c) in
  if pending >? MAX_PENDING_CRYPTO then (OErr E_CRYPTO_BUFFER_EXCEEDED FT_CRYPTO, c) else
  let '(o, r') := handle_frame (c_crypto c) off data false in
  match o with
  | RFinalSizeError => (OExn, c)      (* FinalSizeError is not caught in _handle_crypto_frame *)
  | RData d _ =>                      (* tls.handle_message(event.data): reassembly of handshake messages *)
      match tls_parse (length (c_tls c ++ d)) (c_tls c ++ d) with
      | Some t => (OOk o, set_tls c r' t)
      | None => (OErr (E_CRYPTO_ERROR + ALERT_DECODE_ERROR) FT_CRYPTO, c)
      end
  | _ => (OOk o, set_crypto c r')
  end.

(* ---------- PATH_CHALLENGE / local challenges ---------- *)
Definition handle_path_challenge (c : conn) (d : Z) : outcome * conn :=
  (OOk RNone, if Zlen (c_chal c) <? MAX_REMOTE_CHALLENGES then set_chal c (c_chal c ++ [d]) else c).

(* a packet of PATH_CHALLENGE frames (nothing else: a probing packet, the path is not promoted) from a source
   address other than the active path's: _find_network_path + _handle_path_challenge_frame + the append (and, in trees
   that have it, "if len(self._network_paths) > MAX_NETWORK_PATHS: self._network_paths.pop(1)") in receive_datagram *)
Definition add_chals (q ds : list Z) : list Z :=
  fold_left (fun q d => if Zlen q <? MAX_REMOTE_CHALLENGES then q ++ [d] else q) ds q.
Fixpoint pfind (a : Z) (l : list (Z * list Z)) : option (list Z) :=
  match l with [] => None | (k, q) :: t => if k =? a then Some q else pfind a t end.
Fixpoint pset (a : Z) (q : list Z) (l : list (Z * list Z)) : list (Z * list Z) :=
  match l with [] => [] | (k, q0) :: t => if k =? a then (k, q) :: t else (k, q0) :: pset a q t end.
Definition handle_path_packet (c : conn) (addr : Z) (ds : list Z) : outcome * conn :=
  match pfind addr (c_paths c) with
  | Some q => (OOk RNone, set_paths c (pset addr (add_chals q ds) (c_paths c)))
  | None =>
      let l := c_paths c ++ [(addr, add_chals [] ds)] in
      (OOk RNone, set_paths c (match NETWORK_PATHS_CAP with
                               | Some m => if 1 + Zlen l >? m then tl l else l
                               | None => l end))
  end.

(* _add_local_challenge: append, then drop from the front while longer than the cap *)
Definition add_local_challenge (c : conn) (d : Z) : conn :=
  let l := c_lchal c ++ [d] in
  set_lchal c (zdrop (Zlen l - MAX_LOCAL_CHALLENGES) l).

(* ---------- NEW_CONNECTION_ID ---------- *)
(* The cap on pending retirements.  WHERE the code evaluates it is probed from the source on every run
   (tools/gen/c07_consts.py _ncid_cap_shape, fails closed): NCID_RETIRE_CAP_ONLY_WHEN_RAISED = false is the shape
   "a statement of the handler's body, after everything that can grow the list, on every path" -- the late-arrival
   path (a never-seen sequence number below Retire Prior To, retired at once) included.  In a tree that evaluates
   it only when the frame moved Retire Prior To forward (flag true) the model skips it exactly there, and
   buffer_bounded (proofs/ConnLimitsP.v handle_new_cid_inv) no longer checks.  [raised]: the frame's Retire Prior To
   field is larger than the one known before the frame. *)
Definition retire_cap : Z := Z.min (LOCAL_ACTIVE_CID_LIMIT * 4) MAX_PENDING_RETIRES.
Definition over_retire_cap (raised : bool) (pend : list Z) : bool :=
  (negb NCID_RETIRE_CAP_ONLY_WHEN_RAISED || raised) && (Zlen pend >? retire_cap).

Definition handle_new_cid (c : conn) (seq rpt : Z) : outcome * conn :=
  let ft := FT_NEW_CONNECTION_ID in
  if rpt >? seq then (OErr E_PROTOCOL_VIOLATION ft, c) else
  let raised := rpt >? c_cid_rpt c in
  let rpt' := Z.max rpt (c_cid_rpt c) in
  let retire0 := filter (fun q => q <? rpt') (c_cid_avail c) in
  let change := c_cid_active c <? rpt' in
  let retire := if change then c_cid_active c :: retire0 else retire0 in
  let avail1 := filter (fun q => rpt' <=? q) (c_cid_avail c) in
  let fresh := (rpt' <=? seq) && negb (existsb (Z.eqb seq) (c_cid_seen c)) in
  let avail2 := if fresh then avail1 ++ [seq] else avail1 in
  let late := NCID_LATE_RETIRED && negb fresh && negb (existsb (Z.eqb seq) (c_cid_seen c)) in   (* below Retire Prior To, never seen: retired at once *)
  let seen2 := if fresh || late then seq :: c_cid_seen c else c_cid_seen c in
  let pend := c_retire c ++ retire ++ (if late then [seq] else []) in
  let consumed :=
    if change then match avail2 with a :: t => Some (a, t) | [] => None end
    else Some (c_cid_active c, avail2) in
  match consumed with
  | None => if NCID_EMPTY_CLOSES then (OErr E_PROTOCOL_VIOLATION ft, c)
            else (OExn, c)                  (* _peer_cid_available.pop(0) on an empty list: IndexError *)
  | Some (active', avail3) =>
      if 1 + Zlen avail3 >? LOCAL_ACTIVE_CID_LIMIT then (OErr E_CONNECTION_ID_LIMIT_ERROR ft, c) else
      if over_retire_cap raised pend then (OErr E_CONNECTION_ID_LIMIT_ERROR ft, c) else
      (OOk RNone, set_cids c active' avail3 seen2 rpt' pend)
  end.

(* ---------- operations ---------- *)
Inductive op :=
| StreamFrame (ft sid off : Z) (data : list Z)
| ResetStream (sid final_size : Z)
| Touch (ft sid : Z)
| LocalOpen (sid : Z)
| Write
| LimitLost (which : Z)
| StreamLimitLost (sid : Z)
| CryptoFrame (off : Z) (data : list Z)
| PathChallenge (d : Z)
| LocalChallenge (d : Z)
| NewConnectionId (seq rpt : Z)
| PathPacket (addr : Z) (ds : list Z).

Definition step (c : conn) (o : op) : outcome * conn :=
  match o with
  | StreamFrame ft sid off data => handle_stream c ft sid off data
  | ResetStream sid fs => handle_reset_stream c sid fs
  | Touch ft sid => handle_touch c ft sid
  | LocalOpen sid => (OOk RNone, local_open c sid)
  | Write => write c
  | LimitLost k => (OOk RNone, limit_lost c k)
  | StreamLimitLost sid => (OOk RNone, stream_limit_lost c sid)
  | CryptoFrame off data => handle_crypto c off data
  | PathChallenge d => handle_path_challenge c d
  | LocalChallenge d => (OOk RNone, add_local_challenge c d)
  | NewConnectionId seq rpt => handle_new_cid c seq rpt
  | PathPacket addr ds => handle_path_packet c addr ds
  end.

Definition closes (o : outcome) : bool := match o with OErr _ _ | OExn => true | _ => false end.

(* run a sequence: stops at the first closing outcome (the connection is closed / the exception escaped) *)
Fixpoint run (c : conn) (ops : list op) : list outcome * conn :=
  match ops with
  | [] => ([], c)
  | o :: t => let '(r, c') := step c o in
              if closes r then ([r], c') else let '(rs, c'') := run c' t in (r :: rs, c'')
  end.

(* ---------- executable interface ----------------------------------------------------
   header: is_client msd max_data crypto_base
   ops:  0 ft sid off n b1..bn   StreamFrame        1 sid final        ResetStream
         2 ft sid                Touch              3 sid              LocalOpen
         4                       Write              5 which            LimitLost
         6 sid                   StreamLimitLost    7 off n b1..bn     CryptoFrame
         8 d                     PathChallenge      9 d                LocalChallenge
         10 seq rpt              NewConnectionId    11 addr n d1..dn   PathPacket
   output = what is publicly observable:
         10 sid fin n b1..bn   StreamDataReceived event      11 sid   StreamReset event
         2 n (ft a b)*         frames written by a write pass (PATH_RESPONSE, RETIRE_CONNECTION_ID, MAX_* in wire order)
         3 code ft             connection closed with this error code / frame type (run stops)
         4                     a non-QuicConnectionError exception escaped (run stops)
   an accepted frame without event, or a frame ignored because the stream state was discarded, prints nothing *)
Definition out_wire (w : list wire) : list Z :=
  Zlen w :: flat_map (fun x => match x with W ft a b => [ft; a; b] end) w.
Definition out_event (sid : Z) (ev : rout) : list Z :=
  match ev with
  | RData d f => 10 :: sid :: b2z f :: out_list d
  | RReset => [11; sid]
  | _ => []
  end.
Definition op_sid (o : op) : Z :=
  match o with StreamFrame _ sid _ _ => sid | ResetStream sid _ => sid | _ => 0 end.
Definition op_has_event (o : op) : bool :=
  match o with StreamFrame _ _ _ _ | ResetStream _ _ => true | _ => false end.
Definition out_outcome (o : op) (r : outcome) : list Z :=
  match r with
  | OOk ev => if op_has_event o then out_event (op_sid o) ev else []
  | OIgnored => []
  | OWrote w => 2 :: out_wire w
  | OErr code ft => [3; code; ft]
  | OExn => [4]
  end.

Definition parse_op (t : list Z) : option (op * list Z) :=
  match t with
  | 0 :: ft :: sid :: off :: t => let '(d, t) := tk_list t in Some (StreamFrame ft sid off d, t)
  | 1 :: sid :: fs :: t => Some (ResetStream sid fs, t)
  | 2 :: ft :: sid :: t => Some (Touch ft sid, t)
  | 3 :: sid :: t => Some (LocalOpen sid, t)
  | 4 :: t => Some (Write, t)
  | 5 :: k :: t => Some (LimitLost k, t)
  | 6 :: sid :: t => Some (StreamLimitLost sid, t)
  | 7 :: off :: t => let '(d, t) := tk_list t in Some (CryptoFrame off d, t)
  | 8 :: d :: t => Some (PathChallenge d, t)
  | 9 :: d :: t => Some (LocalChallenge d, t)
  | 10 :: seq :: rpt :: t => Some (NewConnectionId seq rpt, t)
  | 11 :: a :: t => let '(d, t) := tk_list t in Some (PathPacket a d, t)
  | _ => None
  end.

Fixpoint exec_conn (fuel : nat) (c : conn) (t : list Z) : list Z :=
  match fuel with O => [] | S fuel =>
  match parse_op t with
  | None => []
  | Some (o, t') =>
      let '(r, c') := step c o in
      out_outcome o r ++ (if closes r then [] else exec_conn fuel c' t')
  end end.

(* EXTRACT: exec_connlimits *)
Definition exec_connlimits (t : list Z) : list Z :=
  match t with
  | cl :: msd :: md :: cb :: t => exec_conn (length t) (conn_init (z2b cl) msd md cb) t
  | _ => []
  end.
