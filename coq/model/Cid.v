(* Model of the connection-ID bookkeeping of QuicConnection (src/aioquic/quic/connection.py).
   Connection IDs are abstracted to their sequence numbers (the harness maps cid bytes <-> seq from the
   NEW_CONNECTION_ID frames it saw); os.urandom CIDs are assumed pairwise distinct.

   peer side : _peer_cid, _peer_cid_available, _peer_cid_sequence_numbers, _peer_retire_prior_to,
               _retire_connection_ids; _handle_new_connection_id_frame, change_connection_id,
               _consume_peer_cid, _retire_peer_cid, RETIRE_CONNECTION_ID write + delivery callback
   host side : _host_cids, _host_cid_seq, host_cid, _remote_active_connection_id_limit;
               _handle_retire_connection_id_frame, _replenish_connection_ids, NEW_CONNECTION_ID write +
               delivery callback, the destination-CID check and the "peer switched CID" branch of
               receive_datagram.
   The model follows the tree WITH the three C18 fixes (docs/C18.md: F1 no connection ID left -> PROTOCOL_VIOLATION,
   F2 late NEW_CONNECTION_ID retired at once, F3 RETIRE_CONNECTION_ID of a never-sent host ID -> PROTOCOL_VIOLATION).
   datagrams_to_send takes a builder budget: how many CID frames QuicPacketBuilder.start_frame() accepts before it
   raises QuicPacketBuilderStop (packet_builder.py; swallowed by datagrams_to_send) -- see "sending" below.
   No proofs in this file. *)
From AQ Require Import lib.Base lib.Tok gen.C18Consts.

Record hcid := mkH { h_seq : Z; h_sent : bool }.          (* QuicConnectionId of _host_cids: sequence_number, was_sent *)

Record st := mkSt {
  is_client : bool;
  (* peer-issued IDs *)
  cur : Z;                 (* _peer_cid.sequence_number *)
  avail : list Z;          (* _peer_cid_available (sequence numbers, list order) *)
  seen : list Z;           (* _peer_cid_sequence_numbers (a set) *)
  rpt : Z;                 (* _peer_retire_prior_to *)
  pend : list Z;           (* _retire_connection_ids *)
  outs : list Z;           (* ghost: RETIRE_CONNECTION_ID frames written, no delivery outcome yet *)
  ackd : list Z;           (* ghost: RETIRE_CONNECTION_ID frames acknowledged *)
  recvd : list Z;          (* ghost: every sequence number received in a well-formed NEW_CONNECTION_ID frame *)
  (* locally issued IDs *)
  hosts : list hcid;       (* _host_cids *)
  hseq : Z;                (* _host_cid_seq *)
  hsent : Z;               (* _host_cid_seq_sent: highest sequence number ever written in a NEW_CONNECTION_ID *)
  rlimit : Z;              (* _remote_active_connection_id_limit *)
  hcur : Z;                (* sequence number of self.host_cid *)
  issued : list Z;         (* ghost: ConnectionIdIssued events emitted (sequence numbers; 0 = the initial ID) *)
  retiredev : list Z;      (* ghost: ConnectionIdRetired events emitted *)
  (* receive context / connection state *)
  pkt : option Z;          (* context.host_cid of the packet being processed (None: no packet / dropped) *)
  closed : option Z        (* Some code: close(error_code=code) was called *)
}.

Definition set_peer (s : st) cur' avail' seen' rpt' pend' recvd' : st :=
  mkSt (is_client s) cur' avail' seen' rpt' pend' (outs s) (ackd s) recvd'
       (hosts s) (hseq s) (hsent s) (rlimit s) (hcur s) (issued s) (retiredev s) (pkt s) (closed s).
Definition set_deliv (s : st) pend' outs' ackd' : st :=
  mkSt (is_client s) (cur s) (avail s) (seen s) (rpt s) pend' outs' ackd' (recvd s)
       (hosts s) (hseq s) (hsent s) (rlimit s) (hcur s) (issued s) (retiredev s) (pkt s) (closed s).
Definition set_host (s : st) hosts' hseq' hsent' issued' retiredev' : st :=
  mkSt (is_client s) (cur s) (avail s) (seen s) (rpt s) (pend s) (outs s) (ackd s) (recvd s)
       hosts' hseq' hsent' (rlimit s) (hcur s) issued' retiredev' (pkt s) (closed s).
Definition set_ctx (s : st) hcur' pkt' closed' : st :=
  mkSt (is_client s) (cur s) (avail s) (seen s) (rpt s) (pend s) (outs s) (ackd s) (recvd s)
       (hosts s) (hseq s) (hsent s) (rlimit s) hcur' (issued s) (retiredev s) pkt' closed'.

(* outcome of one op *)
Inductive outc :=
| OOk
| OQErr (code : Z)      (* QuicConnectionError caught by receive_datagram -> close(code) *)
| ODrop                 (* packet not accepted by the destination-CID check *)
| OIgn.                 (* nothing happened: no packet in progress, or connection already closing *)

Definition memz (x : Z) (l : list Z) : bool := existsb (Z.eqb x) l.
Fixpoint remove1 (x : Z) (l : list Z) : list Z :=
  match l with [] => [] | y :: t => if x =? y then t else y :: remove1 x t end.

(* state right after construction (peer's first packet seen: _peer_cid.sequence_number = 0) *)
Definition init (client : bool) : st :=
  mkSt client 0 [] [0] 0 [] [] [] [0] [mkH 0 true] 1 0 INITIAL_REMOTE_ACTIVE_CID_LIMIT 0 [0] [] None None.

(* ------------------------------------------------------------------ locally issued IDs *)

(* _replenish_connection_ids: while len(_host_cids) < min(8, limit): append(seq=_host_cid_seq, was_sent=False) *)
Fixpoint replenish_loop (fuel : nat) (hs : list hcid) (next target : Z) : list hcid * Z :=
  match fuel with
  | O => (hs, next)
  | S f => if Zlen hs <? target then replenish_loop f (hs ++ [mkH next false]) (next + 1) target
           else (hs, next)
  end.
Definition replenish (s : st) : st :=
  let target := Z.min REPLENISH_CAP (rlimit s) in
  let '(hs, next) := replenish_loop (Z.to_nat target) (hosts s) (hseq s) target in
  set_host s hs next (hsent s) (issued s) (retiredev s).

(* handshake completion: the peer's transport parameters have been stored, then _replenish_connection_ids() *)
Definition handshake_complete (s : st) (limit : Z) : st :=
  replenish (mkSt (is_client s) (cur s) (avail s) (seen s) (rpt s) (pend s) (outs s) (ackd s) (recvd s)
                  (hosts s) (hseq s) (hsent s) limit (hcur s) (issued s) (retiredev s) (pkt s) (closed s)).

Definition has_host (q : Z) (hs : list hcid) : bool := existsb (fun h => h_seq h =? q) hs.
Fixpoint del_host (q : Z) (hs : list hcid) : list hcid :=     (* del self._host_cids[index] of the first match *)
  match hs with [] => [] | h :: t => if h_seq h =? q then t else h :: del_host q t end.

(* top of receive_datagram: "Check destination CID matches" (1-RTT packet addressed to the ID with sequence d) *)
Definition recv_packet (s : st) (d : Z) : outc * st :=
  match closed s with Some _ => (OIgn, s) | None =>
  if is_client s && negb (has_host d (hosts s)) then (ODrop, set_ctx s (hcur s) None None)
  else (OOk, set_ctx s (hcur s) (Some d) None)
  end.

(* a host ID with this sequence number exists, is flagged unsent and lies above the high-water mark: its
   NEW_CONNECTION_ID was never written *)
Definition never_sent (q : Z) (hs : list hcid) (mark : Z) : bool :=
  existsb (fun h => (h_seq h =? q) && negb (h_sent h) && (h_seq h >? mark)) hs.

(* _handle_retire_connection_id_frame *)
Definition recv_retire (s : st) (q : Z) : outc * st :=
  match closed s, pkt s with
  | None, Some d =>
      if (q >=? hseq s) || never_sent q (hosts s) (hsent s) then (OQErr E_PROTOCOL_VIOLATION, set_ctx s (hcur s) None (Some E_PROTOCOL_VIOLATION))
      else if has_host q (hosts s) && (q =? d) then
        (OQErr E_PROTOCOL_VIOLATION, set_ctx s (hcur s) None (Some E_PROTOCOL_VIOLATION))
      else (OOk, replenish (set_host s (del_host q (hosts s)) (hseq s) (hsent s) (issued s)
                                     (if has_host q (hosts s) then retiredev s ++ [q] else retiredev s)))
  | _, _ => (OIgn, s)
  end.

(* ------------------------------------------------------------------ peer-issued IDs *)

(* change_connection_id() *)
Definition change_cid (s : st) : st :=
  match avail s with
  | [] => s
  | a :: t => set_peer s a t (seen s) (rpt s) (pend s ++ [cur s]) (recvd s)
  end.
Definition local_change (s : st) : outc * st := (OOk, change_cid s).

(* _handle_new_connection_id_frame (sequence_number q, retire_prior_to r, len(connection_id) n) *)
Definition recv_newcid (s : st) (q r n : Z) : outc * st :=
  match closed s, pkt s with
  | None, Some _ =>
      if (n =? 0) || (n >? CONNECTION_ID_MAX_SIZE) then
        (OQErr E_FRAME_ENCODING_ERROR, set_ctx s (hcur s) None (Some E_FRAME_ENCODING_ERROR))
      else if r >? q then
        (OQErr E_PROTOCOL_VIOLATION, set_ctx s (hcur s) None (Some E_PROTOCOL_VIOLATION))
      else
        let recvd' := recvd s ++ [q] in
        let rpt' := Z.max r (rpt s) in
        let change := cur s <? rpt' in
        let retire0 := filter (fun c => c <? rpt') (avail s) in
        let avail1 := filter (fun c => c >=? rpt') (avail s) in
        let fresh := (q >=? rpt') && negb (memz q (seen s)) in
        let late := (q <? rpt') && negb (memz q (seen s)) in      (* arrives below retire_prior_to: retired at once *)
        let retire := (if change then cur s :: retire0 else retire0) ++ (if late then [q] else []) in
        let avail2 := if fresh then avail1 ++ [q] else avail1 in
        let seen2 := if memz q (seen s) then seen s else seen s ++ [q] in
        let pend' := pend s ++ retire in
        if change then
          match avail2 with
          | [] =>   (* "No connection ID left after Retire Prior To" *)
              (OQErr E_PROTOCOL_VIOLATION,
               set_ctx (set_peer s (cur s) [] seen2 rpt' pend' recvd') (hcur s) None (Some E_PROTOCOL_VIOLATION))
          | a :: t =>
              let s' := set_peer s a t seen2 rpt' pend' recvd' in
              if 1 + Zlen t >? LOCAL_ACTIVE_CID_LIMIT then
                (OQErr E_CONNECTION_ID_LIMIT_ERROR, set_ctx s' (hcur s) None (Some E_CONNECTION_ID_LIMIT_ERROR))
              else if Zlen pend' >? Z.min (LOCAL_ACTIVE_CID_LIMIT * PENDING_RETIRES_FACTOR) MAX_PENDING_RETIRES then
                (OQErr E_CONNECTION_ID_LIMIT_ERROR, set_ctx s' (hcur s) None (Some E_CONNECTION_ID_LIMIT_ERROR))
              else (OOk, s')
          end
        else
          let s' := set_peer s (cur s) avail2 seen2 rpt' pend' recvd' in
          if 1 + Zlen avail2 >? LOCAL_ACTIVE_CID_LIMIT then
            (OQErr E_CONNECTION_ID_LIMIT_ERROR, set_ctx s' (hcur s) None (Some E_CONNECTION_ID_LIMIT_ERROR))
          else if Zlen pend' >? Z.min (LOCAL_ACTIVE_CID_LIMIT * PENDING_RETIRES_FACTOR) MAX_PENDING_RETIRES then
            (OQErr E_CONNECTION_ID_LIMIT_ERROR, set_ctx s' (hcur s) None (Some E_CONNECTION_ID_LIMIT_ERROR))
          else (OOk, s')
  | _, _ => (OIgn, s)
  end.

(* end of the per-packet part of receive_datagram: a server whose peer switched to another of its IDs
   records it as host_cid and calls change_connection_id() (skipped when closing) *)
Definition packet_done (s : st) : outc * st :=
  match closed s, pkt s with
  | None, Some d =>
      if negb (is_client s) && negb (d =? hcur s) then (OOk, set_ctx (change_cid s) d None None)
      else (OOk, set_ctx s (hcur s) None None)
  | _, _ => (OIgn, set_ctx s (hcur s) None (closed s))
  end.

(* ------------------------------------------------------------------ sending *)

(* Every NEW_/RETIRE_CONNECTION_ID frame is written through builder.start_frame(), which raises
   QuicPacketBuilderStop when the packet has no room for the frame's capacity or -- these are in-flight frames --
   the congestion window has none (remaining_buffer_space / remaining_flight_space < capacity); the pacer can
   also keep _write_application from starting a packet at all.  The exception aborts the whole write pass and is
   swallowed by datagrams_to_send().  How many CID frames the builder accepts in one datagrams_to_send() call is
   therefore an INPUT of the model: the budget b (like the size budgets of the C06 send model).  A refused
   frame must leave the bookkeeping untouched: was_sent is set after start_frame() returned, and the RETIRE loop
   is "for seq in list[:]: write(seq); list.pop(0)" -- the pop comes after the write. *)

(* the NEW_CONNECTION_ID loop: "for connection_id in self._host_cids: if not connection_id.was_sent: write".
   Returns (_host_cids afterwards, sequence numbers written, Some budget left | None = QuicPacketBuilderStop) *)
Fixpoint write_news (hs : list hcid) (b : Z) : list hcid * list Z * option Z :=
  match hs with
  | [] => ([], [], Some b)
  | h :: t =>
      if h_sent h then let '(t', w, r) := write_news t b in (h :: t', w, r)
      else if b <=? 0 then (h :: t, [], None)                      (* start_frame raises: nothing changed *)
      else let '(t', w, r) := write_news t (b - 1) in (mkH (h_seq h) true :: t', h_seq h :: w, r)
  end.

(* the RETIRE_CONNECTION_ID loop.  Returns (sequence numbers written, _retire_connection_ids afterwards) *)
Fixpoint write_rets (pd : list Z) (b : Z) : list Z * list Z :=
  match pd with
  | [] => ([], [])
  | q :: t =>
      if b <=? 0 then ([], q :: t)                                 (* start_frame raises before pop(0) *)
      else let '(w, r) := write_rets t (b - 1) in (q :: w, r)
  end.

(* host IDs whose NEW_CONNECTION_ID is owed (list order = write order) *)
Definition unsent (hs : list hcid) : list Z := map h_seq (filter (fun h => negb (h_sent h)) hs).

(* _write_application, CID part, with builder budget b: NEW_CONNECTION_ID for the host IDs not yet sent
   (ConnectionIdIssued each), then -- unless the builder stopped -- RETIRE_CONNECTION_ID for the pending
   sequence numbers, oldest first, until the builder stops.
   Returns (destination ID sequence number, NEW_CONNECTION_ID seqs written, RETIRE seqs written). *)
Definition send (s : st) (b : Z) : (Z * list Z * list Z) * st :=
  let '(hosts', news, rest) := write_news (hosts s) b in
  let s1 := set_host s hosts' (hseq s) (fold_left Z.max news (hsent s)) (issued s ++ news) (retiredev s) in
  match rest with
  | None => ((cur s, news, []), s1)
  | Some b' =>
      let '(rets, pend') := write_rets (pend s) b' in
      ((cur s, news, rets), set_deliv s1 pend' (outs s ++ rets) (ackd s))
  end.

(* _on_retire_connection_id_delivery *)
Definition retire_delivery (s : st) (q : Z) (acked : bool) : st :=
  if acked then set_deliv s (pend s) (remove1 q (outs s)) (ackd s ++ [q])
  else set_deliv s (pend s ++ [q]) (remove1 q (outs s)) (ackd s).

(* _on_new_connection_id_delivery: the QuicConnectionId object's was_sent flag is cleared on loss
   (an object already deleted from _host_cids is not reachable any more) *)
Definition newcid_delivery (s : st) (q : Z) (acked : bool) : st :=
  if acked then s
  else set_host s (map (fun h => if h_seq h =? q then mkH q false else h) (hosts s)) (hseq s) (hsent s) (issued s) (retiredev s).

(* ------------------------------------------------------------------ ops *)
Inductive op :=
| Handshake (limit : Z)
| RecvPacket (d : Z)
| RecvNewCid (q r n : Z)
| RecvRetire (q : Z)
| PacketDone
| LocalChange
| Send (b : Z)            (* datagrams_to_send(); b = CID frames the builder accepts in this call *)
| RetireDelivery (q : Z) (acked : bool)
| NewCidDelivery (q : Z) (acked : bool).

Definition step (s : st) (o : op) : outc * st :=
  match o with
  | Handshake l => (OOk, handshake_complete s l)
  | RecvPacket d => recv_packet s d
  | RecvNewCid q r n => recv_newcid s q r n
  | RecvRetire q => recv_retire s q
  | PacketDone => packet_done s
  | LocalChange => local_change s
  | Send b => match closed s with None => (OOk, snd (send s b)) | Some _ => (OIgn, s) end
  | RetireDelivery q a => (OOk, retire_delivery s q a)
  | NewCidDelivery q a => (OOk, newcid_delivery s q a)
  end.

Fixpoint run (s : st) (ops : list op) : st :=
  match ops with [] => s | o :: t => run (snd (step s o)) t end.

(* ---------- executable interface ---------------------------------------------------
   input : is_client, then items
     0 limit            handshake completion (silent)
     1 d k f1..fk       one 1-RTT packet addressed to host ID d carrying k frames, f = 2 q r n (NEW_CONNECTION_ID)
                        | 3 q (RETIRE_CONNECTION_ID) | 9 (any other frame); runs RecvPacket, the frames up to
                        the first one that does not return OOk, PacketDone.
                        prints: outcome of the DCID check, outcome of the last frame run (if accepted)
     10 d k f1..fk      the same, silent
     5                  change_connection_id(): prints outcome
     6 b                datagrams_to_send, the builder accepts b CID frames: prints 0, dcid-seq,
                        NEW_CONNECTION_ID seqs, RETIRE seqs, obs (4, obs when closing)
     11 b               the same, silent
     7 q a | 8 q a      delivery outcome of a RETIRE / NEW_CONNECTION_ID frame (silent)
     12                 prints obs
   outcome tokens: 0 ok | 1 code | 3 drop | 4 ignored (2 = exception escaped: never printed by the model)
   obs: cur, rpt, avail list, pend list, hosts as list of seq*2+was_sent, hseq, hcur, closed (0 | 1 code) *)
Definition out_outc (o : outc) : list Z :=
  match o with OOk => [0] | OQErr c => [1; c] | ODrop => [3] | OIgn => [4] end.
Definition obs (s : st) : list Z :=
  [cur s; rpt s] ++ out_list (avail s) ++ out_list (pend s)
  ++ out_list (map (fun h => 2 * h_seq h + b2z (h_sent h)) (hosts s))
  ++ [hseq s; hcur s] ++ out_opt (closed s).

Definition is_ok (o : outc) : bool := match o with OOk => true | _ => false end.

(* frames of one packet: returns (outcome of the last frame run, state, remaining tokens) *)
Fixpoint run_frames (k : nat) (s : st) (toks : list Z) (stop : bool) (last : outc) : outc * st * list Z :=
  match k with O => (last, s, toks) | S k =>
  match toks with
  | 2 :: q :: r :: n :: t =>
      if stop then run_frames k s t true last
      else let '(o, s') := step s (RecvNewCid q r n) in run_frames k s' t (negb (is_ok o)) o
  | 3 :: q :: t =>
      if stop then run_frames k s t true last
      else let '(o, s') := step s (RecvRetire q) in run_frames k s' t (negb (is_ok o)) o
  | 9 :: t => run_frames k s t stop last
  | _ => (last, s, [])
  end end.

Definition run_packet (s : st) (d k : Z) (toks : list Z) : list Z * st * list Z :=
  let '(o, s1) := step s (RecvPacket d) in
  let '(fo, s2, rest) := run_frames (Z.to_nat k) s1 toks (negb (is_ok o)) OOk in
  let '(_, s3) := step s2 PacketDone in
  (out_outc o ++ (if is_ok o then out_outc fo else []), s3, rest).

Fixpoint exec_cid_loop (fuel : nat) (s : st) (toks : list Z) : list Z :=
  match fuel with O => [] | S fuel =>
  match toks with
  | 0 :: l :: t => exec_cid_loop fuel (snd (step s (Handshake l))) t
  | 1 :: d :: k :: t =>
      let '(out, s', rest) := run_packet s d k t in out ++ exec_cid_loop fuel s' rest
  | 10 :: d :: k :: t =>
      let '(_, s', rest) := run_packet s d k t in exec_cid_loop fuel s' rest
  | 5 :: t => let '(o, s') := step s LocalChange in out_outc o ++ exec_cid_loop fuel s' t
  | 6 :: b :: t =>
      match closed s with
      | None =>
          let '((d, news, rets), s') := send s b in
          [0; d] ++ out_list news ++ out_list rets ++ obs s' ++ exec_cid_loop fuel s' t
      | Some _ => out_outc OIgn ++ obs s ++ exec_cid_loop fuel s t
      end
  | 11 :: b :: t => exec_cid_loop fuel (snd (step s (Send b))) t
  | 7 :: q :: a :: t => exec_cid_loop fuel (snd (step s (RetireDelivery q (z2b a)))) t
  | 8 :: q :: a :: t => exec_cid_loop fuel (snd (step s (NewCidDelivery q (z2b a)))) t
  | 12 :: t => obs s ++ exec_cid_loop fuel s t
  | _ => []
  end end.

(* EXTRACT: exec_cid *)
Definition exec_cid (toks : list Z) : list Z :=
  match toks with
  | c :: t => exec_cid_loop (length t) (init (z2b c)) t
  | [] => []
  end.
