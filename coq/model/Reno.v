(* Model of RenoCongestionControl (src/aioquic/quic/congestion/reno.py). *)
From AQ Require Import lib.Base model.RecBase gen.C08Consts.

Section Reno.
Context {T : Type} (F : fops T).

Record reno := mkReno {
  rn_bif : Z;               (* bytes_in_flight *)
  rn_cwnd : Z;              (* congestion_window *)
  rn_ssthresh : option Z;   (* ssthresh *)
  rn_mss : Z;               (* _max_datagram_size *)
  rn_start : T;             (* _congestion_recovery_start_time *)
  rn_stash : Z;             (* _congestion_stash *)
  rn_mon : rttmon (T:=T);   (* _rtt_monitor *)
  rn_anom : bool
}.

Definition reno_init (mss : Z) : reno :=
  mkReno 0 (K_INITIAL_WINDOW * mss) None mss (fofZ F 0) 0 (mon_init F) false.

Definition reno_on_sent (c : reno) (p : pkt T) : reno :=
  mkReno (rn_bif c + p_bytes p) (rn_cwnd c) (rn_ssthresh c) (rn_mss c) (rn_start c) (rn_stash c) (rn_mon c) (rn_anom c).

Definition reno_on_acked (c : reno) (now : T) (p : pkt T) : reno :=
  let bif := rn_bif c - p_bytes p in
  if fleb F (p_time p) (rn_start c) then
    mkReno bif (rn_cwnd c) (rn_ssthresh c) (rn_mss c) (rn_start c) (rn_stash c) (rn_mon c) (rn_anom c)
  else
    let slow := match rn_ssthresh c with None => true | Some s => rn_cwnd c <? s end in
    if slow then
      mkReno bif (rn_cwnd c + p_bytes p) (rn_ssthresh c) (rn_mss c) (rn_start c) (rn_stash c) (rn_mon c) (rn_anom c)
    else
      let stash := rn_stash c + p_bytes p in
      let count := stash / rn_cwnd c in
      if count =? 0 then
        mkReno bif (rn_cwnd c) (rn_ssthresh c) (rn_mss c) (rn_start c) stash (rn_mon c) (rn_anom c)
      else
        mkReno bif (rn_cwnd c + count * rn_mss c) (rn_ssthresh c) (rn_mss c) (rn_start c)
               (stash - count * rn_cwnd c) (rn_mon c) (rn_anom c).

Definition reno_on_expired (c : reno) (l : list (pkt T)) : reno :=
  mkReno (rn_bif c - sum_bytes l) (rn_cwnd c) (rn_ssthresh c) (rn_mss c) (rn_start c) (rn_stash c) (rn_mon c) (rn_anom c).

Definition reno_on_lost (c : reno) (now : T) (l : list (pkt T)) : reno :=
  let bif := rn_bif c - sum_bytes l in
  let llt := last_time (fofZ F 0) l in
  if fltb F (rn_start c) llt then
    let '(half, anom) := trunc_flag F (fmul F (fofZ F (rn_cwnd c)) (fconstv F CRenoBeta)) (rn_anom c) in
    let cwnd := Z.max half (K_MINIMUM_WINDOW * rn_mss c) in
    mkReno bif cwnd (Some cwnd) (rn_mss c) now (rn_stash c) (rn_mon c) anom
  else
    mkReno bif (rn_cwnd c) (rn_ssthresh c) (rn_mss c) (rn_start c) (rn_stash c) (rn_mon c) (rn_anom c).

Definition reno_on_rtt (c : reno) (now rtt : T) : reno :=
  match rn_ssthresh c with
  | Some _ => c
  | None =>
      let '(inc, mon) := is_rtt_increasing F (rn_mon c) now rtt in
      mkReno (rn_bif c) (rn_cwnd c) (if inc then Some (rn_cwnd c) else None) (rn_mss c) (rn_start c)
             (rn_stash c) mon (rn_anom c)
  end.

Definition reno_cc : ccops T reno :=
  mkCc T reno rn_bif rn_cwnd rn_ssthresh (fun c => b2z (rn_anom c)) reno_on_sent reno_on_acked reno_on_expired reno_on_lost reno_on_rtt.

End Reno.
