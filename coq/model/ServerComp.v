(* Composition of the two C19 models: a QuicServer (Router.v) together with the QuicConnectionProtocol objects
   it has created (Adapter.v), wired as asyncio/server.py wires them:

       protocol._connection_id_issued_handler  = partial(self._connection_id_issued,  protocol=protocol)
       protocol._connection_id_retired_handler = partial(self._connection_id_retired, protocol=protocol)
       protocol._connection_terminated_handler = partial(self._connection_terminated, protocol=protocol)

   Nothing is modelled twice: a step of protocol p is Adapter.prepare followed by Adapter.run_plan (the same two
   functions Adapter.step is made of), with the procedure that handles the queued events replaced by cprocess,
   which calls Router.rstep for the three callbacks and hands the callback's outcome to Adapter.handle_event
   (in the stand-alone adapter model that outcome is data carried by the event; here the field is ignored and
   overwritten).  QuicServer.datagram_received = Router.rstep (RDgram d), then datagram_received of the protocol
   the datagram was routed to / created for.

   Ghost state (not in the code): w_ann, the connection IDs a protocol has put into NEW_CONNECTION_ID frames
   handed to the transport -- datagrams_to_send() queues ConnectionIdIssued exactly when it writes such a frame
   (quic/connection.py _write_new_connection_id_frame), so these are the cids of the ConnectionIdIssued events in
   evs_tx -- minus those the server has seen retired (_connection_id_retired called) and those of terminated
   protocols.  No proofs in this file. *)
From AQ Require Import lib.Base lib.Tok model.Adapter model.Router.

Record world := mkW {
  w_rt : rst;                 (* the QuicServer *)
  w_ann : list (Z * Z)        (* ghost: (cid, protocol) announced on the wire, not retired, protocol not terminated *)
}.

Definition ann_del (c p : Z) (l : list (Z * Z)) : list (Z * Z) :=
  filter (fun e => negb ((fst e =? c) && (snd e =? p))) l.
Definition ann_purge (p : Z) (l : list (Z * Z)) : list (Z * Z) :=
  filter (fun e => negb (snd e =? p)) l.

Definition rx_code (x : option Z) : Z := match x with None => 0 | Some k => k end.

(* the callback registered on protocol p for event e: (exception kind or 0, world afterwards) *)
Definition route_event (p : Z) (e : event) (w : world) : Z * world :=
  match e with
  | EvCidIssued c _ =>
      let '(x, _, r) := rstep (w_rt w) (RIssued p c) in (rx_code x, mkW r (w_ann w))
  | EvCidRetired c _ =>
      let '(x, _, r) := rstep (w_rt w) (RRetired p c) in (rx_code x, mkW r (ann_del c p (w_ann w)))
  | EvTerminated _ =>
      let '(x, _, r) := rstep (w_rt w) (RTerminated p) in (rx_code x, mkW r (ann_purge p (w_ann w)))
  | _ => (0, w)
  end.

Definition set_hx (e : event) (hx : Z) : event :=
  match e with
  | EvCidIssued c _ => EvCidIssued c hx
  | EvCidRetired c _ => EvCidRetired c hx
  | EvTerminated _ => EvTerminated hx
  | _ => e
  end.

(* _process_events() of protocol p: same loop as Adapter.process, the handler outcome comes from the server *)
Fixpoint cprocess (p : Z) (q : list event) (w : world) (a : st) : option Z * world * st :=
  match q with
  | [] => (None, w, with_evq a [])
  | e :: rest =>
      let '(hx, w1) := route_event p e w in
      match handle_event (set_hx e hx) (with_evq a rest) with
      | (Some x, a') => (Some x, w1, a')
      | (None, a') => cprocess p rest w1 a'
      end
  end.

Definition cproc (p : Z) (w : world) (a : st) : option Z * world * st := cprocess p (evq a) w a.

Fixpoint issued_cids (l : list event) : list Z :=
  match l with
  | [] => []
  | EvCidIssued c _ :: t => c :: issued_cids t
  | _ :: t => issued_cids t
  end.

(* datagrams_to_send() of protocol p wrote NEW_CONNECTION_ID frames for these cids (ghost only) *)
Definition ctx (p : Z) (w : world) (evs_tx : list event) : world :=
  mkW (w_rt w) (map (fun c => (c, p)) (issued_cids evs_tx) ++ w_ann w).

(* the protocol objects, by protocol number *)
Fixpoint p_get (p : Z) (l : list (Z * st)) : option st :=
  match l with
  | [] => None
  | (k, a) :: t => if k =? p then Some a else p_get p t
  end.
Fixpoint p_set (p : Z) (a : st) (l : list (Z * st)) : list (Z * st) :=
  match l with
  | [] => [(p, a)]
  | (k, b) :: t => if k =? p then (k, a) :: t else (k, b) :: p_set p a t
  end.

Record sst := mkS {
  s_w : world;
  s_prots : list (Z * st);
  s_closed : bool              (* QuicServer.close() has been called *)
}.
Definition sst_init : sst := mkS (mkW rst_init []) [] false.

Inductive sop :=
| SDgram (d : dgram) (evs : list event) (gt : option Z) (evs_tx : list event)
    (* QuicServer.datagram_received; evs/gt/evs_tx: what the connection of the protocol that gets the datagram does *)
| SProt (p : Z) (o : op)     (* any other step of protocol p: its timer, its deferred transmit, an API call *)
| SClose.                    (* QuicServer.close(): _protocols.clear() -- the protocol.close() calls that precede
                                it are SProt p (OClose ..) steps, in the (unspecified) order of the set *)

(* a step of protocol p inside the server *)
Definition pstep (fx : bool) (s : sst) (p : Z) (o : op) : option Z * list Z * sst :=
  match p_get p (s_prots s) with
  | None => (Some R_INVALID, [], s)
  | Some a =>
      let '(x, out, w', a') := run_plan (cproc p) (ctx p) fx (s_w s) (prepare a o) in
      (x, out, mkS w' (p_set p a' (s_prots s)) (s_closed s))
  end.

Definition sstep (fx : bool) (s : sst) (o : sop) : option Z * list Z * sst :=
  match o with
  | SDgram d evs gt evs_tx =>
      let '(_, out, r) := rstep (w_rt (s_w s)) (RDgram d) in
      let w := mkW r (w_ann (s_w s)) in
      match out with
      | a :: p :: _ =>
          if a =? A_CREATED then
            pstep fx (mkS w (p_set p st_init (s_prots s)) (s_closed s)) p (ORecv evs gt evs_tx)
          else if a =? A_ROUTED then pstep fx (mkS w (s_prots s) (s_closed s)) p (ORecv evs gt evs_tx)
          else (None, [], mkS w (s_prots s) (s_closed s))
      | _ => (None, [], mkS w (s_prots s) (s_closed s))
      end
  | SProt p o => pstep fx s p o
  | SClose =>
      let '(_, _, r) := rstep (w_rt (s_w s)) RClose in
      (None, [], mkS (mkW r (w_ann (s_w s))) (s_prots s) true)
  end.

Fixpoint srun (fx : bool) (s : sst) (ops : list sop) : sst :=
  match ops with
  | [] => s
  | o :: t => let '(_, _, s') := sstep fx s o in srun fx s' t
  end.

(* which protocol's transmit() a step runs (if it gets that far) *)
Definition is_tx (o : op) : bool :=
  match o with
  | ORecv _ _ _ | OTimer _ _ _ _ _ | ORunSoon _ _ | OTransmit _ _ | OClose _ _ | OPing _ _ _ => true
  | _ => false
  end.

Definition transmitter (s : sst) (o : sop) : option Z :=
  match o with
  | SDgram d _ _ _ =>
      match snd (fst (rstep (w_rt (s_w s)) (RDgram d))) with
      | a :: p :: _ => if (a =? A_CREATED) || (a =? A_ROUTED) then Some p else None
      | _ => None
      end
  | SProt p o => if is_tx o then Some p else None
  | SClose => None
  end.
