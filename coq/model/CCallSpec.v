(* C04: what it means for a native call recorded by the generated caller model (gen/CCallers.v) to be
   memory safe / inside the contract / rejected, in terms of the generated C memory model (gen/CMem.v).
   No proofs here. *)
From Coq Require Import ZArith List Bool.
From AQ Require Import model.CMemBase gen.CMem model.CMemSpec model.CCallBase gen.CCallers.
Import ListNotations.
Local Open Scope Z_scope.

(* every access of the C function is in bounds, for every value of the quantities the lengths do not determine
   (packet number, OpenSSL results, loaded bytes, whether argument parsing succeeded) *)
Definition ncall_safe (c : ncall) : Prop :=
  match c with
  | NAeadEncrypt d a => forall pn parsed i f1 outlen f2 outlen2 f3 f4 f5,
      R_AEAD_encrypt d a pn parsed i f1 outlen f2 outlen2 f3 f4 f5 ->
      events_safe (ev_AEAD_encrypt d a pn parsed i f1 outlen f2 outlen2 f3 f4 f5)
  | NAeadDecrypt d a => forall pn parsed i f1 f2 outlen f3 outlen2 f4 f5,
      R_AEAD_decrypt d a pn parsed i f1 f2 outlen f3 outlen2 f4 f5 ->
      events_safe (ev_AEAD_decrypt d a pn parsed i f1 f2 outlen f3 outlen2 f4 f5)
  | NHpApply h p => forall parsed pnl0 f1 b80 i,
      R_HeaderProtection_apply h p parsed pnl0 f1 b80 i ->
      events_safe (ev_HeaderProtection_apply h p parsed pnl0 f1 b80 i)
  | NHpRemove L e => forall parsed f1 b80 pnl0 i,
      R_HeaderProtection_remove L (c_int_of_I e) parsed f1 b80 pnl0 i ->
      events_safe (ev_HeaderProtection_remove L (c_int_of_I e) parsed f1 b80 pnl0 i)
  end.

(* the region of arguments the CURRENT C code accepts (its length guards); pnl0 = header[0] & 3 for apply *)
Definition Kacc_AEAD_decrypt (data_len : Z) : Prop := 16 <= data_len <= 1500.
Definition ncall_in_contract (pnl0 : Z) (c : ncall) : Prop :=
  match c with
  | NAeadEncrypt d _ => Kspec_AEAD_encrypt d
  | NAeadDecrypt d _ => Kacc_AEAD_decrypt d
  | NHpApply h p => Kspec_HP_apply h p pnl0
  | NHpRemove L e => Kspec_HP_remove L (c_int_of_I e)
  end.

(* the call ends in CryptoError (exception code 6 of the translator), cursor untouched; arguments parsed *)
Definition CRYPTO_ERROR : Z := 6.
Definition ncall_rejected (pnl0 : Z) (c : ncall) : Prop :=
  match c with
  | NAeadEncrypt d a => forall pn i f1 outlen f2 outlen2 f3 f4 f5,
      first_term (ev_AEAD_encrypt d a pn 1 i f1 outlen f2 outlen2 f3 f4 f5) = Some (false, CRYPTO_ERROR, 0)
  | NAeadDecrypt d a => forall pn i f1 f2 outlen f3 outlen2 f4 f5,
      first_term (ev_AEAD_decrypt d a pn 1 i f1 f2 outlen f3 outlen2 f4 f5) = Some (false, CRYPTO_ERROR, 0)
  | NHpApply h p => forall f1 b80 i,
      first_term (ev_HeaderProtection_apply h p 1 pnl0 f1 b80 i) = Some (false, CRYPTO_ERROR, 0)
  | NHpRemove L e => forall f1 b80 q i,
      first_term (ev_HeaderProtection_remove L (c_int_of_I e) 1 f1 b80 q i) = Some (false, CRYPTO_ERROR, 0)
  end.
(* the call returns normally when OpenSSL reports no failure (all fail_* flags 0) *)
Definition ncall_returns (pnl0 : Z) (c : ncall) : Prop :=
  match c with
  | NAeadEncrypt d a => forall pn i outlen outlen2, exists r,
      first_term (ev_AEAD_encrypt d a pn 1 i 0 outlen 0 outlen2 0 0 0) = Some (true, r, 0)
  | NAeadDecrypt d a => forall pn i outlen outlen2, exists r,
      first_term (ev_AEAD_decrypt d a pn 1 i 0 0 outlen 0 outlen2 0 0) = Some (true, r, 0)
  | NHpApply h p => forall b80 i,
      first_term (ev_HeaderProtection_apply h p 1 pnl0 0 b80 i) = Some (true, h + p, 0)
  | NHpRemove L e => forall b80 q i,
      first_term (ev_HeaderProtection_remove L (c_int_of_I e) 1 0 b80 q i) = Some (true, c_int_of_I e + (q + 1), 0)
  end.

(* "guard-stripped" view: is there an access descriptor in the event list that is out of bounds when its path
   condition is ignored?  (Used to show that each contract clause is needed: outside the clause some access of the
   function body would be out of bounds if the guard were not there.) *)
Definition stripped_oob_ev (e : ev) : bool :=
  match e with
  | EAcc _ a => negb (acc_okb a)
  | ELoop _ lo hi f => (lo <? hi) && existsb (fun a => negb (acc_okb a)) (f lo)
  | _ => false
  end.
Definition stripped_oob (es : list ev) : bool := existsb stripped_oob_ev es.

(* ---------- the library's call chains, from the generated call sites ---------- *)
(* sealing: packet_builder._end_packet -> CryptoPair.encrypt_packet -> CryptoContext.encrypt_packet;
   ret = length of the bytes AEAD.encrypt returned *)
Definition seal_chain (tell packet_start header_size : Z) (is_client ackel is_initial dgpad is_1rtt : bool) (rfs ret : Z) : bool * list ncall :=
  let '(pc, hlen, plen) := end_packet_site tell packet_start header_size is_client ackel is_initial dgpad is_1rtt rfs in
  (pc, encrypt_packet_calls hlen plen ret).
(* opening: connection.receive_datagram -> CryptoPair.decrypt_packet -> CryptoContext.decrypt_packet;
   ret = length of the plain header HeaderProtection.remove returned *)
Definition open_chain (data_len tell0 tell1 packet_length ret : Z) : list ncall :=
  let '(plen, eoff) := receive_datagram_site data_len tell0 tell1 packet_length in
  decrypt_packet_calls plen eoff ret.
