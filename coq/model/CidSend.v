(* C18 -- the builder budget of model/Cid.v's [send] DERIVED from the packet-builder / frame-writer models of C13
   (model/Builder.v, model/Writers.v, gen/C13Writers.v), and the composed send model without a free budget input.

   _write_application (src/aioquic/quic/connection.py) writes, inside one open packet and in this order (generated:
   gen/C13Writers.ORDER_write_application = ... 6; 11 ...),

       for connection_id in self._host_cids:                       # NEW_CONNECTION_ID
           if not connection_id.was_sent: self._write_new_connection_id_frame(builder, connection_id)
       for sequence_number in self._retire_connection_ids[:]:      # RETIRE_CONNECTION_ID
           self._write_retire_connection_id_frame(builder, sequence_number); self._retire_connection_ids.pop(0)

   In model/Writers.v these are the two [w_list] lines of [w_app_iter]; [w_cid_loops] below is literally those lines.
   builder.start_frame(type, capacity) raises QuicPacketBuilderStop when remaining_buffer_space or (both frame types
   are in-flight types) remaining_flight_space is below the DECLARED capacity of the frame (54 / 9), and the frame then
   takes its REAL size (1 + varint(seq) + varint(0) + 1 + len(cid) + 16  /  1 + varint(seq)).  So the number of frames
   accepted is a function of the space at the start of the loops and of the frames owed: [cid_budget].
   No proofs in this file. *)
From AQ Require Import lib.Base lib.Tok gen.C13Consts gen.C13Writers model.Builder model.Writers.
From AQ Require model.Cid.

(* what both space checks of start_frame compare with the capacity of an in-flight frame *)
Definition room (s : Builder.st) : Z := Z.min (remaining_buffer_space s) (remaining_flight_space s).

(* bytes one frame really occupies (type byte included) *)
Definition ncid_size (cl q : Z) : Z := 1 + vsz q + vsz W_new_connection_id_frame_retire_prior_to + 1 + cl + STATELESS_RESET_TOKEN_SIZE.
Definition ret_size (q : Z) : Z := 1 + vsz q.

(* frames of declared capacity [cap] and real sizes [szs] offered in order to a packet with [rm] bytes of room:
   (number accepted before start_frame raises, room left) *)
Fixpoint fit (cap rm : Z) (szs : list Z) : Z * Z :=
  match szs with
  | [] => (0, rm)
  | z :: t => if rm <? cap then (0, rm) else let '(n, r) := fit cap (rm - z) t in (1 + n, r)
  end.

(* the builder budget: NEW_CONNECTION_ID frames for [news] (host IDs flagged unsent, cid length [cl]) first; only when
   all of them were accepted the RETIRE_CONNECTION_ID frames for [rets] *)
Definition cid_budget (rm cl : Z) (news rets : list Z) : Z :=
  let '(n1, r1) := fit W_new_connection_id_frame_0_cap rm (map (ncid_size cl) news) in
  if n1 <? Zlen news then n1 else n1 + fst (fit W_retire_connection_id_frame_0_cap r1 (map ret_size rets)).

(* room left after the loops (meaningful when nothing else is written in between) *)
Definition cid_room_after (rm cl : Z) (news rets : list Z) : Z :=
  let '(n1, r1) := fit W_new_connection_id_frame_0_cap rm (map (ncid_size cl) news) in
  if n1 <? Zlen news then r1 else snd (fit W_retire_connection_id_frame_0_cap r1 (map ret_size rets)).

(* the two CID loops of _write_application as the writer model runs them (the two lines of Writers.w_app_iter) *)
Definition w_cid_loops (c : cfg) (bs : Builder.st) (news : list (Z * Z)) (rets : list Z) : wres :=
  wseq (w_list (fun s x => w_new_connection_id c s (fst x) (snd x)) bs news)
       (fun s1 => w_list (w_retire_connection_id c) s1 rets).

(* ... on the frames the connection-ID state [s] owes; every host ID has len(cid) = cl (configuration.connection_id_length) *)
Definition cid_news_in (cl : Z) (s : Cid.st) : list (Z * Z) := map (fun q => (q, cl)) (Cid.unsent (Cid.hosts s)).
Definition w_cid (c : cfg) (bs : Builder.st) (cl : Z) (s : Cid.st) : wres :=
  w_cid_loops c bs (cid_news_in cl s) (Cid.pend s).

(* builder ops of one accepted frame *)
Definition ncid_ops (cl q : Z) : list Builder.op :=
  OpStartFrame W_new_connection_id_frame_0_ft W_new_connection_id_frame_0_cap
  :: map OpPush [vsz q; vsz W_new_connection_id_frame_retire_prior_to; 1; cl; STATELESS_RESET_TOKEN_SIZE].
Definition ret_ops (q : Z) : list Builder.op :=
  [OpStartFrame W_retire_connection_id_frame_0_ft W_retire_connection_id_frame_0_cap; OpPush (vsz q)].

(* the budget of the connection-ID state [s] when the loops start in builder state [bs] *)
Definition budget_of (bs : Builder.st) (cl : Z) (s : Cid.st) : Z :=
  cid_budget (room bs) cl (Cid.unsent (Cid.hosts s)) (Cid.pend s).

(* the composed send: Cid.send with the budget the builder state determines -- no free input *)
Definition send_built (bs : Builder.st) (cl : Z) (s : Cid.st) : (Z * list Z * list Z) * Cid.st :=
  Cid.send s (budget_of bs cl s).

(* ops of the composed model: datagrams_to_send is [BSend bs cl] (bs = the builder state in which the CID loops of the
   first application packet start: cfg, buffer/flight capacity, bytes already written), every other op is Cid's *)
Inductive bop :=
| BSend (bs : Builder.st) (cl : Z)
| BOp (o : Cid.op).

Definition to_op (s : Cid.st) (o : bop) : Cid.op :=
  match o with
  | BSend bs cl => Cid.Send (budget_of bs cl s)
  | BOp o => o
  end.

Definition bstep (s : Cid.st) (o : bop) : Cid.outc * Cid.st := Cid.step s (to_op s o).

Fixpoint brun (s : Cid.st) (ops : list bop) : Cid.st :=
  match ops with [] => s | o :: t => brun (snd (bstep s o)) t end.

(* the 1-RTT packet a fresh builder opens: what start_packet leaves (None = it raised) *)
Definition fresh_packet (c : cfg) (pn : Z) : option Builder.st :=
  match start_packet c (init_st c pn) PT_ONE_RTT with
  | (ODone, s) => Some s
  | _ => None
  end.

(* frames guaranteed per packet with [rm] bytes of room, whatever the mix (NEW_CONNECTION_ID is the larger capacity) *)
Definition frames_per_room (rm : Z) : Z := rm / W_new_connection_id_frame_0_cap.

(* ---------- executable interface (tie) --------------------------------------------------------------------
   A sequence of groups; one group = one run of the two loops in a given builder state:
     input : is_client mds peer host  bcap fcap tell  p_start p_hdr p_inflight  cl  n q1..qn  m r1..rm
             (the QuicPacketBuilder fields at the first CID writer call of a datagrams_to_send; unsent host sequence
             numbers in _host_cids order; _retire_connection_ids)
     output: room, budget, then AS THE WRITER MODEL RUNS THE LOOPS: outcome code (0 returned | 1 QuicPacketBuilderStop |
             other exception codes of exec_builder), number of frames accepted, remaining_buffer_space and
             remaining_flight_space afterwards; then AS Cid.send PREDICTS WITH THAT BUDGET: NEW_CONNECTION_ID sequence
             numbers written, RETIRE_CONNECTION_ID sequence numbers written, _retire_connection_ids afterwards, host
             sequence numbers still flagged unsent. *)
Definition count_frames (tr : list Builder.op) : Z :=
  Zlen (filter (fun x => 0 <? snd x) (frames_of (length tr) tr)).

Definition cid_state_of (news rets : list Z) : Cid.st :=
  Cid.mkSt true 0 [] [0] 0 rets [] [] [0] (map (fun q => Cid.mkH q false) news) 0 0 0 0 [] [] None None.

Definition exec_cidsend_group (toks : list Z) : list Z * list Z :=
  match toks with
  | cl_ :: mds :: peer :: host :: bcap :: fcap :: tell :: pstart :: phdr :: infl :: cl :: r =>
      let '(news, r) := tk_list r in
      let '(rets, rest) := tk_list r in
      let c := mkCfg (z2b cl_) mds peer host 0 None None None in
      let bs := Builder.mkSt tell bcap fcap 0 false false 0 0
                  (Some (mkPkt PT_ONE_RTT pstart phdr (z2b infl) false false 0)) true 0 [] [] false [] in
      let s := cid_state_of news rets in
      let '(o, bs', tr) := w_cid c bs cl s in
      let '((_, wn, wr), s') := send_built bs cl s in
      ([room bs; budget_of bs cl s; out_outcome o; count_frames tr; remaining_buffer_space bs'; remaining_flight_space bs']
       ++ out_list wn ++ out_list wr ++ out_list (Cid.pend s') ++ out_list (Cid.unsent (Cid.hosts s')), rest)
  | _ => ([], [])
  end.

Fixpoint exec_cidsend_loop (fuel : nat) (toks : list Z) : list Z :=
  match fuel with O => [] | S fuel =>
  match toks with
  | [] => []
  | _ => let '(out, rest) := exec_cidsend_group toks in out ++ exec_cidsend_loop fuel rest
  end end.

(* EXTRACT: exec_cidsend *)
Definition exec_cidsend (toks : list Z) : list Z := exec_cidsend_loop (length toks) toks.
