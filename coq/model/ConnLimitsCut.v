(* C07, write passes cut short by QuicPacketBuilderStop.

   Every PATH_RESPONSE / RETIRE_CONNECTION_ID / MAX_DATA / MAX_STREAMS / MAX_STREAM_DATA frame of _write_application is
   written through builder.start_frame(), which raises QuicPacketBuilderStop when the packet has no room or -- these
   are in-flight frames -- the congestion window has none.  The exception aborts the whole pass (no later frame, no
   discarding of finished streams) and is swallowed by datagrams_to_send().  As in coq/model/Cid.v (C18) the number of
   modelled frames the builder accepts in one datagrams_to_send() call is an INPUT of the model: the budget b.

   The code as it is (connection.py):
     PATH_RESPONSE:      while remote_challenges: write(challenge[0]); popleft()          -- pop AFTER the write
     RETIRE_CONNECTION_ID: for seq in list[:]: write(seq); list.pop(0)                     -- pop AFTER the write
     _write_connection_limits, per Limit:
         if limit.used * 2 > limit.value: limit.value *= 2                                 -- BEFORE start_frame
         if limit.value != limit.sent: buf = builder.start_frame(...); ...; limit.sent = limit.value
     _write_stream_limits, per stream: the same shape with max_stream_data_local / _sent
   (RAISE_BEFORE_START_FRAME, probed from the tree under test by tools/gen/c07_consts.py: true for this shape, false when
   the value is assigned only after start_frame() returned:
         value = limit.value; if limit.used * 2 > value: value *= 2
         if value != limit.sent: buf = builder.start_frame(...); limit.value = value; ...; limit.sent = limit.value
   -- there limit.value is assigned ONLY next to a written frame, also when value == limit.sent)
   so a refused MAX_* frame leaves the raised value in force (it is the value every check reads) while nothing was
   advertised; .sent is only assigned after start_frame returned, i.e. when the frame is in the packet.

   Finished streams are discarded in the loop over _streams_queue that also writes STREAM frames, which can stop as
   well: keepl = the stream ids that loop did not reach (input; only finished streams NOT in keepl are discarded). *)
From AQ Require Import lib.Base lib.Tok model.RangeSet model.StreamRecv gen.C07Consts model.ConnLimits model.ConnLimitsSpec.

(* a queue drained front to back: (written, remaining, budget left | None = QuicPacketBuilderStop) *)
Fixpoint drain (q : list Z) (b : Z) : list Z * list Z * option Z :=
  match q with
  | [] => ([], [], Some b)
  | x :: t => if b <=? 0 then ([], x :: t, None)
              else let '(w, r, b') := drain t (b - 1) in (x :: w, r, b')
  end.

(* _write_connection_limits, one Limit *)
Definition raise_limit_b (ft : Z) (l : limit) (b : Z) : limit * list wire * option Z :=
  let v := if l_used l * 2 >? l_value l then l_value l * 2 else l_value l in
  if negb (v =? l_sent l) then
    if b <=? 0 then ((if RAISE_BEFORE_START_FRAME then mkLimit v (l_used l) (l_sent l) else l), [], None)
                                                   (* start_frame raises; flag true: value already raised, nothing written *)
    else (mkLimit v (l_used l) v, [W ft 0 v], Some (b - 1))
  else ((if RAISE_BEFORE_START_FRAME then mkLimit v (l_used l) (l_sent l) else l), [], Some b).
                                                   (* nothing to write; flag false: limit.value is assigned only next to a written frame *)

(* "for stream in self._streams.values(): self._write_stream_limits(...)" *)
Fixpoint raise_streams_b (l : list (Z * strm)) (b : Z) : list (Z * strm) * list wire * option Z :=
  match l with
  | [] => ([], [], Some b)
  | (sid, s) :: t =>
      let v := if negb (sm_msd s =? 0) && (r_highest (sm_recv s) * 2 >? sm_msd s) then sm_msd s * 2 else sm_msd s in
      if negb (sm_sent s =? v) then
        if b <=? 0 then ((sid, if RAISE_BEFORE_START_FRAME then mkStrm v (sm_sent s) (sm_sendfin s) (sm_recv s) else s) :: t, [], None)
        else let '(t', w', r) := raise_streams_b t (b - 1) in
             ((sid, mkStrm v v (sm_sendfin s) (sm_recv s)) :: t', W FT_MAX_STREAM_DATA sid v :: w', r)
      else let '(t', w', r) := raise_streams_b t b in
           ((sid, if RAISE_BEFORE_START_FRAME then mkStrm v (sm_sent s) (sm_sendfin s) (sm_recv s) else s) :: t', w', r)
  end.

Definition set_retire (c : conn) (r : list Z) : conn :=
  set_cids c (c_cid_active c) (c_cid_avail c) (c_cid_seen c) (c_cid_rpt c) r.

(* the stages of the pass, in the code's order *)
Definition stage := conn -> Z -> conn * list wire * option Z.
Definition st_chal : stage := fun c b =>
  let '(w, r, b') := drain (c_chal c) b in (set_chal c r, map (fun d => W FT_PATH_RESPONSE 0 d) w, b').
Definition st_ret : stage := fun c b =>
  let '(w, r, b') := drain (c_retire c) b in (set_retire c r, map (fun q => W FT_RETIRE_CONNECTION_ID 0 q) w, b').
Definition st_data : stage := fun c b =>
  let '(l, w, b') := raise_limit_b FT_MAX_DATA (c_data c) b in (set_limits c l (c_bidi c) (c_uni c), w, b').
Definition st_bidi : stage := fun c b =>
  let '(l, w, b') := raise_limit_b FT_MAX_STREAMS_BIDI (c_bidi c) b in (set_limits c (c_data c) l (c_uni c), w, b').
Definition st_uni : stage := fun c b =>
  let '(l, w, b') := raise_limit_b FT_MAX_STREAMS_UNI (c_uni c) b in (set_limits c (c_data c) (c_bidi c) l, w, b').
Definition st_streams : stage := fun c b =>
  let '(l, w, b') := raise_streams_b (c_streams c) b in (set_streams c l, w, b').

Definition seq (f g : stage) : stage := fun c b =>
  let '(c1, w1, b1) := f c b in
  match b1 with
  | None => (c1, w1, None)
  | Some b1 => let '(c2, w2, b2) := g c1 b1 in (c2, w1 ++ w2, b2)
  end.

Definition limit_stages : stage := seq st_chal (seq st_ret (seq st_data (seq st_bidi (seq st_uni st_streams)))).

(* discarding of finished streams (those the loop reached) *)
Definition discardable (keepl : list Z) (p : Z * strm) : bool :=
  stream_finished (snd p) && negb (existsb (Z.eqb (fst p)) keepl).
Definition discard (c : conn) (keepl : list Z) : conn :=
  let gone := filter (discardable keepl) (c_streams c) in
  mkConn (c_client c) (c_msd c) (c_data c) (c_bidi c) (c_uni c)
         (filter (fun p => negb (discardable keepl p)) (c_streams c)) (c_done c ++ map fst gone)
         (c_crypto c) (c_chal c) (c_lchal c) (c_cid_active c) (c_cid_avail c) (c_cid_seen c) (c_cid_rpt c) (c_retire c)
         (c_gone c + fold_right (fun p a => r_highest (sm_recv (snd p)) + a) 0 gone) (c_tls c) (c_paths c).

Definition write_b (c : conn) (b : Z) (keepl : list Z) : outcome * conn :=
  let '(c1, w, r) := limit_stages c b in
  (OWrote w, match r with None => c1 | Some _ => discard c1 keepl end).

(* ---------- operations: the ones of ConnLimits.v plus the cut pass ---------- *)
Inductive xop :=
| Plain (o : op)
| WriteCut (b : Z) (keepl : list Z).   (* datagrams_to_send(): b modelled frames accepted; keepl not reached by the discard loop *)

Definition xstep (c : conn) (o : xop) : outcome * conn :=
  match o with
  | Plain o => step c o
  | WriteCut b keepl => write_b c b keepl
  end.

Fixpoint xrun (c : conn) (ops : list xop) : list outcome * conn :=
  match ops with
  | [] => ([], c)
  | o :: t => let '(r, c') := xstep c o in
              if closes r then ([r], c') else let '(rs, c'') := xrun c' t in (r :: rs, c'')
  end.

Definition xframe_end (o : xop) : option (Z * Z * bool) :=
  match o with Plain o => frame_end o | WriteCut _ _ => None end.

(* ConnLimitsSpec.accused over the extended operations (every limit from the wire) *)
Fixpoint xaccused (c : conn) (p : peer) (ops : list xop) : bool :=
  match ops with
  | [] => false
  | o :: t =>
      let '(r, c') := xstep c o in
      match xframe_end o with
      | Some (sid, e, fin) =>
          if peer_within (c_client c) p (p_adv_msd p sid) sid e fin then
            match r with
            | OErr code _ => accusation code
            | OExn => false
            | _ => xaccused c' (peer_upd p sid e fin) t
            end
          else false
      | None =>
          match r with
          | OWrote w => xaccused c' (peer_see p w) t
          | OErr _ _ | OExn => false
          | _ => xaccused c' p t
          end
      end
  end.

(* the flow-control part of peer_within: stream count, per-stream data limit, connection data limit AS SEEN ON THE WIRE *)
Definition within_wire_limits (subject_is_client : bool) (p : peer) (sid e : Z) : bool :=
  (Bool.eqb (client_initiated sid) subject_is_client
   || (sid / 4 + 1 <=? (if unidirectional sid then p_adv_uni p else p_adv_bidi p)))
  && (e <=? p_adv_msd p sid)
  && (p_total p + Z.max 0 (e - p_hi p sid) <=? p_adv_data p).

(* true iff the first STREAM / RESET_STREAM frame that goes beyond a limit seen on the wire is ACCEPTED (event or not)
   instead of closing the connection *)
Fixpoint tolerated (c : conn) (p : peer) (ops : list xop) : bool :=
  match ops with
  | [] => false
  | o :: t =>
      let '(r, c') := xstep c o in
      match xframe_end o with
      | Some (sid, e, fin) =>
          if within_wire_limits (c_client c) p sid e then
            if closes r then false else tolerated c' (peer_upd p sid e fin) t
          else match r with OOk _ => true | _ => false end
      | None =>
          match r with
          | OWrote w => tolerated c' (peer_see p w) t
          | OErr _ _ | OExn => false
          | _ => tolerated c' p t
          end
      end
  end.

(* ---------- the converse direction, stated for the first frame that leaves the advertised limits ----------
   answered: the connection closes with FLOW_CONTROL_ERROR or STREAM_LIMIT_ERROR.
   judged: the endpoint gets as far as the limit checks -- the frame is well formed, the peer may send on the stream, the
   stream's state was not discarded (such frames are ignored, RFC 9000 section 3.2) and the stream exists or is the peer's to open.
   A frame that is not judged may only be ignored or refused with FRAME_ENCODING_ERROR / STREAM_STATE_ERROR -- never accepted. *)
Definition answered (r : outcome) : bool :=
  match r with OErr code _ => (code =? E_FLOW_CONTROL_ERROR) || (code =? E_STREAM_LIMIT_ERROR) | _ => false end.
Definition judged (c : conn) (sid e : Z) : bool :=
  (e <=? UINT_VAR_MAX) && can_receive c sid && negb (existsb (Z.eqb sid) (c_done c)) &&
  (negb (Bool.eqb (client_initiated sid) (c_client c)) || match sget sid (c_streams c) with Some _ => true | None => false end).
Definition over_ok (c : conn) (sid e : Z) (r : outcome) : bool :=
  answered r ||
  (negb (judged c sid e) &&
   match r with
   | OIgnored => true
   | OErr code _ => (code =? E_FRAME_ENCODING_ERROR) || (code =? E_STREAM_STATE_ERROR)
   | _ => false
   end).

(* true iff, after a prefix in which every STREAM / RESET_STREAM frame was within every limit written on the wire so far and
   final-size consistent (peer_within), the first frame BEYOND a limit written on the wire is not answered as over_ok demands.
   (A frame that is within the limits but not final-size consistent ends the judgement: over_limit_closes_* cover it.) *)
Fixpoint xunanswered (c : conn) (p : peer) (ops : list xop) : bool :=
  match ops with
  | [] => false
  | o :: t =>
      let '(r, c') := xstep c o in
      match xframe_end o with
      | Some (sid, e, fin) =>
          if peer_within (c_client c) p (p_adv_msd p sid) sid e fin then
            if closes r then false else xunanswered c' (peer_upd p sid e fin) t
          else if within_wire_limits (c_client c) p sid e then false
          else negb (over_ok c sid e r)
      | None =>
          match r with
          | OWrote w => xunanswered c' (peer_see p w) t
          | OErr _ _ | OExn => false
          | _ => xunanswered c' p t
          end
      end
  end.

(* the peer's ledger of advertisements after a run: the transport parameters, then every MAX_* frame of every pass *)
Definition see_outcome (p : peer) (r : outcome) : peer := match r with OWrote w => peer_see p w | _ => p end.
Definition adv_ledger (p : peer) (os : list outcome) : peer := fold_left see_outcome os p.

(* ---------- executable interface: ConnLimits.v's tokens plus
         12 b n k1..kn        WriteCut b [k1..kn]        output: 2 n (ft a b)*  like Write *)
Definition parse_xop (t : list Z) : option (xop * list Z) :=
  match t with
  | 12 :: b :: t => let '(k, t) := tk_list t in Some (WriteCut b k, t)
  | _ => match parse_op t with Some (o, t) => Some (Plain o, t) | None => None end
  end.

Definition out_xoutcome (o : xop) (r : outcome) : list Z :=
  match o with Plain o => out_outcome o r | WriteCut _ _ => out_outcome Write r end.

Fixpoint exec_xconn (fuel : nat) (c : conn) (t : list Z) : list Z :=
  match fuel with O => [] | S fuel =>
  match parse_xop t with
  | None => []
  | Some (o, t') =>
      let '(r, c') := xstep c o in
      out_xoutcome o r ++ (if closes r then [] else exec_xconn fuel c' t')
  end end.

(* EXTRACT: exec_connlimits_cut *)
Definition exec_connlimits_cut (t : list Z) : list Z :=
  match t with
  | cl :: msd :: md :: cb :: t => exec_xconn (length t) (conn_init (z2b cl) msd md cb) t
  | _ => []
  end.
