(* The key-phase state machine of crypto.py (model/KeyPhase.v) with the KEY MATERIAL in it instead of a generation counter:
   a CryptoContext carries its secret (bytes); next_key_phase derives the next secret with KeyDerive.next_secret
   ("quic ku" / "quicv2 ku"); a packet carries the AEAD (key, iv) it was sealed under -- or nothing, if it is not a sealing at
   all -- and opens under a context iff that pair is EXACTLY the (key, iv) derive_key_iv_hp gives for the context's secret
   (ideal AEAD, as in KeyPhase.v; the header protection key does not change with the key phase and plays no role here).
   Everything else is KeyPhase.v line by line.  proofs/KeyPhaseSecProofs.v shows that this machine, started from two
   first secrets, IS the counter machine (generation g <-> g-th secret of the chain).  No proofs in this file. *)
From AQ Require Import lib.Base lib.Tok gen.C02Keys model.Protect model.KeyDerive model.KeyPhase.

Section Sec.
  Variable hmac : Z -> list Z -> list Z -> list Z.
  Variables cs version : Z.            (* cipher suite and QUIC version of the 1-RTT contexts *)

  (* next_key_phase's secret.  For a cipher suite tls.CIPHER_SUITES knows the derivation cannot raise
     (KeyPhaseSecProofs.nexts_ok); the Err branch is there only to make the function total. *)
  Definition nexts (s : list Z) : list Z := match next_secret hmac cs s version with Ok s' => s' | Err _ => s end.

  (* AEAD (key, iv) of a context with secret s; None = CryptoContext.setup raised *)
  Definition keys_of (s : list Z) : option (list Z * list Z) :=
    match derive_key_iv_hp hmac cs s version with Ok (k, i, _) => Some (k, i) | Err _ => None end.

  Record sctx := mkSC { sc_secret : list Z; sc_phase : Z }.
  Definition sc_next (c : sctx) : sctx := mkSC (nexts (sc_secret c)) (if sc_phase c =? 0 then 1 else 0).

  Record spkt := mkSQ { sq_keys : option (list Z * list Z); sq_phase : Z; sq_long : bool }.

  Definition sc_select (c : sctx) (p : spkt) : sctx * bool :=
    if sq_long p then (c, false)
    else if sq_phase p =? sc_phase c then (c, false)
    else (sc_next c, true).

  Definition keys_eqb (a b : list Z * list Z) : bool := list_eqb (fst a) (fst b) && list_eqb (snd a) (snd b).

  Definition opens_under (p : spkt) (s : list Z) : bool :=
    match sq_keys p, keys_of s with
    | Some k, Some k' => keys_eqb k k'
    | _, _ => false
    end.

  Definition sctx_decrypt (c : sctx) (p : spkt) : option bool :=
    let '(cr, upd) := sc_select c p in
    if opens_under p (sc_secret cr) then Some upd else None.

  Record spair := mkSP { sp_recv : sctx; sp_send : sctx; sp_req : bool }.

  Definition spair_update (s : spair) : spair := mkSP (sc_next (sp_recv s)) (sc_next (sp_send s)) false.
  Definition spair_request (s : spair) : spair := mkSP (sp_recv s) (sp_send s) true.
  Definition spair_key_phase (s : spair) : Z :=
    if sp_req s then (if sc_phase (sp_recv s) =? 0 then 1 else 0) else sc_phase (sp_recv s).

  Definition spair_decrypt (s : spair) (p : spkt) : spair * verdict :=
    match sctx_decrypt (sp_recv s) p with
    | None => (s, Rejected)
    | Some upd => (if upd then spair_update s else s, Accepted upd)
    end.

  Definition spair_send (s : spair) : spair * spkt :=
    let ph := spair_key_phase s in
    let s' := if sp_req s then spair_update s else s in
    (s', mkSQ (keys_of (sc_secret (sp_send s'))) ph false).

  Record ssys := mkSS { ss_a : spair; ss_b : spair; sh_a : list spkt; sh_b : list spkt }.

  Definition sep (s : ssys) (x : bool) : spair := if x then ss_b s else ss_a s.
  Definition shist (s : ssys) (x : bool) : list spkt := if x then sh_b s else sh_a s.
  Definition sset_ep (s : ssys) (x : bool) (e : spair) : ssys :=
    if x then mkSS (ss_a s) e (sh_a s) (sh_b s) else mkSS e (ss_b s) (sh_a s) (sh_b s).
  Definition spush_hist (s : ssys) (x : bool) (p : spkt) : ssys :=
    if x then mkSS (ss_a s) (ss_b s) (sh_a s) (sh_b s ++ [p]) else mkSS (ss_a s) (ss_b s) (sh_a s ++ [p]) (sh_b s).

  Inductive sevent :=
  | SRequest (x : bool)
  | SSend (x : bool)
  | SDeliver (x : bool) (k : Z)
  | SInject (y : bool) (p : spkt).

  Definition sstep (s : ssys) (e : sevent) : ssys * option verdict :=
    match e with
    | SRequest x => (sset_ep s x (spair_request (sep s x)), None)
    | SSend x => let '(e', p) := spair_send (sep s x) in (spush_hist (sset_ep s x e') x p, None)
    | SDeliver x k =>
        match nth_error (shist s x) (Z.to_nat k) with
        | Some p => let '(e', v) := spair_decrypt (sep s (negb x)) p in (sset_ep s (negb x) e', Some v)
        | None => (s, None)
        end
    | SInject y p => let '(e', v) := spair_decrypt (sep s y) p in (sset_ep s y e', Some v)
    end.

  Fixpoint srun (s : ssys) (evs : list sevent) : ssys * list (option verdict) :=
    match evs with
    | [] => (s, [])
    | e :: t => let '(s1, o) := sstep s e in let '(s2, os) := srun s1 t in (s2, o :: os)
    end.

  (* the two endpoints after the handshake: endpoint x SENDS with first secret s0 x and receives with s0 (negb x) *)
  Variable s0 : bool -> list Z.
  Definition spair_init (x : bool) : spair := mkSP (mkSC (s0 (negb x)) 0) (mkSC (s0 x) 0) false.
  Definition ssys_init : ssys := mkSS (spair_init false) (spair_init true) [] [].
End Sec.
