(* Common imports, the Res outcome type and small list helpers shared by all models. *)
From Coq Require Export ZArith List Bool Lia.
Export ListNotations.
Open Scope Z_scope.

(* Outcomes: Python exceptions are values.  [Exn k] = an exception nothing up to the
   public API boundary catches; k identifies the Python exception class (see harness/vlib/exn.py). *)
Inductive Res (A : Type) : Type :=
| Ok (a : A)
| Err (kind : Z).   (* documented error, kind = small enum per model *)
Arguments Ok {A} a.
Arguments Err {A} kind.

Definition bind {A B} (r : Res A) (f : A -> Res B) : Res B :=
  match r with Ok a => f a | Err k => Err k end.
Notation "x <- r ;; k" := (bind r (fun x => k)) (at level 61, r at next level, right associativity).
Notation "' p <- r ;; k" := (bind r (fun p => k)) (at level 61, p pattern, r at next level, right associativity).

Definition Zlen {A} (l : list A) : Z := Z.of_nat (length l).

(* firstn / skipn with Z counts; negative counts behave like 0 (Python never passes them here). *)
Definition ztake {A} (n : Z) (l : list A) : list A := firstn (Z.to_nat n) l.
Definition zdrop {A} (n : Z) (l : list A) : list A := skipn (Z.to_nat n) l.
Definition zeros (n : Z) : list Z := repeat 0 (Z.to_nat n).

Definition b2z (b : bool) : Z := if b then 1 else 0.
Definition z2b (z : Z) : bool := negb (z =? 0).
