(* Token streams: every executable model exposes [exec_X : list Z -> list Z] so that one
   generic OCaml driver (and vm_compute) can run it.  Helpers to read structured input. *)
From AQ Require Import lib.Base.

(* read n tokens *)
Definition tk_take (n : Z) (l : list Z) : list Z * list Z := (ztake n l, zdrop n l).

(* length-prefixed list of tokens: n x1 .. xn *)
Definition tk_list (l : list Z) : list Z * list Z :=
  match l with
  | n :: t => tk_take n t
  | [] => ([], [])
  end.

Definition tk_opt (l : list Z) : option Z * list Z :=   (* 0 | 1 v *)
  match l with
  | 0 :: t => (None, t)
  | _ :: v :: t => (Some v, t)
  | _ => (None, [])
  end.

Definition out_opt (o : option Z) : list Z :=
  match o with None => [0] | Some v => [1; v] end.
Definition out_list (l : list Z) : list Z := Zlen l :: l.
