(* C05  Network input can never make the QUIC/TLS API raise.
   Only statements here; proofs live in coq/proofs/{FramesP,ConnRecvP}.v.  Model: coq/model/{Frames,ConnRecv}.v,
   dispatch table GENERATED from the source (coq/gen/C05Tables.v).  [true] = tree with docs/C05-fix-*.patch,
   [false] = pinned tree. *)
From AQ Require Import lib.Base model.Frames gen.C05Tables model.ConnRecv proofs.FramesP proofs.ConnRecvP.

(* For ALL payload byte strings and every frame boundary reached through successfully handled frames
   (induction over the frame loop), in both model variants: an empty payload closes with
   PROTOCOL_VIOLATION; a truncated frame-type varint or a truncated frame (BufferReadError in its handler)
   closes with FRAME_ENCODING_ERROR; an unknown frame type with FRAME_ENCODING_ERROR and that type;
   a known type outside its allowed epochs with PROTOCOL_VIOLATION. *)
Theorem parse_error_classification : forall p st epoch creq,
  raises_qerr p st epoch creq [] st EC_PROTOCOL_VIOLATION FT_PADDING /\
  (forall n payload st' rest,
     run_frames n p st epoch payload = Some (st', rest) -> rest <> [] ->
     (pull_uint_var rest = PErr ->
        raises_qerr p st epoch creq payload st' EC_FRAME_ENCODING_ERROR (-1)) /\
     (forall ft b1, pull_uint_var rest = POk ft b1 ->
        (lookup_frame ft frame_table = None ->
           raises_qerr p st epoch creq payload st' EC_FRAME_ENCODING_ERROR ft) /\
        (forall h epochs, lookup_frame ft frame_table = Some (h, epochs) ->
           (zmem epoch epochs = false ->
              raises_qerr p st epoch creq payload st' EC_PROTOCOL_VIOLATION ft) /\
           (zmem epoch epochs = true -> run_handler p h st' epoch ft b1 = HBuf ->
              raises_qerr p st epoch creq payload st' EC_FRAME_ENCODING_ERROR ft)))).
Proof. exact parse_error_classification_all. Qed.
Print Assumptions parse_error_classification.

(* Frame layer of receive_total, PATCHED model: for every payload byte string, every epoch, every
   abstract connection state and every answer of the TLS engine that is not itself an escaping
   exception, receive_datagram below decryption returns normally, and a QuicConnectionError carries
   a QuicErrorCode or CRYPTO_ERROR + alert.  _partial: the TLS engine in handshake states, the
   header parser and the transmit path are outside this theorem (docs/C05.md). *)
Theorem receive_total_partial : forall st epoch creq rbits payload,
  oracle_total (c_tls_oracle st) ->
  (forall n k, receive_packet true st epoch creq rbits payload <> OExn n k) /\
  match payload_received true st epoch creq payload with
  | PDone _ _ _ _ => True
  | PQErr _ _ code _ => code_ok (c_tls_oracle st) code
  | PExn _ _ => False
  end.
Proof. exact receive_total_frames. Qed.
Print Assumptions receive_total_partial.

(* The same statement is FALSE for the pinned model: NEW_CONNECTION_ID(seq 20, retire_prior_to 11) in a
   reachable state raises IndexError (finding N1), and a non-INITIAL first packet makes a server raise
   AssertionError (finding F2); the patched model closes with PROTOCOL_VIOLATION / drops the packet. *)
Theorem receive_total_refuted :
  (exists st epoch payload n,
     oracle_total (c_tls_oracle st) /\ c_close st = None /\
     receive_packet false st epoch false false payload = OExn n EXN_IndexError /\
     receive_packet true st epoch false false payload = OClosed n EC_PROTOCOL_VIOLATION FT_NEW_CONNECTION_ID) /\
  (exists ptype len,
     recv_header_decide false false true ptype len false true = DExn EXN_AssertionError /\
     recv_header_decide true false true ptype len false true = DDrop 6).
Proof. exact receive_total_pinned_witnesses. Qed.
Print Assumptions receive_total_refuted.

(* The header decisions of the patched receive_datagram never raise. *)
Theorem header_decide_total : forall is_client ff ptype len known vs k,
  recv_header_decide true is_client ff ptype len known vs <> DExn k.
Proof. exact header_total. Qed.
Print Assumptions header_decide_total.

(* Every handler of the patched model, for every state and buffer: normal return with a suffix of the
   buffer, BufferReadError, StreamFinishedError, or a QuicConnectionError with a documented code. *)
Theorem handlers_total : forall h st epoch ft b, hgood st b (run_handler true h st epoch ft b).
Proof. exact run_handler_good. Qed.
Print Assumptions handlers_total.

(* The frame loop always terminates by consuming the payload: its result does not depend on the fuel. *)
Theorem frame_loop_fuel_independent : forall fuel p st epoch b,
  (length b < fuel)%nat ->
  payload_loop fuel p st epoch b 0 false false = payload_loop (S (length b)) p st epoch b 0 false false.
Proof. exact payload_fuel_independent. Qed.
Print Assumptions frame_loop_fuel_independent.

(* Buffer reads never move backwards or past the end (varint reader strictly advances). *)
Theorem pull_uint_var_advances : forall b v r, pull_uint_var b = POk v r -> (length r < length b)%nat.
Proof. exact pull_uint_var_len. Qed.
Print Assumptions pull_uint_var_advances.

(* The dispatch table read from the source is exactly RFC 9000 Table 3 (+ RFC 9221 DATAGRAM). *)
Theorem frame_table_rfc9000 :
  map (fun row => (fst row, snd (snd row))) frame_table = rfc9000_table3.
Proof. exact frame_table_is_rfc9000. Qed.
Print Assumptions frame_table_rfc9000.
