(* C05  Network input can never make the QUIC/TLS API raise.
   Only statements here; proofs live in coq/proofs/{FramesP,ConnRecvP}.v.  Model: coq/model/{Frames,ConnRecv}.v,
   dispatch table GENERATED from the source (coq/gen/C05Tables.v).  [true] = tree with docs/C05-fix-*.patch,
   [false] = pinned tree.
   TLS message layer (tls_* theorems at the end): model coq/model/{TlsParse,TlsRecv}.v, proofs
   coq/proofs/{TlsParseP,TlsRecvP,TlsSitesP}.v, dispatch GENERATED (coq/gen/TlsDispatch.v), constants and the
   raise-site skeleton of tls.py GENERATED (coq/gen/C05Tls.v). *)
From AQ Require Import gen.C05Tls gen.TlsDispatch model.TlsParse model.TlsRecv proofs.TlsParseP proofs.TlsRecvP proofs.TlsSitesP.
From AQ Require Import lib.Base model.Frames gen.C05Tables model.ConnRecv proofs.FramesP proofs.ConnRecvP.
From AQ Require Import model.ConnDgram proofs.ConnDgramP.
From AQ Require proofs.CodecProofs.
From AQ Require model.Builder model.ConnClose proofs.BuilderProofs proofs.ConnCloseP.
From AQ Require model.Timers model.TimersSpec proofs.AfterCloseP.
From AQ Require gen.C05Epochs model.ConnEpochs proofs.ConnEpochsP.

(* For ALL payload byte strings and every frame boundary reached through successfully handled frames
   (induction over the frame loop), in both model variants: an empty payload closes with
   PROTOCOL_VIOLATION; a truncated frame-type varint or a truncated frame (BufferReadError in its handler)
   closes with FRAME_ENCODING_ERROR; an unknown frame type with FRAME_ENCODING_ERROR and that type;
   a known type outside its allowed epochs with PROTOCOL_VIOLATION. *)
Theorem parse_error_classification : forall p st epoch creq,
  raises_qerr p st epoch creq [] st EC_PROTOCOL_VIOLATION FT_PADDING /\
  (forall n payload st' rest,
     run_frames n p st epoch payload = Some (st', rest) -> rest <> [] ->
     (pull_uint_var rest = PErr ->
        raises_qerr p st epoch creq payload st' EC_FRAME_ENCODING_ERROR (-1)) /\
     (forall ft b1, pull_uint_var rest = POk ft b1 ->
        (lookup_frame ft frame_table = None ->
           raises_qerr p st epoch creq payload st' EC_FRAME_ENCODING_ERROR ft) /\
        (forall h epochs, lookup_frame ft frame_table = Some (h, epochs) ->
           (zmem epoch epochs = false ->
              raises_qerr p st epoch creq payload st' EC_PROTOCOL_VIOLATION ft) /\
           (zmem epoch epochs = true -> run_handler p h st' epoch ft b1 = HBuf ->
              raises_qerr p st epoch creq payload st' EC_FRAME_ENCODING_ERROR ft)))).
Proof. exact parse_error_classification_all. Qed.
Print Assumptions parse_error_classification.

(* receive_total_tls: frame layer + TLS message layer (TlsRecv.crypto_deliver substituted below the CRYPTO handler; no
   hypothesis about the TLS engine's answers is left).  For EVERY abstract connection state whose tls.Context satisfies
   the hypotheses of tls_handle_message_total (wf_cfg, wf0), every epoch, flags, payload byte string and EVERY valuation
   of the oracle records (cryptography / X.509 / callbacks): receive_datagram below decryption never lets an exception
   escape; a QuicConnectionError raised out of _payload_received carries a QuicErrorCode, CRYPTO_ERROR + one of nine
   alerts, or the code the transport-parameter callback raised; the tls.Context left behind satisfies the hypotheses
   again (so the statement composes over packets), and handlers never set a close initiated by this endpoint. *)
Theorem receive_total_tls : forall st epoch creq rbits payload,
  tls_ok (c_tls st) ->
  (forall n k, receive_packet true st epoch creq rbits payload <> OExn n k) /\
  match payload_received true st epoch creq payload with
  | PDone st' _ _ _ => tls_ok (c_tls st') /\ close_step (c_close st) (c_close st')
  | PQErr prior _ code _ => code_ok (c_tls st) code /\ close_step (c_close st) prior
  | PExn _ _ => False
  end.
Proof. exact receive_total_frames. Qed.
Print Assumptions receive_total_tls.

(* "Own close code is documented", carried through _close_event to the outcome: if no close was decided before the
   packet (receive_datagram's gate) and the transport-parameter callback only raises QuicErrorCode values, a close
   initiated by this endpoint carries a QuicErrorCode or CRYPTO_ERROR + a TLS alert. *)
Theorem receive_close_code_documented : forall st epoch creq rbits payload n code ft,
  tls_ok (c_tls st) -> orcs_in_range (c_tls st) -> c_close st = None ->
  receive_packet true st epoch creq rbits payload = OClosed n code ft -> code_documented code.
Proof. exact receive_close_code. Qed.
Print Assumptions receive_close_code_documented.

(* The same statement is FALSE for the pinned model: NEW_CONNECTION_ID(seq 20, retire_prior_to 11) in a
   reachable state raises IndexError (finding N1), and a non-INITIAL first packet makes a server raise
   AssertionError (finding F2); the patched model closes with PROTOCOL_VIOLATION / drops the packet. *)
Theorem receive_total_refuted :
  (exists st epoch payload n,
     tls_ok (c_tls st) /\ c_close st = None /\
     receive_packet false st epoch false false payload = OExn n EXN_IndexError /\
     receive_packet true st epoch false false payload = OClosed n EC_PROTOCOL_VIOLATION FT_NEW_CONNECTION_ID) /\
  (exists ptype len,
     recv_header_decide false false true ptype len false true = DExn EXN_AssertionError /\
     recv_header_decide true false true ptype len false true = DDrop 6).
Proof. exact receive_total_pinned_witnesses. Qed.
Print Assumptions receive_total_refuted.

(* The header decisions of the patched receive_datagram never raise. *)
Theorem header_decide_total : forall is_client ff ptype len known vs k,
  recv_header_decide true is_client ff ptype len known vs <> DExn k.
Proof. exact header_total. Qed.
Print Assumptions header_decide_total.

(* Every handler of the patched model, for every state and buffer: normal return with a suffix of the
   buffer, BufferReadError, StreamFinishedError, or a QuicConnectionError with a documented code. *)
Theorem handlers_total : forall h st epoch ft b, hgood st b (run_handler true h st epoch ft b).
Proof. exact run_handler_good. Qed.
Print Assumptions handlers_total.

(* The frame loop always terminates by consuming the payload: its result does not depend on the fuel. *)
Theorem frame_loop_fuel_independent : forall fuel p st epoch b,
  (length b < fuel)%nat ->
  payload_loop fuel p st epoch b 0 false false = payload_loop (S (length b)) p st epoch b 0 false false.
Proof. exact payload_fuel_independent. Qed.
Print Assumptions frame_loop_fuel_independent.

(* Buffer reads never move backwards or past the end (varint reader strictly advances). *)
Theorem pull_uint_var_advances : forall b v r, pull_uint_var b = POk v r -> (length r < length b)%nat.
Proof. exact pull_uint_var_len. Qed.
Print Assumptions pull_uint_var_advances.

(* The dispatch table read from the source is exactly RFC 9000 Table 3 (+ RFC 9221 DATAGRAM). *)
Theorem frame_table_rfc9000 :
  map (fun row => (fst row, snd (snd row))) frame_table = rfc9000_table3.
Proof. exact frame_table_is_rfc9000. Qed.
Print Assumptions frame_table_rfc9000.

(* ---------------------------------------------------------------------------------------------------
   TLS message layer.  Oracle records [orc] carry the answers of cryptography / X.509 / callbacks; every
   field is decoded totally, so "for all orcs" covers every answer the model distinguishes. *)

(* Every handshake-message parser, on ANY byte string whose first byte is the dispatched type: returns, or
   raises BufferReadError / AlertDecodeError / AlertIllegalParameter -- never IndexError, UnicodeDecodeError,
   AssertionError, ... *)
Theorem tls_parsers_total : forall msg,
  (head_is 1 msg -> TlsParseP.pres (pull_client_hello msg)) /\
  (head_is 2 msg -> TlsParseP.pres (pull_server_hello msg)) /\
  (head_is 8 msg -> TlsParseP.pres (pull_encrypted_extensions msg)) /\
  (head_is 11 msg -> TlsParseP.pres (TlsParse.pull_certificate msg)) /\
  (head_is 13 msg -> TlsParseP.pres (pull_certificate_request msg)) /\
  (head_is 15 msg -> TlsParseP.pres (pull_certificate_verify msg)) /\
  (head_is 20 msg -> TlsParseP.pres (TlsParse.pull_finished msg)) /\
  (head_is 4 msg -> TlsParseP.pres (pull_new_session_ticket msg)).
Proof. exact tls_parsers_all. Qed.
Print Assumptions tls_parsers_total.

(* Every handler the generated dispatch table can select, in the state and for the message type it is selected
   for: returns in a well-formed state having read the framed message exactly, or leaves with
   BufferReadError / a documented alert / the QuicConnectionError of a connection callback. *)
Theorem tls_handlers_total : forall g o, wf_cfg g -> forall c t h msg,
  dispatch (t_state c) t = DHandler h -> head_is t msg -> wf_ctx c ->
  lgood o c msg (run_tls_handler true h g c o msg).
Proof. exact handlers_tls_total. Qed.
Print Assumptions tls_handlers_total.

(* Context.handle_message, tree with docs/C05-fix-7.patch: for ALL byte strings delivered as CRYPTO data,
   in EVERY state a Context can be in (fresh client, or wf_ctx -- preserved, so every reachable state), for
   ALL oracle answers: returns (state again well-formed) or raises a tls.Alert whose description is one of
   eight documented AlertDescription values, or the QuicConnectionError of _alpn_handler /
   _handle_session_ticket -- never any other exception class. *)
Theorem tls_handle_message_total : forall g c orcs data,
  wf_cfg g -> wf0 c ->
  match handle_message true g c orcs data with
  | MOk c' => wf_ctx c'
  | MExn e => good_mexn orcs e
  end.
Proof. exact handle_message_total. Qed.
Print Assumptions tls_handle_message_total.

(* ... for any sequence of CRYPTO deliveries from a fresh client or server Context *)
Theorem tls_run_total : forall g, wf_cfg g -> forall chunks c, wf0 c ->
  match run true g c chunks with
  | MOk c' => wf0 c'
  | MExn e => never_escapes e
  end.
Proof. exact run_total. Qed.
Print Assumptions tls_run_total.

(* ... and through _handle_crypto_frame's `except tls.Alert`: normal, or QuicConnectionError with
   CRYPTO_ERROR + documented alert and the CRYPTO frame type, or a callback's QuicConnectionError. *)
Theorem tls_crypto_frame_total : forall g c orcs ft data,
  wf_cfg g -> wf0 c ->
  match crypto_deliver true g c orcs ft data with
  | CROk c' => wf_ctx c'
  | CRQuic code ft' =>
      (exists d, In d raised_alerts /\ code = EC_CRYPTO_ERROR + d /\ ft' = ft) \/
      (code = EC_CRYPTO_ERROR + AD_missing_extension /\ ft' = FT_CRYPTO) \/
      (code = EC_PROTOCOL_VIOLATION /\ ft' = FT_CRYPTO) \/
      (exists o, In o orcs /\ code = o_tp_code o /\ ft' = o_tp_ft o /\ code <> 0)
  | CRBuf => False
  | CRExn _ => False
  end.
Proof. exact crypto_deliver_total. Qed.
Print Assumptions tls_crypto_frame_total.

(* The same statement is FALSE for the tree as it is: a client waiting for CertificateVerify, a 12-byte
   CertificateVerify, a certificate whose subjectAltName does not parse (ValueError) or names "*.com"
   (CertificateError): the exception leaves handle_message and _handle_crypto_frame (finding T8 / T9). *)
Theorem tls_handle_message_refuted :
  wf_cfg cfg_default_client /\ wf0 witness_ctx /\
  handle_message false cfg_default_client witness_ctx [witness_orc 4] witness_cv = MExn (XOther TX_ValueError) /\
  handle_message false cfg_default_client witness_ctx [witness_orc 5] witness_cv = MExn (XOther TX_CertificateError) /\
  handle_message true cfg_default_client witness_ctx [witness_orc 4] witness_cv = MExn (XAlert AD_bad_certificate) /\
  handle_message true cfg_default_client witness_ctx [witness_orc 5] witness_cv = MExn (XAlert AD_bad_certificate) /\
  crypto_deliver false cfg_default_client witness_ctx [witness_orc 4] FT_CRYPTO witness_cv = CRExn TX_ValueError.
Proof. exact handle_message_refuted. Qed.
Print Assumptions tls_handle_message_refuted.

(* The raise sites, except clauses, subscripts and .decode() calls of every parser / handler of the CURRENT
   tls.py are those the model was written against (or those plus docs/C05-fix-7.patch). *)
Theorem tls_sites_pinned :
  sites_eqb tls_sites sites_pinned || sites_eqb tls_sites sites_patched || sites_eqb tls_sites sites_patched9 = true.
Proof. exact tls_sites_known. Qed.
Print Assumptions tls_sites_pinned.

(* Sessions: any sequence of receive_datagram calls delivering CRYPTO data.  With the gate at the top of
   receive_datagram (54d8ff0) nothing reaches the TLS engine once a close is pending -- whatever half-updated
   state [after_exn] the failed handler left -- so the session never ends in an escaping exception. *)
Theorem tls_session_total : forall g, wf_cfg g -> forall after_exn chunks c closing, wf0 c ->
  match crypto_session true true after_exn g c closing chunks with
  | NOk c' => wf0 c'
  | NClosing _ _ => True
  | NExn _ => False
  end.
Proof. exact crypto_session_total. Qed.
Print Assumptions tls_session_total.

(* Without that gate (tree before 54d8ff0, finding T10): two ServerHello messages without key_share in two
   datagrams, no datagrams_to_send() in between: AttributeError (None.select) escapes; with the gate: CRYPTO_ERROR
   + illegal_parameter and the second datagram is ignored. *)
Theorem tls_session_refuted :
  wf_cfg cfg_default_client /\ wf0 t10_ctx /\
  crypto_session true false t10_after cfg_default_client t10_ctx None
    [([orc0], FT_CRYPTO, sh_no_key_share); ([orc0], FT_CRYPTO, sh_no_key_share)] = NExn TX_AttributeError /\
  crypto_session true true t10_after cfg_default_client t10_ctx None
    [([orc0], FT_CRYPTO, sh_no_key_share); ([orc0], FT_CRYPTO, sh_no_key_share)]
    = NClosing (EC_CRYPTO_ERROR + AD_illegal_parameter) FT_CRYPTO.
Proof. exact crypto_session_refuted. Qed.
Print Assumptions tls_session_refuted.

(* Finding T11, tree without docs/C05-fix-9.patch: a Certificate whose X.509 version field is not 1 or 3 makes
   x509.load_der_x509_certificate raise x509.InvalidVersion, which `except ValueError` in _set_peer_certificate does
   not catch. *)
Theorem tls_certificate_refuted :
  wf0 t11_ctx /\
  handle_message false cfg_default_client t11_ctx [t11_orc] t11_cert = MExn (XOther TX_InvalidVersion) /\
  handle_message true cfg_default_client t11_ctx [t11_orc] t11_cert = MExn (XAlert AD_bad_certificate).
Proof. exact set_peer_certificate_refuted. Qed.
Print Assumptions tls_certificate_refuted.

(* ---------------------------------------------------------------------------------------------------
   receive_datagram from the RAW DATAGRAM BYTES (model/ConnDgram.v): gate, loop over coalesced packets, pull_quic_header
   (C17's Header.v) inside `except ValueError`, header decisions, Version Negotiation / Retry, server initialisation,
   key lookup, buf.seek, decryption as an oracle (failure or ANY plaintext), reserved bits, the frame loop with the TLS
   message layer, `except QuicConnectionError -> close()`, the gate after every packet, migration.
   For EVERY byte string, every connection state satisfying the invariant [dconn_ok] (tls_ok; _initialize() has run
   unless this is a server in FIRSTFLIGHT; no _close_event while the gate is open) and EVERY oracle valuation:
   no exception escapes, the invariant holds again, and if this call makes the endpoint close, the code is documented. *)
Theorem receive_datagram_total : forall c data orcs,
  CodecProofs.bytes_ok data -> dconn_ok c ->
  match receive_datagram true c data orcs with
  | DOk c' _ => dconn_ok c' /\ (c_close (d_st c) = None -> own_close_ok (po0 :: orcs) (c_close (d_st c')))
  | DRaise _ _ => False
  end.
Proof. exact receive_datagram_total_all. Qed.
Print Assumptions receive_datagram_total.

(* ... hence for any sequence of datagrams *)
Theorem receive_datagrams_total : forall ds c,
  Forall (fun d => CodecProofs.bytes_ok (fst d)) ds -> dconn_ok c ->
  exists c', receive_all true c ds = Some c' /\ dconn_ok c'.
Proof. exact receive_all_total. Qed.
Print Assumptions receive_datagrams_total.

(* the loop over the packets of a datagram never runs out of fuel: every iteration that continues has consumed at least
   one byte, so any two fuels above the number of remaining bytes give the same result *)
Theorem datagram_loop_fuel_independent : forall f1 f2 total c bs orcs tr,
  CodecProofs.bytes_ok bs -> dconn_ok c -> q_end (d_state c) = false -> d_pending c = false ->
  (length bs < f1)%nat -> (length bs < f2)%nat ->
  dgram_loop f1 true total c bs orcs tr = dgram_loop f2 true total c bs orcs tr.
Proof. exact dgram_fuel_independent. Qed.
Print Assumptions datagram_loop_fuel_independent.

(* a parsed header has consumed at least one byte (the loop terminates), and a Retry header its 16-byte tag
   (so `buf.data_slice(start_off, buf.tell() - 16)` cannot raise) *)
Theorem header_consumes : forall hcl bs h rest,
  Header.pull_quic_header hcl bs = Ok (h, rest) ->
  Zlen rest + (if Header.h_type h =? Header.PT_RETRY then 16 else 1) <= Zlen bs.
Proof. exact header_consumed. Qed.
Print Assumptions header_consumes.

(* ---------------------------------------------------------------------------------------------------
   After a close.  (1) receive_datagram: the gate is part of receive_datagram_total above.
   (2) datagrams_to_send's close branch, on C13's builder model (model/ConnClose.v): *)

(* the tree AS IT IS (finding R1): a client whose Initial header carries the 1300-byte (or 1140-byte) token of a Retry
   packet and that has decided to close: builder.start_packet (start_frame) raises QuicPacketBuilderStop, which nothing
   catches in this branch -- it escapes datagrams_to_send(), _close_pending stays set, every later call raises again.
   1130 bytes is the largest token for which the round works.  With docs/C05-fix-10.patch the round returns (nothing
   to send in the Initial space). *)
Theorem after_close_refuted :
  ConnClose.close_send false (ConnCloseP.r1_cfg 1300) 0 ConnCloseP.r1_keys ConnCloseP.r1_ev = (Builder.OStop, []) /\
  ConnClose.close_send false (ConnCloseP.r1_cfg 1140) 0 ConnCloseP.r1_keys ConnCloseP.r1_ev = (Builder.OStop, []) /\
  ConnClose.close_send false (ConnCloseP.r1_cfg 1130) 0 ConnCloseP.r1_keys ConnCloseP.r1_ev = (Builder.ODone, [1200]) /\
  ConnClose.close_send true (ConnCloseP.r1_cfg 1300) 0 ConnCloseP.r1_keys ConnCloseP.r1_ev = (Builder.ODone, []) /\
  ConnClose.close_send true (ConnCloseP.r1_cfg 1140) 0 ConnCloseP.r1_keys ConnCloseP.r1_ev = (Builder.ODone, []).
Proof. exact ConnCloseP.close_send_refuted. Qed.
Print Assumptions after_close_refuted.

(* with the patch: for EVERY builder configuration of this branch (any max_datagram_size the CryptoPair can encrypt, any
   connection-ID and token lengths), every key availability, every close event with varint-sized code / frame type:
   the round -- start_packet, _write_connection_close_frame, _end_packet, flush -- returns normally: no
   QuicPacketBuilderStop, BufferWriteError, AssertionError, ValueError or CryptoError *)
Theorem after_close_send_total : forall c pn k ev,
  BuilderProofs.wf_cfg c -> BuilderProofs.crypto_fits c ->
  Builder.c_max_flight c = None -> Builder.c_max_total c = None -> ConnCloseP.ev_ok ev ->
  fst (ConnClose.close_send true c pn k ev) = Builder.ODone.
Proof. exact ConnCloseP.close_send_total. Qed.
Print Assumptions after_close_send_total.

(* (3) the API state machine (C09's model/Timers.v): in every state reached by a history that began with connect() /
   a first datagram and is not TERMINATED -- so in every state after a close began -- receive_datagram,
   datagrams_to_send, get_timer, handle_timer, next_event and close() return normally, and this holds along every
   continuation of the history until termination *)
Theorem after_close_total : forall client o ops more, TimersSpec.first_op client o ->
  AfterCloseP.no_raise_until_terminated (snd (Timers.run (Timers.conn_init client) (o :: ops))) more.
Proof. exact AfterCloseP.after_close_history. Qed.
Print Assumptions after_close_total.

(* ---------- network-path table (round s05): model coq/model/ConnPaths.v, constants MAX_NETWORK_PATHS / EVICT_INDEX /
   PROMOTE_INDEX and the source listing GENERATED (coq/gen/C05Paths.v, tools/gen/c05_paths.py) *)
From AQ Require gen.C05Paths model.ConnPaths proofs.ConnPathsP.

(* the generated listing of the current connection.py -- the "update network path" block, _find_network_path,
   QuicNetworkPath.__init__, every statement that assigns or mutates self._network_paths, every statement that writes a
   validation flag -- is the one the model was written against *)
Theorem paths_sites_pinned : TlsSitesP.sites_eqb C05Paths.paths_sites ConnPaths.paths_sites_expected = true.
Proof. exact ConnPathsP.paths_sites_known. Qed.
Print Assumptions paths_sites_pinned.

(* for EVERY table, every path object (found by its address or newly created) and every verdict of the payload the
   "update network path" block of receive_datagram returns: both `.pop` are in range and `.index(network_path)` is applied
   to a member; afterwards the packet's path is in the table, the MAX_NETWORK_PATHS bound holds, index 0 is the old active
   path or -- for the newest non-probing packet from another path -- the packet's path, no object is there twice *)
Theorem network_path_update_total : forall tab cur hs probing newer,
  exists tab' cur',
    ConnPaths.update_network_path tab cur hs probing newer = ConnPaths.UOk tab' cur' /\
    ConnPaths.p_id cur' = ConnPaths.p_id cur /\
    ConnPaths.mem_id (ConnPaths.p_id cur) tab' = true /\
    (Zlen tab <= C05Paths.MAX_NETWORK_PATHS -> Zlen tab' <= C05Paths.MAX_NETWORK_PATHS) /\
    (tab <> [] -> ConnPathsP.head_id tab' = if ConnPathsP.promotes tab cur probing newer
                                            then Some (ConnPaths.p_id cur) else ConnPathsP.head_id tab) /\
    (NoDup (map ConnPaths.p_id tab) -> NoDup (map ConnPaths.p_id tab')).
Proof. exact ConnPathsP.network_path_update_total_proof. Qed.
Print Assumptions network_path_update_total.

(* receive_datagram as far as the table is concerned: any source address, any packets (first-flight reset, PATH_CHALLENGE /
   PATH_RESPONSE effects on any entries, any verdicts) *)
Theorem path_datagram_total : forall s addr ks, ConnPathsP.tab_ok (ConnPaths.ps_tab s) ->
  exists s', ConnPaths.path_datagram s addr ks = ConnPaths.PROk s' /\ ConnPathsP.tab_ok (ConnPaths.ps_tab s').
Proof. exact ConnPathsP.path_datagram_total_proof. Qed.
Print Assumptions path_datagram_total.

(* any history of connect() / receive_datagram / datagrams_to_send: no IndexError / ValueError, bound and no-duplicate kept *)
Theorem path_run_total : forall os s, ConnPathsP.tab_ok (ConnPaths.ps_tab s) ->
  (forall k, ConnPaths.path_run s os <> ConnPaths.PRRaise k) /\
  (forall s', ConnPaths.path_run s os = ConnPaths.PROk s' -> ConnPathsP.tab_ok (ConnPaths.ps_tab s')).
Proof. exact ConnPathsP.path_run_total_proof. Qed.
Print Assumptions path_run_total.

(* receive_datagram WITH the table inside the packet loop (ConnDgram.dgram_loop_paths: first-flight reset, payload effects,
   the "update network path" block after every packet that passed the gate): for EVERY byte string, every connection state
   with dconn_ok, every oracle valuation, every table with tab_ok, every source address and every packet verdict, neither
   the receive path nor the network-path bookkeeping raises, and both invariants hold again *)
Theorem receive_datagram_paths_total : forall c data orcs s addr vs,
  CodecProofs.bytes_ok data -> dconn_ok c -> ConnPathsP.tab_ok (ConnPaths.ps_tab s) ->
  match receive_datagram_paths true c data orcs s addr vs with
  | (DOk c' _, ConnPaths.PROk s') =>
      dconn_ok c' /\
      (c_close (d_st c) = None -> own_close_ok (po0 :: orcs) (c_close (d_st c'))) /\
      ConnPathsP.tab_ok (ConnPaths.ps_tab s')
  | _ => False
  end.
Proof. exact receive_datagram_paths_total_all. Qed.
Print Assumptions receive_datagram_paths_total.

(* ---------- epoch-keyed tables (round e05): model coq/model/ConnEpochs.v on top of ConnRecv.v's frame layer; `_initialize`'s
   keys, `_discard_epoch`'s body (a statement list the model interprets), the TLS engine's subscripts and every mention of
   the four dicts GENERATED from the source (coq/gen/C05Epochs.v, tools/gen/c05_epochs.py); proofs coq/proofs/ConnEpochsP.v.

   After _initialize, for ANY history of _initialize again / decrypted packets in any packet number space with any payload
   bytes, any connection snapshot and any TLS table use / datagrams_to_send / _close_end -- including the frames that FOLLOW,
   in the same packet, the CRYPTO frame (server) or HANDSHAKE_DONE frame (client) whose handler discarded the Handshake
   epoch -- no subscript of _cryptos / _crypto_buffers / _crypto_streams / _spaces raises KeyError, and the key lists of
   the four dicts are exactly the ones _initialize created. *)
Theorem epoch_tables_total : forall patched is_client complete confirmed evs,
  exists s, ConnEpochs.erun C05Epochs.DISCARD_BODY patched
              (ConnEpochs.mkE ConnEpochs.initialize_tabs is_client complete confirmed) evs = ConnEpochs.EOk s /\
            ConnEpochs.tabs_full (ConnEpochs.e_tabs s) = true /\
            ConnEpochs.dkeys (ConnEpochs.t_cryptos (ConnEpochs.e_tabs s)) = C05Epochs.INIT_CRYPTOS /\
            ConnEpochs.dkeys (ConnEpochs.t_buffers (ConnEpochs.e_tabs s)) = C05Epochs.INIT_BUFFERS /\
            ConnEpochs.dkeys (ConnEpochs.t_streams (ConnEpochs.e_tabs s)) = C05Epochs.INIT_STREAMS /\
            ConnEpochs.dkeys (ConnEpochs.t_spaces (ConnEpochs.e_tabs s)) = C05Epochs.INIT_SPACES.
Proof. exact ConnEpochsP.epoch_tables_total_pf. Qed.
Print Assumptions epoch_tables_total.

(* the same for EVERY _discard_epoch body that removes no entry, from every state with _initialize's key lists *)
Theorem epoch_tables_total_any_body : forall body patched s evs,
  ConnEpochs.no_removal body = true ->
  (forall t, ConnEpochs.dkeys (ConnEpochs.tget t (ConnEpochs.e_tabs s)) =
             ConnEpochs.dkeys (ConnEpochs.tget t ConnEpochs.initialize_tabs)) ->
  exists s', ConnEpochs.erun body patched s evs = ConnEpochs.EOk s' /\
             ConnEpochs.tabs_full (ConnEpochs.e_tabs s') = true.
Proof. exact ConnEpochsP.epoch_tables_total_gen_pf. Qed.
Print Assumptions epoch_tables_total_any_body.

(* what the GENERATED _discard_epoch does to a live epoch: the pair is torn down, the space is marked discarded, the
   stream and buffer tables are untouched *)
Theorem discard_epoch_keeps_entries : forall e T T', ConnEpochsP.inv T ->
  ConnRecv.zmem e (ConnEpochsP.K C05Epochs.TSpaces) = true ->
  ConnEpochs.dget e (ConnEpochs.t_spaces T) = Some false ->
  ConnEpochs.discard_epoch_with C05Epochs.DISCARD_BODY e T = ConnEpochs.EOk T' ->
  ConnEpochs.dget e (ConnEpochs.t_cryptos T') = Some false /\ ConnEpochs.dget e (ConnEpochs.t_spaces T') = Some true /\
  ConnEpochs.t_streams T' = ConnEpochs.t_streams T /\ ConnEpochs.t_buffers T' = ConnEpochs.t_buffers T.
Proof. exact ConnEpochsP.discard_keeps_entries_pf. Qed.
Print Assumptions discard_epoch_keeps_entries.

(* the refuted twin: a _discard_epoch that also pops the epoch's stream and buffer entries (seeded/C05/seed5) -- a server,
   ONE Handshake packet [CRYPTO(client Finished), CRYPTO(offset 0, length 0)]: KeyError at _crypto_streams[HANDSHAKE] *)
Theorem epoch_tables_discard_streams_refuted :
  exists is_client evs,
    ConnEpochs.erun ConnEpochs.seeded_discard_body true (ConnEpochs.einit is_client) evs =
    ConnEpochs.EKey C05Epochs.TStreams EPOCH_HANDSHAKE.
Proof. exact ConnEpochsP.epoch_tables_discard_streams_refuted_pf. Qed.
Print Assumptions epoch_tables_discard_streams_refuted.

(* every statement of connection.py that assigns / mutates one of the four dicts, every other mention of one, and every
   call of _initialize / _discard_epoch / _push_crypto_data / _close_end is the one the model was written against *)
Theorem epoch_sites_known : C05Epochs.epoch_sites = ConnEpochs.epoch_sites_expected.
Proof. exact ConnEpochsP.epoch_sites_known. Qed.
Print Assumptions epoch_sites_known.

(* the table layer is conservative over the frame layer: a frame it lets through is handled by ConnRecv.frame_step with the
   same resulting snapshot and rest of the payload; where it stops, ConnRecv.frame_step stops (QuicConnectionError / exception) *)
Theorem epoch_layer_conservative : forall body patched s st epoch u b,
  match ConnEpochs.eframe_step body patched s st epoch u b with
  | ConnEpochs.ESNext _ st' rest => exists c, frame_step patched st epoch b = SNext st' rest c
  | ConnEpochs.ESStop _ => match frame_step patched st epoch b with SNext _ _ _ => False | _ => True end
  | ConnEpochs.ESKey _ _ => True
  end.
Proof. exact ConnEpochsP.eframe_step_conservative_pf. Qed.
Print Assumptions epoch_layer_conservative.
