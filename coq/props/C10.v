From AQ Require Import lib.Base model.RangeSet.
Theorem placeholder : True.
Proof. exact I. Qed.
Print Assumptions placeholder.
