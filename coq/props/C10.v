(* C10  Stream send and receive halves conform to a reference model.
   Only statements here; proofs live in coq/proofs/. *)
From AQ Require Import lib.Base model.RangeSet model.StreamRecv model.StreamSpec
  model.StreamSend proofs.RangeSetP proofs.StreamRecvP proofs.StreamSendP.

(* RangeSet: add / subtract preserve well-formedness (sorted, non-empty, never touching ranges)
   and have exactly the set-theoretic meaning, for all range lists and all integers. *)
Theorem rs_add_wf : forall l start stop, wf l -> start < stop -> wf (add start stop l).
Proof. exact add_wf. Qed.
Print Assumptions rs_add_wf.

Theorem rs_add_mem : forall l start stop x, wf l -> start < stop ->
  (mem x (add start stop l) <-> (start <= x < stop \/ mem x l)).
Proof. exact add_mem. Qed.
Print Assumptions rs_add_mem.

Theorem rs_subtract_wf : forall l start stop, wf l -> start < stop -> wf (subtract start stop l).
Proof. exact subtract_wf. Qed.
Print Assumptions rs_subtract_wf.

Theorem rs_subtract_mem : forall l start stop x, wf l -> start < stop ->
  (mem x (subtract start stop l) <-> (mem x l /\ ~ (start <= x < stop))).
Proof. exact subtract_mem. Qed.
Print Assumptions rs_subtract_mem.

Theorem rs_shift_spec : forall l r l', wf l -> shift l = Some (r, l') ->
  wf l' /\ fst r < snd r /\ (forall x, mem x l <-> (fst r <= x < snd r \/ mem x l')) /\
  (forall x, mem x l' -> snd r < x).
Proof. exact shift_spec. Qed.
Print Assumptions rs_shift_spec.

(* Receive half: for EVERY sequence of frames (any offsets, overlaps, duplicates, FIN positions)
   and resets, the events it returns (delivered bytes, end marker, FinalSizeError) and its public
   observables (highest_offset, is_finished, starting_offset) equal those of the offset->byte map
   of model/StreamSpec.v, up to and including the first accepted reset. *)
Theorem recv_refines_spec : forall ops, recv_trace recv_init ops = spec_trace rspec_init ops.
Proof. exact recv_refines. Qed.
Print Assumptions recv_refines_spec.

(* ... and over the WHOLE history (resets accepted or not, frames after a reset included) the delivered
   bytes, the FinalSizeError verdicts, highest_offset and starting_offset agree with the map; only the
   end marker / is_finished are left unspecified once a reset has been accepted. *)
Theorem recv_refines_bytes_spec : forall ops, recv_wtrace recv_init ops = spec_wtrace rspec_init ops.
Proof. exact recv_refines_bytes. Qed.
Print Assumptions recv_refines_bytes_spec.

(* Send half.  [reach st g]: st is reachable from a fresh writable sender by a legitimate history
   (proofs/StreamSendP.v: no write after FIN/reset, no get_frame after reset, and every delivery
   outcome refers to an emitted frame that has had no outcome yet -- the premise provided by C08);
   g is the ghost record of all bytes written and of the emitted frames still without outcome. *)

(* every emitted frame carries exactly the written bytes for its offsets, within both caps;
   FIN only on a frame that ends the written data after end_stream *)
Theorem send_frames_exact_thm : forall st g ms mo off data fin st',
  reach st g -> s_reset st = None ->
  get_frame st ms mo = (SFrame off data fin, st') ->
  0 <= off /\ off + Zlen data <= Zlen (g_written g) /\
  data = slice (g_written g) off (off + Zlen data) /\
  (data <> [] -> Zlen data <= ms /\ forall m, mo = Some m -> off + Zlen data <= m) /\
  (fin = true -> s_fin st = Some (Zlen (g_written g)) /\ off + Zlen data = Zlen (g_written g)).
Proof. exact send_frames_exact. Qed.
Print Assumptions send_frames_exact_thm.

(* every written offset is -- exactly once -- acknowledged, pending, or carried by an emitted frame
   without outcome; a written FIN is acknowledged, pending or outstanding (nothing is forgotten) *)
Theorem send_partition_thm : forall st g, reach st g ->
  (forall o, 0 <= o < Zlen (g_written g) ->
     ackedb st o + b2z (contains o (s_pending st)) + cover o (g_outs g) = 1) /\
  (forall f, s_fin st = Some f -> f = Zlen (g_written g) /\
     (s_pending_eof st = true \/ s_acked_fin st = true \/ 1 <= cfin (g_outs g))).
Proof. exact send_partition. Qed.
Print Assumptions send_partition_thm.

(* unacknowledged bytes and FIN are re-offered after loss ... *)
Theorem lost_reoffered_thm : forall st g a b fin,
  reach st g -> s_reset st = None -> In (a, b, fin) (g_outs g) ->
  let st' := snd (on_data_delivery st false a b fin) in
  (forall o, a <= o < b -> mem o (s_pending st')) /\ (fin = true -> s_pending_eof st' = true) /\
  (a < b \/ fin = true -> s_empty st' = false).
Proof. exact lost_reoffered. Qed.
Print Assumptions lost_reoffered_thm.

(* ... and whatever is pending is emitted by the next frame request whose caps allow it *)
Theorem pending_offered_thm : forall st g ms,
  reach st g -> s_reset st = None -> 0 < ms ->
  match s_pending st with
  | (start, _) :: _ => exists data fin st', get_frame st ms None = (SFrame start data fin, st') /\ data <> []
  | [] => s_pending_eof st = true -> exists f st', get_frame st ms None = (SFrame f [] true, st')
  end.
Proof. exact pending_offered. Qed.
Print Assumptions pending_offered_thm.

Theorem nothing_after_reset_thm : forall st g, reach st g -> s_reset st <> None ->
  s_empty st = true /\ forall ms mo, get_frame st ms mo = (SAssert, st).
Proof. exact nothing_after_reset. Qed.
Print Assumptions nothing_after_reset_thm.

(* completion is reported exactly when all bytes and the FIN, or the reset, have been acknowledged *)
Theorem finished_iff_thm : forall st g, reach st g ->
  (s_finished st = true <->
   ((s_fin st = Some (Zlen (g_written g)) /\ s_start st = Zlen (g_written g) /\ s_acked_fin st = true)
    \/ g_reset_acked g = true)).
Proof. exact finished_iff. Qed.
Print Assumptions finished_iff_thm.

Theorem all_acked_iff_thm : forall st g, reach st g ->
  (s_start st = Zlen (g_written g) <-> forall o, 0 <= o < Zlen (g_written g) -> acked_at st o).
Proof. exact all_acked_iff. Qed.
Print Assumptions all_acked_iff_thm.

(* a legitimate history never trips an assertion of the send half *)
Theorem send_no_assert_thm : forall st g op, reach st g -> legit st g op -> fst (send_step st op) <> SAssert.
Proof. exact send_no_assert. Qed.
Print Assumptions send_no_assert_thm.
