From AQ Require Import lib.Base model.Recovery.
Theorem placeholder08 : True.
Proof. exact I. Qed.
Print Assumptions placeholder08.
