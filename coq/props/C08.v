(* C08  Loss-recovery and congestion accounting stay consistent.
   Every theorem is for ALL op sequences (send / ack(range set) / loss timer or PTO / reschedule /
   discard / pacer calls), for EVERY interpretation F of the float operations (so for arbitrary
   outcomes of every float comparison); the executable PrimFloat instance is one such F. *)
From AQ Require Import lib.Base lib.Tok model.RangeSet model.RecBase model.Pacer model.Reno model.Cubic
  model.Recovery model.RecoveryFloat gen.C08Consts
  proofs.RecoveryLemmas proofs.RecoveryProofs proofs.RecoveryPres proofs.RenoProofs proofs.CubicProofs
  proofs.C08Theorems proofs.FlightBudget proofs.CubicFloor.
From AQ Require gen.C13Consts model.Builder proofs.BuilderProofs proofs.BuilderFlight proofs.BuilderFlightAE.
From AQ Require gen.C08Probe model.ProbeBudget proofs.ProbeBudgetProofs proofs.ProbeFlight.
From AQ Require gen.C13Writers model.Writers model.ProbeWriters proofs.ProbeQuiet proofs.ProbeWritersProofs.

(* bytes_in_flight = sum of sent_bytes over tracked in-flight packets of all spaces;
   ack_eliciting_in_flight = number of tracked ack-eliciting packets, per space; keys unique *)
Theorem ledger_exact :
  forall (T C : Type) (F : fops T) (cc : ccops T C), cc_spec cc ->
  forall n irtt mss pcav c0 ops st evs,
  cc_bif cc c0 = 0 -> fresh_ops [] ops ->
  run F cc (rec_init F n irtt mss pcav c0) ops = (st, evs) ->
  cc_bif cc (r_cc st) = tot_flight (r_spaces st) /\
  (forall i s, nth_error (r_spaces st) i = Some s ->
     sp_aeif s = aecount (sp_sent s) /\ NoDup (keys (sp_sent s))).
Proof. exact (@ledger_exact_gen). Qed.
Print Assumptions ledger_exact.

(* ... instantiated for both controllers of the code (cc_spec is proved for them) *)
Theorem ledger_exact_reno_and_cubic :
  forall (T : Type) (F : fops T) n irtt mss pcav o ops,
  fresh_ops [] ops ->
  (forall st evs, run F (reno_cc F) (rec_init F n irtt mss pcav (reno_init F mss)) ops = (st, evs) ->
     rn_bif (r_cc st) = tot_flight (r_spaces st) /\
     (forall i s, nth_error (r_spaces st) i = Some s -> sp_aeif s = aecount (sp_sent s) /\ NoDup (keys (sp_sent s)))) /\
  (forall st evs, run F (cubic_cc F) (rec_init F n irtt mss pcav (cubic_init F mss o)) ops = (st, evs) ->
     cb_bif (r_cc st) = tot_flight (r_spaces st) /\
     (forall i s, nth_error (r_spaces st) i = Some s -> sp_aeif s = aecount (sp_sent s) /\ NoDup (keys (sp_sent s)))).
Proof. exact ledger_exact_reno_cubic. Qed.
Print Assumptions ledger_exact_reno_and_cubic.

Theorem bytes_in_flight_nonneg :
  forall (T C : Type) (F : fops T) (cc : ccops T C) n irtt mss pcav c0 ops st evs,
  cc_spec cc -> cc_bif cc c0 = 0 -> fresh_ops [] ops -> Forall (op_nn (T:=T)) ops ->
  run F cc (rec_init F n irtt mss pcav c0) ops = (st, evs) ->
  0 <= cc_bif cc (r_cc st).
Proof. exact (@bytes_in_flight_nonneg_gen). Qed.
Print Assumptions bytes_in_flight_nonneg.

(* every (space, packet number) is reported (ACKED or LOST) at most once over the whole history, only
   if it was sent, and is not tracked at the end *)
Theorem callbacks_at_most_once :
  forall (T C : Type) (F : fops T) (cc : ccops T C), cc_spec cc ->
  forall n irtt mss pcav c0 ops st evs,
  cc_bif cc c0 = 0 -> fresh_ops [] ops ->
  run F cc (rec_init F n irtt mss pcav c0) ops = (st, evs) ->
  NoDup (map evkey evs) /\
  (forall e, In e evs -> In (evkey e) (sent_keys ops) /\ ~ tracked (r_spaces st) (evkey e)).
Proof. exact (@callbacks_at_most_once_gen). Qed.
Print Assumptions callbacks_at_most_once.

Theorem callbacks_at_most_once_reno_and_cubic :
  forall (T : Type) (F : fops T) n irtt mss pcav o ops,
  fresh_ops [] ops ->
  (forall st evs, run F (reno_cc F) (rec_init F n irtt mss pcav (reno_init F mss)) ops = (st, evs) ->
     NoDup (map evkey evs) /\
     (forall e, In e evs -> In (evkey e) (sent_keys ops) /\ ~ tracked (r_spaces st) (evkey e))) /\
  (forall st evs, run F (cubic_cc F) (rec_init F n irtt mss pcav (cubic_init F mss o)) ops = (st, evs) ->
     NoDup (map evkey evs) /\
     (forall e, In e evs -> In (evkey e) (sent_keys ops) /\ ~ tracked (r_spaces st) (evkey e))).
Proof. exact callbacks_at_most_once_reno_cubic. Qed.
Print Assumptions callbacks_at_most_once_reno_and_cubic.

(* the events of any single operation concern packets that were tracked just before it (hence sent
   earlier and never reported before) and are untracked just after it: acknowledging never-sent or
   already-reported numbers reports nothing *)
Theorem callbacks_only_tracked :
  forall (T C : Type) (F : fops T) (cc : ccops T C), cc_spec cc ->
  forall n irtt mss pcav c0 ops o st evs0 st' evs status r,
  cc_bif cc c0 = 0 -> fresh_ops [] (ops ++ [o]) ->
  run F cc (rec_init F n irtt mss pcav c0) ops = (st, evs0) ->
  step F cc st o = (st', evs, status, r) ->
  forall e, In e evs ->
    tracked (r_spaces st) (evkey e) /\ In (evkey e) (sent_keys ops) /\
    ~ In (evkey e) (map evkey evs0) /\ ~ tracked (r_spaces st') (evkey e).
Proof. exact (@callbacks_only_tracked_gen). Qed.
Print Assumptions callbacks_only_tracked.

Theorem ack_untracked_silent :
  forall (T C : Type) (F : fops T) (cc : ccops T C), cc_spec cc ->
  forall (st : rec) sp ranges delay now st' evs status r,
  rgood cc st ->
  (forall s k, nth_error (r_spaces st) (Z.to_nat sp) = Some s -> In k (keys (sp_sent s)) ->
               contains k (mk_rs ranges) = false) ->
  step F cc st (OAck sp ranges delay now) = (st', evs, status, r) ->
  evs = [] /\ r_cc st' = r_cc st /\ map (@sp_sent T) (r_spaces st') = map (@sp_sent T) (r_spaces st).
Proof. exact (@ack_untracked_silent_gen). Qed.
Print Assumptions ack_untracked_silent.

(* Reno: the window never drops below K_MINIMUM_WINDOW = 2 datagrams (constant read from the source) *)
Theorem cwnd_floor :
  forall (T : Type) (F : fops T) n irtt mss pcav ops st evs,
  0 < mss -> Forall (op_nn (T:=T)) ops ->
  run F (reno_cc F) (rec_init F n irtt mss pcav (reno_init F mss)) ops = (st, evs) ->
  K_MINIMUM_WINDOW * mss <= rn_cwnd (r_cc st) /\ K_MINIMUM_WINDOW = 2.
Proof. exact (@cwnd_floor_reno_gen). Qed.
Print Assumptions cwnd_floor.

(* CUBIC: same floor, under the in-model FloatAnomaly guard (see docs/C08.md for what is missing) *)
Theorem cwnd_floor_cubic_partial :
  forall (T : Type) (F : fops T) n irtt mss pcav o ops st evs,
  0 < mss -> Forall (op_nn (T:=T)) ops ->
  run F (cubic_cc F) (rec_init F n irtt mss pcav (cubic_init F mss o)) ops = (st, evs) ->
  cb_fanom (r_cc st) = false ->
  K_MINIMUM_WINDOW * mss <= cb_cwnd (r_cc st) /\ K_MINIMUM_WINDOW = 2.
Proof. exact (@cwnd_floor_cubic_partial_gen). Qed.
Print Assumptions cwnd_floor_cubic_partial.

(* the executable PrimFloat model run by the correspondence harness is an instance *)
Theorem executable_instance_reno :
  forall n irtt mss pcav ops st evs,
  0 < mss -> fresh_ops [] ops -> Forall (op_nn (T:=PrimFloat.float)) ops ->
  run FF (reno_cc FF) (rec_init FF n irtt mss pcav (reno_init FF mss)) ops = (st, evs) ->
  rn_bif (r_cc st) = tot_flight (r_spaces st) /\ 0 <= rn_bif (r_cc st) /\
  NoDup (map evkey evs) /\ 2 * mss <= rn_cwnd (r_cc st).
Proof. exact float_instance_reno. Qed.
Print Assumptions executable_instance_reno.

(* CUBIC, executable PrimFloat instance, NO FloatAnomaly guard: the floor holds on every history as long as no
   int(inf / nan) occurred (cb_anom: in Python an OverflowError / ValueError would have escaped).  Proved from the
   IEEE-754 semantics of the primitive floats (Flocq + the standard library's FloatAxioms; proofs/FloatMono.v):
   rounding and truncation are monotone, float(int) is correctly rounded, products / quotients of non-negative floats
   are non-negative, int(float(w) * 1.5) >= w.  max_datagram_size < 2^52 makes the floor itself a binary64 number. *)
Theorem cwnd_floor_cubic :
  forall n irtt mss pcav o ops st evs,
  0 < mss < 2 ^ 52 -> Forall (op_nn (T:=PrimFloat.float)) ops ->
  run FF (cubic_cc FF) (rec_init FF n irtt mss pcav (cubic_init FF mss o)) ops = (st, evs) ->
  cb_anom (r_cc st) = false ->
  K_MINIMUM_WINDOW * mss <= cb_cwnd (r_cc st) /\ K_MINIMUM_WINDOW = 2.
Proof. exact cwnd_floor_cubic_ff. Qed.
Print Assumptions cwnd_floor_cubic.

(* ---------- flight budget (last sentence of the property) ----------
   Builder side (model/Builder.v, C13's model of QuicPacketBuilder): with max_flight_bytes = mf, for every
   configuration and every op history respecting the caller discipline of connection.py (BuilderFlight.fl_disciplined:
   ACK / CONNECTION_CLOSE frames first in a packet, in-flight frame bodies sized with remaining_flight_space, no
   one-byte ACK-only packet), the sent_bytes of ALL packets marked in flight -- returned by flush() or still queued --
   are at most max(0, mf). *)
Theorem flight_le_budget :
  forall (c : Builder.cfg) (mf pn : Z) (ops : list Builder.op),
    Builder.c_max_flight c = Some mf -> BuilderProofs.wf_cfg c -> BuilderProofs.crypto_fits c ->
    BuilderFlight.fl_disciplined c (Builder.init_st c pn) ops = true ->
    BuilderFlight.fl_sum (snd (BuilderFlight.run_pk c (Builder.init_st c pn) ops)) +
    BuilderFlight.fl_sum (Builder.b_pkts (fst (BuilderFlight.run_pk c (Builder.init_st c pn) ops))) <= Z.max 0 mf.
Proof. exact BuilderFlight.flight_le_budget_all. Qed.
Print Assumptions flight_le_budget.

(* the builder's own account _flight_bytes (packets in flight + datagram-level Initial padding, i.e. what is on the
   wire) obeys the same bound and dominates the in-flight bytes of the packets *)
Theorem flight_wire_le_budget :
  forall (c : Builder.cfg) (mf pn : Z) (ops : list Builder.op),
    Builder.c_max_flight c = Some mf -> BuilderProofs.wf_cfg c -> BuilderProofs.crypto_fits c ->
    BuilderFlight.fl_disciplined c (Builder.init_st c pn) ops = true ->
    0 <= Builder.b_flight (fst (Builder.run c (Builder.init_st c pn) ops)) <= Z.max 0 mf /\
    (Builder.b_dginit (fst (Builder.run c (Builder.init_st c pn) ops)) = true ->
     BuilderFlight.fl_sum (snd (BuilderFlight.run_pk c (Builder.init_st c pn) ops)) +
     BuilderFlight.fl_sum (Builder.b_pkts (fst (Builder.run c (Builder.init_st c pn) ops)))
       <= Builder.b_flight (fst (Builder.run c (Builder.init_st c pn) ops))).
Proof. exact BuilderFlight.flight_wire_le_budget. Qed.
Print Assumptions flight_wire_le_budget.

(* the variant that matches the property's wording "apart from acknowledgement-only packets": WITHOUT the third flight
   clause (so one-byte ACK / CLOSE-only packets, which _end_packet pads and marks in flight outside any flight check, are
   allowed) the ACK-ELICITING in-flight packets still obey the budget *)
Theorem flight_le_budget_ack_eliciting :
  forall (c : Builder.cfg) (mf pn : Z) (ops : list Builder.op),
    Builder.c_max_flight c = Some mf -> BuilderProofs.wf_cfg c -> BuilderProofs.crypto_fits c ->
    BuilderFlightAE.fl12_disciplined c (Builder.init_st c pn) ops = true ->
    BuilderFlightAE.ae_sum (snd (BuilderFlight.run_pk c (Builder.init_st c pn) ops)) +
    BuilderFlightAE.ae_sum (Builder.b_pkts (fst (BuilderFlight.run_pk c (Builder.init_st c pn) ops))) <= Z.max 0 mf.
Proof. exact BuilderFlightAE.flight_le_budget_ack_eliciting. Qed.
Print Assumptions flight_le_budget_ack_eliciting.

(* Composition with on_packet_sent, for ANY recovery state st (so after any history), any controller satisfying
   cc_spec and any budget mf: one datagrams_to_send call (builder session, then on_packet_sent for every packet built)
   adds exactly the in-flight bytes of the packets to bytes_in_flight, and that is at most max(0, mf). *)
Theorem flight_budget :
  forall (T C : Type) (cc : ccops T C), cc_spec cc ->
  forall (st : rec (T:=T) (C:=C)) sp now c mf pn ops,
  (forall t, (sp t < length (r_spaces st))%nat) ->
  Builder.c_max_flight c = Some mf -> BuilderProofs.wf_cfg c -> BuilderProofs.crypto_fits c ->
  BuilderFlight.fl_disciplined c (Builder.init_st c pn) ops = true ->
  cc_bif cc (r_cc (register cc sp now st (built c pn ops))) =
    cc_bif cc (r_cc st) + BuilderFlight.fl_sum (built c pn ops) /\
  cc_bif cc (r_cc (register cc sp now st (built c pn ops))) <= cc_bif cc (r_cc st) + Z.max 0 mf.
Proof. exact (@flight_budget_gen). Qed.
Print Assumptions flight_budget.

(* no probe pending: max_flight_bytes = congestion_window - bytes_in_flight (both read before the call), hence
   bytes_in_flight after the call <= max(congestion_window, bytes_in_flight) as they were before the call *)
Theorem flight_budget_window :
  forall (T C : Type) (cc : ccops T C), cc_spec cc ->
  forall (st : rec (T:=T) (C:=C)) sp now c pn ops,
  (forall t, (sp t < length (r_spaces st))%nat) ->
  Builder.c_max_flight c = Some (cc_cwnd cc (r_cc st) - cc_bif cc (r_cc st)) ->
  BuilderProofs.wf_cfg c -> BuilderProofs.crypto_fits c ->
  BuilderFlight.fl_disciplined c (Builder.init_st c pn) ops = true ->
  cc_bif cc (r_cc (register cc sp now st (built c pn ops))) <= Z.max (cc_cwnd cc (r_cc st)) (cc_bif cc (r_cc st)).
Proof. exact (@FlightBudget.flight_budget_window). Qed.
Print Assumptions flight_budget_window.

(* a probe is pending: the budget is raised to one datagram when it is below ("one probe datagram per timeout") *)
Theorem flight_budget_probe :
  forall (T C : Type) (cc : ccops T C), cc_spec cc ->
  forall (st : rec (T:=T) (C:=C)) sp now c pn ops,
  (forall t, (sp t < length (r_spaces st))%nat) ->
  Builder.c_max_flight c = Some (Z.max (cc_cwnd cc (r_cc st) - cc_bif cc (r_cc st)) (Builder.c_mds c)) ->
  0 <= Builder.c_mds c ->
  BuilderProofs.wf_cfg c -> BuilderProofs.crypto_fits c ->
  BuilderFlight.fl_disciplined c (Builder.init_st c pn) ops = true ->
  cc_bif cc (r_cc (register cc sp now st (built c pn ops)))
    <= Z.max (cc_cwnd cc (r_cc st)) (cc_bif cc (r_cc st) + Builder.c_mds c).
Proof. exact (@FlightBudget.flight_budget_probe). Qed.
Print Assumptions flight_budget_probe.

(* ... instantiated for both controllers of the code *)
Theorem flight_budget_reno_and_cubic :
  forall (T : Type) (F : fops T) sp now c pn ops,
  BuilderProofs.wf_cfg c -> BuilderProofs.crypto_fits c ->
  BuilderFlight.fl_disciplined c (Builder.init_st c pn) ops = true ->
  (forall st : rec (T:=T) (C:=reno (T:=T)),
     (forall t, (sp t < length (r_spaces st))%nat) ->
     Builder.c_max_flight c = Some (rn_cwnd (r_cc st) - rn_bif (r_cc st)) ->
     rn_bif (r_cc (register (reno_cc F) sp now st (built c pn ops))) <= Z.max (rn_cwnd (r_cc st)) (rn_bif (r_cc st))) /\
  (forall st : rec (T:=T) (C:=cubic (T:=T)),
     (forall t, (sp t < length (r_spaces st))%nat) ->
     Builder.c_max_flight c = Some (cb_cwnd (r_cc st) - cb_bif (r_cc st)) ->
     cb_bif (r_cc (register (cubic_cc F) sp now st (built c pn ops))) <= Z.max (cb_cwnd (r_cc st)) (cb_bif (r_cc st))).
Proof. exact flight_budget_reno_cubic. Qed.
Print Assumptions flight_budget_reno_and_cubic.

(* ---------- the probe allowance: ONE probe datagram per timeout (model/ProbeBudget.v over gen/C08Probe.v) ---------- *)

(* where _probe_pending is set / read / cleared in the checked tree, as generated from its AST *)
Theorem probe_sites_pinned :
  C08Probe.send_probe_body = [C08Probe.SSet] /\
  C08Probe.dts_budget_guard = C08Probe.GAnd (C08Probe.GAtom C08Probe.APending) (C08Probe.GAtom C08Probe.ALowBudget) /\
  C08Probe.dts_budget_body = [C08Probe.SRaiseBudget] /\
  C08Probe.app_probe_guard = C08Probe.GAtom C08Probe.APending /\
  C08Probe.app_probe_body = [C08Probe.SPing; C08Probe.SClear] /\
  ProbeBudget.has_break C08Probe.app_before_start = true /\
  ProbeBudget.nonempty C08Probe.app_writers_before = true /\ ProbeBudget.nonempty C08Probe.app_writers_after = true /\
  C08Probe.hs_order = [1; 2; 3; 5; 9] /\
  C08Probe.hs_crypto_guard = C08Probe.GAtom C08Probe.ACryptoWritten /\ C08Probe.hs_crypto_body = [C08Probe.SClear] /\
  C08Probe.hs_probe_guard =
    C08Probe.GAnd (C08Probe.GAtom C08Probe.APending)
      (C08Probe.GAnd (C08Probe.GNot (C08Probe.GAtom C08Probe.AHandshakeComplete))
         (C08Probe.GOr (C08Probe.GAtom C08Probe.AEpochHandshake) (C08Probe.GNot (C08Probe.GAtom C08Probe.AHandshakeKeys)))) /\
  C08Probe.hs_probe_body = [C08Probe.SPing; C08Probe.SClear] /\ C08Probe.oneshot_sites = 2.
Proof. exact ProbeBudgetProofs.probe_sites_pinned_lemma. Qed.
Print Assumptions probe_sites_pinned.

(* in every history of timeouts / early retransmissions / other calls / datagrams_to_send calls with any decisions: the calls
   whose budget was raised by the probe rule and that wrote an ack-eliciting frame (calls cut by QuicPacketBuilderStop at or ahead
   of the probe PING after an ack-eliciting frame excluded) are at most the send_probe grants = probe timeouts fired + at most
   one early retransmission *)
Theorem one_probe_per_timeout : forall h,
  ProbeBudget.s_probes (ProbeBudget.run h) <= ProbeBudget.s_grants (ProbeBudget.run h) /\
  ProbeBudget.s_grants (ProbeBudget.run h) = ProbeBudget.s_timeouts (ProbeBudget.run h) + b2z (ProbeBudget.s_cr (ProbeBudget.run h)) /\
  ProbeBudget.s_grants (ProbeBudget.run h) <= ProbeBudget.s_timeouts (ProbeBudget.run h) + 1.
Proof. exact ProbeBudgetProofs.one_probe_per_timeout_thm. Qed.
Print Assumptions one_probe_per_timeout.

(* without that exclusion the statement is FALSE for the tree as it is: one timeout, two raised calls that each wrote
   ack-eliciting frames (candidate finding C08-F3) *)
Theorem one_probe_per_timeout_refuted :
  exists h, ProbeBudget.s_timeouts (ProbeBudget.run h) = 1 /\ ProbeBudget.s_grants (ProbeBudget.run h) = 1 /\
            ProbeBudget.s_over (ProbeBudget.run h) = 2 /\ ProbeBudget.s_probes (ProbeBudget.run h) = 1.
Proof. exact ProbeBudgetProofs.one_probe_per_timeout_refuted_thm. Qed.
Print Assumptions one_probe_per_timeout_refuted.

(* bytes: a call with the model's budget lifts the ledger above max(cwnd, bytes_in_flight) (read before the call) by at most
   one datagram when the probe rule fired, by nothing otherwise (composition with flight_budget) *)
Theorem probe_call_bytes :
  forall (T C : Type) (cc : ccops T C), cc_spec cc ->
  forall (st : rec (T:=T) (C:=C)) sp now c pn ops pending,
  (forall t, (sp t < length (r_spaces st))%nat) ->
  Builder.c_max_flight c
    = Some (ProbeBudget.dts_max_flight pending (cc_cwnd cc (r_cc st)) (cc_bif cc (r_cc st)) (Builder.c_mds c)) ->
  0 <= Builder.c_mds c ->
  BuilderProofs.wf_cfg c -> BuilderProofs.crypto_fits c ->
  BuilderFlight.fl_disciplined c (Builder.init_st c pn) ops = true ->
  cc_bif cc (r_cc (register cc sp now st (built c pn ops)))
    <= Z.max (cc_cwnd cc (r_cc st)) (cc_bif cc (r_cc st))
       + (if pending && (cc_cwnd cc (r_cc st) - cc_bif cc (r_cc st) <? Builder.c_mds c) then Builder.c_mds c else 0).
Proof. exact (@ProbeFlight.probe_call_bytes_thm). Qed.
Print Assumptions probe_call_bytes.

(* ... summed over the calls of a history: total excess <= max_datagram_size x number of raised calls *)
Theorem probe_bytes_total : forall mds xs, 0 <= mds ->
  Forall (fun x : bool * Z => snd x <= if fst x then mds else 0) xs ->
  ProbeFlight.total_excess xs <= mds * ProbeFlight.raised_calls xs.
Proof. exact ProbeFlight.probe_bytes_total_thm. Qed.
Print Assumptions probe_bytes_total.

(* ---------- round e08: the decisions of the probe-allowance machine tied to the writer machine of C13 (model/Writers.v) ---------- *)

(* the generated writer order of _write_application is: the writers ahead of the probe PING (the names the probe generator
   found ahead of the clear site), the probe PING, the writers after it *)
Theorem writer_order_pinned :
  C13Writers.ORDER_write_application = [0; 7; 5; 8; 6; 11; 15; 15; 2; 14; 9] ++ [9] ++ [3; 4; 12; 10; 13] /\
  map ProbeWriters.writer_name [0; 7; 5; 8; 6; 11; 15; 15; 2; 14; 9] = C08Probe.app_writers_before /\
  map ProbeWriters.writer_name [3; 4; 12; 10; 13] = C08Probe.app_writers_after.
Proof. exact ProbeWritersProofs.order_pinned_lemma. Qed.
Print Assumptions writer_order_pinned.

(* ... and one packet of the writer machine is exactly: before-group, probe PING, after-group *)
Theorem writer_model_split : forall c s d,
  Writers.w_app_iter c s d =
  Writers.wseq (ProbeWriters.w_before c s d)
               (fun s2 => Writers.wseq (ProbeWriters.w_probe c s2 d) (fun s3 => ProbeWriters.w_after c s3 d)).
Proof. exact ProbeWritersProofs.app_iter_split. Qed.
Print Assumptions writer_model_split.

(* one iteration of the 1-RTT packet loop, probe pending, decisions READ OFF the writer machine (abs_iter: any pending frames,
   sizes, budgets): the flag is still set afterwards and something ack-eliciting was written (the C08-F3 situation; prestop
   holds then) EXACTLY WHEN the packet is ack-eliciting after the writers ahead of the probe PING and one of them was left by
   an exception or the PING's own start_frame does not return *)
Theorem prestop_characterised : forall c s pt d ce s0 s1 tr1 ob sb trb,
  ProbeBudget.pp s0 = true -> ProbeBudget.halted s0 = false -> ProbeBudget.ae s0 = false ->
  Writers.ai_ping_probe d = true ->
  Writers.do_start_packet c s pt = (Builder.ODone, s1, tr1) ->
  ProbeWriters.w_before c s1 d = (ob, sb, trb) ->
  let r := ProbeBudget.app_iteration ce (ProbeWriters.abs_iter c s pt d) s0 in
  (ProbeBudget.pp r = true /\ ProbeBudget.ae r = true /\ ProbeBudget.prestop r = true) <->
  (ProbeWriters.cur_ackel sb = true /\
   (ob <> Builder.ODone \/
    fst (Builder.start_frame c sb C13Writers.W_ping_frame_0_ft C13Writers.W_ping_frame_0_cap) <> Builder.ODone)).
Proof. exact ProbeWritersProofs.prestop_characterised_thm. Qed.
Print Assumptions prestop_characterised.

(* the PING's start_frame raises QuicPacketBuilderStop exactly when the room left in the open packet is below its capacity
   (1 byte; 2 in an empty packet) *)
Theorem probe_ping_stop_room : forall c s p,
  Builder.b_cur s = Some p -> Builder.b_hascrypto s = true ->
  let cap := if Builder.b_tell s - Builder.p_start p <=? Builder.p_hdr p
             then C13Consts.START_FRAME_EMPTY_RESERVE else C13Writers.W_ping_frame_0_cap in
  (fst (Builder.start_frame c s C13Writers.W_ping_frame_0_ft C13Writers.W_ping_frame_0_cap) = Builder.OStop
   <-> ProbeWriters.room s < cap).
Proof. exact ProbeWritersProofs.ping_stop_room. Qed.
Print Assumptions probe_ping_stop_room.

(* ONE PROBE PER TIMEOUT WITHOUT THE PRESTOP EXCLUSION: every call takes the decisions of its 1-RTT / 0-RTT packets from the
   writer machine with NO frame pending for a writer ahead of the probe PING (only the PING, CRYPTO, DATAGRAM and stream
   frames; any builder state and budgets); handshake-level decisions and everything else free.  Then ALL raised calls that
   wrote an ack-eliciting frame are at most the grants *)
Theorem one_probe_per_timeout_no_control_frames : forall h,
  (forall d, In (ProbeBudget.ECall d) h -> ProbeWritersProofs.call_from_writers d) ->
  ProbeBudget.s_over (ProbeBudget.run h) <= ProbeBudget.s_grants (ProbeBudget.run h) /\
  ProbeBudget.s_grants (ProbeBudget.run h) <= ProbeBudget.s_timeouts (ProbeBudget.run h) + 1.
Proof. exact ProbeWritersProofs.one_probe_no_control_thm. Qed.
Print Assumptions one_probe_per_timeout_no_control_frames.

(* the same on the decision level: it is enough that in every started packet the before-group wrote nothing ack-eliciting
   (nothing pending, or an ACK that raised QuicPacketBuilderStop) *)
Theorem one_probe_per_timeout_quiet : forall h, forallb ProbeQuiet.ev_quiet h = true ->
  ProbeBudget.s_over (ProbeBudget.run h) <= ProbeBudget.s_grants (ProbeBudget.run h) /\
  ProbeBudget.s_grants (ProbeBudget.run h) <= ProbeBudget.s_timeouts (ProbeBudget.run h) + 1.
Proof. exact ProbeQuiet.one_probe_quiet_thm. Qed.
Print Assumptions one_probe_per_timeout_quiet.

(* a C08-F3 iteration fills its packet: the control frames it wrote ahead of the PING exceed the room the fresh packet had
   minus 54 (CAP_BEFORE: the largest capacity declared ahead of the PING apart from the ACK) *)
Theorem prestop_fills_packet : forall c s1 d ob sb trb,
  ProbeWriters.cur_ackel s1 = false -> ProbeWritersProofs.ctl_fts_ok d ->
  ProbeWriters.w_before c s1 d = (ob, sb, trb) ->
  ProbeWriters.cur_ackel sb = true ->
  (ob = Builder.OStop \/
   (ob = Builder.ODone /\
    fst (Builder.start_frame c sb C13Writers.W_ping_frame_0_ft C13Writers.W_ping_frame_0_cap) = Builder.OStop)) ->
  ProbeWritersProofs.caps_eq s1 sb /\ ProbeWriters.room sb < ProbeWriters.CAP_BEFORE /\
  Builder.b_tell sb - Builder.b_tell s1 > ProbeWriters.room s1 - ProbeWriters.CAP_BEFORE.
Proof. exact ProbeWritersProofs.prestop_fills_packet_thm. Qed.
Print Assumptions prestop_fills_packet.

(* HOW MANY extra over-window datagrams C08-F3 can give: each needs one more C08-F3 iteration; n of them, each in a packet
   with at least R bytes of room, wrote at least n * (R - 53) bytes of control frames ahead of the PING, so
   n <= (control-frame bytes written ahead of the PING) / (R - 53) *)
Theorem f3_extra_datagrams_bounded : forall R ws, ProbeWriters.CAP_BEFORE < R ->
  Forall (ProbeWritersProofs.f3_iter R) ws ->
  Zlen ws * (R - ProbeWriters.CAP_BEFORE + 1) <= Builder.zsum (map ProbeWritersProofs.ctl_bytes ws) /\
  Zlen ws <= Builder.zsum (map ProbeWritersProofs.ctl_bytes ws) / (R - ProbeWriters.CAP_BEFORE + 1).
Proof. exact ProbeWritersProofs.f3_extra_bounded_thm. Qed.
Print Assumptions f3_extra_datagrams_bounded.

(* R for the first 1-RTT packet of a raised call (fresh builder, budget = one datagram, no anti-amplification limit) *)
Theorem raised_first_packet_room : forall c pn s1,
  Builder.c_max_flight c = Some (Builder.c_mds c) -> Builder.c_max_total c = None ->
  Builder.start_packet c (Builder.init_st c pn) C13Consts.PT_ONE_RTT = (Builder.ODone, s1) ->
  ProbeWriters.room s1 = Builder.c_mds c - Builder.header_size c C13Consts.PT_ONE_RTT - C13Consts.AEAD_TAG_SIZE /\
  ProbeWriters.cur_ackel s1 = false.
Proof. exact ProbeWritersProofs.raised_first_packet_room. Qed.
Print Assumptions raised_first_packet_room.

(* the decision of the refuting history of C08-F3 is REALISABLE: 300 pending MAX_STREAM_DATA frames, datagram size 1200 *)
Theorem flood_decision_realisable :
  ProbeWriters.abs_iter ProbeWritersProofs.flood_cfg (Builder.init_st ProbeWritersProofs.flood_cfg 0) C13Consts.PT_ONE_RTT
                        ProbeWritersProofs.flood_pending = ProbeBudgetProofs.it_flood.
Proof. exact ProbeWritersProofs.flood_realisable_lemma. Qed.
Print Assumptions flood_decision_realisable.
