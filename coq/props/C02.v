(* C02  Only authentic packets are accepted; altered packets change nothing.
   Statements only; proofs are in proofs/PacketNumberProofs.v and proofs/ProtectProofs.v. *)
From AQ Require Import lib.Base model.PacketNumber model.Protect gen.PnGen proofs.PacketNumberProofs proofs.ProtectProofs
  model.KeyPhase proofs.KeyPhaseProofs gen.C02Keys model.KeyDerive proofs.KeyDeriveProofs model.KeyPhaseSec proofs.KeyPhaseSecProofs gen.C02Recv model.PacketRecv proofs.PacketRecvProofs.

(* the current source of decode_packet_number (translated by tools/gen/c02_pure.py) is the model *)
Theorem gen_source_is_model : forall t b e, gen_decode_packet_number t b e = decode_packet_number t b e.
Proof. exact gen_decode_packet_number_eq. Qed.
Print Assumptions gen_source_is_model.

(* RFC 9000 A.3: the result is a packet number with the transmitted low bits, closest to expected
   among all such candidates in [0, 2^62); on a tie the larger candidate *)
Theorem pn_decode_closest : forall n e t, valid_bits n -> 0 <= e < 2 ^ 62 -> 0 <= t < 2 ^ n ->
  let r := decode_packet_number t n e in
  0 <= r < 2 ^ 62 /\ r mod 2 ^ n = t /\
  forall c, 0 <= c < 2 ^ 62 -> c mod 2 ^ n = t ->
    Z.abs (r - e) < Z.abs (c - e) \/ (Z.abs (r - e) = Z.abs (c - e) /\ c <= r).
Proof. exact pn_decode_closest_lemma. Qed.
Print Assumptions pn_decode_closest.

Theorem pn_roundtrip : forall n e pn, valid_bits n -> 0 <= e < 2 ^ 62 -> 0 <= pn < 2 ^ 62 ->
  e - 2 ^ (n - 1) < pn <= e + 2 ^ (n - 1) ->
  decode_packet_number (pn mod 2 ^ n) n e = pn.
Proof. exact pn_roundtrip_lemma. Qed.
Print Assumptions pn_roundtrip.

(* the pn field as it reaches decode_packet_number from HeaderProtection_remove (C int conversion) *)
Theorem pn_field_recovery : forall n e pn, valid_bits n -> 0 <= e < 2 ^ 62 -> 0 <= pn < 2 ^ 62 ->
  e - 2 ^ (n - 1) < pn <= e + 2 ^ (n - 1) -> (n < 32 \/ pn mod 2 ^ 32 < 2 ^ 31) ->
  decode_packet_number (as_c_int (pn mod 2 ^ n)) n e = pn.
Proof. exact pn_field_recovery_lemma. Qed.
Print Assumptions pn_field_recovery.

Theorem pn_field_recovery_32bit_refuted : exists e pn, 0 <= e < 2 ^ 62 /\ 0 <= pn < 2 ^ 62 /\
  e - 2 ^ 31 < pn <= e + 2 ^ 31 /\ decode_packet_number (as_c_int (pn mod 2 ^ 32)) 32 e <> pn /\
  decode_packet_number (pn mod 2 ^ 32) 32 e = pn.
Proof. exact pn_field_recovery_refuted. Qed.
Print Assumptions pn_field_recovery_32bit_refuted.

Theorem hp_roundtrip : forall (K : Type) (maskf : K -> list Z -> list Z) hp hdr ct,
  let pnl := Z.land (byte_at hdr 0) 3 + 1 in
  pnl < Zlen hdr -> 20 <= pnl + Zlen ct -> Zlen hdr + Zlen ct <= 1500 ->
  hp_remove K maskf hp (hp_apply K maskf hp hdr ct) (Zlen hdr - pnl)
    = (hdr, as_c_int (be_int (zdrop (Zlen hdr - pnl) hdr))).
Proof. exact hp_roundtrip_lemma. Qed.
Print Assumptions hp_roundtrip.

Theorem hp_apply_frame : forall (K : Type) (maskf : K -> list Z -> list Z) hp b0 mid pn ct,
  Zlen pn = Z.land b0 3 + 1 ->
  exists b0' pn', hp_apply K maskf hp (b0 :: mid ++ pn) ct = b0' :: mid ++ pn' ++ ct /\
    Zlen pn' = Zlen pn /\
    Z.land b0' (Z.lnot (first_mask b0)) = Z.land b0 (Z.lnot (first_mask b0)) /\
    Z.land b0' 128 = Z.land b0 128.
Proof. exact hp_apply_frame_lemma. Qed.
Print Assumptions hp_apply_frame.

Theorem nonce_injective : forall iv pn1 pn2, Zlen iv = 12 -> 0 <= pn1 < 2 ^ 62 -> 0 <= pn2 < 2 ^ 62 ->
  nonce iv pn1 = nonce iv pn2 -> pn1 = pn2.
Proof. exact nonce_injective_lemma. Qed.
Print Assumptions nonce_injective.

Theorem header_fully_authenticated : forall (K : Type) (maskf : K -> list Z -> list Z) hp pkt1 pkt2 off,
  1 <= off -> off + 4 <= Zlen pkt1 -> off + 4 <= Zlen pkt2 ->
  aead_view K maskf hp pkt1 off = aead_view K maskf hp pkt2 off -> pkt1 = pkt2.
Proof. exact header_fully_authenticated_lemma. Qed.
Print Assumptions header_fully_authenticated.

Theorem altered_rejected : forall (K : Type) (maskf : K -> list Z -> list Z)
    (seal : K -> list Z -> list Z -> list Z -> list Z) (open_ : K -> list Z -> list Z -> list Z -> option (list Z))
    (next_ctx : cctx K -> cctx K),
  (forall k n a c p, open_ k n a c = Some p -> c = seal k n a p) ->
  forall cx pkt' off e, 1 <= off -> off + 4 <= Zlen pkt' ->
  (forall cr hdr p pn, cr = cx \/ cr = next_ctx cx -> pkt' <> sealed_by K maskf seal cx cr hdr p pn) ->
  decrypt_packet K maskf open_ next_ctx cx pkt' off e = None.
Proof. exact altered_rejected_lemma. Qed.
Print Assumptions altered_rejected.

Theorem protect_unprotect : forall (K : Type) (maskf : K -> list Z -> list Z)
    (seal : K -> list Z -> list Z -> list Z -> list Z) (open_ : K -> list Z -> list Z -> list Z -> option (list Z))
    (next_ctx : cctx K -> cctx K),
  (forall k n a p, open_ k n a (seal k n a p) = Some p) ->
  forall cx hdr p pn e,
  let pnl := Z.land (byte_at hdr 0) 3 + 1 in
  pnl < Zlen hdr -> 4 <= pnl + Zlen p -> Zlen hdr + Zlen p + 16 <= 1500 ->
  (forall k n a, Zlen (seal k n a p) = Zlen p + 16) ->
  (Z.land (byte_at hdr 0) 128 <> 0 \/ Z.shiftr (Z.land (byte_at hdr 0) 4) 2 = c_phase K cx) ->
  decode_packet_number (as_c_int (be_int (zdrop (Zlen hdr - pnl) hdr))) (pnl * 8) e = pn ->
  forall pkt, encrypt_packet K maskf seal cx hdr p pn = Some pkt ->
  decrypt_packet K maskf open_ next_ctx cx pkt (Zlen hdr - pnl) e = Some (hdr, p, pn, false).
Proof. exact protect_unprotect_lemma. Qed.
Print Assumptions protect_unprotect.

Theorem retry_tag_binds : forall (tagf : list Z -> list Z), (forall a b, tagf a = tagf b -> a = b) ->
  forall odcid body tag body' tag',
  retry_accepts tagf odcid body tag -> retry_accepts tagf odcid body' tag' ->
  (body' = body \/ tag' = tag) -> body' = body /\ tag' = tag.
Proof. exact retry_tag_binds_lemma. Qed.
Print Assumptions retry_tag_binds.

(* ---- key-phase state machine (model/KeyPhase.v): "discarded without any visible effect" ---- *)

(* CryptoPair.decrypt_packet: a packet that is rejected leaves the pair -- receive and send context (generation,
   key phase) and the pending-update flag, which is ALL the state the model has -- exactly as it was *)
Theorem rejected_packet_no_state_change : forall s p s', pair_decrypt s p = (s', Rejected) -> s' = s.
Proof. exact rejected_packet_no_state_change_lemma. Qed.
Print Assumptions rejected_packet_no_state_change.

(* every packet that is not an unmodified sealing under some key generation is rejected, whatever its key
   phase bit and whatever the state *)
Theorem inauthentic_packet_rejected : forall s p, q_auth p = None -> pair_decrypt s p = (s, Rejected).
Proof. exact inauthentic_rejected_lemma. Qed.
Print Assumptions inauthentic_packet_rejected.

(* no LATER effect either: for every continuation (local key updates, peer key updates, deliveries in any order,
   further injections) the run with the rejected packet equals the run without it *)
Theorem rejected_packet_no_later_effect : forall s e s' evs, step s e = (s', Some Rejected) ->
  run s (e :: evs) = (fst (run s evs), Some Rejected :: snd (run s evs)).
Proof. exact rejected_no_later_effect_lemma. Qed.
Print Assumptions rejected_packet_no_later_effect.

(* after any interleaving of local updates, sends, deliveries (any order, any repetition) and injected
   inauthentic packets, the two endpoints are at most one generation apart, each endpoint's two directions are in
   the same generation, and the key phase bit is the generation's parity *)
Theorem key_generations_in_step : forall s, reachable s ->
  -1 <= gen (s_a s) - gen (s_b s) <= 1 /\
  k_gen (p_send (s_a s)) = k_gen (p_recv (s_a s)) /\ k_gen (p_send (s_b s)) = k_gen (p_recv (s_b s)) /\
  k_phase (p_recv (s_a s)) = gen (s_a s) mod 2 /\ k_phase (p_recv (s_b s)) = gen (s_b s) mod 2.
Proof. exact generations_in_step_lemma. Qed.
Print Assumptions key_generations_in_step.

(* a genuine packet, delivered at any later time, is rejected ONLY if it was sealed under a generation the
   receiver has already left (aioquic keeps no old read keys); otherwise it is accepted -- under the current or
   the next keys -- and the receiver is then in the packet's generation *)
Theorem genuine_packet_verdict : forall s x k p, reachable s -> nth_error (hist s x) (Z.to_nat k) = Some p ->
  exists g, q_auth p = Some g /\
    let y := ep s (negb x) in
    (g < gen y /\ pair_decrypt y p = (y, Rejected)) \/
    (gen y <= g /\ exists y' upd, pair_decrypt y p = (y', Accepted upd) /\ gen y' = g /\ upd = negb (g =? gen y)).
Proof. exact genuine_packet_verdict_lemma. Qed.
Print Assumptions genuine_packet_verdict.

(* a packet sent by an endpoint that is not behind its peer is accepted when it arrives next, and both sides
   are then in the same generation *)
Theorem fresh_packet_accepted : forall s x, reachable s ->
  let s1 := fst (step s (ESend x)) in
  gen (ep s1 (negb x)) <= gen (ep s1 x) ->
  exists s2 upd, step s1 (EDeliver x (Zlen (hist s x))) = (s2, Some (Accepted upd)) /\
    gen (ep s2 (negb x)) = gen (ep s2 x).
Proof. exact fresh_packet_accepted_lemma. Qed.
Print Assumptions fresh_packet_accepted.

(* ---- key derivation (model/KeyDerive.v; constants generated from the current source by tools/gen/c02_keys.py) ---- *)

(* every label, salt, length, code point and Retry key the current source contains is the one RFC 8446 / 9001 / 9369 give
   (the RFC values are written out in proofs/KeyDeriveProofs.v constants_rfc; the proof is reflexivity) *)
Theorem constants_are_rfc : constants_rfc.
Proof. exact constants_are_rfc_lemma. Qed.
Print Assumptions constants_are_rfc.

(* (label, context, length) |-> HkdfLabel bytes is injective wherever hkdf_label does not raise ... *)
Theorem hkdf_label_injective : forall l1 c1 n1 l2 c2 n2 info,
  hkdf_label l1 c1 n1 = Some info -> hkdf_label l2 c2 n2 = Some info -> l1 = l2 /\ c1 = c2 /\ n1 = n2.
Proof. exact hkdf_label_injective_lemma. Qed.
Print Assumptions hkdf_label_injective.

(* ... and it does not raise for labels shorter than 250 bytes, contexts up to 255 bytes and uint16 lengths *)
Theorem hkdf_label_domain : forall l c n, Zlen l < 250 -> Zlen c <= 255 -> 0 <= n <= 65535 -> exists info, hkdf_label l c n = Some info.
Proof. exact hkdf_label_defined. Qed.
Print Assumptions hkdf_label_domain.

(* every derivation of crypto.py asks for at most one digest: OKM = first n bytes of HMAC(secret, HkdfLabel | 0x01) *)
Theorem expand_label_one_block : forall (hmac : Z -> list Z -> list Z -> list Z) a secret label ctx n o, 0 < n <= snd a ->
  hkdf_expand_label hmac a secret label ctx n = Ok o ->
  exists info, hkdf_label label ctx n = Some info /\ o = ztake n (hmac (fst a) secret (info ++ [1])).
Proof. exact expand_label_single. Qed.
Print Assumptions expand_label_one_block.

(* derive_key_iv_hp is the three derivations PKey, PIv, PHp; the next secret is PKu *)
Theorem derive_key_iv_hp_is_three_derivations : forall (hmac : Z -> list Z -> list Z -> list Z) cs secret version,
  derive_key_iv_hp hmac cs secret version =
    (k <- derive hmac cs version secret PKey ;; i <- derive hmac cs version secret PIv ;; h <- derive hmac cs version secret PHp ;; Ok (k, i, h))
  /\ next_secret hmac cs secret version = derive hmac cs version secret PKu.
Proof. exact (fun hmac cs secret version => conj (derive_key_iv_hp_components hmac cs secret version) (next_secret_is_derive hmac cs secret version)). Qed.
Print Assumptions derive_key_iv_hp_is_three_derivations.

(* H-HMAC (hmac_ideal, hmac_len: explicit premises): key, iv, hp and next secret, of version 1 and of version 2, are
   pairwise separated -- two derivations yield the same bytes only if they are the same derivation from the same secret *)
Theorem derived_secrets_separated : forall (hmac : Z -> list Z -> list Z -> list Z), hmac_ideal hmac -> hmac_len hmac ->
  forall cs1 v1 s1 p1 cs2 v2 s2 p2 o, Zlen s1 = Zlen s2 ->
  derive hmac cs1 v1 s1 p1 = Ok o -> derive hmac cs2 v2 s2 p2 = Ok o ->
  s1 = s2 /\ p1 = p2 /\ is_v2 v1 = is_v2 v2 /\ cipher_suite_hash cs1 = cipher_suite_hash cs2.
Proof. exact derived_secrets_separated_lemma. Qed.
Print Assumptions derived_secrets_separated.

(* the Initial keys depend on the Destination Connection ID, the version family and the role: whatever two setup_initial
   calls share (send secret, AEAD key, iv or hp key) they agree on all three; a send key equals a receive key only for the
   same DCID and version family and OPPOSITE roles *)
Theorem initial_keys_depend_on_dcid_and_version : forall (hmac : Z -> list Z -> list Z -> list Z), hmac_ideal hmac -> hmac_len hmac ->
  forall cid1 c1 v1 r1 s1 cid2 c2 v2 r2 s2 p,
  setup_initial hmac cid1 c1 v1 = Ok (r1, s1) -> setup_initial hmac cid2 c2 v2 = Ok (r2, s2) ->
  (mat_of s1 p = mat_of s2 p -> cid1 = cid2 /\ is_v2 v1 = is_v2 v2 /\ c1 = c2) /\
  (mat_of s1 p = mat_of r2 p -> cid1 = cid2 /\ is_v2 v1 = is_v2 v2 /\ c1 = negb c2).
Proof. exact initial_keys_depend_lemma. Qed.
Print Assumptions initial_keys_depend_on_dcid_and_version.

(* n key updates: the secret is secret_at n -- generation n+1 is computed from generation n, the suite and the version
   only --, key and iv are derived from it, the header protection key is still the first one *)
Theorem key_update_chain : forall (hmac : Z -> list Z -> list Z -> list Z) n m m', updates hmac n m = Ok m' ->
  secret_at hmac (m_cs m) (m_version m) (m_secret m) n = Ok (m_secret m') /\
  m_cs m' = m_cs m /\ m_version m' = m_version m /\ m_hp m' = m_hp m /\
  (n <> O -> derive hmac (m_cs m) (m_version m) (m_secret m') PKey = Ok (m_key m') /\
             derive hmac (m_cs m) (m_version m) (m_secret m') PIv = Ok (m_iv m')).
Proof. exact updates_chain. Qed.
Print Assumptions key_update_chain.

(* H-HMAC + "the chain does not return to its first secret": no two generations share a secret *)
Theorem key_generations_have_distinct_secrets : forall (hmac : Z -> list Z -> list Z -> list Z), hmac_ideal hmac -> hmac_len hmac ->
  forall cs a v s0, cipher_suite_hash cs = Some a -> Zlen s0 = snd a ->
  (forall n, n <> O -> secret_at hmac cs v s0 n <> Ok s0) ->
  forall i j s, secret_at hmac cs v s0 i = Ok s -> secret_at hmac cs v s0 j = Ok s -> i = j.
Proof. exact key_chain_no_repeat. Qed.
Print Assumptions key_generations_have_distinct_secrets.

(* the Retry integrity key and nonce are selected by version and differ between the two families *)
Theorem retry_keys_selected_by_version : forall v1 v2, (v1 =? QUIC_VERSION_2) <> (v2 =? QUIC_VERSION_2) ->
  fst (retry_key_nonce v1) <> fst (retry_key_nonce v2) /\ snd (retry_key_nonce v1) <> snd (retry_key_nonce v2).
Proof. exact retry_keys_differ. Qed.
Print Assumptions retry_keys_selected_by_version.

(* ---- the key-phase machine with KEY MATERIAL (model/KeyPhaseSec.v): contexts carry secrets, packets the (key, iv) they were
   sealed under.  chain_premises = a known cipher suite, first secrets of digest length, H-HMAC, and neither "ku" chain
   returns to its first secret (proofs/KeyPhaseSecProofs.v). ---- *)

(* a packet sealed under generation g of a direction opens under the keys of generation g' of that direction iff g = g' *)
Theorem sealed_generation_opens_only_itself : forall hmac cs version s0 a, chain_premises hmac cs version s0 a ->
  forall d g g', 0 <= g -> 0 <= g' ->
  opens_under hmac cs version (cpkt hmac cs version s0 d (mkQ (Some g) (g mod 2) false)) (sec hmac cs version s0 d g') = (g =? g').
Proof. exact sealed_generation_opens_only_itself_closed. Qed.
Print Assumptions sealed_generation_opens_only_itself.

(* the machine with key material, started from the two first secrets, run on any events described (revents) by allowed abstract
   events, IS the counter machine: same verdicts, state = concretisation (generation g |-> g-th secret of the chain) *)
Theorem secrets_refine_generations : forall hmac cs version s0 a, chain_premises hmac cs version s0 a ->
  forall ses kes, allowed_run sys_init kes -> revents hmac cs version s0 ses kes ->
  srun hmac cs version (ssys_init s0) ses = (csys hmac cs version s0 (fst (run sys_init kes)), snd (run sys_init kes)).
Proof. exact secrets_refine_generations_closed. Qed.
Print Assumptions secrets_refine_generations.

(* an injected packet whose (key, iv) belongs to no generation of the direction it travels in -- other direction, other
   connection, garbage, not a sealing at all -- is described by the forged abstract packet (q_auth = None) *)
Theorem foreign_packet_is_forged : forall hmac cs version s0 d sp,
  (forall g, 0 <= g -> sq_keys sp <> keys_of hmac cs version (sec hmac cs version s0 d g)) ->
  rpkt hmac cs version s0 d sp (mkQ None (sq_phase sp) (sq_long sp)).
Proof. exact foreign_packet_is_forged_closed. Qed.
Print Assumptions foreign_packet_is_forged.

(* genuine_packet_verdict with secrets instead of counters: a packet the peer has ever sent, sealed under the (key, iv) of the g-th
   secret of its direction, is rejected by the receiver ONLY if the receiver's secret is already beyond the g-th; otherwise it is
   accepted and the receiver's receive secret is then exactly the g-th secret *)
Theorem genuine_packet_verdict_secrets : forall hmac cs version s0 a, chain_premises hmac cs version s0 a ->
  forall s x k p, reachable s -> nth_error (hist s x) (Z.to_nat k) = Some p ->
  exists g, 0 <= g /\
    nth_error (shist (csys hmac cs version s0 s) x) (Z.to_nat k)
      = Some (mkSQ (keys_of hmac cs version (sec hmac cs version s0 x g)) (q_phase p) (q_long p)) /\
    let y := sep (csys hmac cs version s0 s) (negb x) in
    sc_secret (sp_recv y) = sec hmac cs version s0 x (gen (ep s (negb x))) /\
    ((g < gen (ep s (negb x)) /\ spair_decrypt hmac cs version y (cpkt hmac cs version s0 x p) = (y, Rejected)) \/
     (gen (ep s (negb x)) <= g /\ exists y' upd, spair_decrypt hmac cs version y (cpkt hmac cs version s0 x p) = (y', Accepted upd) /\
        sc_secret (sp_recv y') = sec hmac cs version s0 x g /\ upd = negb (g =? gen (ep s (negb x))))).
Proof. exact genuine_packet_verdict_secrets_closed. Qed.
Print Assumptions genuine_packet_verdict_secrets.

(* ---- receive_datagram's decisions around decryption (model/PacketRecv.v; executed against real connections on every check:
   exec_packetrecv, suite packetrecv; transcription pinned to the source by gen/C02Recv.v) ---- *)

(* the statements of receive_datagram from the choice of the crypto context to the end of the packet loop are, in this order,
   the ones PacketRecv.v executes (tools/gen/c02_recv.py refuses anything else); get_epoch, _discard_epoch, close and get_spin_bit
   have the transcribed bodies; _discard_epoch is called from exactly five places; the key phase is touched by request_key_update
   only; the masks, the close code and the spin bit are the RFC 9000 values *)
Theorem packet_recv_as_modelled :
  RECV_SKELETON = modelled_skeleton /\
  GET_EPOCH_OK = true /\ DISCARD_EPOCH_OK = true /\ DISCARD_SPACE_CLEARS_ACK_AT = true /\ CLOSE_OK = true /\ SPIN_FN_OK = true /\
  DISCARD_SITES = [(1, 0); (2, 0); (3, 9); (4, 2); (5, 2)] /\ KEY_UPDATE_SITES = [6] /\
  RESERVED_MASK_SHORT = M_RESERVED_SHORT /\ RESERVED_MASK_LONG = M_RESERVED_LONG /\ PROTOCOL_VIOLATION_CODE = M_PROTOCOL_VIOLATION /\
  SPIN_BIT = M_SPIN_BIT /\ M_RESERVED_SHORT = 24 /\ M_RESERVED_LONG = 12 /\ M_PROTOCOL_VIOLATION = 10 /\ M_SPIN_BIT = 32.
Proof. exact packet_recv_as_modelled_lemma. Qed.
Print Assumptions packet_recv_as_modelled.

(* a packet that is not an unmodified sealing (altered in any bit, forged, sealed under other keys), of any type, with either
   key phase bit, any claimed packet number and content, for whose epoch the receiver has keys, leaves EVERY modelled field of the
   connection unchanged: keys of every epoch, key-phase state, packet spaces (expected / largest packet number, ack queue, ack
   timer, discarded), connection and close state, idle timer, delivered payloads, retransmission flag, peer CID, spin bit *)
Theorem unauthentic_packet_no_effect_conn : forall frames idle_timeout ack_delay c r now,
  has_keys c (r_epoch r) = true -> q_auth (r_q r) = None -> recv_packet frames idle_timeout ack_delay c r now = c.
Proof. exact unauthentic_packet_no_effect_conn_lemma. Qed.
Print Assumptions unauthentic_packet_no_effect_conn.

(* no later effect: from any sequence of received packets the unauthentic ones (for whose epoch the receiver has keys when they
   arrive -- keys are installed and discarded along the sequence) can be deleted without changing the final state *)
Theorem unauthentic_packets_no_later_effect_conn : forall frames idle_timeout ack_delay rs c,
  recv_all frames idle_timeout ack_delay c rs = recv_all frames idle_timeout ack_delay c (drop_unauth frames idle_timeout ack_delay c rs).
Proof. exact unauthentic_packets_no_later_effect_lemma. Qed.
Print Assumptions unauthentic_packets_no_later_effect_conn.

(* an authentic packet whose truncated number does not expand (against expected_packet_number) to the number it was sealed with:
   no effect either *)
Theorem out_of_window_packet_no_effect_conn : forall frames idle_timeout ack_delay c r now,
  has_keys c (r_epoch r) = true -> decoded_pn c r <> r_pn r -> recv_packet frames idle_timeout ack_delay c r now = c.
Proof. exact out_of_window_no_effect. Qed.
Print Assumptions out_of_window_packet_no_effect_conn.

(* no keys for the epoch: dropped; the only possible change is the client's one-shot Initial retransmission (RFC 9002 6.2.3) *)
Theorem key_unavailable_packet_effect : forall frames idle_timeout ack_delay c r now, has_keys c (r_epoch r) = false ->
  recv_packet frames idle_timeout ack_delay c r now = c \/
  (c_is_client c = true /\ c_crypto_retransmitted c = false /\ (r_epoch r = EHandshake \/ r_epoch r = EOneRtt) /\
   recv_packet frames idle_timeout ack_delay c r now = set_retransmitted c).
Proof. exact key_unavailable_effect. Qed.
Print Assumptions key_unavailable_packet_effect.

(* once an epoch is discarded (Initial: a server's first Handshake packet received / a client's first Handshake packet sent;
   Handshake: confirmation) every packet of that epoch, authentic or not, is dropped *)
Theorem discarded_epoch_packet_dropped_conn : forall frames idle_timeout ack_delay c e r now, e = EInitial \/ e = EHandshake ->
  sp_discarded (space_of c e) = false -> r_epoch r = e ->
  let c' := discard_epoch c e in
  recv_packet frames idle_timeout ack_delay c' r now = c' \/ recv_packet frames idle_timeout ack_delay c' r now = set_retransmitted c'.
Proof. exact discarded_epoch_packet_dropped. Qed.
Print Assumptions discarded_epoch_packet_dropped_conn.

(* where the Initial epoch goes: a server that opens a Handshake packet has no Initial keys left when receive_datagram returns ... *)
Theorem server_handshake_packet_discards_initial_conn : forall frames idle_timeout ack_delay c r now p',
  c_is_client c = false -> c_close c = None -> decrypt c r = Opened p' -> reserved_set r = false -> r_epoch r = EHandshake ->
  sp_discarded (c_sp_initial c) = false ->
  has_keys (recv_packet frames idle_timeout ack_delay c r now) EInitial = false /\
  sp_discarded (c_sp_initial (recv_packet frames idle_timeout ack_delay c r now)) = true.
Proof. exact server_handshake_packet_discards_initial. Qed.
Print Assumptions server_handshake_packet_discards_initial_conn.

(* ... and a client once it has sent a Handshake packet (datagrams_to_send) *)
Theorem client_handshake_sent_discards_initial : forall c, c_is_client c = true -> sp_discarded (c_sp_initial c) = false ->
  has_keys (on_handshake_sent c) EInitial = false /\ sp_discarded (c_sp_initial (on_handshake_sent c)) = true.
Proof. exact on_handshake_sent_client. Qed.
Print Assumptions client_handshake_sent_discards_initial.

(* the reserved bits are examined only after the packet has authenticated: PROTOCOL_VIOLATION and nothing else -- nothing delivered,
   no packet number recorded, no epoch discarded, peer CID, spin bit and idle timer untouched -- except that a remote key update
   has already been applied *)
Theorem reserved_bits_checked_after_decrypt_conn : forall frames idle_timeout ack_delay c r now p',
  c_close c = None -> decrypt c r = Opened p' -> reserved_set r = true ->
  recv_packet frames idle_timeout ack_delay c r now = set_close (set_pair c p') M_PROTOCOL_VIOLATION /\
  c_close (recv_packet frames idle_timeout ack_delay c r now) = Some 10.
Proof. exact reserved_bits_checked_after_decrypt. Qed.
Print Assumptions reserved_bits_checked_after_decrypt_conn.

(* the peer's connection ID is taken from the first packet that opens (reserved bits clear) and never again by receive_datagram *)
Theorem peer_cid_latched_by_first_opened_packet_only : forall frames idle_timeout ack_delay c r now,
  (c_peer_latched c = true ->
     c_peer_latched (recv_packet frames idle_timeout ack_delay c r now) = true /\
     c_peer_cid (recv_packet frames idle_timeout ack_delay c r now) = c_peer_cid c) /\
  (forall p', c_close c = None -> c_peer_latched c = false -> decrypt c r = Opened p' -> reserved_set r = false ->
     c_peer_latched (recv_packet frames idle_timeout ack_delay c r now) = true /\
     c_peer_cid (recv_packet frames idle_timeout ack_delay c r now) = r_scid r).
Proof. exact peer_cid_latch_lemma. Qed.
Print Assumptions peer_cid_latched_by_first_opened_packet_only.

(* the spin bit and _spin_highest_pn change only for a 1-RTT packet that opens and carries a larger packet number *)
Theorem spin_bit_changes_only_by_newer_authentic_packet : forall frames idle_timeout ack_delay c r now,
  (c_spin (recv_packet frames idle_timeout ack_delay c r now) <> c_spin c \/
   c_spin_highest (recv_packet frames idle_timeout ack_delay c r now) <> c_spin_highest c) ->
  (exists p', decrypt c r = Opened p') /\ r_epoch r = EOneRtt /\ r_pn r > c_spin_highest c /\
  c_spin_highest (recv_packet frames idle_timeout ack_delay c r now) = r_pn r.
Proof. exact spin_changes_only_by_newer_onertt. Qed.
Print Assumptions spin_bit_changes_only_by_newer_authentic_packet.
