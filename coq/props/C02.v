From AQ Require Import lib.Base model.PacketNumber model.Protect gen.PnGen proofs.PacketNumberProofs.

Theorem gen_source_is_model : forall t b e, gen_decode_packet_number t b e = decode_packet_number t b e.
Proof. exact gen_decode_packet_number_eq. Qed.
Print Assumptions gen_source_is_model.
