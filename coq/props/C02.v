(* C02  Only authentic packets are accepted; altered packets change nothing.
   Statements only; proofs are in proofs/PacketNumberProofs.v and proofs/ProtectProofs.v. *)
From AQ Require Import lib.Base model.PacketNumber model.Protect gen.PnGen proofs.PacketNumberProofs proofs.ProtectProofs
  model.KeyPhase proofs.KeyPhaseProofs.

(* the current source of decode_packet_number (translated by tools/gen/c02_pure.py) is the model *)
Theorem gen_source_is_model : forall t b e, gen_decode_packet_number t b e = decode_packet_number t b e.
Proof. exact gen_decode_packet_number_eq. Qed.
Print Assumptions gen_source_is_model.

(* RFC 9000 A.3: the result is a packet number with the transmitted low bits, closest to expected
   among all such candidates in [0, 2^62); on a tie the larger candidate *)
Theorem pn_decode_closest : forall n e t, valid_bits n -> 0 <= e < 2 ^ 62 -> 0 <= t < 2 ^ n ->
  let r := decode_packet_number t n e in
  0 <= r < 2 ^ 62 /\ r mod 2 ^ n = t /\
  forall c, 0 <= c < 2 ^ 62 -> c mod 2 ^ n = t ->
    Z.abs (r - e) < Z.abs (c - e) \/ (Z.abs (r - e) = Z.abs (c - e) /\ c <= r).
Proof. exact pn_decode_closest_lemma. Qed.
Print Assumptions pn_decode_closest.

Theorem pn_roundtrip : forall n e pn, valid_bits n -> 0 <= e < 2 ^ 62 -> 0 <= pn < 2 ^ 62 ->
  e - 2 ^ (n - 1) < pn <= e + 2 ^ (n - 1) ->
  decode_packet_number (pn mod 2 ^ n) n e = pn.
Proof. exact pn_roundtrip_lemma. Qed.
Print Assumptions pn_roundtrip.

(* the pn field as it reaches decode_packet_number from HeaderProtection_remove (C int conversion) *)
Theorem pn_field_recovery : forall n e pn, valid_bits n -> 0 <= e < 2 ^ 62 -> 0 <= pn < 2 ^ 62 ->
  e - 2 ^ (n - 1) < pn <= e + 2 ^ (n - 1) -> (n < 32 \/ pn mod 2 ^ 32 < 2 ^ 31) ->
  decode_packet_number (as_c_int (pn mod 2 ^ n)) n e = pn.
Proof. exact pn_field_recovery_lemma. Qed.
Print Assumptions pn_field_recovery.

Theorem pn_field_recovery_32bit_refuted : exists e pn, 0 <= e < 2 ^ 62 /\ 0 <= pn < 2 ^ 62 /\
  e - 2 ^ 31 < pn <= e + 2 ^ 31 /\ decode_packet_number (as_c_int (pn mod 2 ^ 32)) 32 e <> pn /\
  decode_packet_number (pn mod 2 ^ 32) 32 e = pn.
Proof. exact pn_field_recovery_refuted. Qed.
Print Assumptions pn_field_recovery_32bit_refuted.

Theorem hp_roundtrip : forall (K : Type) (maskf : K -> list Z -> list Z) hp hdr ct,
  let pnl := Z.land (byte_at hdr 0) 3 + 1 in
  pnl < Zlen hdr -> 20 <= pnl + Zlen ct -> Zlen hdr + Zlen ct <= 1500 ->
  hp_remove K maskf hp (hp_apply K maskf hp hdr ct) (Zlen hdr - pnl)
    = (hdr, as_c_int (be_int (zdrop (Zlen hdr - pnl) hdr))).
Proof. exact hp_roundtrip_lemma. Qed.
Print Assumptions hp_roundtrip.

Theorem hp_apply_frame : forall (K : Type) (maskf : K -> list Z -> list Z) hp b0 mid pn ct,
  Zlen pn = Z.land b0 3 + 1 ->
  exists b0' pn', hp_apply K maskf hp (b0 :: mid ++ pn) ct = b0' :: mid ++ pn' ++ ct /\
    Zlen pn' = Zlen pn /\
    Z.land b0' (Z.lnot (first_mask b0)) = Z.land b0 (Z.lnot (first_mask b0)) /\
    Z.land b0' 128 = Z.land b0 128.
Proof. exact hp_apply_frame_lemma. Qed.
Print Assumptions hp_apply_frame.

Theorem nonce_injective : forall iv pn1 pn2, Zlen iv = 12 -> 0 <= pn1 < 2 ^ 62 -> 0 <= pn2 < 2 ^ 62 ->
  nonce iv pn1 = nonce iv pn2 -> pn1 = pn2.
Proof. exact nonce_injective_lemma. Qed.
Print Assumptions nonce_injective.

Theorem header_fully_authenticated : forall (K : Type) (maskf : K -> list Z -> list Z) hp pkt1 pkt2 off,
  1 <= off -> off + 4 <= Zlen pkt1 -> off + 4 <= Zlen pkt2 ->
  aead_view K maskf hp pkt1 off = aead_view K maskf hp pkt2 off -> pkt1 = pkt2.
Proof. exact header_fully_authenticated_lemma. Qed.
Print Assumptions header_fully_authenticated.

Theorem altered_rejected : forall (K : Type) (maskf : K -> list Z -> list Z)
    (seal : K -> list Z -> list Z -> list Z -> list Z) (open_ : K -> list Z -> list Z -> list Z -> option (list Z))
    (next_ctx : cctx K -> cctx K),
  (forall k n a c p, open_ k n a c = Some p -> c = seal k n a p) ->
  forall cx pkt' off e, 1 <= off -> off + 4 <= Zlen pkt' ->
  (forall cr hdr p pn, cr = cx \/ cr = next_ctx cx -> pkt' <> sealed_by K maskf seal cx cr hdr p pn) ->
  decrypt_packet K maskf open_ next_ctx cx pkt' off e = None.
Proof. exact altered_rejected_lemma. Qed.
Print Assumptions altered_rejected.

Theorem protect_unprotect : forall (K : Type) (maskf : K -> list Z -> list Z)
    (seal : K -> list Z -> list Z -> list Z -> list Z) (open_ : K -> list Z -> list Z -> list Z -> option (list Z))
    (next_ctx : cctx K -> cctx K),
  (forall k n a p, open_ k n a (seal k n a p) = Some p) ->
  forall cx hdr p pn e,
  let pnl := Z.land (byte_at hdr 0) 3 + 1 in
  pnl < Zlen hdr -> 4 <= pnl + Zlen p -> Zlen hdr + Zlen p + 16 <= 1500 ->
  (forall k n a, Zlen (seal k n a p) = Zlen p + 16) ->
  (Z.land (byte_at hdr 0) 128 <> 0 \/ Z.shiftr (Z.land (byte_at hdr 0) 4) 2 = c_phase K cx) ->
  decode_packet_number (as_c_int (be_int (zdrop (Zlen hdr - pnl) hdr))) (pnl * 8) e = pn ->
  forall pkt, encrypt_packet K maskf seal cx hdr p pn = Some pkt ->
  decrypt_packet K maskf open_ next_ctx cx pkt (Zlen hdr - pnl) e = Some (hdr, p, pn, false).
Proof. exact protect_unprotect_lemma. Qed.
Print Assumptions protect_unprotect.

Theorem retry_tag_binds : forall (tagf : list Z -> list Z), (forall a b, tagf a = tagf b -> a = b) ->
  forall odcid body tag body' tag',
  retry_accepts tagf odcid body tag -> retry_accepts tagf odcid body' tag' ->
  (body' = body \/ tag' = tag) -> body' = body /\ tag' = tag.
Proof. exact retry_tag_binds_lemma. Qed.
Print Assumptions retry_tag_binds.

(* ---- key-phase state machine (model/KeyPhase.v): "discarded without any visible effect" ---- *)

(* CryptoPair.decrypt_packet: a packet that is rejected leaves the pair -- receive and send context (generation,
   key phase) and the pending-update flag, which is ALL the state the model has -- exactly as it was *)
Theorem rejected_packet_no_state_change : forall s p s', pair_decrypt s p = (s', Rejected) -> s' = s.
Proof. exact rejected_packet_no_state_change_lemma. Qed.
Print Assumptions rejected_packet_no_state_change.

(* every packet that is not an unmodified sealing under some key generation is rejected, whatever its key
   phase bit and whatever the state *)
Theorem inauthentic_packet_rejected : forall s p, q_auth p = None -> pair_decrypt s p = (s, Rejected).
Proof. exact inauthentic_rejected_lemma. Qed.
Print Assumptions inauthentic_packet_rejected.

(* no LATER effect either: for every continuation (local key updates, peer key updates, deliveries in any order,
   further injections) the run with the rejected packet equals the run without it *)
Theorem rejected_packet_no_later_effect : forall s e s' evs, step s e = (s', Some Rejected) ->
  run s (e :: evs) = (fst (run s evs), Some Rejected :: snd (run s evs)).
Proof. exact rejected_no_later_effect_lemma. Qed.
Print Assumptions rejected_packet_no_later_effect.

(* after any interleaving of local updates, sends, deliveries (any order, any repetition) and injected
   inauthentic packets, the two endpoints are at most one generation apart, each endpoint's two directions are in
   the same generation, and the key phase bit is the generation's parity *)
Theorem key_generations_in_step : forall s, reachable s ->
  -1 <= gen (s_a s) - gen (s_b s) <= 1 /\
  k_gen (p_send (s_a s)) = k_gen (p_recv (s_a s)) /\ k_gen (p_send (s_b s)) = k_gen (p_recv (s_b s)) /\
  k_phase (p_recv (s_a s)) = gen (s_a s) mod 2 /\ k_phase (p_recv (s_b s)) = gen (s_b s) mod 2.
Proof. exact generations_in_step_lemma. Qed.
Print Assumptions key_generations_in_step.

(* a genuine packet, delivered at any later time, is rejected ONLY if it was sealed under a generation the
   receiver has already left (aioquic keeps no old read keys); otherwise it is accepted -- under the current or
   the next keys -- and the receiver is then in the packet's generation *)
Theorem genuine_packet_verdict : forall s x k p, reachable s -> nth_error (hist s x) (Z.to_nat k) = Some p ->
  exists g, q_auth p = Some g /\
    let y := ep s (negb x) in
    (g < gen y /\ pair_decrypt y p = (y, Rejected)) \/
    (gen y <= g /\ exists y' upd, pair_decrypt y p = (y', Accepted upd) /\ gen y' = g /\ upd = negb (g =? gen y)).
Proof. exact genuine_packet_verdict_lemma. Qed.
Print Assumptions genuine_packet_verdict.

(* a packet sent by an endpoint that is not behind its peer is accepted when it arrives next, and both sides
   are then in the same generation *)
Theorem fresh_packet_accepted : forall s x, reachable s ->
  let s1 := fst (step s (ESend x)) in
  gen (ep s1 (negb x)) <= gen (ep s1 x) ->
  exists s2 upd, step s1 (EDeliver x (Zlen (hist s x))) = (s2, Some (Accepted upd)) /\
    gen (ep s2 (negb x)) = gen (ep s2 x).
Proof. exact fresh_packet_accepted_lemma. Qed.
Print Assumptions fresh_packet_accepted.
