From AQ Require Import lib.Base model.Codec model.Varint model.RangeSet model.AckFrame model.Header.
From AQ Require Import model.TlsCodec model.TParams proofs.TParamsProofs proofs.TParamsRoundtrip proofs.TParamsReencode.
From AQ Require Import proofs.CodecProofs proofs.VarintProofs proofs.AckFrameProofs proofs.HeaderProofs proofs.TlsCodecProofs.
From AQ Require Import proofs.TlsListProofs proofs.TlsRoundtrip proofs.TlsTotal proofs.TlsDumpInverse.
From AQ Require Import gen.C17Bits proofs.CBitsProofs gen.C17Blocks proofs.TlsNested proofs.TlsReencode.
From AQ Require Import proofs.AckReencode proofs.HeaderReencode proofs.TlsReencodeExt proofs.TlsReencodeExt2 proofs.TlsReencodeCH proofs.TlsReencodeWitness proofs.TlsReencodeCanon.
From AQ Require Import model.HeaderAt proofs.HeaderAtProofs gen.C17Header proofs.HeaderAtSource.

(* ---- variable-length integers (RFC 9000 section 16) ---- *)
Theorem varint_roundtrip : forall v rest, 0 <= v < 2 ^ 62 ->
  exists bs, push_uint_var v = Ok bs /\ pull_uint_var (bs ++ rest) = Ok (v, rest).
Proof. exact VarintProofs.varint_roundtrip. Qed.
Print Assumptions varint_roundtrip.

Theorem varint_length_prefix : forall v, 0 <= v < 2 ^ 62 ->
  exists bs, push_uint_var v = Ok bs /\ Zlen bs = var_size v /\ bytes_ok bs /\
             size_uint_var v = Ok (Zlen bs) /\
             hd 0 bs / 64 = (if v <? 64 then 0 else if v <? 16384 then 1 else if v <? 1073741824 then 2 else 3).
Proof. exact VarintProofs.varint_length_prefix. Qed.
Print Assumptions varint_length_prefix.

Theorem varint_pull_total : forall bs, bytes_ok bs ->
  (exists v rest used, pull_uint_var bs = Ok (v, rest) /\ bs = used ++ rest /\
                       0 <= v < 2 ^ 62 /\ bytes_ok rest /\
                       (length used = 1 \/ length used = 2 \/ length used = 4 \/ length used = 8)%nat /\
                       v < 64 * 256 ^ (Z.of_nat (length used) - 1))
  \/ pull_uint_var bs = Err E_READ.
Proof. exact VarintProofs.varint_pull_total. Qed.
Print Assumptions varint_pull_total.

Theorem varint_reencode : forall bs v rest, bytes_ok bs -> pull_uint_var bs = Ok (v, rest) ->
  exists bs', push_uint_var v = Ok bs' /\ pull_uint_var (bs' ++ rest) = Ok (v, rest) /\
              Zlen bs' + Zlen rest <= Zlen bs.
Proof. exact VarintProofs.varint_reencode. Qed.
Print Assumptions varint_reencode.

Theorem varint_push_total : forall v rest,
  (2 ^ 62 <= v mod 2 ^ 64 /\ push_uint_var v = Err E_VALUE) \/
  (v mod 2 ^ 64 < 2 ^ 62 /\ exists bs, push_uint_var v = Ok bs /\
                                      pull_uint_var (bs ++ rest) = Ok (v mod 2 ^ 64, rest)).
Proof. exact VarintProofs.varint_push_total. Qed.
Print Assumptions varint_push_total.

Theorem varint_push_total_refuted :
  (exists bs, push_uint_var (2 ^ 64 + 5) = Ok bs /\ pull_uint_var bs = Ok (5, [])) /\
  ~ varint_push_total_statement.
Proof. exact VarintProofs.varint_push_total_refuted. Qed.
Print Assumptions varint_push_total_refuted.

Theorem size_uint_var_agrees : forall v, 0 <= v ->
  match push_uint_var v, size_uint_var v with
  | Ok bs, Ok n => n = Zlen bs \/ 2 ^ 64 <= v
  | Err _, Err _ => True
  | Ok _, Err _ => 2 ^ 64 <= v
  | Err _, Ok _ => False
  end.
Proof. exact VarintProofs.size_uint_var_agrees. Qed.
Print Assumptions size_uint_var_agrees.

(* ---- fixed-width integers ---- *)
Theorem uint8_roundtrip : forall v rest, 0 <= v < 2 ^ 8 ->
  exists bs, push_uint8 v = Ok bs /\ pull_uint8 (bs ++ rest) = Ok (v, rest).
Proof. exact CodecProofs.uint8_roundtrip. Qed.
Print Assumptions uint8_roundtrip.

Theorem uint16_roundtrip : forall v rest, 0 <= v < 2 ^ 16 ->
  exists bs, push_uint16 v = Ok bs /\ pull_uint16 (bs ++ rest) = Ok (v, rest).
Proof. exact CodecProofs.uint16_roundtrip. Qed.
Print Assumptions uint16_roundtrip.

Theorem uint32_roundtrip : forall v rest, 0 <= v < 2 ^ 32 ->
  exists bs, push_uint32 v = Ok bs /\ pull_uint32 (bs ++ rest) = Ok (v, rest).
Proof. exact CodecProofs.uint32_roundtrip. Qed.
Print Assumptions uint32_roundtrip.

Theorem uint64_roundtrip : forall v rest, 0 <= v < 2 ^ 64 ->
  exists bs, push_uint64 v = Ok bs /\ pull_uint64 (bs ++ rest) = Ok (v, rest).
Proof. exact CodecProofs.uint64_roundtrip. Qed.
Print Assumptions uint64_roundtrip.

Theorem fixed_push_wraps : forall v rest,
  (exists bs, push_uint8 v = Ok bs /\ Zlen bs = 1 /\ pull_uint8 (bs ++ rest) = Ok (v mod 2 ^ 8, rest)) /\
  (exists bs, push_uint16 v = Ok bs /\ Zlen bs = 2 /\ pull_uint16 (bs ++ rest) = Ok (v mod 2 ^ 16, rest)) /\
  (exists bs, push_uint32 v = Ok bs /\ Zlen bs = 4 /\ pull_uint32 (bs ++ rest) = Ok (v mod 2 ^ 32, rest)) /\
  (exists bs, push_uint64 v = Ok bs /\ Zlen bs = 8 /\ pull_uint64 (bs ++ rest) = Ok (v mod 2 ^ 64, rest)).
Proof. exact CodecProofs.fixed_push_wraps. Qed.
Print Assumptions fixed_push_wraps.

Theorem push_total_refuted :
  (exists bs, push_uint8 263 = Ok bs /\ pull_uint8 bs = Ok (7, [])) /\ ~ push_total_statement.
Proof. exact CodecProofs.push_total_refuted. Qed.
Print Assumptions push_total_refuted.

Theorem fixed_pull_total : forall n bs, bytes_ok bs ->
  (exists v rest, pull_be n bs = Ok (v, rest) /\ (exists used, bs = used ++ rest /\ length used = n)
                  /\ 0 <= v < 2 ^ (8 * Z.of_nat n) /\ be_enc n v ++ rest = bs)
  \/ pull_be n bs = Err E_READ.
Proof. exact CodecProofs.fixed_pull_total. Qed.
Print Assumptions fixed_pull_total.

(* ---- ACK frames ---- *)
Theorem ack_roundtrip : forall l delay, ack_wf l = true -> 0 <= delay < 2 ^ 62 ->
  exists bytes, flatten (push_ack_frame l delay) = Ok bytes /\
    forall rest, pull_ack_frame (bytes ++ rest) = Ok ((l, delay), rest).
Proof. exact AckFrameProofs.ack_roundtrip. Qed.
Print Assumptions ack_roundtrip.

Theorem ack_pull_total : forall bs, bytes_ok bs ->
  (exists l delay rest, pull_ack_frame bs = Ok ((l, delay), rest) /\ 0 <= delay < 2 ^ 62 /\
                        exists used, bs = used ++ rest)
  \/ pull_ack_frame bs = Err E_READ.
Proof. exact AckFrameProofs.ack_pull_total. Qed.
Print Assumptions ack_pull_total.

(* ---- packet headers ---- *)
Theorem builder_long_roundtrip : forall hcl version ptype pcid hcid token len pn,
  0 < version < 2 ^ 32 -> 0 <= ptype <= 2 -> Zlen pcid <= 20 -> Zlen hcid <= 20 ->
  Zlen token < 2 ^ 62 -> 0 <= len < 16384 ->
  exists h0 pnb, flatten (builder_long_header version ptype pcid hcid token len pn) = Ok (h0 ++ pnb) /\
    Zlen pnb = 2 /\
    forall after, len <= Zlen (pnb ++ after) ->
      pull_quic_header hcl (h0 ++ pnb ++ after) =
        Ok (mkHeader (Some version) ptype (Zlen h0 + len) pcid hcid
                     (if ptype =? PT_INITIAL then token else []) [] [], pnb ++ after).
Proof. exact HeaderProofs.builder_long_roundtrip. Qed.
Print Assumptions builder_long_roundtrip.

Theorem builder_short_roundtrip : forall spin kp pcid pn after,
  (spin = 0 \/ spin = 1) -> (kp = 0 \/ kp = 1) ->
  exists h0 pnb, flatten (builder_short_header spin kp pcid pn) = Ok (h0 ++ pnb) /\ Zlen pnb = 2 /\
    pull_quic_header (Zlen pcid) (h0 ++ pnb ++ after) =
      Ok (mkHeader None PT_ONE_RTT (Zlen (h0 ++ pnb ++ after)) pcid [] [] [] [], pnb ++ after).
Proof. exact HeaderProofs.builder_short_roundtrip. Qed.
Print Assumptions builder_short_roundtrip.

Theorem retry_roundtrip : forall hcl version scid dcid token unused tag,
  0 < version < 2 ^ 32 -> Zlen dcid <= 20 -> Zlen scid <= 20 -> 0 <= unused < 16 -> Zlen tag = 16 ->
  exists bytes, flatten (encode_quic_retry version scid dcid token unused tag) = Ok bytes /\
    pull_quic_header hcl bytes =
      Ok (mkHeader (Some version) PT_RETRY (Zlen bytes) dcid scid token tag [], []).
Proof. exact HeaderProofs.retry_roundtrip. Qed.
Print Assumptions retry_roundtrip.

Theorem vn_roundtrip : forall hcl r scid dcid versions,
  0 <= r < 256 -> Zlen dcid <= 20 -> Zlen scid <= 20 -> Forall u32_ok versions ->
  exists bytes, flatten (encode_quic_version_negotiation r scid dcid versions) = Ok bytes /\
    pull_quic_header hcl bytes =
      Ok (mkHeader (Some 0) PT_VERSION_NEGOTIATION (Zlen bytes) dcid scid [] [] versions, []).
Proof. exact HeaderProofs.vn_roundtrip. Qed.
Print Assumptions vn_roundtrip.

Theorem header_pull_total : forall hcl bs, bytes_ok bs ->
  match pull_quic_header hcl bs with
  | Ok (h, rest) => header_nested bs h rest
  | Err k => k = E_READ \/ k = E_VALUE
  end.
Proof. exact HeaderProofs.header_pull_total. Qed.
Print Assumptions header_pull_total.

(* ---- TLS length-prefixed blocks (stretch) ---- *)
Theorem pull_block_exact : forall (A : Type) cap (body : Z -> list Z -> Res (A * list Z)) bs v rest,
  pull_block cap body bs = Ok (v, rest) ->
  exists len b1, pull_be cap bs = Ok (len, b1) /\ body len b1 = Ok (v, rest) /\ Zlen b1 - Zlen rest = len.
Proof. exact @TlsCodecProofs.pull_block_exact. Qed.
Print Assumptions pull_block_exact.

Theorem pull_block_mismatch : forall (A : Type) cap (body : Z -> list Z -> Res (A * list Z)) bs len b1 v b2,
  pull_be cap bs = Ok (len, b1) -> body len b1 = Ok (v, b2) -> Zlen b1 - Zlen b2 <> len ->
  pull_block cap body bs = Err E_ALERT_DECODE.
Proof. exact @TlsCodecProofs.pull_block_mismatch. Qed.
Print Assumptions pull_block_mismatch.

Theorem opaque_roundtrip : forall cap d rest, Zlen d < 256 ^ Z.of_nat cap ->
  exists bytes, enc_tv (TBlock cap [TBytes d]) = Ok bytes /\ pull_opaque cap (bytes ++ rest) = Ok (d, rest).
Proof. exact TlsCodecProofs.opaque_roundtrip. Qed.
Print Assumptions opaque_roundtrip.

Theorem finished_roundtrip : forall d rest, Zlen d < 2 ^ 24 ->
  exists bytes, enc_seq [TInt 1 20; TBlock 3 [TBytes d]] = Ok bytes /\
    pull_finished (bytes ++ rest) = Ok (out_bytes d, rest).
Proof. exact TlsCodecProofs.finished_roundtrip. Qed.
Print Assumptions finished_roundtrip.

Theorem ext_length_ignored_refuted :
  pull_server_hello sh_lying_extension =
    Ok (out_bytes (repeat 0 32) ++ [0] ++ [0x1301; 0] ++ [1; 0x0304; 0; 0] ++ [0], []).
Proof. exact TlsCodecProofs.ext_length_ignored_refuted. Qed.
Print Assumptions ext_length_ignored_refuted.

(* ---- transport parameters (stretch): decoder totality ---- *)
Theorem tparams_pull_total : forall bs, bytes_ok bs ->
  match pull_quic_transport_parameters bs with Ok _ => True | Err k => k = E_READ \/ k = E_VALUE end.
Proof. exact TParamsProofs.tparams_pull_total. Qed.
Print Assumptions tparams_pull_total.

(* ---- transport parameters: round trip of the whole QuicTransportParameters object ---- *)
Theorem tparams_roundtrip : forall r, qtp_wf r = true ->
  exists bytes, flatten (push_qtp r) = Ok bytes /\ pull_qtp bytes = Ok r.
Proof. exact TParamsRoundtrip.tparams_roundtrip. Qed.
Print Assumptions tparams_roundtrip.

Theorem tparams_roundtrip_buffer : forall r cap, qtp_wf r = true ->
  exists bytes, flatten (push_qtp r) = Ok bytes /\
    (Zlen bytes <= cap -> w_chunks cap [] (push_qtp r) = Ok bytes) /\ pull_qtp bytes = Ok r.
Proof. exact TParamsRoundtrip.tparams_roundtrip_buffer. Qed.
Print Assumptions tparams_roundtrip_buffer.

Theorem tparams_roundtrip_fields : forall fs, fields_wf PARAMS fs = true ->
  exists bytes, flatten (push_quic_transport_parameters (entries PARAMS fs)) = Ok bytes /\
                pull_quic_transport_parameters bytes = Ok (entries PARAMS fs).
Proof. exact TParamsRoundtrip.tparams_roundtrip_fields. Qed.
Print Assumptions tparams_roundtrip_fields.

Theorem tparams_roundtrip_zero_ip_refuted :
  addr_typed 4 (Some ([0; 0; 0; 0], 443)) = true /\
  exists bytes r', flatten (push_qtp qtp_zero_ip) = Ok bytes /\ pull_qtp bytes = Ok r' /\ r' <> qtp_zero_ip /\
    q_preferred_address r' = Some (None, None, [1; 2; 3; 4], repeat 5 16).
Proof. exact TParamsRoundtrip.tparams_roundtrip_zero_ip_refuted. Qed.
Print Assumptions tparams_roundtrip_zero_ip_refuted.

Theorem tparams_roundtrip_none_flag_refuted :
  exists bytes r', flatten (push_qtp qtp_none_flag) = Ok bytes /\ pull_qtp bytes = Ok r' /\ r' <> qtp_none_flag /\
    q_disable_active_migration r' = Some false.
Proof. exact TParamsRoundtrip.tparams_roundtrip_none_flag_refuted. Qed.
Print Assumptions tparams_roundtrip_none_flag_refuted.

(* ---- TLS handshake messages: the tree encoder, list decoding, round trips, totality ---- *)
Theorem enc_seq_spec : forall l, enc_seq l = if fits_seq l then Ok (flat_seq l) else Err E_OVERFLOW.
Proof. exact TlsListProofs.enc_seq_spec. Qed.
Print Assumptions enc_seq_spec.

Theorem pull_fold_fuel : forall (S : Type) (item : S -> list Z -> Res (S * list Z)), item_progress item ->
  forall fuel rem st bs, (length bs <= fuel)%nat ->
  pull_fold item fuel rem st bs = pull_fold item (length bs) rem st bs.
Proof. exact @TlsListProofs.pull_fold_fuel. Qed.
Print Assumptions pull_fold_fuel.

Theorem pull_list_fuel : forall (S : Type) cap (item : S -> list Z -> Res (S * list Z)), item_progress item ->
  forall fuel st bs, (length bs <= fuel)%nat ->
  pull_block cap (fun len b => pull_fold item fuel len st b) bs = pull_list cap item st bs.
Proof. exact @TlsListProofs.pull_list_fuel. Qed.
Print Assumptions pull_list_fuel.

(* every item function the decoders hand to pull_list consumes at least one byte *)
Theorem tls_items_progress :
  (forall w, (1 <= w)%nat -> item_progress (item_uint w)) /\ item_progress item_key_share /\
  item_progress item_alpn /\ item_progress item_psk_identity /\
  (forall cap, (1 <= cap)%nat -> item_progress (item_opaque cap)) /\ item_progress item_certificate_entry /\
  item_progress (ext_item parse_client_hello_ext true) /\ item_progress (ext_item parse_server_hello_ext false) /\
  item_progress (ext_item parse_nst_ext false) /\ item_progress (ext_item parse_ee_ext false) /\
  item_progress (ext_item parse_cr_ext false).
Proof. exact TlsRoundtrip.tls_items_progress. Qed.
Print Assumptions tls_items_progress.

Theorem pull_ack_ranges_fuel : forall fuel count end_ acc bs, (length bs <= fuel)%nat ->
  pull_ack_ranges fuel count end_ acc bs = pull_ack_ranges (length bs) count end_ acc bs.
Proof. exact TlsTotal.pull_ack_ranges_fuel. Qed.
Print Assumptions pull_ack_ranges_fuel.

Theorem pull_extensions_enc : forall parse ch xs rest,
  Forall (x_ok parse) xs -> psk_order ch false xs = true ->
  fits_tv (TBlock 2 (flat_map x_tree xs)) = true ->
  pull_extensions parse ch (flat_tv (TBlock 2 (flat_map x_tree xs)) ++ rest)
  = Ok (fold_left (x_step ch) xs est0, rest).
Proof. exact TlsRoundtrip.pull_extensions_enc. Qed.
Print Assumptions pull_extensions_enc.

Theorem client_hello_roundtrip : forall m bytes rest, client_hello_wf m = true -> enc_seq (tree_client_hello m) = Ok bytes ->
  pull_client_hello (bytes ++ rest) = Ok (dump_client_hello m, rest).
Proof. exact TlsRoundtrip.client_hello_roundtrip. Qed.
Print Assumptions client_hello_roundtrip.

Theorem server_hello_roundtrip : forall m bytes rest, server_hello_wf m = true -> enc_seq (tree_server_hello m) = Ok bytes ->
  pull_server_hello (bytes ++ rest) = Ok (dump_server_hello m, rest).
Proof. exact TlsRoundtrip.server_hello_roundtrip. Qed.
Print Assumptions server_hello_roundtrip.

Theorem new_session_ticket_roundtrip : forall m bytes rest, new_session_ticket_wf m = true -> enc_seq (tree_new_session_ticket m) = Ok bytes ->
  pull_new_session_ticket (bytes ++ rest) = Ok (dump_new_session_ticket m, rest).
Proof. exact TlsRoundtrip.new_session_ticket_roundtrip. Qed.
Print Assumptions new_session_ticket_roundtrip.

Theorem encrypted_extensions_roundtrip : forall m bytes rest, encrypted_extensions_wf m = true -> enc_seq (tree_encrypted_extensions m) = Ok bytes ->
  pull_encrypted_extensions (bytes ++ rest) = Ok (dump_encrypted_extensions m, rest).
Proof. exact TlsRoundtrip.encrypted_extensions_roundtrip. Qed.
Print Assumptions encrypted_extensions_roundtrip.

Theorem certificate_roundtrip : forall m bytes rest, enc_seq (tree_certificate m) = Ok bytes ->
  pull_certificate (bytes ++ rest) = Ok (dump_certificate m, rest).
Proof. exact TlsRoundtrip.certificate_roundtrip. Qed.
Print Assumptions certificate_roundtrip.

Theorem certificate_request_roundtrip : forall m bytes rest, certificate_request_wf m = true -> enc_seq (tree_certificate_request m) = Ok bytes ->
  pull_certificate_request (bytes ++ rest) = Ok (dump_certificate_request m, rest).
Proof. exact TlsRoundtrip.certificate_request_roundtrip. Qed.
Print Assumptions certificate_request_roundtrip.

Theorem certificate_verify_roundtrip : forall m bytes rest, certificate_verify_wf m = true -> enc_seq (tree_certificate_verify m) = Ok bytes ->
  pull_certificate_verify (bytes ++ rest) = Ok (dump_certificate_verify m, rest).
Proof. exact TlsRoundtrip.certificate_verify_roundtrip. Qed.
Print Assumptions certificate_verify_roundtrip.

Theorem client_hello_pull_total : forall bs,
  msg_good (pull_client_hello bs) /\ (forall t, bs = 1 :: t -> tls_good (pull_client_hello bs)).
Proof. exact TlsTotal.client_hello_pull_total. Qed.
Print Assumptions client_hello_pull_total.

Theorem server_hello_pull_total : forall bs,
  msg_good (pull_server_hello bs) /\ (forall t, bs = 2 :: t -> tls_good (pull_server_hello bs)).
Proof. exact TlsTotal.server_hello_pull_total. Qed.
Print Assumptions server_hello_pull_total.

Theorem new_session_ticket_pull_total : forall bs,
  msg_good (pull_new_session_ticket bs) /\ (forall t, bs = 4 :: t -> tls_good (pull_new_session_ticket bs)).
Proof. exact TlsTotal.new_session_ticket_pull_total. Qed.
Print Assumptions new_session_ticket_pull_total.

Theorem encrypted_extensions_pull_total : forall bs,
  msg_good (pull_encrypted_extensions bs) /\ (forall t, bs = 8 :: t -> tls_good (pull_encrypted_extensions bs)).
Proof. exact TlsTotal.encrypted_extensions_pull_total. Qed.
Print Assumptions encrypted_extensions_pull_total.

Theorem certificate_pull_total : forall bs,
  msg_good (pull_certificate bs) /\ (forall t, bs = 11 :: t -> tls_good (pull_certificate bs)).
Proof. exact TlsTotal.certificate_pull_total. Qed.
Print Assumptions certificate_pull_total.

Theorem certificate_request_pull_total : forall bs,
  msg_good (pull_certificate_request bs) /\ (forall t, bs = 13 :: t -> tls_good (pull_certificate_request bs)).
Proof. exact TlsTotal.certificate_request_pull_total. Qed.
Print Assumptions certificate_request_pull_total.

Theorem certificate_verify_pull_total : forall bs,
  msg_good (pull_certificate_verify bs) /\ (forall t, bs = 15 :: t -> tls_good (pull_certificate_verify bs)).
Proof. exact TlsTotal.certificate_verify_pull_total. Qed.
Print Assumptions certificate_verify_pull_total.

Theorem finished_pull_total : forall bs,
  msg_good (pull_finished bs) /\ (forall t, bs = 20 :: t -> tls_good (pull_finished bs)).
Proof. exact TlsTotal.finished_pull_total. Qed.
Print Assumptions finished_pull_total.

(* ---- the dump determines the message; the round trips at the level of records ---- *)
Theorem tk_dump_inverse :
  (forall m, tk_client_hello (dump_client_hello m) = m) /\ (forall m, tk_server_hello (dump_server_hello m) = m) /\
  (forall m, tk_new_session_ticket (dump_new_session_ticket m) = m) /\
  (forall m, tk_encrypted_extensions (dump_encrypted_extensions m) = m) /\
  (forall m, tk_certificate (dump_certificate m) = m) /\
  (forall m, tk_certificate_request (dump_certificate_request m) = m) /\
  (forall m, tk_certificate_verify (dump_certificate_verify m) = m).
Proof. exact TlsDumpInverse.tk_dump_inverse. Qed.
Print Assumptions tk_dump_inverse.

Theorem tls_roundtrip_records :
  (forall m bytes rest, client_hello_wf m = true -> enc_seq (tree_client_hello m) = Ok bytes ->
     decode_as pull_client_hello tk_client_hello (bytes ++ rest) = Ok (m, rest)) /\
  (forall m bytes rest, server_hello_wf m = true -> enc_seq (tree_server_hello m) = Ok bytes ->
     decode_as pull_server_hello tk_server_hello (bytes ++ rest) = Ok (m, rest)) /\
  (forall m bytes rest, new_session_ticket_wf m = true -> enc_seq (tree_new_session_ticket m) = Ok bytes ->
     decode_as pull_new_session_ticket tk_new_session_ticket (bytes ++ rest) = Ok (m, rest)) /\
  (forall m bytes rest, encrypted_extensions_wf m = true -> enc_seq (tree_encrypted_extensions m) = Ok bytes ->
     decode_as pull_encrypted_extensions tk_encrypted_extensions (bytes ++ rest) = Ok (m, rest)) /\
  (forall m bytes rest, enc_seq (tree_certificate m) = Ok bytes ->
     decode_as pull_certificate tk_certificate (bytes ++ rest) = Ok (m, rest)) /\
  (forall m bytes rest, certificate_request_wf m = true -> enc_seq (tree_certificate_request m) = Ok bytes ->
     decode_as pull_certificate_request tk_certificate_request (bytes ++ rest) = Ok (m, rest)) /\
  (forall m bytes rest, certificate_verify_wf m = true -> enc_seq (tree_certificate_verify m) = Ok bytes ->
     decode_as pull_certificate_verify tk_certificate_verify (bytes ++ rest) = Ok (m, rest)).
Proof. exact TlsDumpInverse.tls_roundtrip_records. Qed.
Print Assumptions tls_roundtrip_records.

(* ---- transport parameters: decode, then re-encode ---- *)
Theorem tparams_reencode : forall bs r, bytes_ok bs -> Zlen bs <= 65536 -> pull_qtp bs = Ok r ->
  qtp_wf r = true /\ exists bytes', flatten (push_qtp r) = Ok bytes' /\ pull_qtp bytes' = Ok r.
Proof. exact TParamsReencode.tparams_reencode. Qed.
Print Assumptions tparams_reencode.

Theorem tparams_reencode_limit : forall b, 65536 < Zlen b ->
  flatten (push_quic_transport_parameters [(0, PBytes b)]) = Err E_WRITE.
Proof. exact TParamsReencode.tparams_reencode_limit. Qed.
Print Assumptions tparams_reencode_limit.

(* ---- F13 in general: extension_length of a known extension is never used ---- *)
Theorem parsers_len_blind :
  len_blind parse_client_hello_ext /\ len_blind parse_server_hello_ext /\ len_blind parse_nst_ext /\
  len_blind parse_ee_ext /\ len_blind parse_cr_ext.
Proof. exact TlsTotal.parsers_len_blind. Qed.
Print Assumptions parsers_len_blind.

Theorem ext_length_ignored_general : forall parse ch st ty len len' b,
  len_blind parse -> parse ty len b <> None ->
  0 <= ty < 65536 -> 0 <= len < 65536 -> 0 <= len' < 65536 ->
  ext_item parse ch st (be_enc 2 ty ++ be_enc 2 len ++ b) =
  ext_item parse ch st (be_enc 2 ty ++ be_enc 2 len' ++ b).
Proof. exact TlsTotal.ext_length_ignored_general. Qed.
Print Assumptions ext_length_ignored_general.

(* ---- the C text of _buffer.c at bit level (gen/C17Bits.v: Z.shiftl / Z.shiftr / Z.lor / Z.land, conversions to
        uintN_t as mod 2^N, generated from the source on every run) equals the arithmetic models above ---- *)
Theorem c_pull_uint_var_is_model : forall bs, bytes_ok bs -> c_pull_uint_var bs = pull_uint_var bs.
Proof. exact CBitsProofs.c_pull_uint_var_is_model. Qed.
Print Assumptions c_pull_uint_var_is_model.

Theorem c_push_uint_var_is_model : forall v, c_push_uint_var v = push_uint_var v.
Proof. exact CBitsProofs.c_push_uint_var_is_model. Qed.
Print Assumptions c_push_uint_var_is_model.

Theorem c_pull_uintN_is_model : forall bs, bytes_ok bs ->
  c_pull_uint8 bs = pull_uint8 bs /\ c_pull_uint16 bs = pull_uint16 bs /\
  c_pull_uint32 bs = pull_uint32 bs /\ c_pull_uint64 bs = pull_uint64 bs.
Proof. exact CBitsProofs.c_pull_uintN_is_model. Qed.
Print Assumptions c_pull_uintN_is_model.

Theorem c_push_uintN_is_model : forall v,
  c_push_uint8 v = push_uint8 v /\ c_push_uint16 v = push_uint16 v /\
  c_push_uint32 v = push_uint32 v /\ c_push_uint64 v = push_uint64 v.
Proof. exact CBitsProofs.c_push_uintN_is_model. Qed.
Print Assumptions c_push_uintN_is_model.

Theorem c_signed_ops_defined : forall bs v, bytes_ok bs ->
  c_signed_ok_pull_uint8 bs /\ c_signed_ok_pull_uint16 bs /\ c_signed_ok_pull_uint32 bs /\
  c_signed_ok_pull_uint64 bs /\ c_signed_ok_pull_uint_var bs /\
  c_signed_ok_push_uint8 v /\ c_signed_ok_push_uint16 v /\ c_signed_ok_push_uint32 v /\
  c_signed_ok_push_uint64 v /\ c_signed_ok_push_uint_var v.
Proof. exact CBitsProofs.c_signed_ops_defined. Qed.
Print Assumptions c_signed_ops_defined.

Theorem c_varint_roundtrip : forall v rest, 0 <= v < 2 ^ 62 -> bytes_ok rest ->
  exists bs, c_push_uint_var v = Ok bs /\ c_pull_uint_var (bs ++ rest) = Ok (v, rest).
Proof. exact CBitsProofs.c_varint_roundtrip. Qed.
Print Assumptions c_varint_roundtrip.

Theorem c_fixed_roundtrip : forall v rest, bytes_ok rest ->
  (0 <= v < 2 ^ 8 -> exists bs, c_push_uint8 v = Ok bs /\ c_pull_uint8 (bs ++ rest) = Ok (v, rest)) /\
  (0 <= v < 2 ^ 16 -> exists bs, c_push_uint16 v = Ok bs /\ c_pull_uint16 (bs ++ rest) = Ok (v, rest)) /\
  (0 <= v < 2 ^ 32 -> exists bs, c_push_uint32 v = Ok bs /\ c_pull_uint32 (bs ++ rest) = Ok (v, rest)) /\
  (0 <= v < 2 ^ 64 -> exists bs, c_push_uint64 v = Ok bs /\ c_pull_uint64 (bs ++ rest) = Ok (v, rest)).
Proof. exact CBitsProofs.c_fixed_roundtrip. Qed.
Print Assumptions c_fixed_roundtrip.

(* ---- nesting: "never reading past the declared length of an enclosing field" ----
   pull_block / pull_list of the model are the functions built from the comparisons read from tls.py on this run
   (gen/C17Blocks.v); [local]: a successful decode depends only on the bytes it consumed. *)
Theorem pull_block_matches_source : forall A cap (body : Z -> list Z -> Res (A * list Z)) bs,
  pull_block cap body bs = pull_block_src cap body bs.
Proof. exact @TlsNested.pull_block_matches_source. Qed.
Print Assumptions pull_block_matches_source.

Theorem list_continue_matches_source : forall tell end_, src_list_continue tell end_ = negb (end_ - tell <=? 0).
Proof. exact TlsNested.list_continue_matches_source. Qed.
Print Assumptions list_continue_matches_source.

Theorem tls_bodies_local :
  (forall w a, local (item_uint w a)) /\ (forall a, local (item_key_share a)) /\ (forall a, local (item_alpn a)) /\
  (forall a, local (item_psk_identity a)) /\ (forall cap a, local (item_opaque cap a)) /\
  (forall a, local (item_certificate_entry a)) /\ local pull_server_name /\ local hello_prefix /\
  (forall cap, local (pull_opaque cap)) /\
  parse_local parse_client_hello_ext /\ parse_local parse_server_hello_ext /\ parse_local parse_nst_ext /\
  parse_local parse_ee_ext /\ parse_local parse_cr_ext /\
  local pull_client_hello /\ local pull_server_hello /\ local pull_new_session_ticket /\
  local pull_encrypted_extensions /\ local pull_certificate /\ local pull_certificate_request /\
  local pull_certificate_verify /\ local pull_finished.
Proof. exact TlsNested.tls_bodies_local. Qed.
Print Assumptions tls_bodies_local.

Theorem pull_block_nested : forall A cap (body : Z -> list Z -> Res (A * list Z)) bs v rest,
  (forall len, local (body len)) -> pull_block cap body bs = Ok (v, rest) ->
  exists hdr window,
    bs = hdr ++ window ++ rest /\ length hdr = cap /\ Zlen window = be_dec 0 hdr /\
    body (Zlen window) window = Ok (v, []) /\
    forall rest', pull_block cap body (hdr ++ window ++ rest') = Ok (v, rest').
Proof. exact @TlsNested.pull_block_nested. Qed.
Print Assumptions pull_block_nested.

Theorem pull_block_overrun_rejected : forall A cap (body : Z -> list Z -> Res (A * list Z)) bs len b1 v b2,
  pull_be cap bs = Ok (len, b1) -> body len b1 = Ok (v, b2) -> Zlen b1 - Zlen b2 <> len ->
  pull_block cap body bs = Err E_ALERT_DECODE.
Proof. exact @TlsNested.pull_block_overrun_rejected. Qed.
Print Assumptions pull_block_overrun_rejected.

Theorem tls_messages_nested :
  msg_nested pull_client_hello /\ msg_nested pull_server_hello /\ msg_nested pull_new_session_ticket /\
  msg_nested pull_encrypted_extensions /\ msg_nested pull_certificate /\ msg_nested pull_certificate_request /\
  msg_nested pull_certificate_verify /\ msg_nested pull_finished.
Proof. exact TlsNested.tls_messages_nested. Qed.
Print Assumptions tls_messages_nested.

Theorem other_ext_body_exact : forall parse ch st ty len b b3 st',
  parse ty len b = None ->
  ext_item parse ch st (be_enc 2 ty ++ be_enc 2 len ++ b) = Ok (st', b3) ->
  0 <= ty < 65536 -> 0 <= len < 65536 -> Zlen b - Zlen b3 = len.
Proof. exact TlsNested.other_ext_body_exact. Qed.
Print Assumptions other_ext_body_exact.

Theorem known_ext_body_not_nested_refuted :
  consumed_by (parse_server_hello_ext 43 0 [3; 4]) [3; 4] = 2 /\
  consumed_by (parse_client_hello_ext 43 0 [2; 3; 4]) [2; 3; 4] = 3 /\
  consumed_by (parse_ee_ext 16 0 [0; 3; 2; 104; 51]) [0; 3; 2; 104; 51] = 5 /\
  consumed_by (parse_nst_ext 42 0 [0; 0; 16; 0]) [0; 0; 16; 0] = 4 /\
  consumed_by (parse_cr_ext 13 0 [0; 2; 8; 4]) [0; 2; 8; 4] = 4 /\
  (exists d, pull_server_hello sh_lying_extension = Ok (d, [])) /\
  (exists d, pull_encrypted_extensions [8; 0; 0; 11; 0; 9; 0; 16; 0; 0; 0; 3; 2; 104; 51] = Ok (d, [])) /\
  (exists d, pull_new_session_ticket [4; 0; 0; 22; 0; 0; 0; 1; 0; 0; 0; 2; 0; 0; 1; 7; 0; 8; 0; 42; 0; 0; 0; 0; 16; 0] = Ok (d, [])) /\
  (exists d, pull_certificate_request [13; 0; 0; 11; 0; 0; 8; 0; 13; 0; 0; 0; 2; 8; 4] = Ok (d, [])).
Proof. exact TlsNested.known_ext_body_not_nested_refuted. Qed.
Print Assumptions known_ext_body_not_nested_refuted.

(* ---- TLS messages: decode, then re-encode ----
   canonical messages: the consumed bytes are exactly the encoding of the decoded record (push(pull(bs)) = bs) *)
Theorem certificate_reencode : forall bs d rest, bytes_ok bs -> pull_certificate bs = Ok (d, rest) ->
  exists m, d = dump_certificate m /\
            enc_seq (tree_certificate m) = Ok (flat_seq (tree_certificate m)) /\
            bs = flat_seq (tree_certificate m) ++ rest.
Proof. exact TlsReencode.certificate_reencode. Qed.
Print Assumptions certificate_reencode.

Theorem certificate_verify_reencode : forall bs d rest, bytes_ok bs -> pull_certificate_verify bs = Ok (d, rest) ->
  exists m, d = dump_certificate_verify m /\ certificate_verify_wf m = true /\
            enc_seq (tree_certificate_verify m) = Ok (flat_seq (tree_certificate_verify m)) /\
            bs = flat_seq (tree_certificate_verify m) ++ rest.
Proof. exact TlsReencode.certificate_verify_reencode. Qed.
Print Assumptions certificate_verify_reencode.

Theorem finished_reencode : forall bs d rest, bytes_ok bs -> pull_finished bs = Ok (d, rest) ->
  exists vd, d = out_bytes vd /\ enc_seq (tree_finished vd) = Ok (flat_seq (tree_finished vd)) /\
             bs = flat_seq (tree_finished vd) ++ rest.
Proof. exact TlsReencode.finished_reencode. Qed.
Print Assumptions finished_reencode.

(* a message with an extension list: the decoded record is well-formed, the encoder succeeds, the re-encoding is never
   longer and decodes to the same record; the bytes may differ (duplicates, F13) *)
Theorem new_session_ticket_reencode : forall bs d rest, bytes_ok bs -> pull_new_session_ticket bs = Ok (d, rest) ->
  exists m bytes', d = dump_new_session_ticket m /\ new_session_ticket_wf m = true /\
    enc_seq (tree_new_session_ticket m) = Ok bytes' /\ Zlen bytes' + Zlen rest <= Zlen bs /\
    forall rest', pull_new_session_ticket (bytes' ++ rest') = Ok (d, rest').
Proof. exact TlsReencode.new_session_ticket_reencode. Qed.
Print Assumptions new_session_ticket_reencode.

Theorem nst_reencode_not_canonical_refuted :
  (let bs := [4; 0; 0; 30; 0; 0; 0; 1; 0; 0; 0; 2; 0; 0; 1; 7; 0; 16; 0; 42; 0; 4; 0; 0; 16; 0; 0; 42; 0; 4; 0; 0; 32; 0] in
   exists b, reenc_nst bs = Some b /\ b <> bs /\ Zlen b < Zlen bs) /\
  (let bs := [4; 0; 0; 22; 0; 0; 0; 1; 0; 0; 0; 2; 0; 0; 1; 7; 0; 8; 0; 42; 0; 0; 0; 0; 16; 0] in
   exists b, reenc_nst bs = Some b /\ b <> bs /\ Zlen b = Zlen bs).
Proof. exact TlsReencode.nst_reencode_not_canonical_refuted. Qed.
Print Assumptions nst_reencode_not_canonical_refuted.

(* ---- decode, then re-encode: the messages with an extension list (e17) ----
   whatever pull_<msg> accepts is the dump of a record that is well-formed for the encoder; the encoder succeeds on it
   (no OverflowError), the re-encoding is never longer than what was consumed and decodes to the SAME record whatever
   follows it (idempotence) *)
Theorem server_hello_reencode : forall bs d rest, bytes_ok bs -> pull_server_hello bs = Ok (d, rest) ->
  exists m bytes', d = dump_server_hello m /\ server_hello_wf m = true /\
    enc_seq (tree_server_hello m) = Ok bytes' /\ Zlen bytes' + Zlen rest <= Zlen bs /\
    forall rest', pull_server_hello (bytes' ++ rest') = Ok (d, rest').
Proof. exact TlsReencodeExt.server_hello_reencode. Qed.
Print Assumptions server_hello_reencode.

Theorem encrypted_extensions_reencode : forall bs d rest, bytes_ok bs -> pull_encrypted_extensions bs = Ok (d, rest) ->
  exists m bytes', d = dump_encrypted_extensions m /\ encrypted_extensions_wf m = true /\
    enc_seq (tree_encrypted_extensions m) = Ok bytes' /\ Zlen bytes' + Zlen rest <= Zlen bs /\
    forall rest', pull_encrypted_extensions (bytes' ++ rest') = Ok (d, rest').
Proof. exact TlsReencodeExt2.encrypted_extensions_reencode. Qed.
Print Assumptions encrypted_extensions_reencode.

(* second disjunct: the signature_algorithms extension was absent, the attribute is None and push_certificate_request
   raises TypeError (outside the record model) *)
Theorem certificate_request_reencode : forall bs d rest, bytes_ok bs -> pull_certificate_request bs = Ok (d, rest) ->
  (exists m bytes', d = dump_certificate_request m /\ certificate_request_wf m = true /\
     enc_seq (tree_certificate_request m) = Ok bytes' /\ Zlen bytes' + Zlen rest <= Zlen bs /\
     forall rest', pull_certificate_request (bytes' ++ rest') = Ok (d, rest')) \/
  (exists ctx others, d = out_bytes ctx ++ [0] ++ dump_list dump_ext others).
Proof. exact TlsReencodeExt2.certificate_request_reencode. Qed.
Print Assumptions certificate_request_reencode.

(* second disjunct: one of key_share / supported_versions / signature_algorithms / supported_groups was absent (None) *)
Theorem client_hello_reencode : forall bs d rest, bytes_ok bs -> pull_client_hello bs = Ok (d, rest) ->
  (exists m bytes', d = dump_client_hello m /\ client_hello_wf m = true /\
     enc_seq (tree_client_hello m) = Ok bytes' /\ Zlen bytes' + Zlen rest <= Zlen bs /\
     forall rest', pull_client_hello (bytes' ++ rest') = Ok (d, rest')) \/
  (exists random sid cs cm (ks : option (list ext)) (sv sa sg : option (list Z)) tail,
     d = out_bytes random ++ out_bytes sid ++ dump_ints cs ++ dump_ints cm ++
         dump_opt (dump_list dump_ext) ks ++ dump_opt dump_ints sv ++ dump_opt dump_ints sa ++ dump_opt dump_ints sg ++ tail /\
     (ks = None \/ sv = None \/ sa = None \/ sg = None)).
Proof. exact TlsReencodeCH.client_hello_reencode. Qed.
Print Assumptions client_hello_reencode.

Theorem certificate_request_reencode_none_refuted :
  exists d, pull_certificate_request w_cr_none = Ok (d, []) /\ forall m, dump_certificate_request m <> d.
Proof. exact TlsReencodeWitness.certificate_request_reencode_none_refuted. Qed.
Print Assumptions certificate_request_reencode_none_refuted.

Theorem client_hello_reencode_none_refuted :
  exists d, pull_client_hello w_ch_none = Ok (d, []) /\ forall m, dump_client_hello m <> d.
Proof. exact TlsReencodeWitness.client_hello_reencode_none_refuted. Qed.
Print Assumptions client_hello_reencode_none_refuted.

(* the re-encoding reproduces the consumed bytes exactly when they are the encoder's output for a well-formed record *)
Theorem server_hello_reencode_canonical_iff : forall bs d rest, bytes_ok bs -> pull_server_hello bs = Ok (d, rest) ->
  (bs = flat_seq (tree_server_hello (tk_server_hello d)) ++ rest <->
   exists m, server_hello_wf m = true /\ fits_seq (tree_server_hello m) = true /\ bs = flat_seq (tree_server_hello m) ++ rest).
Proof. exact TlsReencodeCanon.server_hello_reencode_canonical_iff. Qed.
Print Assumptions server_hello_reencode_canonical_iff.

Theorem encrypted_extensions_reencode_canonical_iff : forall bs d rest, bytes_ok bs ->
  pull_encrypted_extensions bs = Ok (d, rest) ->
  (bs = flat_seq (tree_encrypted_extensions (tk_encrypted_extensions d)) ++ rest <->
   exists m, encrypted_extensions_wf m = true /\ fits_seq (tree_encrypted_extensions m) = true /\
             bs = flat_seq (tree_encrypted_extensions m) ++ rest).
Proof. exact TlsReencodeCanon.encrypted_extensions_reencode_canonical_iff. Qed.
Print Assumptions encrypted_extensions_reencode_canonical_iff.

Theorem new_session_ticket_reencode_canonical_iff : forall bs d rest, bytes_ok bs ->
  pull_new_session_ticket bs = Ok (d, rest) ->
  (bs = flat_seq (tree_new_session_ticket (tk_new_session_ticket d)) ++ rest <->
   exists m, new_session_ticket_wf m = true /\ fits_seq (tree_new_session_ticket m) = true /\
             bs = flat_seq (tree_new_session_ticket m) ++ rest).
Proof. exact TlsReencodeCanon.new_session_ticket_reencode_canonical_iff. Qed.
Print Assumptions new_session_ticket_reencode_canonical_iff.

Theorem certificate_request_reencode_canonical_iff : forall bs rest m0, bytes_ok bs ->
  pull_certificate_request bs = Ok (dump_certificate_request m0, rest) ->
  (bs = flat_seq (tree_certificate_request m0) ++ rest <->
   exists m, certificate_request_wf m = true /\ fits_seq (tree_certificate_request m) = true /\
             bs = flat_seq (tree_certificate_request m) ++ rest).
Proof. exact TlsReencodeCanon.certificate_request_reencode_canonical_iff. Qed.
Print Assumptions certificate_request_reencode_canonical_iff.

Theorem client_hello_reencode_canonical_iff : forall bs rest m0, bytes_ok bs ->
  pull_client_hello bs = Ok (dump_client_hello m0, rest) ->
  (bs = flat_seq (tree_client_hello m0) ++ rest <->
   exists m, client_hello_wf m = true /\ fits_seq (tree_client_hello m) = true /\ bs = flat_seq (tree_client_hello m) ++ rest).
Proof. exact TlsReencodeCanon.client_hello_reencode_canonical_iff. Qed.
Print Assumptions client_hello_reencode_canonical_iff.

(* ... and every way the decoders accept more than that, one witness each (replayed on tls.py, corpus cases tls-reenc-...) *)
Theorem nst_reencode_order_refuted :
  exists b, reenc_nst w_nst_order = Some b /\ b <> w_nst_order /\ Zlen b = Zlen w_nst_order.
Proof. exact TlsReencodeWitness.nst_reencode_order_refuted. Qed.
Print Assumptions nst_reencode_order_refuted.

Theorem sh_reencode_not_canonical_refuted :
  (exists b, reenc_sh w_sh_dup = Some b /\ b <> w_sh_dup /\ Zlen b < Zlen w_sh_dup) /\
  (exists b, reenc_sh sh_lying_extension = Some b /\ b <> sh_lying_extension /\ Zlen b = Zlen sh_lying_extension) /\
  (exists b, reenc_sh w_sh_order_known = Some b /\ b <> w_sh_order_known /\ Zlen b = Zlen w_sh_order_known) /\
  (exists b, reenc_sh w_sh_order_other = Some b /\ b <> w_sh_order_other /\ Zlen b = Zlen w_sh_order_other).
Proof. exact TlsReencodeWitness.sh_reencode_not_canonical_refuted. Qed.
Print Assumptions sh_reencode_not_canonical_refuted.

Theorem ee_reencode_not_canonical_refuted :
  (exists b, reenc_ee w_ee_alpn_two = Some b /\ b <> w_ee_alpn_two /\ Zlen b < Zlen w_ee_alpn_two) /\
  (exists b, reenc_ee w_ee_alpn_skip = Some b /\ b <> w_ee_alpn_skip /\ Zlen b < Zlen w_ee_alpn_skip) /\
  (exists b, reenc_ee w_ee_order = Some b /\ b <> w_ee_order /\ Zlen b = Zlen w_ee_order).
Proof. exact TlsReencodeWitness.ee_reencode_not_canonical_refuted. Qed.
Print Assumptions ee_reencode_not_canonical_refuted.

Theorem cr_reencode_not_canonical_refuted :
  (exists b, reenc_cr w_cr_dup = Some b /\ b <> w_cr_dup /\ Zlen b < Zlen w_cr_dup) /\
  (exists b, reenc_cr w_cr_order = Some b /\ b <> w_cr_order /\ Zlen b = Zlen w_cr_order).
Proof. exact TlsReencodeWitness.cr_reencode_not_canonical_refuted. Qed.
Print Assumptions cr_reencode_not_canonical_refuted.

Theorem ch_reencode_not_canonical_refuted :
  (exists b, reenc_ch w_ch_order = Some b /\ b <> w_ch_order /\ Zlen b = Zlen w_ch_order) /\
  (exists b, reenc_ch w_ch_alpn_skip = Some b /\ b <> w_ch_alpn_skip /\ Zlen b < Zlen w_ch_alpn_skip) /\
  (exists b, reenc_ch w_ch_early_before_other = Some b /\ b <> w_ch_early_before_other /\
             Zlen b = Zlen w_ch_early_before_other) /\
  (exists b, reenc_ch w_ch_lying = Some b /\ b <> w_ch_lying /\ Zlen b = Zlen w_ch_lying) /\
  reenc_ch w_ch_canonical = Some w_ch_canonical.
Proof. exact TlsReencodeWitness.ch_reencode_not_canonical_refuted. Qed.
Print Assumptions ch_reencode_not_canonical_refuted.

(* ---- ACK frames: decode, then re-encode (e17) ---- *)
Theorem ack_reencode : forall bs l delay rest, bytes_ok bs -> pull_ack_frame bs = Ok ((l, delay), rest) ->
  exists bytes', flatten (push_ack_frame l delay) = Ok bytes' /\ Zlen bytes' + Zlen rest <= Zlen bs /\
    forall rest', pull_ack_frame (bytes' ++ rest') = Ok ((l, delay), rest').
Proof. exact AckReencode.ack_reencode. Qed.
Print Assumptions ack_reencode.

(* the bytes are reproduced exactly when the re-encoding is not shorter: every varint of the input had the minimal width *)
Theorem ack_reencode_canonical_iff : forall bs l delay rest bytes', bytes_ok bs ->
  pull_ack_frame bs = Ok ((l, delay), rest) -> flatten (push_ack_frame l delay) = Ok bytes' ->
  (bs = bytes' ++ rest <-> Zlen bytes' + Zlen rest = Zlen bs).
Proof. exact AckReencode.ack_reencode_canonical_iff. Qed.
Print Assumptions ack_reencode_canonical_iff.

Theorem ack_reencode_nonminimal_refuted :
  (let bs := [64; 10; 7; 2; 1; 2; 0; 1; 2] in
   exists b, reenc_ack bs = Some b /\ b <> bs /\ Zlen b < Zlen bs /\ pull_ack_frame b = pull_ack_frame bs) /\
  reenc_ack [10; 7; 2; 1; 2; 0; 1; 2] = Some [10; 7; 2; 1; 2; 0; 1; 2] /\
  pull_ack_frame [3; 0; 0; 5] = Ok (([(-2, 4)], 0), []) /\ reenc_ack [3; 0; 0; 5] = Some [3; 0; 0; 5].
Proof. exact AckReencode.ack_reencode_nonminimal_refuted. Qed.
Print Assumptions ack_reencode_nonminimal_refuted.

(* ---- packet headers: decode, then rebuild from the decoded fields (e17) ----
   Not returned by pull_quic_header, hence not preserved: the four low bits of the first byte (reserved bits, packet
   number length -- under header protection when the header is parsed), the widths of the token-length and Length
   varints, the packet number; for 1-RTT also spin bit and key phase.  Preserved: everything the decoder returns. *)
Theorem header_reencode_long : forall hcl bs h rest pn, bytes_ok bs -> pull_quic_header hcl bs = Ok (h, rest) ->
  (h_type h = PT_INITIAL \/ h_type h = PT_ZERO_RTT \/ h_type h = PT_HANDSHAKE) ->
  exists version rl, h_version h = Some version /\ h_length h = Zlen bs - Zlen rest + rl /\ 0 <= rl <= Zlen rest /\
    h_tag h = [] /\ h_versions h = [] /\ (h_type h <> PT_INITIAL -> h_token h = []) /\
    (rl < 16384 ->
     exists h0 pnb,
       flatten (builder_long_header version (h_type h) (h_dcid h) (h_scid h) (h_token h) rl pn) = Ok (h0 ++ pnb) /\
       Zlen pnb = 2 /\
       forall after, rl <= Zlen (pnb ++ after) ->
         pull_quic_header hcl (h0 ++ pnb ++ after) =
           Ok (mkHeader (Some version) (h_type h) (Zlen h0 + rl) (h_dcid h) (h_scid h) (h_token h) [] [], pnb ++ after)).
Proof. exact HeaderReencode.header_reencode_long. Qed.
Print Assumptions header_reencode_long.

(* Retry and Version Negotiation: the encoder applied to the decoded fields gives the datagram back, byte for byte *)
Theorem header_reencode_retry : forall hcl bs h rest, bytes_ok bs -> pull_quic_header hcl bs = Ok (h, rest) ->
  h_type h = PT_RETRY ->
  exists version, h_version h = Some version /\ rest = [] /\ h_length h = Zlen bs /\ Zlen (h_tag h) = 16 /\
    flatten (encode_quic_retry version (h_scid h) (h_dcid h) (h_token h) (hd 0 bs mod 16) (h_tag h)) = Ok bs.
Proof. exact HeaderReencode.header_reencode_retry. Qed.
Print Assumptions header_reencode_retry.

Theorem header_reencode_vn : forall hcl bs h rest, bytes_ok bs -> pull_quic_header hcl bs = Ok (h, rest) ->
  h_type h = PT_VERSION_NEGOTIATION ->
  rest = [] /\ h_version h = Some 0 /\ h_length h = Zlen bs /\
  flatten (encode_quic_version_negotiation (hd 0 bs mod 128) (h_scid h) (h_dcid h) (h_versions h)) = Ok bs.
Proof. exact HeaderReencode.header_reencode_vn. Qed.
Print Assumptions header_reencode_vn.

Theorem header_reencode_short : forall hcl bs h rest spin kp pn after, bytes_ok bs ->
  pull_quic_header hcl bs = Ok (h, rest) ->
  h_type h = PT_ONE_RTT -> (spin = 0 \/ spin = 1) -> (kp = 0 \/ kp = 1) ->
  h_version h = None /\ Zlen (h_dcid h) = hcl /\ h_length h = Zlen bs /\
  h_scid h = [] /\ h_token h = [] /\ h_tag h = [] /\ h_versions h = [] /\
  exists h0 pnb, flatten (builder_short_header spin kp (h_dcid h) pn) = Ok (h0 ++ pnb) /\ Zlen pnb = 2 /\
    pull_quic_header hcl (h0 ++ pnb ++ after) =
      Ok (mkHeader None PT_ONE_RTT (Zlen (h0 ++ pnb ++ after)) (h_dcid h) [] [] [] [], pnb ++ after).
Proof. exact HeaderReencode.header_reencode_short. Qed.
Print Assumptions header_reencode_short.

Theorem header_reencode_not_canonical_refuted :
  pull_quic_header 0 w_initial = Ok (mkHeader (Some 1) PT_INITIAL 18 [170] [] [85] [] [], [1; 2; 3]) /\
  (exists b, flatten (builder_long_header 1 PT_INITIAL [170] [] [85] 3 258) = Ok b /\ Zlen b = 14 /\
             b <> firstn 14 w_initial /\
             pull_quic_header 0 (b ++ [3]) = Ok (mkHeader (Some 1) PT_INITIAL 15 [170] [] [85] [] [], [1; 2; 3])) /\
  (push_uint16 (Z.lor 16384 16384) = Ok [64; 0] /\ pull_uint_var [64; 0] = Ok (0, [])).
Proof. exact HeaderReencode.header_reencode_not_canonical_refuted. Qed.
Print Assumptions header_reencode_not_canonical_refuted.

(* ---- packet headers at an explicit offset of the datagram; the walk over coalesced packets (s17) ----
   model/HeaderAt.v keeps buf.tell() / buf.capacity absolute, as packet.py writes them; the tie runs it against the
   real function on Buffers positioned at non-zero offsets. *)
Theorem header_buf_is_suffix : forall hcl cap bs, pull_quic_header_buf hcl cap bs = pull_quic_header hcl bs.
Proof. exact HeaderAtProofs.header_buf_is_suffix. Qed.
Print Assumptions header_buf_is_suffix.

Theorem header_pull_total_at_offset : forall hcl data start, bytes_ok data -> 0 <= start <= Zlen data ->
  match pull_quic_header_at hcl data start with
  | Ok (h, rest) =>
      suffix rest data /\ start < tell (Zlen data) rest /\ tell (Zlen data) rest <= start + h_length h /\
      start + h_length h <= Zlen data /\
      (h_type h <> PT_ONE_RTT -> Zlen (h_dcid h) <= 20 /\ Zlen (h_scid h) <= 20)
  | Err k => k = E_READ \/ k = E_VALUE
  end.
Proof. exact HeaderAtProofs.header_pull_total_at_offset. Qed.
Print Assumptions header_pull_total_at_offset.

Theorem walk_total : forall fuel hcl data start, bytes_ok data -> 0 <= start <= Zlen data ->
  let '(l, st) := walk fuel hcl data start in
  chain start (Zlen data) l /\ (st = 0 \/ st = E_READ \/ st = E_VALUE).
Proof. exact HeaderAtProofs.walk_total. Qed.
Print Assumptions walk_total.

Theorem walk_never_seeks_out : forall fuel hcl data start, bytes_ok data -> 0 <= start <= Zlen data ->
  snd (walk fuel hcl data start) <> E_SEEK.
Proof. exact HeaderAtProofs.walk_never_seeks_out. Qed.
Print Assumptions walk_never_seeks_out.

Theorem walk_fuel : forall hcl data, bytes_ok data -> forall f1 f2 start, 0 <= start <= Zlen data ->
  Z.of_nat f1 > Zlen data - start -> Z.of_nat f2 > Zlen data - start ->
  walk f1 hcl data start = walk f2 hcl data start.
Proof. exact HeaderAtProofs.walk_fuel. Qed.
Print Assumptions walk_fuel.

Theorem coalesced_roundtrip : forall hcl pkts bl, Forall lpkt_ok pkts -> Forall2 lpkt_bytes pkts bl ->
  forall f pre post,
  walk (length bl + f) hcl (pre ++ concat bl ++ post) (Zlen pre) =
  let '(tl, st) := walk f hcl (pre ++ concat bl ++ post) (Zlen pre + Zlen (concat bl)) in
  (bounds (Zlen pre) bl ++ tl, st).
Proof. exact HeaderAtProofs.coalesced_roundtrip. Qed.
Print Assumptions coalesced_roundtrip.

Theorem coalesced_roundtrip_long_only : forall hcl pkts bl, Forall lpkt_ok pkts -> Forall2 lpkt_bytes pkts bl ->
  receive_walk hcl (concat bl) = (bounds 0 bl, 0).
Proof. exact HeaderAtProofs.coalesced_roundtrip_long_only. Qed.
Print Assumptions coalesced_roundtrip_long_only.

Theorem coalesced_roundtrip_with_short : forall pkts bl spin kp pcid pn payload,
  Forall lpkt_ok pkts -> Forall2 lpkt_bytes pkts bl -> (spin = 0 \/ spin = 1) -> (kp = 0 \/ kp = 1) ->
  exists sb, flatten (builder_short_header spin kp pcid pn) = Ok sb /\
    let data := concat bl ++ sb ++ payload in
    receive_walk (Zlen pcid) data = (bounds 0 bl ++ [(Zlen (concat bl), Zlen data)], 0).
Proof. exact HeaderAtProofs.coalesced_roundtrip_with_short. Qed.
Print Assumptions coalesced_roundtrip_with_short.

(* the parser assembled from the truncation test / packet_length / Retry token size expressions that
   tools/gen/c17_header.py reads from pull_quic_header on this run IS the offset-explicit model *)
Theorem header_src_matches_model : forall hcl cap bs, pull_quic_header_src hcl cap bs = pull_quic_header_buf hcl cap bs.
Proof. exact HeaderAtSource.src_matches_model. Qed.
Print Assumptions header_src_matches_model.
