From AQ Require Import lib.Base model.Codec model.Varint model.AckFrame proofs.CodecProofs proofs.VarintProofs proofs.AckFrameProofs.
Theorem varint_roundtrip : forall v rest, 0 <= v < 2 ^ 62 ->
  exists bs, push_uint_var v = Ok bs /\ pull_uint_var (bs ++ rest) = Ok (v, rest).
Proof. exact VarintProofs.varint_roundtrip. Qed.
Print Assumptions varint_roundtrip.
