From AQ Require Import lib.Base model.H3Parse proofs.H3Chunk proofs.H3Split.

(* On the code as pinned, the events of a request stream depend on the chunking: three byte strings for which
   whole delivery and a two-chunk delivery give different normalised events (end-of-stream marker). *)
Theorem chunking_independent_refuted :
  events_of w_data_whole = Some [AHeaders 0 None 1; AByte 0 None 97; AByte 0 None 98; AEnd 0] /\
  events_of w_data_split = Some [AHeaders 0 None 1; AByte 0 None 97; AByte 0 None 98] /\
  events_of w_hdr_whole = Some [AHeaders 0 None 1] /\
  events_of w_hdr_split = Some [AHeaders 0 None 1; AEnd 0] /\
  events_of w_grease_whole = Some [AHeaders 0 None 1] /\
  events_of w_grease_split = Some [AHeaders 0 None 1; AEnd 0].
Proof. exact chunking_refuted. Qed.
Print Assumptions chunking_independent_refuted.

(* ... and on the order of deliveries across streams: a PUSH_PROMISE that waits for the encoder stream is
   resumed as HEADERS (connection closed) on the pinned code, reported as a promise with C14-fix-3. *)
Theorem interleaving_independent_refuted :
  run unfixed (conn_init true true) [(QStream 7 [2; 1] false, o_inorder); (QStream 0 pp_frame false, o_inorder)]
    = [Events []; Events [EPush 0 9 7]] /\
  run unfixed (conn_init true true) [(QStream 0 pp_frame false, o_blocked); (QStream 7 [2; 1] false, o_ready)]
    = [Events []; Closed H3_MESSAGE_ERROR] /\
  run all_fixed (conn_init true true) [(QStream 0 pp_frame false, o_blocked); (QStream 7 [2; 1] false, o_ready)]
    = [Events []; Events [EPush 0 9 7]].
Proof. exact push_promise_blocked_refuted. Qed.
Print Assumptions interleaving_independent_refuted.

(* the refuting inputs on the model of the patched code: same outcome for both deliveries *)
Theorem chunking_witnesses_agree_when_fixed :
  rq_recv all_fixed oracle1 true (new_stream 0) (hdrs ++ [0; 5; 97; 98]) true = RErr H3_FRAME_ERROR /\
  feed all_fixed oracle1 true (new_stream 0) (mk_chunks (hdrs ++ [0; 5; 97]) [[98]] true) = RErr H3_FRAME_ERROR /\
  rq_recv all_fixed oracle1 true (new_stream 0) (hdrs ++ [1; 5]) true = RErr H3_FRAME_ERROR /\
  feed all_fixed oracle1 true (new_stream 0) (mk_chunks (hdrs ++ [1; 5]) [[]] true) = RErr H3_FRAME_ERROR /\
  events_of (rq_recv all_fixed oracle1 true (new_stream 0) (hdrs ++ [33; 0]) true) = Some [AHeaders 0 None 1; AEnd 0] /\
  events_of (feed all_fixed oracle1 true (new_stream 0) (mk_chunks (hdrs ++ [33; 0]) [[]] true)) = Some [AHeaders 0 None 1; AEnd 0].
Proof. exact chunking_witnesses_fixed. Qed.
Print Assumptions chunking_witnesses_agree_when_fixed.

(* PARTIAL (see docs/C14.md): the pieces of "feeding a ++ b = feeding a then b" that are proved for ALL inputs,
   for the model of the patched code (fx_trunc, fx_endmark).
   (1) a delivery x that leaves the parser where it was (it stops inside a frame header or inside the payload of a
       non-DATA frame, nothing consumed) followed by b gives the same events and state as delivering x ++ b; *)
Theorem chunking_independent_partial_incomplete_frame :
  forall fx O cl, fx_trunc fx = true -> fx_endmark fx = true ->
  forall f st x b evs, LH st -> measure st (x ++ b) < Z.of_nat f ->
  requiv (rq_loop f fx O cl false st (x ++ b) evs) (resume fx O cl b (RVal evs (set_buf st x))).
Proof. exact break_case. Qed.
Print Assumptions chunking_independent_partial_incomplete_frame.

(* (2) the payload of a DATA frame delivered in two pieces gives the same normalised events and the same state
       (content-length accounting included) as delivered in one piece; *)
Theorem chunking_independent_partial_data_payload :
  forall fx O cl, fx_trunc fx = true -> fx_endmark fx = true ->
  forall d1 d2 st,
  match handle_rp_frame fx O cl 0 (Some d1) st false with
  | HVal e1 st1 =>
      match handle_rp_frame fx O cl 0 (Some d2) st1 false, handle_rp_frame fx O cl 0 (Some (d1 ++ d2)) st false with
      | HVal e2 st2, HVal e st' => norm e = norm (e1 ++ e2) /\ st' = st2 /\ s_hstate st2 = 1
      | _, _ => False
      end
  | HErr c => handle_rp_frame fx O cl 0 (Some (d1 ++ d2)) st false = HErr c
  | _ => False
  end.
Proof. exact handle_data_split. Qed.
Print Assumptions chunking_independent_partial_data_payload.

(* (3) a varint (frame type / length, push id, ...) that parses from a prefix parses identically from any extension; *)
Theorem chunking_independent_partial_varint :
  forall a b v r, pull_uint_var a = Some (v, r) -> pull_uint_var (a ++ b) = Some (v, r ++ b).
Proof. exact pull_app. Qed.
Print Assumptions chunking_independent_partial_varint.

(* (4) the result of the frame loop does not depend on the fuel once it exceeds the measure (termination). *)
Theorem frame_loop_fuel_independent :
  forall fx O cl, fx_trunc fx = true -> fx_endmark fx = true ->
  forall f1 f2 fin st b evs, measure st b < Z.of_nat f1 -> measure st b < Z.of_nat f2 ->
  rq_loop f1 fx O cl fin st b evs = rq_loop f2 fx O cl fin st b evs.
Proof. exact loop_fuel. Qed.
Print Assumptions frame_loop_fuel_independent.
