From AQ Require Import lib.Base model.H3Parse.
Theorem placeholder_C14 : True.
Proof. exact I. Qed.
Print Assumptions placeholder_C14.
