From AQ Require Import lib.Base model.H3Parse proofs.H3Chunk proofs.H3Split proofs.H3Loop proofs.H3Recv proofs.H3Fin proofs.H3Uni proofs.H3Table proofs.H3Push proofs.H3Hdr proofs.H3UniN proofs.H3Conn proofs.H3ConnTwo.
From AQ Require Import model.H3Send proofs.H3Round proofs.H3Inter proofs.H3Two proofs.H3Many proofs.H3Pre.

(* On the code as pinned, the events of a request stream depend on the chunking: three byte strings for which
   whole delivery and a two-chunk delivery give different normalised events (end-of-stream marker). *)
Theorem chunking_independent_refuted :
  events_of w_data_whole = Some [AHeaders 0 None 1; AByte 0 None 97; AByte 0 None 98; AEnd 0] /\
  events_of w_data_split = Some [AHeaders 0 None 1; AByte 0 None 97; AByte 0 None 98] /\
  events_of w_hdr_whole = Some [AHeaders 0 None 1] /\
  events_of w_hdr_split = Some [AHeaders 0 None 1; AEnd 0] /\
  events_of w_grease_whole = Some [AHeaders 0 None 1] /\
  events_of w_grease_split = Some [AHeaders 0 None 1; AEnd 0].
Proof. exact chunking_refuted. Qed.
Print Assumptions chunking_independent_refuted.

(* ... and on the order of deliveries across streams: a PUSH_PROMISE that waits for the encoder stream is
   resumed as HEADERS (connection closed) on the pinned code, reported as a promise with C14-fix-3. *)
Theorem interleaving_independent_refuted :
  run unfixed (conn_init true true) [(QStream 7 [2; 1] false, o_inorder); (QStream 0 pp_frame false, o_inorder)]
    = [Events []; Events [EPush 0 9 7]] /\
  run unfixed (conn_init true true) [(QStream 0 pp_frame false, o_blocked); (QStream 7 [2; 1] false, o_ready)]
    = [Events []; Closed H3_MESSAGE_ERROR] /\
  run all_fixed (conn_init true true) [(QStream 0 pp_frame false, o_blocked); (QStream 7 [2; 1] false, o_ready)]
    = [Events []; Events [EPush 0 9 7]].
Proof. exact push_promise_blocked_refuted. Qed.
Print Assumptions interleaving_independent_refuted.

(* POSITIVE, model of the patched code (C14-fix-3 = fx_pushblock): a request stream [sid] (new, or between two frames:
   req_ready) receives a PUSH_PROMISE frame -- any varint encoding of type / length / push id (frame_at) -- followed by
   ANY further bytes [rest], with or without FIN, and the header block of the promise needs data of the QPACK encoder
   stream [es] (already open, or opened by that very delivery: enc_ready).  Delivering the encoder stream first (the block
   then decodes at once) or the request stream first (the block waits: StreamBlocked; the encoder-stream delivery reports
   the stream as unblocked and the promise is resumed) makes handle_event return the same outputs: the same events in the
   same order, or the same close code.  Hypothesis on the external decoder (deterministic in its input history): decoding
   the block once the encoder data is known gives what resuming it after the data arrived gives (o_resume = o_dec), and
   that is not "blocked" again. *)
Theorem interleaving_independent_push_promise :
  forall fx, fx_trunc fx = true -> fx_endmark fx = true -> fx_pushblock fx = true ->
  forall c0 sid es data payload rest pid block fin encdata encpayload OA OB O2,
  c_client c0 = true -> c_done c0 = false -> is_uni sid = false -> is_uni es = true ->
  req_ready c0 sid -> enc_ready c0 es encdata encpayload ->
  frame_at data 5 payload rest -> pull_uint_var payload = Some (pid, block) ->
  o_enc OA encpayload = EUnblocked [] ->
  o_dec OB sid block = DBlocked ->
  o_enc O2 encpayload = EUnblocked [sid] -> o_resume O2 sid = o_dec O2 sid block -> o_dec O2 sid block <> DBlocked ->
  run fx c0 [(QStream es encdata false, OA); (QStream sid data fin, O2)] =
  run fx c0 [(QStream sid data fin, OB); (QStream es encdata false, O2)].
Proof. exact pp_interleave. Qed.
Print Assumptions interleaving_independent_push_promise.

(* The same for a HEADERS frame (request, response or trailers; request or push stream behind its push id; client or
   server): the stream [sid] is new or between two frames where HEADERS are allowed (hd_ready: headers_recv_state is not
   AFTER_TRAILERS -- there the frame is refused before the decoder is asked), the delivery starts with a complete HEADERS
   frame followed by ANY bytes (body, trailers, further frames, garbage), with or without FIN.  "Including when header
   compression makes a request wait for the encoder stream": the events (HeadersReceived with its end-of-stream flag,
   the body, the close code for bad headers / content-length) do not depend on which stream is delivered first. *)
Theorem interleaving_independent_headers :
  forall fx, fx_trunc fx = true -> fx_endmark fx = true -> fx_pushblock fx = true ->
  forall c0 sid es data block rest fin encdata encpayload OA OB O2,
  c_done c0 = false -> is_uni sid = false -> is_uni es = true ->
  hd_ready c0 sid -> enc_ready c0 es encdata encpayload ->
  frame_at data 1 block rest ->
  o_enc OA encpayload = EUnblocked [] ->
  o_dec OB sid block = DBlocked ->
  o_enc O2 encpayload = EUnblocked [sid] -> o_resume O2 sid = o_dec O2 sid block -> o_dec O2 sid block <> DBlocked ->
  run fx c0 [(QStream es encdata false, OA); (QStream sid data fin, O2)] =
  run fx c0 [(QStream sid data fin, OB); (QStream es encdata false, O2)].
Proof. exact hd_interleave. Qed.
Print Assumptions interleaving_independent_headers.

(* the refuting inputs on the model of the patched code: same outcome for both deliveries *)
Theorem chunking_witnesses_agree_when_fixed :
  rq_recv all_fixed oracle1 true (new_stream 0) (hdrs ++ [0; 5; 97; 98]) true = RErr H3_FRAME_ERROR /\
  feed all_fixed oracle1 true (new_stream 0) (mk_chunks (hdrs ++ [0; 5; 97]) [[98]] true) = RErr H3_FRAME_ERROR /\
  rq_recv all_fixed oracle1 true (new_stream 0) (hdrs ++ [1; 5]) true = RErr H3_FRAME_ERROR /\
  feed all_fixed oracle1 true (new_stream 0) (mk_chunks (hdrs ++ [1; 5]) [[]] true) = RErr H3_FRAME_ERROR /\
  events_of (rq_recv all_fixed oracle1 true (new_stream 0) (hdrs ++ [33; 0]) true) = Some [AHeaders 0 None 1; AEnd 0] /\
  events_of (feed all_fixed oracle1 true (new_stream 0) (mk_chunks (hdrs ++ [33; 0]) [[]] true)) = Some [AHeaders 0 None 1; AEnd 0].
Proof. exact chunking_witnesses_fixed. Qed.
Print Assumptions chunking_witnesses_agree_when_fixed.

(* FULL STRENGTH, request / push streams, model of the patched code (C14-fix-1 = fx_trunc, C14-fix-2 = fx_endmark; the
   other flags are arbitrary): for EVERY stream state a delivery can leave behind (stream_ok: receiving side not ended;
   fresh streams qualify, and the property is preserved by every delivery: stream_ok_preserved), EVERY byte string
   cut into EVERY number of deliveries, FIN on the last delivery (an empty last part = FIN as a delivery of its own)
   or no FIN, EVERY QPACK / validation oracle (including one that blocks: the oracle is the same function in both
   runs, i.e. no encoder-stream data arrives in between): the chunked delivery and the whole delivery give the same
   normalised events, the same final parser state, or the same connection error code (requiv). *)
Theorem chunking_independent :
  forall fx O cl, fx_trunc fx = true -> fx_endmark fx = true ->
  forall parts st0 first fin, stream_ok st0 ->
  requiv (feed fx O cl st0 (mk_chunks first parts fin)) (rq_recv fx O cl st0 (first ++ concat parts) fin).
Proof. exact chunks_whole. Qed.
Print Assumptions chunking_independent.

(* hence any two splittings of the same byte string are indistinguishable *)
Theorem chunking_independent_any_two_splittings :
  forall fx O cl, fx_trunc fx = true -> fx_endmark fx = true ->
  forall st0 f1 p1 f2 p2 fin, stream_ok st0 -> f1 ++ concat p1 = f2 ++ concat p2 ->
  requiv (feed fx O cl st0 (mk_chunks f1 p1 fin)) (feed fx O cl st0 (mk_chunks f2 p2 fin)).
Proof. exact chunks_any. Qed.
Print Assumptions chunking_independent_any_two_splittings.

(* the hypothesis: true of a new stream and kept by every delivery without FIN *)
Theorem chunking_hypothesis_fresh : forall sid, stream_ok (new_stream sid).
Proof. exact stream_ok_fresh. Qed.
Print Assumptions chunking_hypothesis_fresh.

Theorem chunking_hypothesis_preserved :
  forall fx O cl, fx_trunc fx = true -> fx_endmark fx = true ->
  forall st0 d e st', stream_ok st0 -> rq_recv fx O cl st0 d false = RVal e st' -> stream_ok st'.
Proof. exact stream_ok_preserved. Qed.
Print Assumptions chunking_hypothesis_preserved.

(* the two halves: bytes cut in two without FIN; FIN together with the last bytes = FIN on its own afterwards *)
Theorem chunking_independent_two_deliveries :
  forall fx O cl, fx_trunc fx = true -> fx_endmark fx = true ->
  forall st0 a b fin, stream_ok st0 ->
  requiv (rq_recv fx O cl st0 (a ++ b) fin) (rbind (rq_recv fx O cl st0 a false) (fun s => rq_recv fx O cl s b fin)).
Proof. exact two_chunks. Qed.
Print Assumptions chunking_independent_two_deliveries.

Theorem chunking_independent_fin_late :
  forall fx O cl, fx_trunc fx = true -> fx_endmark fx = true ->
  forall st0 a, stream_ok st0 ->
  requiv (rq_recv fx O cl st0 a true) (rbind (rq_recv fx O cl st0 a false) (fun s => rq_recv fx O cl s [] true)).
Proof. exact fin_late. Qed.
Print Assumptions chunking_independent_fin_late.

(* the frame loop itself: running it on x ++ b = running it on x, then resuming with b *)
Theorem frame_loop_split :
  forall fx O cl, fx_trunc fx = true -> fx_endmark fx = true ->
  forall f st x b evs, LH st -> measure st (x ++ b) < Z.of_nat f ->
  requiv (rq_loop f fx O cl false st (x ++ b) evs) (resume fx O cl b (rq_loop f fx O cl false st x evs)).
Proof. exact loop_split. Qed.
Print Assumptions frame_loop_split.

(* UNIDIRECTIONAL STREAMS (control, push, WebTransport, QPACK encoder / decoder, unknown types), model of the patched code.
   uni_full = what _receive_stream_data_uni (plus the hand-over of a push stream to the request / push parser) does to
   one stream and the connection for one delivery: events, stream, connection (settings, max push id, peer stream ids),
   ids the QPACK decoder reports as unblocked; uni_is_receive_stream_data ties it to the model's _receive_stream_data.
   For EVERY stream state with stream_ok, connection, byte strings a, b: delivering a ++ b = delivering a, then b;
   with FIN on the last delivery for every stream that is not the control stream.  Hypotheses on the QPACK oracle
   (external library): feeding x ++ y to the encoder / decoder stream = feeding x, then y (ds_seq, enc_seq; satisfiable:
   seq_oracle_example in proofs/H3Uni.v), same oracle in both runs. *)
Theorem chunking_independent_uni :
  forall fx O st c a b fin,
  fx_trunc fx = true -> fx_endmark fx = true -> stream_ok st -> ds_seq O -> enc_seq O ->
  (fin = true -> is_ctrl st (a ++ b) = false) ->
  uequiv (uni_full fx O st c (a ++ b) fin)
         (ubind (uni_full fx O st c a false) (fun st1 c1 => uni_full fx O st1 c1 b fin)).
Proof. exact uni_two. Qed.
Print Assumptions chunking_independent_uni.

(* ... and ANY NUMBER of deliveries: every unidirectional stream state satisfying uinv -- true of a new stream
   (chunking_uni_hypothesis_fresh) and kept by every delivery without FIN (chunking_uni_hypothesis_preserved), so of every
   state such a stream can be in between two deliveries --, every first chunk and list of further chunks (mk_chunks: FIN on
   the last one, an empty last part = FIN as a delivery of its own, fin = false = no FIN yet): feeding the chunks one by
   one (ufeed) = one delivery of their concatenation: same normalised events, same stream state, same connection state,
   same unblocked stream ids in the same order, or the same close code / exception. *)
Theorem chunking_independent_uni_any_number_of_deliveries :
  forall fx O, fx_trunc fx = true -> fx_endmark fx = true -> ds_seq O -> enc_seq O ->
  forall parts st c first fin, uinv st ->
  (fin = true -> is_ctrl st (first ++ concat parts) = false) ->
  uequiv (ufeed fx O st c (mk_chunks first parts fin)) (uni_full fx O st c (first ++ concat parts) fin).
Proof. exact uni_chunks. Qed.
Print Assumptions chunking_independent_uni_any_number_of_deliveries.

Theorem chunking_uni_hypothesis_fresh : forall sid, uinv (new_stream sid).
Proof. exact uinv_fresh. Qed.
Print Assumptions chunking_uni_hypothesis_fresh.

Theorem chunking_uni_hypothesis_preserved :
  forall fx O, fx_trunc fx = true -> fx_endmark fx = true ->
  forall st c d e st1 c1 u, uinv st -> uni_full fx O st c d false = UF e st1 c1 u -> uinv st1.
Proof. exact uinv_preserved. Qed.
Print Assumptions chunking_uni_hypothesis_preserved.

Theorem uni_is_receive_stream_data :
  forall fx O c0 sid data fin, is_uni sid = true ->
  receive_stream_data0 fx O c0 sid data fin =
  let '(s0, c) := get_or_create c0 sid in
  match uni_full fx O s0 c data fin with
  | UF e st' c' unb => unblock fx O (set_streams c' (put_stream st' (c_streams c'))) unb e
  | UFErr k c' => SErr k c'
  | UFExn k => SExn k
  end.
Proof. exact recv0_uni_full. Qed.
Print Assumptions uni_is_receive_stream_data.

(* CONNECTION LEVEL: _receive_stream_data for a unidirectional stream id, stream table (get_or_create / put_stream) and
   resume pass included.  For every connection c0, unidirectional id sid whose stream (new or existing) is stream_ok, bytes
   a, b: one delivery of a ++ b = delivery of a, then of b (FIN on the second one allowed off the control stream): same
   normalised events AND the same connection afterwards -- settings, max push id, peer stream ids, and the WHOLE STREAM
   TABLE, entry of sid and entries of all resumed streams, in the same order --, or both deliveries fail (cequiv).
   Hypotheses: the QPACK streaming hypotheses of chunking_independent_uni, and the decoder never reports the stream being
   delivered itself as unblocked.  Proof: the resume pass as a function of the table alone (unblock_unb), it commutes with
   an update of another stream's entry (unb_put_other) and leaves other entries alone (unb_find_other), a unidirectional
   delivery ignores the table (uni_full_ss), uni_two, unb_app. *)
Theorem chunking_independent_uni_connection_level :
  forall fx O, fx_trunc fx = true -> fx_endmark fx = true ->
  forall c0 sid a b fin,
  is_uni sid = true -> ds_seq O -> enc_seq O ->
  stream_ok (fst (get_or_create c0 sid)) ->
  (fin = true -> is_ctrl (fst (get_or_create c0 sid)) (a ++ b) = false) ->
  (forall x l, o_enc O x = EUnblocked l -> ~ In sid l) ->
  cequiv (receive_stream_data0 fx O c0 sid (a ++ b) fin)
         (sbind (receive_stream_data0 fx O c0 sid a false) (fun c1 => receive_stream_data0 fx O c1 sid b fin)).
Proof. exact recv_uni_two. Qed.
Print Assumptions chunking_independent_uni_connection_level.

(* "both deliveries fail" cannot be sharpened to "with the same code": encoder-stream bytes that unblock a stream whose
   headers are refused, followed by bytes the decoder rejects, close with QPACK_ENCODER_STREAM_ERROR when delivered whole and
   with H3_MESSAGE_ERROR when delivered in two pieces (no event in either case; replayed on the real H3Connection). *)
Theorem chunking_independent_uni_connection_close_code_refuted :
  run all_fixed (conn_init true true) [(QStream 0 [1; 1; 0] false, o_corner); (QStream 7 [2; 1; 9] false, o_corner)]
    = [Events []; Closed QPACK_ENCODER_STREAM_ERROR] /\
  run all_fixed (conn_init true true)
      [(QStream 0 [1; 1; 0] false, o_corner); (QStream 7 [2; 1] false, o_corner); (QStream 7 [9] false, o_corner)]
    = [Events []; Closed H3_MESSAGE_ERROR; Events []].
Proof. exact close_code_corner. Qed.
Print Assumptions chunking_independent_uni_connection_close_code_refuted.

(* ... and the exception: on the control stream the close CODE depends on whether the FIN comes with the last bytes
   (the code checks "stream_ended" before it parses the frames of that delivery); both deliveries close the connection. *)
Theorem chunking_independent_uni_control_fin_refuted :
  run all_fixed (conn_init false true) [(QStream 3 [0; 13; 1; 1] true, o_quiet)] = [Closed H3_CLOSED_CRITICAL_STREAM] /\
  run all_fixed (conn_init false true) [(QStream 3 [0; 13; 1; 1] false, o_quiet); (QStream 3 [] true, o_quiet)]
    = [Closed H3_MISSING_SETTINGS; Events []].
Proof. exact ctrl_fin_refuted. Qed.
Print Assumptions chunking_independent_uni_control_fin_refuted.

(* streams the decoder reports as unblocked (after an encoder-stream delivery) are resumed one after the other: the ids
   of two deliveries concatenated = the two resume passes in sequence (same oracle) *)
Theorem unblocked_streams_sequential :
  forall fx O l1 l2 c evs,
  unblock fx O c (l1 ++ l2) evs =
  match unblock fx O c l1 evs with SVal e c' => unblock fx O c' l2 e | r => r end.
Proof. exact unblock_app. Qed.
Print Assumptions unblocked_streams_sequential.

(* blocked / resume, one concrete exchange only (the general statement is NOT proved, see docs/C14.md) *)
Theorem blocked_resume_example_agrees :
  events_all (run all_fixed (conn_init true true)
     [(QStream 0 [1; 1; 0; 0; 2; 97] false, o_wait); (QStream 0 [98] true, o_wait); (QStream 7 [2; 1] false, o_arrived)])
  = [AHeaders 0 None 1; AByte 0 None 97; AByte 0 None 98; AEnd 0] /\
  events_all (run all_fixed (conn_init true true)
     [(QStream 7 [2; 1] false, oracle1); (QStream 0 [1; 1; 0; 0; 2; 97; 98] true, oracle1)])
  = [AHeaders 0 None 1; AByte 0 None 97; AByte 0 None 98; AEnd 0].
Proof. exact blocked_resume_example. Qed.
Print Assumptions blocked_resume_example_agrees.

(* Lemmas used on the way (kept; they were the partial result of the first round), proved for ALL inputs,
   for the model of the patched code (fx_trunc, fx_endmark).
   (1) a delivery x that leaves the parser where it was (it stops inside a frame header or inside the payload of a
       non-DATA frame, nothing consumed) followed by b gives the same events and state as delivering x ++ b; *)
Theorem chunking_independent_partial_incomplete_frame :
  forall fx O cl, fx_trunc fx = true -> fx_endmark fx = true ->
  forall f st x b evs, LH st -> measure st (x ++ b) < Z.of_nat f ->
  requiv (rq_loop f fx O cl false st (x ++ b) evs) (resume fx O cl b (RVal evs (set_buf st x))).
Proof. exact break_case. Qed.
Print Assumptions chunking_independent_partial_incomplete_frame.

(* (2) the payload of a DATA frame delivered in two pieces gives the same normalised events and the same state
       (content-length accounting included) as delivered in one piece; *)
Theorem chunking_independent_partial_data_payload :
  forall fx O cl, fx_trunc fx = true -> fx_endmark fx = true ->
  forall d1 d2 st,
  match handle_rp_frame fx O cl 0 (Some d1) st false with
  | HVal e1 st1 =>
      match handle_rp_frame fx O cl 0 (Some d2) st1 false, handle_rp_frame fx O cl 0 (Some (d1 ++ d2)) st false with
      | HVal e2 st2, HVal e st' => norm e = norm (e1 ++ e2) /\ st' = st2 /\ s_hstate st2 = 1
      | _, _ => False
      end
  | HErr c => handle_rp_frame fx O cl 0 (Some (d1 ++ d2)) st false = HErr c
  | _ => False
  end.
Proof. exact handle_data_split. Qed.
Print Assumptions chunking_independent_partial_data_payload.

(* (3) a varint (frame type / length, push id, ...) that parses from a prefix parses identically from any extension; *)
Theorem chunking_independent_partial_varint :
  forall a b v r, pull_uint_var a = Some (v, r) -> pull_uint_var (a ++ b) = Some (v, r ++ b).
Proof. exact pull_app. Qed.
Print Assumptions chunking_independent_partial_varint.

(* (4) the result of the frame loop does not depend on the fuel once it exceeds the measure (termination). *)
Theorem frame_loop_fuel_independent :
  forall fx O cl, fx_trunc fx = true -> fx_endmark fx = true ->
  forall f1 f2 fin st b evs, measure st b < Z.of_nat f1 -> measure st b < Z.of_nat f2 ->
  rq_loop f1 fx O cl fin st b evs = rq_loop f2 fx O cl fin st b evs.
Proof. exact loop_fuel. Qed.
Print Assumptions frame_loop_fuel_independent.

(* ROUND TRIP ("headers, bodies and trailers submitted through the sending API on one endpoint arrive unchanged and in order
   on the other for every valid header list, body size and write pattern").  Sending side: model/H3Send.v (send_headers,
   send_data, send_push_promise; tied to the real H3Connection by the correspondence suite h3send: every send_stream_data
   call, return value and exception class).  msg_ops = send_headers(h), send_data for EVERY list of body pieces (any sizes
   below 2^62, empty pieces included), optional send_headers(trailers); end_stream on the last call.  On a stream nothing was
   sent on yet (request stream, or push stream behind its header: pu, sy) these calls end the stream (stream_fin) and, for
   EVERY chunking of the bytes they wrote on it (mk_chunks: FIN on the last delivery or as a delivery of its own), the
   receive path reports exactly: the headers, the body bytes in order, the trailers, one end of stream (msg_atoms).
   Hypotheses on the external parts: the decoder returns the header list the encoder was given (decode (encode h) = h:
   o_dec O sid (blk h) = DHeaders h; same for the trailers), the header list is valid for the receiving role (o_val accepts)
   and a content-length header, if present, states the body length (cl_ok). *)
Theorem h3_roundtrip : forall (fx : fixes) (O : oracle) (cl : bool), fx_trunc fx = true -> fx_endmark fx = true ->
  forall (sid : Z) (pu sy : option Z) (blk encb : Z -> list Z) (c : sconn) (h : Z) (body : list (list Z))
         (tr ecl : option Z) (first : list Z) (parts : list (list Z)),
  sc_enc c <> sid -> sget c sid = mkSS sid 0 false ->
  Zlen (blk h) < 4611686018427387904 -> Forall (fun d => Zlen d < 4611686018427387904) body ->
  match tr with Some t => Zlen (blk t) < 4611686018427387904 /\ o_dec O sid (blk t) = DHeaders t /\ fst (o_val O 2 t) = true
              | None => True end ->
  o_dec O sid (blk h) = DHeaders h -> o_val O (if cl then 1 else 0) h = (true, ecl) ->
  cl_ok ecl (Zlen (concat body)) ->
  first ++ concat parts = stream_bytes sid (swrites c (msg_ops sid blk encb h body tr)) ->
  stream_fin sid (swrites c (msg_ops sid blk encb h body tr)) = true /\
  events_of (feed fx O cl (fresh_recv sid pu sy None) (mk_chunks first parts true)) = Some (msg_atoms sid pu h body tr).
Proof. exact roundtrip_message. Qed.
Print Assumptions h3_roundtrip.

(* ... with a PUSH PROMISE: the server calls send_push_promise(sid, promised request hp) and then sends the response on the
   request stream; the client, for EVERY chunking of the request stream, reports PushPromiseReceived with the push id the
   server allocated and the promised header list, then the response.  (server: a push id is available, sid is a request
   stream id; the announcement of the push stream -- type 1, push id -- is the last conjunct of h3_roundtrip_push_send) *)
Theorem h3_roundtrip_push_promise : forall (fx : fixes) (O : oracle), fx_trunc fx = true -> fx_endmark fx = true ->
  forall (sid : Z) (sy : option Z) (blk encb : Z -> list Z) (c : sconn) (m hp h : Z) (body : list (list Z)) (tr ecl : option Z)
         (first : list Z) (parts : list (list Z)),
  sc_client c = false -> sid mod 4 = 0 -> sc_max_push c = Some m -> 0 <= sc_next_push c < m ->
  sc_next_push c < 4611686018427387904 ->
  sc_enc c <> sid -> sc_next_uni c <> sid -> sget c sid = mkSS sid 0 false ->
  Zlen (encode_uint_var (sc_next_push c) ++ blk hp) < 4611686018427387904 ->
  o_dec O sid (blk hp) = DHeaders hp -> fst (o_val O 3 hp) = true ->
  Zlen (blk h) < 4611686018427387904 -> Forall (fun d => Zlen d < 4611686018427387904) body ->
  match tr with Some t => Zlen (blk t) < 4611686018427387904 /\ o_dec O sid (blk t) = DHeaders t /\ fst (o_val O 2 t) = true
              | None => True end ->
  o_dec O sid (blk h) = DHeaders h -> o_val O 1 h = (true, ecl) ->
  cl_ok ecl (Zlen (concat body)) ->
  first ++ concat parts = stream_bytes sid (swrites c (OPush sid (encb hp) (blk hp) :: msg_ops sid blk encb h body tr)) ->
  events_of (feed fx O true (fresh_recv sid None sy None) (mk_chunks first parts true))
  = Some (APush sid (sc_next_push c) hp :: msg_atoms sid None h body tr).
Proof. exact roundtrip_promise. Qed.
Print Assumptions h3_roundtrip_push_promise.

Theorem h3_roundtrip_push_send : forall (sid : Z) (blk encb : Z -> list Z) (c : sconn) (m hp h : Z) (body : list (list Z)) (tr : option Z),
  sc_client c = false -> sid mod 4 = 0 -> sc_max_push c = Some m -> sc_next_push c < m ->
  sc_enc c <> sid -> sc_next_uni c <> sid -> sget c sid = mkSS sid 0 false ->
  let ws := swrites c (OPush sid (encb hp) (blk hp) :: msg_ops sid blk encb h body tr) in
  stream_bytes sid ws = encode_frame 5 (encode_uint_var (sc_next_push c) ++ blk hp) ++ msg_bytes blk h body tr /\
  stream_fin sid ws = true /\
  exists rest, ws = [(sc_enc c, encb hp, false);
                     (sid, encode_frame 5 (encode_uint_var (sc_next_push c) ++ blk hp), false);
                     (sc_next_uni c, encode_uint_var 1, false);
                     (sc_next_uni c, encode_uint_var (sc_next_push c), false)] ++ rest.
Proof. exact send_promise_message. Qed.
Print Assumptions h3_roundtrip_push_send.

(* ... and the PUSH STREAM: stream type 1, the push id, then a message (written by the same send_headers / send_data calls
   on the id send_push_promise returned): one delivery of that stream yields the message with the push id on every event *)
Theorem h3_roundtrip_push_stream : forall (fx : fixes) (O : oracle), fx_trunc fx = true -> fx_endmark fx = true ->
  forall (c : conn) (psid : Z) (blk : Z -> list Z) (pid h : Z) (body : list (list Z)) (tr ecl : option Z),
  0 <= pid < 4611686018427387904 ->
  Zlen (blk h) < 4611686018427387904 -> Forall (fun d => Zlen d < 4611686018427387904) body ->
  match tr with Some t => Zlen (blk t) < 4611686018427387904 /\ o_dec O psid (blk t) = DHeaders t /\ fst (o_val O 2 t) = true
              | None => True end ->
  o_dec O psid (blk h) = DHeaders h -> o_val O (if c_client c then 1 else 0) h = (true, ecl) ->
  cl_ok ecl (Zlen (concat body)) ->
  exists e st',
    uni_full fx O (new_stream psid) c (encode_uint_var 1 ++ encode_uint_var pid ++ msg_bytes blk h body tr) true = UF e st' c [] /\
    norm e = msg_atoms psid (Some pid) h body tr.
Proof. exact recv_push_stream. Qed.
Print Assumptions h3_roundtrip_push_stream.

(* its two halves: what the calls write on their stream, and what a whole delivery of a well-formed message yields *)
Theorem h3_roundtrip_send : forall (sid : Z) (blk encb : Z -> list Z) (c : sconn) (h : Z) (body : list (list Z)) (tr : option Z),
  sc_enc c <> sid -> sget c sid = mkSS sid 0 false ->
  stream_bytes sid (swrites c (msg_ops sid blk encb h body tr)) = msg_bytes blk h body tr /\
  stream_fin sid (swrites c (msg_ops sid blk encb h body tr)) = true.
Proof. exact send_message_split. Qed.
Print Assumptions h3_roundtrip_send.

(* frames survive: decode (encode) = id for varints and frames, every value below 2^62 *)
Theorem h3_roundtrip_varint : forall v rest, 0 <= v < 4611686018427387904 ->
  pull_uint_var (encode_uint_var v ++ rest) = Some (v, rest).
Proof. exact pull_encode. Qed.
Print Assumptions h3_roundtrip_varint.

(* CROSS-STREAM INTERLEAVING of request / response (bidirectional) streams.  A schedule = a list of deliveries (stream id,
   bytes, FIN); proj sid = the deliveries of one stream, in order.  crun = handle_event on the whole schedule (Some: every
   delivery returned events); lrun = the parser of one stream fed its own deliveries alone.  The QPACK / validation answers
   are the same function for every call (the streams do not share changing QPACK state: no encoder-stream data arrives
   during the schedule; blocks that have to wait simply stay blocked).
   PROJECTION: what the connection returns for the deliveries of stream sid is what the stream's own parser returns for
   them, whatever was delivered to other streams in between. *)
Theorem interleaving_projection : forall fx O tr c outs,
  c_done c = false -> c_sent_end c = [] -> bidi tr -> crun fx O c tr = Some outs ->
  forall sid, lrun fx O (c_client c) (fst (get_or_create c sid)) (proj sid tr) = Some (outs_of sid outs).
Proof. exact interleave_projection. Qed.
Print Assumptions interleaving_projection.

(* ANY INTERLEAVING that preserves the order of the deliveries of each stream (forall sid, proj sid tr1 = proj sid tr2): if
   one schedule is accepted so is the other, and stream by stream, delivery by delivery, the events returned are equal
   (not only their normal form).  With chunking_independent per stream: the events of a connection depend neither on how
   each stream's bytes are cut nor on how the deliveries of different streams are interleaved. *)
Theorem interleaving_independent_streams : forall fx O tr1 tr2 c outs1,
  c_done c = false -> c_sent_end c = [] -> bidi tr1 -> bidi tr2 ->
  (forall sid, proj sid tr1 = proj sid tr2) ->
  crun fx O c tr1 = Some outs1 ->
  exists outs2, crun fx O c tr2 = Some outs2 /\ forall sid, outs_of sid outs1 = outs_of sid outs2.
Proof. exact interleave_any. Qed.
Print Assumptions interleaving_independent_streams.

(* SEVERAL BLOCKED STREAMS: streams A and B each receive a HEADERS frame (plus any further bytes, with or without FIN)
   whose block needs encoder-stream data.  Schedule 1: both are delivered first (both wait; StreamBlocked twice), then ONE
   encoder-stream delivery reports [A; B] and both are resumed, in the decoder's order, inside that one handle_event call.
   Schedule 2: the encoder stream first, then A, then B (nothing waits).  When both header lists are accepted and what
   follows them parses (the two hd_decoded hypotheses: the outcome of the stream's own parser), schedule 1 returns
   eA ++ eB from the encoder-stream call and schedule 2 returns eA and eB from the calls of the two streams: the same
   events, per stream and in total.  (If the second resumed stream is refused, schedule 1 closes the connection inside
   that call and eA is never returned: events computed before a connection error in the same call are dropped, as for a
   single stream.) *)
Theorem interleaving_independent_two_blocked_streams :
  forall fx, fx_trunc fx = true -> fx_endmark fx = true -> fx_pushblock fx = true ->
  forall c0 A B es dataA blockA restA finA dataB blockB restB finB encdata encpayload OA OB O2 eA sA' eB sB',
  c_done c0 = false -> c_sent_end c0 = [] -> is_uni A = false -> is_uni B = false -> is_uni es = true -> A <> B ->
  hd_ready c0 A -> hd_ready c0 B -> enc_ready c0 es encdata encpayload ->
  frame_at dataA 1 blockA restA -> frame_at dataB 1 blockB restB ->
  o_enc OA encpayload = EUnblocked [] ->
  o_dec OB A blockA = DBlocked -> o_dec OB B blockB = DBlocked ->
  o_enc O2 encpayload = EUnblocked [A; B] ->
  o_resume O2 A = o_dec O2 A blockA -> o_resume O2 B = o_dec O2 B blockB ->
  hd_decoded fx O2 (c_client c0) (fst (get_or_create c0 A)) finA restA (o_dec O2 A blockA) = RVal eA sA' ->
  hd_decoded fx O2 (c_client c0) (fst (get_or_create c0 B)) finB restB (o_dec O2 B blockB) = RVal eB sB' ->
  run fx c0 [(QStream A dataA finA, OB); (QStream B dataB finB, OB); (QStream es encdata false, O2)]
    = [Events []; Events []; Events (eA ++ eB)] /\
  run fx c0 [(QStream es encdata false, OA); (QStream A dataA finA, O2); (QStream B dataB finB, O2)]
    = [Events []; Events eA; Events eB].
Proof. exact two_blocked. Qed.
Print Assumptions interleaving_independent_two_blocked_streams.

(* ... with UNIDIRECTIONAL deliveries in the schedule (control stream frames, push streams, WebTransport, QPACK decoder
   stream, unknown types, and encoder-stream deliveries that unblock nothing: quiet): the events of every request /
   response stream are still exactly what its own parser returns for its own deliveries, whatever is delivered in between
   to other request streams and to unidirectional streams; hence two accepted schedules that deliver the same chunks to a
   request stream in the same order return the same events for it. *)
Theorem interleaving_projection_mixed : forall fx O tr c outs,
  c_done c = false -> c_sent_end c = [] -> quiet O -> crun fx O c tr = Some outs ->
  forall sid, is_uni sid = false ->
  lrun fx O (c_client c) (fst (get_or_create c sid)) (proj sid tr) = Some (outs_of sid outs).
Proof. exact interleave_projection_mixed. Qed.
Print Assumptions interleaving_projection_mixed.

Theorem interleaving_independent_mixed : forall fx O tr1 tr2 c outs1 outs2,
  c_done c = false -> c_sent_end c = [] -> quiet O ->
  crun fx O c tr1 = Some outs1 -> crun fx O c tr2 = Some outs2 ->
  forall sid, is_uni sid = false -> proj sid tr1 = proj sid tr2 -> outs_of sid outs1 = outs_of sid outs2.
Proof. exact interleave_independent_mixed. Qed.
Print Assumptions interleaving_independent_mixed.

(* ANY NUMBER of blocked streams.  L = a list of distinct request / response streams, each with a delivery that starts with a
   HEADERS frame whose block needs encoder-stream data (item_ok: the stream is new or between two frames, the decoder
   answers StreamBlocked before the encoder data, resuming = decoding, and the stream's own parser returns the events i_ev
   once the block is decoded).  Schedule 1: every stream of L is delivered (each waits, no events), then ONE encoder-stream
   delivery reports ids L and all are resumed in that order inside that call: Events (concat of their events).  Schedule 2:
   the encoder stream first, then the streams: Events (i_ev it) for each.  (many_blocked_example: satisfiable.) *)
Theorem interleaving_independent_any_number_of_blocked_streams :
  forall fx, fx_trunc fx = true -> fx_endmark fx = true -> fx_pushblock fx = true ->
  forall (c0 : conn) (OB O2 : oracle) (L : list item) (es : Z) (encdata encpayload : list Z) (OA : oracle),
  c_done c0 = false -> c_sent_end c0 = [] -> is_uni es = true ->
  NoDup (ids L) -> Forall (item_ok fx c0 OB O2) L -> enc_ready c0 es encdata encpayload ->
  o_enc OA encpayload = EUnblocked [] -> o_enc O2 encpayload = EUnblocked (ids L) ->
  run fx c0 (map (dlv OB) L ++ [(QStream es encdata false, O2)])
    = map (fun _ => Events []) L ++ [Events (concat (map i_ev L))] /\
  run fx c0 ((QStream es encdata false, OA) :: map (dlv O2) L)
    = Events [] :: map (fun it => Events (i_ev it)) L.
Proof. exact many_blocked. Qed.
Print Assumptions interleaving_independent_any_number_of_blocked_streams.

(* A waiting HEADERS frame PRECEDED by other frames of the same delivery, on a stream in ANY state a delivery can leave
   behind (stream_ok): the delivery is pre ++ (HEADERS frame ++ rest), where [pre] is parsed completely and identically
   before and after the encoder data is known (events ePre, leaving the stream between two frames: state s1).  Stream first:
   the call returns eB1 (the events of [pre], in normal form) and the stream waits; the encoder-stream delivery resumes it
   and returns oB.  Encoder stream first: the one call of the stream returns oA.  Then: both orders report the same
   normalised events (pre's events followed by what the resumed frame and the rest yield), or close with the same code. *)
Theorem interleaving_independent_headers_after_prefix :
  forall fx, fx_trunc fx = true -> fx_endmark fx = true -> fx_pushblock fx = true ->
  forall c0 sid es pre data block rest fin encdata encpayload OA OB O2 ePre s1,
  c_done c0 = false -> c_sent_end c0 = [] -> is_uni sid = false -> is_uni es = true ->
  stream_ok (fst (get_or_create c0 sid)) -> enc_ready c0 es encdata encpayload ->
  rq_recv fx OB (c_client c0) (fst (get_or_create c0 sid)) pre false = RVal ePre s1 ->
  rq_recv fx O2 (c_client c0) (fst (get_or_create c0 sid)) pre false = RVal ePre s1 ->
  hd_boundary s1 ->
  frame_at data 1 block rest ->
  o_enc OA encpayload = EUnblocked [] ->
  o_dec OB sid block = DBlocked ->
  o_enc O2 encpayload = EUnblocked [sid] -> o_resume O2 sid = o_dec O2 sid block -> o_dec O2 sid block <> DBlocked ->
  exists eB1 oB oA,
    run fx c0 [(QStream sid (pre ++ data) fin, OB); (QStream es encdata false, O2)] = [Events eB1; oB] /\
    run fx c0 [(QStream es encdata false, OA); (QStream sid (pre ++ data) fin, O2)] = [Events []; oA] /\
    norm eB1 = norm ePre /\
    match hd_decoded fx O2 (c_client c0) s1 fin rest (o_dec O2 sid block) with
    | RVal eRes _ => oB = Events eRes /\ exists eA, oA = Events eA /\ norm eA = norm (ePre ++ eRes)
    | RErr k => oB = Closed k /\ oA = Closed k
    | RExn k => oB = Raised k /\ oA = Raised k
    end.
Proof. exact hd_interleave_prefix. Qed.
Print Assumptions interleaving_independent_headers_after_prefix.
