(* C09  A live connection always has a timer, and closing always terminates.
   Only statements here; the model is coq/model/Timers.v (connection.py's timer / closing state
   machine; times are integers on any ordered grid, every quantity the timer logic takes from
   recovery or from the packet parser is an input of the op), vocabulary in model/TimersSpec.v,
   proofs in proofs/TimersP.v.  All theorems quantify over ALL op sequences that begin with
   connect() on a client or with a first receive_datagram() on a server. *)
From AQ Require Import lib.Base model.Timers model.TimersSpec proofs.TimersP model.TimersFull model.TimersFullSpec proofs.TimersFullP.
From AQ Require model.RecBase model.Recovery proofs.TimersFullLink model.AckQueue proofs.TimersFullAck.
From AQ Require Import gen.C12Consts model.RangeSet.
From AQ Require Import gen.C09Consts proofs.TimersCloseP.

(* Until termination _close_at is set: get_timer() does not raise (the comparison with None is
   unreachable) and returns a finite time not later than _close_at, whatever the ack / loss /
   pacing deadlines are; handle_timer() does not raise either. *)
Theorem timer_defined : forall client o ops,
  first_op client o ->
  c_state (snd (run (conn_init client) (o :: ops))) <> TERMINATED ->
  exists d, c_close_at (snd (run (conn_init client) (o :: ops))) = Some d /\
    (forall acks loss pacing, exists v,
        fst (get_timer acks loss pacing (snd (run (conn_init client) (o :: ops)))) = Ok (Some v) /\ v <= d) /\
    (forall u, exists c', timer u (snd (run (conn_init client) (o :: ops))) = Ok c').
Proof. exact timer_defined_lemma. Qed.
Print Assumptions timer_defined.

(* At every moment of every run: the list of all events ever queued (popped ++ still queued)
   contains no ConnectionTerminated while the state is not TERMINATED, and once it is TERMINATED
   exactly one, as the LAST element (of a real kind: close(), error, peer close, idle, VN). *)
Theorem terminated_once : forall client o ops,
  first_op client o ->
  hist_ok (history (fst (run (conn_init client) (o :: ops))) (snd (run (conn_init client) (o :: ops))))
          (snd (run (conn_init client) (o :: ops))).
Proof. exact terminated_once_lemma. Qed.
Print Assumptions terminated_once.

(* After termination: receive_datagram changes nothing (no event), datagrams_to_send returns no
   datagram (also when no network path was ever adopted -- the server whose only input was
   unparsable; IndexError before fix ed82a68), get_timer() is None, close() and connect() have no effect, and handle_timer()
   raises TypeError (so it cannot queue a second event). *)
Theorem terminated_quiet : forall client o ops, first_op client o ->
  c_state (snd (run (conn_init client) (o :: ops))) = TERMINATED ->
  let c := snd (run (conn_init client) (o :: ops)) in
  (forall now idle0 ps, receive now idle0 ps c = c) /\
  (forall now pto3 p nev, send now pto3 p nev c = Ok (SNone, c)) /\
  (forall acks loss pacing, get_timer acks loss pacing c = (Ok None, c)) /\
  do_close EV_LOCAL c = c /\
  (forall now idle, connect now idle c = Err X_ASSERT) /\
  (forall u, timer u c = Err X_TYPE).
Proof. exact terminated_quiet_lemma. Qed.
Print Assumptions terminated_quiet.

(* close_deadline.  (1) CLOSING is entered only by datagrams_to_send with a pending close, and then
   _close_at = now + 3 PTO; (2) DRAINING only by a processed packet carrying CONNECTION_CLOSE, and
   then _close_at = now + 3 PTO; (3) once CLOSING / DRAINING with deadline d, after ANY further ops a
   handle_timer(u) with u >= d leaves the connection TERMINATED; (4) in any started state
   handle_timer at or after _close_at (idle deadline included) terminates and queues the event,
   before it nothing happens; (5) a processed packet re-arms the idle deadline to now + idle. *)
Theorem close_deadline_closing : forall now pto3 p nev c s c',
  send now pto3 p nev c = Ok (s, c') -> is_end (c_state c) = false -> is_end (c_state c') = true ->
  c_state c' = CLOSING /\ c_close_at c' = Some (now + pto3) /\ c_close_pending c = true /\ s <> SData.
Proof. exact send_enters_closing. Qed.
Print Assumptions close_deadline_closing.

Theorem close_deadline_draining : forall now idle0 ps c,
  is_end (c_state c) = false -> closing_state (c_state (receive now idle0 ps c)) ->
  c_state (receive now idle0 ps c) = DRAINING /\
  exists nev pto3 err idle, In (PProc nev (Some pto3) err idle) ps /\
    c_close_at (receive now idle0 ps c) = Some (now + pto3).
Proof. exact receive_draining. Qed.
Print Assumptions close_deadline_draining.

Theorem close_deadline_terminates : forall client o ops d more u, first_op client o ->
  closing_state (c_state (snd (run (conn_init client) (o :: ops)))) ->
  c_close_at (snd (run (conn_init client) (o :: ops))) = Some d -> u >= d ->
  c_state (snd (run (snd (run (conn_init client) (o :: ops))) (more ++ [OTimer u]))) = TERMINATED.
Proof. exact close_deadline_terminates_lemma. Qed.
Print Assumptions close_deadline_terminates.

Theorem close_deadline_timer : forall client o ops d u, first_op client o ->
  c_close_at (snd (run (conn_init client) (o :: ops))) = Some d ->
  (u >= d -> exists c' k, timer u (snd (run (conn_init client) (o :: ops))) = Ok c' /\
       c_state c' = TERMINATED /\ c_close_at c' = None /\ is_term_kind k /\
       c_events c' = c_events (snd (run (conn_init client) (o :: ops))) ++ [k]) /\
  (u < d -> timer u (snd (run (conn_init client) (o :: ops))) = Ok (snd (run (conn_init client) (o :: ops)))).
Proof. exact close_deadline_timer_lemma. Qed.
Print Assumptions close_deadline_timer.

Theorem idle_rearmed : forall now idle0 nev idle c,
  is_end (c_state c) = false -> c_close_pending c = false ->
  c_close_at (receive now idle0 [PProc nev None false idle] c) = Some (now + idle) /\
  is_end (c_state (receive now idle0 [PProc nev None false idle] c)) = false.
Proof. exact receive_rearms_idle. Qed.
Print Assumptions idle_rearmed.

(* closing_sends_only_close.  Once a close has begun (close() accepted, or state in END_STATES), over
   ANY further ops datagrams_to_send never returns ordinary datagrams and returns the closing
   datagram(s) at most once; in END_STATES it returns nothing at all.  close() on a connection with
   no close event yet makes the close begin. *)
Theorem closing_sends_only_close : forall c ops, began c ->
  n_data (fst (run c ops)) = O /\ (n_close (fst (run c ops)) <= 1)%nat.
Proof. exact (fun c ops => began_run ops c). Qed.
Print Assumptions closing_sends_only_close.

Theorem end_states_send_nothing : forall c ops, is_end (c_state c) = true ->
  n_data (fst (run c ops)) = O /\ n_close (fst (run c ops)) = O /\ is_end (c_state (snd (run c ops))) = true.
Proof. exact (fun c ops => end_run ops c). Qed.
Print Assumptions end_states_send_nothing.

Theorem close_begins : forall k c, c_close_event c = None -> began (do_close k c).
Proof. exact began_do_close. Qed.
Print Assumptions close_begins.

(* The close round.  `send_at uncond` is datagrams_to_send with the position of `self._close_pending = False;
   self._close_begin(is_initiator=True, now=now)` as a parameter (true: last statements of the close branch, before
   builder.flush(); false: in the post-flush `if datagrams:` block); gen/C09Consts.CLOSE_BEGIN_UNCONDITIONAL is the
   position found in the tree under check (AST probe, fail closed).  In the tree's position EVERY close round -- a
   pending close on a connection that has a network path and is not in END_STATES -- leaves the connection CLOSING with
   _close_at = now + 3 PTO and _close_pending = False, for BOTH values of `produced` (a close round can write nothing:
   every packet type with send keys is skipped when its header leaves no room, fix 26d6ec4); it returns closing
   datagrams iff some were produced. *)
Theorem close_round_always_begins : forall now pto3 produced nev c, close_round_ready c ->
  exists c', send_at CLOSE_BEGIN_UNCONDITIONAL now pto3 produced nev c = Ok (if produced then SClose else SNone, c') /\
    c_state c' = CLOSING /\ c_close_at c' = Some (now + pto3) /\ c_close_pending c' = false.
Proof. exact close_round_always_begins_lemma. Qed.
Print Assumptions close_round_always_begins.

(* From close() to the termination event.  Any reachable live connection with a network path and no close event yet;
   close(); any ops that are not datagrams_to_send (receive_datagram is ignored, get_timer / next_event / early timers
   are harmless; the idle deadline may fire: then it is already TERMINATED); the first datagrams_to_send at `now` with
   3 PTO = pto3, WHATEVER it produced; then any ops l1 whose handle_timer calls are all before now + pto3; then
   handle_timer(v), v >= now + pto3.  The close round leaves CLOSING / now + pto3 / not pending; throughout l1 the state
   stays CLOSING and get_timer() returns exactly now + pto3 (so a caller that honours get_timer fires at that time);
   handle_timer(v) reports termination -- exactly one event, appended by this call -- and the connection stays
   TERMINATED whatever follows (with terminated_once: exactly one ConnectionTerminated in the whole run). *)
Theorem close_terminates_within : forall client o ops pre now pto3 produced nev l1 v,
  first_op client o ->
  let c0 := snd (run (conn_init client) (o :: ops)) in
  is_end (c_state c0) = false -> c_has_path c0 = true -> c_close_event c0 = None ->
  no_send pre -> timers_before (now + pto3) l1 -> v >= now + pto3 ->
  let c1 := snd (run c0 (OClose :: pre)) in
  let c2 := after_send_at CLOSE_BEGIN_UNCONDITIONAL now pto3 produced nev c1 in
  let c3 := snd (run c2 l1) in
  c_state c1 = TERMINATED \/
  (c_state c2 = CLOSING /\ c_close_at c2 = Some (now + pto3) /\ c_close_pending c2 = false /\
   c_state c3 = CLOSING /\
   (forall acks loss pacing, fst (get_timer acks loss pacing c3) = Ok (Some (now + pto3))) /\
   exists c4 k, timer v c3 = Ok c4 /\ c_state c4 = TERMINATED /\ c_close_at c4 = None /\ is_term_kind k /\
                c_events c4 = c_events c3 ++ [k] /\
                forall more, c_state (snd (run c4 more)) = TERMINATED).
Proof. exact close_terminates_within_lemma. Qed.
Print Assumptions close_terminates_within.

(* Why the position matters: a reachable client (connect, Retry accepted, close()) for which a close round that writes
   nothing is a NO-OP when the transition sits under `if datagrams:` (close still pending, state unchanged, _close_at
   still the idle deadline 61010: a fixed point of datagrams_to_send), while in the tree's position it starts the
   closing period. *)
Theorem close_round_position_matters :
  first_op true (OConnect 1000 60000) /\
  let c := snd (run (conn_init true) stuck_ops) in
  close_round_ready c /\ c_close_at c = Some 61010 /\
  (forall now pto3 nev, send_at false now pto3 false nev c = Ok (SNone, c)) /\
  (forall now pto3 nev, exists c', send_at true now pto3 false nev c = Ok (SNone, c') /\ c_state c' = CLOSING /\
                                   c_close_at c' = Some (now + pto3)).
Proof. exact close_round_position_matters_lemma. Qed.
Print Assumptions close_round_position_matters.

(* ---------------------------------------------------------------------------------------------------------------
   The composed model (model/TimersFull.v): the timer sources are STATE -- per-space ack_at / loss_time /
   ack_eliciting_in_flight / discarded, peer_completed_address_validation, _pto_count, _pacing_at -- armed and cleared as
   the code does it; get_timer() is Timers.get_timer applied to the sources computed from that state.  [reset] = does
   datagrams_to_send clear _pacing_at first (docs/C09-fix-1.patch; the tree is probed: gen/C09Consts.PACING_RESET). *)

(* Every run of the composed model is a run of model/Timers.v with the same per-call results and the same connection
   state: the 11 theorems above hold of it (timer_defined: for the sources it computes). *)
Theorem full_refines_timers : forall reset client o ops, ffirst_op client o ->
  exists o' ops', first_op client o' /\
    fst (frun reset (full_init client) (o :: ops)) = fst (run (conn_init client) (o' :: ops')) /\
    f_c (snd (frun reset (full_init client) (o :: ops))) = snd (run (conn_init client) (o' :: ops')).
Proof. exact full_refines_timers_lemma. Qed.
Print Assumptions full_refines_timers.

(* timer_sources_sound.  In every reachable state that is not TERMINATED: _close_at = Some d; in CLOSING / DRAINING
   get_timer() = d; otherwise get_timer() = v where (v, s) = timer_src: v is a lower bound of every armed source
   (_close_at, each space's ack_at, the loss detection time, _pacing_at) and IS the source s, which is legitimate:
   an ack_at only of a space that is not discarded and owes an ACK (an ack-eliciting packet was recorded since the
   last ACK frame); a loss_time only of a non-discarded space, the one _get_loss_space() picks; the PTO deadline only
   when no space has a loss_time and (the peer has not completed address validation or a non-discarded space has
   ack-eliciting packets in flight).  Every space satisfies sp_ok: a discarded space has ack_at = loss_time = None and
   nothing in flight, and ack_at is armed exactly while an ACK is owed. *)
Theorem timer_sources_sound : forall reset client o ops ptod, ffirst_op client o ->
  let f := snd (frun reset (full_init client) (o :: ops)) in
  c_state (f_c f) <> TERMINATED ->
  exists d, c_close_at (f_c f) = Some d /\
    (is_end (c_state (f_c f)) = true -> fst (fget_timer ptod f) = Ok (Some d)) /\
    (is_end (c_state (f_c f)) = false ->
       fst (fget_timer ptod f) = Ok (Some (fst (timer_src ptod d f))) /\
       src_legit ptod d f (fst (timer_src ptod d f)) (snd (timer_src ptod d f)) /\
       lower_bound ptod d f (fst (timer_src ptod d f))) /\
    Forall sp_ok (f_sp f).
Proof. exact timer_sources_sound_lemma. Qed.
Print Assumptions timer_sources_sound.

(* timer_progress (see progress_of).  Reachable live state, get_timer() = v from source s; the adapter fires
   handle_timer(v) and transmits datagrams_to_send(v).  s = _close_at: TERMINATED.  s = loss_time of space i:
   _detect_loss ran on exactly that space, which is not discarded (its new loss_time is the value _detect_loss computed;
   later than v in exact arithmetic: loss_time_advances_exact; floats: C19's O3(a)).  s = PTO: _pto_count + 1 and a probe
   is scheduled.  s = ack_at of space i: provided the ordinary branch is taken and the packet of that space can be started
   and has room for the frame (ack_can_send: keys, no QuicPacketBuilderStop before it, for the application space
   _handshake_complete) the ACK is written and ack_at = None afterwards -- without that premise it can stay (observation
   O1, and a server holding 0-RTT data before the handshake completes).  s = _pacing_at: provided the pacer answers None
   or a time after now, and provided (reset = true, i.e. the fix) or _write_application is reached and consults the
   pacer: afterwards the connection is closing or _pacing_at is None or later than v. *)
Theorem timer_progress : forall reset client o ops ptod pto3 te w d v s, ffirst_op client o ->
  let f := snd (frun reset (full_init client) (o :: ops)) in
  c_close_at (f_c f) = Some d -> is_end (c_state (f_c f)) = false -> timer_src ptod d f = (v, s) ->
  progress_of reset ptod pto3 te w f v s.
Proof. exact timer_progress_lemma. Qed.
Print Assumptions timer_progress.

(* timer_progress_pacing_refuted.  The code as it is (reset = false): there is a server history (stale_history) after
   which get_timer() = v = _pacing_at in a CONNECTED state, and firing handle_timer(v); datagrams_to_send(v) --
   _write_handshake raises QuicPacketBuilderStop under the anti-amplification limit, _write_application is not reached
   -- returns nothing and leaves the connection in exactly the same state with get_timer() = v again: honouring
   get_timer() loops forever (spin n = the state after n rounds) until some other input arrives.
   Replayed on the real QuicConnection by docs/C09-repro-pacing.py. *)
Theorem timer_progress_pacing_refuted :
  exists ops ptod d v,
    let f := snd (frun false (full_init false) ops) in
    (exists o t, ops = o :: t /\ ffirst_op false o) /\
    c_close_at (f_c f) = Some d /\ c_state (f_c f) = CONNECTED /\
    timer_src ptod d f = (v, SrcPacing) /\ pacer_sane v stale_send /\
    fst (fstep false f (FGetTimer ptod)) = RTimer (Some v) /\
    let f0 := snd (fstep false f (FGetTimer ptod)) in
    fst (frun false f0 (stale_loop ptod v)) = [RUnit; RSent SNone; RTimer (Some v)] /\
    forall n, spin false n (stale_loop ptod v) f0 = f0.
Proof. exact timer_progress_pacing_refuted_lemma. Qed.
Print Assumptions timer_progress_pacing_refuted.

(* With the reset (docs/C09-fix-1.patch) the same history does not spin: one round clears _pacing_at and the next
   get_timer() is the PTO deadline. *)
Theorem timer_progress_pacing_fixed :
  let f := snd (frun true (full_init false) stale_history) in
  let f0 := snd (fstep true f (FGetTimer 601)) in
  timer_src 601 60200 f = (202, SrcPacing) /\
  f_pacing (snd (frun true f0 (stale_loop 601 202))) = None /\
  fst (frun true f0 (stale_loop 601 202)) = [RUnit; RSent SNone; RTimer (Some 601)].
Proof. exact stale_history_fixed. Qed.
Print Assumptions timer_progress_pacing_fixed.

(* Link to C08's model of recovery.py (model/Recovery.v, any congestion controller, any float interface whose `<` on
   times is the order of the time grid): the loss detection source of the composed model -- loss_time of the first space
   with the smallest loss_time, else the PTO deadline when the peer has not completed address validation or
   ack-eliciting packets are in flight, else nothing -- IS Recovery.loss_detection_time on the projected recovery state,
   with the PTO deadline VALUE _time_of_last_sent_ack_eliciting_packet + get_probe_timeout() * 2**_pto_count. *)
Theorem loss_timer_refines_recovery : forall (C : Type) (F : RecBase.fops Z),
  (forall a b, RecBase.fltb F a b = (a <? b)) -> forall (c : conn) (st : Recovery.rec (T:=Z) (C:=C)),
  Recovery.loss_detection_time F st = loss_time_of (TimersFullLink.abs_rec c st) (TimersFullLink.pto_deadline F st).
Proof. exact (fun C F => TimersFullLink.loss_time_link_lemma F). Qed.
Print Assumptions loss_timer_refines_recovery.

(* _detect_loss at now, exact arithmetic on the time grid (+, <=, < are those of Z): the loss_time it stores is None or
   later than now -- firing the loss timer at loss_time advances it.  Not true of floats (C19's O3(a)). *)
Theorem loss_time_advances_exact : forall (F : RecBase.fops Z), TimersFullLink.exact_arith F ->
  forall la pth now delay l lt0 lost x, (forall y, lt0 = Some y -> now < y) ->
  Recovery.detect_scan F la pth (now - delay) delay l lt0 = (lost, Some x) -> now < x.
Proof. exact TimersFullLink.detect_scan_advances_lemma. Qed.
Print Assumptions loss_time_advances_exact.

(* Link to C12's model (model/AckQueue.v): under "record packet as received", _write_ack_frame and discard_space the
   ack_at / discarded fields of a space of the composed model move exactly as AckQueue's; and the minimum C12's
   get_timer_le is about is the fold of Timers.get_timer. *)
Theorem ack_at_refines_ackqueue : forall s pn elic t d lt ae ow delay room r s',
  (let capnow := CAP_ACK_NOW && (Zlen (add pn (pn + 1) (AckQueue.aq s)) >=? MAX_ACK_RANGES) in
   ts_ack_at (ts_record (TimersFullAck.abs_ack s lt ae ow) elic t d capnow) = AckQueue.ack_at (AckQueue.record s pn elic t d) /\
   ts_disc (ts_record (TimersFullAck.abs_ack s lt ae ow) elic t d capnow) = AckQueue.disc (AckQueue.record s pn elic t d)) /\
  (AckQueue.write_ack s delay room = (r, s') ->
   AckQueue.disc s' = AckQueue.disc s /\
   match r with
   | AckQueue.SFrame _ _ => AckQueue.ack_at s' = ts_ack_at (ts_ack_written (TimersFullAck.abs_ack s None 0 0))
   | _ => AckQueue.ack_at s' = AckQueue.ack_at s
   end) /\
  (ts_ack_at (ts_discard (TimersFullAck.abs_ack s lt ae ow)) = AckQueue.ack_at (AckQueue.discard s) /\
   ts_disc (ts_discard (TimersFullAck.abs_ack s lt ae ow)) = AckQueue.disc (AckQueue.discard s)).
Proof.
  exact (fun s pn elic t d lt ae ow delay room r s' =>
    conj (TimersFullAck.record_link_lemma s pn elic t d lt ae ow)
         (conj (TimersFullAck.write_ack_link_lemma s delay room r s') (TimersFullAck.discard_link_lemma s lt ae ow))).
Qed.
Print Assumptions ack_at_refines_ackqueue.

Theorem get_timer_refines_ackqueue : forall srcs d,
  fold_left (fun cur a => tmin a cur) srcs (Ok (Some d)) = Ok (Some (AckQueue.get_timer d srcs)).
Proof. exact TimersFullAck.get_timer_link_lemma. Qed.
Print Assumptions get_timer_refines_ackqueue.
