(* C09  A live connection always has a timer, and closing always terminates.
   Only statements here; the model is coq/model/Timers.v (connection.py's timer / closing state
   machine; times are integers on any ordered grid, every quantity the timer logic takes from
   recovery or from the packet parser is an input of the op), vocabulary in model/TimersSpec.v,
   proofs in proofs/TimersP.v.  All theorems quantify over ALL op sequences that begin with
   connect() on a client or with a first receive_datagram() on a server. *)
From AQ Require Import lib.Base model.Timers model.TimersSpec proofs.TimersP.

(* Until termination _close_at is set: get_timer() does not raise (the comparison with None is
   unreachable) and returns a finite time not later than _close_at, whatever the ack / loss /
   pacing deadlines are; handle_timer() does not raise either. *)
Theorem timer_defined : forall client o ops,
  first_op client o ->
  c_state (snd (run (conn_init client) (o :: ops))) <> TERMINATED ->
  exists d, c_close_at (snd (run (conn_init client) (o :: ops))) = Some d /\
    (forall acks loss pacing, exists v,
        fst (get_timer acks loss pacing (snd (run (conn_init client) (o :: ops)))) = Ok (Some v) /\ v <= d) /\
    (forall u, exists c', timer u (snd (run (conn_init client) (o :: ops))) = Ok c').
Proof. exact timer_defined_lemma. Qed.
Print Assumptions timer_defined.

(* At every moment of every run: the list of all events ever queued (popped ++ still queued)
   contains no ConnectionTerminated while the state is not TERMINATED, and once it is TERMINATED
   exactly one, as the LAST element (of a real kind: close(), error, peer close, idle, VN). *)
Theorem terminated_once : forall client o ops,
  first_op client o ->
  hist_ok (history (fst (run (conn_init client) (o :: ops))) (snd (run (conn_init client) (o :: ops))))
          (snd (run (conn_init client) (o :: ops))).
Proof. exact terminated_once_lemma. Qed.
Print Assumptions terminated_once.

(* After termination: receive_datagram changes nothing (no event), datagrams_to_send returns no
   datagram (also when no network path was ever adopted -- the server whose only input was
   unparsable; IndexError before fix ed82a68), get_timer() is None, close() and connect() have no effect, and handle_timer()
   raises TypeError (so it cannot queue a second event). *)
Theorem terminated_quiet : forall client o ops, first_op client o ->
  c_state (snd (run (conn_init client) (o :: ops))) = TERMINATED ->
  let c := snd (run (conn_init client) (o :: ops)) in
  (forall now idle0 ps, receive now idle0 ps c = c) /\
  (forall now pto3 p nev, send now pto3 p nev c = Ok (SNone, c)) /\
  (forall acks loss pacing, get_timer acks loss pacing c = (Ok None, c)) /\
  do_close EV_LOCAL c = c /\
  (forall now idle, connect now idle c = Err X_ASSERT) /\
  (forall u, timer u c = Err X_TYPE).
Proof. exact terminated_quiet_lemma. Qed.
Print Assumptions terminated_quiet.

(* close_deadline.  (1) CLOSING is entered only by datagrams_to_send with a pending close, and then
   _close_at = now + 3 PTO; (2) DRAINING only by a processed packet carrying CONNECTION_CLOSE, and
   then _close_at = now + 3 PTO; (3) once CLOSING / DRAINING with deadline d, after ANY further ops a
   handle_timer(u) with u >= d leaves the connection TERMINATED; (4) in any started state
   handle_timer at or after _close_at (idle deadline included) terminates and queues the event,
   before it nothing happens; (5) a processed packet re-arms the idle deadline to now + idle. *)
Theorem close_deadline_closing : forall now pto3 p nev c s c',
  send now pto3 p nev c = Ok (s, c') -> is_end (c_state c) = false -> is_end (c_state c') = true ->
  c_state c' = CLOSING /\ c_close_at c' = Some (now + pto3) /\ c_close_pending c = true /\ s <> SData.
Proof. exact send_enters_closing. Qed.
Print Assumptions close_deadline_closing.

Theorem close_deadline_draining : forall now idle0 ps c,
  is_end (c_state c) = false -> closing_state (c_state (receive now idle0 ps c)) ->
  c_state (receive now idle0 ps c) = DRAINING /\
  exists nev pto3 err idle, In (PProc nev (Some pto3) err idle) ps /\
    c_close_at (receive now idle0 ps c) = Some (now + pto3).
Proof. exact receive_draining. Qed.
Print Assumptions close_deadline_draining.

Theorem close_deadline_terminates : forall client o ops d more u, first_op client o ->
  closing_state (c_state (snd (run (conn_init client) (o :: ops)))) ->
  c_close_at (snd (run (conn_init client) (o :: ops))) = Some d -> u >= d ->
  c_state (snd (run (snd (run (conn_init client) (o :: ops))) (more ++ [OTimer u]))) = TERMINATED.
Proof. exact close_deadline_terminates_lemma. Qed.
Print Assumptions close_deadline_terminates.

Theorem close_deadline_timer : forall client o ops d u, first_op client o ->
  c_close_at (snd (run (conn_init client) (o :: ops))) = Some d ->
  (u >= d -> exists c' k, timer u (snd (run (conn_init client) (o :: ops))) = Ok c' /\
       c_state c' = TERMINATED /\ c_close_at c' = None /\ is_term_kind k /\
       c_events c' = c_events (snd (run (conn_init client) (o :: ops))) ++ [k]) /\
  (u < d -> timer u (snd (run (conn_init client) (o :: ops))) = Ok (snd (run (conn_init client) (o :: ops)))).
Proof. exact close_deadline_timer_lemma. Qed.
Print Assumptions close_deadline_timer.

Theorem idle_rearmed : forall now idle0 nev idle c,
  is_end (c_state c) = false -> c_close_pending c = false ->
  c_close_at (receive now idle0 [PProc nev None false idle] c) = Some (now + idle) /\
  is_end (c_state (receive now idle0 [PProc nev None false idle] c)) = false.
Proof. exact receive_rearms_idle. Qed.
Print Assumptions idle_rearmed.

(* closing_sends_only_close.  Once a close has begun (close() accepted, or state in END_STATES), over
   ANY further ops datagrams_to_send never returns ordinary datagrams and returns the closing
   datagram(s) at most once; in END_STATES it returns nothing at all.  close() on a connection with
   no close event yet makes the close begin. *)
Theorem closing_sends_only_close : forall c ops, began c ->
  n_data (fst (run c ops)) = O /\ (n_close (fst (run c ops)) <= 1)%nat.
Proof. exact (fun c ops => began_run ops c). Qed.
Print Assumptions closing_sends_only_close.

Theorem end_states_send_nothing : forall c ops, is_end (c_state c) = true ->
  n_data (fst (run c ops)) = O /\ n_close (fst (run c ops)) = O /\ is_end (c_state (snd (run c ops))) = true.
Proof. exact (fun c ops => end_run ops c). Qed.
Print Assumptions end_states_send_nothing.

Theorem close_begins : forall k c, c_close_event c = None -> began (do_close k c).
Proof. exact began_do_close. Qed.
Print Assumptions close_begins.
