(* C12  Acknowledgements are sound and timely.
   Only statements here; proofs live in coq/proofs/AckQueueP.v / AckQueueP2.v, the model in coq/model/AckQueue.v
   (one packet number space of QuicConnection as of the tree WITH the ACK range cap, commit 8675461).

   [reach a s] (proofs/AckQueueP.v): s is reachable from a fresh space (a = true: the application space, false:
   Initial / Handshake) by ANY sequence of: handshake completion; decrypted packets with any packet number in
   [0, 2^62) -- any order, gaps, duplicates --, ack-eliciting or not, processed with or without a connection
   error, each acknowledging any of the ACK frames written so far (so any of our ACKs may be lost, and any
   acknowledgement of them too); datagrams_to_send at any time with any room in the packet and any pacer verdict;
   discarding the space (Initial / Handshake only); close().  [rcvd s] is the ghost set of recorded packet
   numbers, [mem x q] membership in a range set (proofs/RangeSetP.v). *)
From AQ Require Import lib.Base model.Codec model.Varint model.RangeSet model.AckFrame gen.C12Consts model.AckQueue
  proofs.RangeSetP proofs.AckQueueP proofs.AckQueueP2 proofs.AckQueueP3.

(* ack_sound, queue: the ack_queue only ever holds recorded packet numbers *)
Theorem ack_sound_queue : forall a s, reach a s -> forall x, mem x (aq s) -> In x (rcvd s).
Proof. exact ack_sound_queue_l. Qed.
Print Assumptions ack_sound_queue.

(* ack_sound, wire: an ACK frame that datagrams_to_send writes is the ACK type byte followed by bytes that the frame
   decoder of C17 (pull_ack_frame) turns back into EXACTLY the ranges q the frame was built from; q is the queue
   after the MAX_ACK_RANGES cap, at most MAX_ACK_RANGES ranges, every number in it was recorded in this space;
   the frame fits the capacity reserved for it, which fits the room start_frame checked (ack_frame_fits) *)
Theorem ack_sound_frame : forall a s t delay room blocked bytes q s', reach a s -> 0 <= delay < 2 ^ 62 ->
  send s t delay room blocked = (SFrame bytes q, s') ->
  q = cap_ranges (aq s) /\ (forall x, mem x q -> In x (rcvd s)) /\ Zlen q <= MAX_ACK_RANGES /\
  exists body, bytes = FT_ACK :: body /\ Zlen bytes <= ack_capacity q /\ ack_capacity q <= room /\
    forall rest, pull_ack_frame (body ++ rest) = Ok ((q, delay), rest).
Proof. exact ack_sound_frame_l. Qed.
Print Assumptions ack_sound_frame.

(* ack_frame_fits / the writer never raises: for every reachable state, every encodable delay, ANY room and pacer
   verdict, the ACK part of datagrams_to_send does not raise (no IndexError on an empty queue, no BufferWriteError,
   no ValueError); and processing a packet (subtract's assertion in _on_ack_delivery) does not raise either *)
Theorem ack_writer_never_raises : forall a s t delay room blocked, reach a s -> 0 <= delay < 2 ^ 62 ->
  forall k, fst (send s t delay room blocked) <> SExn k.
Proof. exact ack_writer_never_raises_l. Qed.
Print Assumptions ack_writer_never_raises.

Theorem recv_total : forall a s pn elic t d dels ok, reach a s -> wf_op s (Recv pn elic t d dels ok) ->
  exists s', recv s pn elic t d dels ok = Ok s'.
Proof. exact recv_total_l. Qed.
Print Assumptions recv_total.

(* get_timer() is never later than a pending ack_at (nor than _close_at) *)
Theorem get_timer_le : forall close_at srcs, get_timer close_at srcs <= close_at /\
  forall a, In (Some a) srcs -> get_timer close_at srcs <= a.
Proof. exact get_timer_le_l. Qed.
Print Assumptions get_timer_le.

(* the delay the endpoint waits (K_GRANULARITY) is within the max_ack_delay it advertises; both read from the source *)
Theorem ack_delay_within_advertised : 0 < ACK_DELAY_US <= ADV_MAX_ACK_DELAY_MS * 1000.
Proof. exact ack_delay_within_advertised_l. Qed.
Print Assumptions ack_delay_within_advertised.

(* ---- timeliness.  [reach_t dmax a s] (proofs/AckQueueP2.v): as [reach], and additionally the clock is monotone,
   every acknowledgement delay d = fl(now + _ack_delay) - now handed to the model is within dmax (the harness
   checks it against the advertised max_ack_delay on every op), the encoded delay field is encodable, and at every
   send the queue holds at most MAX_ACK_RANGES ranges (beyond that: ack_timely_cap_refuted).  [owed s] is the ghost
   list of (pn, arrival time) of ack-eliciting packets that carried the largest packet number when recorded
   (application space: after handshake completion) and that no ACK frame written since covers. *)

(* such a packet enters the list ... *)
Theorem owed_recorded : forall s pn elic t d dels ok s', recv s pn elic t d dels ok = Ok s' ->
  ok = true -> closing s = false -> disc s = false -> elic = true -> lrp s < pn -> (app s = true -> complete s = true) ->
  In (pn, t) (owed s') /\ lrp s' = pn.
Proof. exact owed_recorded_l. Qed.
Print Assumptions owed_recorded.

(* ... leaves it only through an ACK frame on the wire that covers it (ALL op sequences, no cap premise) ... *)
Theorem owed_leaves_only_by_ack : forall s o x, In x (owed s) -> ~ In x (owed (snd (step s o))) ->
  exists bytes q, fst (step s o) = OSend (SFrame bytes q) /\ mem (fst x) q.
Proof. exact owed_leaves_only_by_ack_l. Qed.
Print Assumptions owed_leaves_only_by_ack.

(* ... and while it is there (live connection, space not discarded) it is still queued and the ACK timer is armed no
   later than arrival + dmax: the pending ACK is never silently dropped (ack_timely, timer part; with get_timer_le:
   get_timer() <= arrival + dmax) *)
Theorem ack_timely_pending : forall dmax a s L t, reach_t dmax a s -> closing s = false -> disc s = false ->
  In (L, t) (owed s) -> mem L (aq s) /\ exists x, ack_at s = Some x /\ x <= t + dmax.
Proof. exact ack_timely_pending_l. Qed.
Print Assumptions ack_timely_pending.

(* ack_timely, send part (application space): a datagrams_to_send at u >= ack_at -- u > ack_at, or the pacer lets a
   packet through (the code skips pacing only when ack_at < now) -- whose packet has room for the frame writes an
   ACK frame built from the whole queue, which covers every owed packet; nothing stays owed, the timer is cleared *)
Theorem ack_timely_send : forall dmax s L t0 x u delay room blocked, reach_t dmax true s -> closing s = false ->
  In (L, t0) (owed s) -> ack_at s = Some x -> x <= u -> (x < u \/ blocked = false) -> clk s <= u ->
  Zlen (aq s) <= MAX_ACK_RANGES -> ack_capacity (aq s) <= room -> 0 <= delay < 2 ^ 62 ->
  exists bytes s', send s u delay room blocked = (SFrame bytes (aq s), s') /\ mem L (aq s) /\
    owed s' = [] /\ ack_at s' = None.
Proof. exact ack_timely_send_l. Qed.
Print Assumptions ack_timely_send.

(* Initial / Handshake: the next send that starts a packet of the space (with room) carries the ACK, at any time *)
Theorem hs_send_carries_ack : forall dmax s L t0 u delay room blocked, reach_t dmax false s -> closing s = false ->
  disc s = false -> In (L, t0) (owed s) -> clk s <= u ->
  Zlen (aq s) <= MAX_ACK_RANGES -> ack_capacity (aq s) <= room -> 0 <= delay < 2 ^ 62 ->
  exists bytes s', send s u delay room blocked = (SFrame bytes (aq s), s') /\ mem L (aq s) /\ owed s' = [].
Proof. exact hs_send_carries_ack_l. Qed.
Print Assumptions hs_send_carries_ack.

(* ---- pruning on ACK-of-ACK *)
(* what _on_ack_delivery(ACKED, highest) removes lies in [0, highest] ... *)
Theorem prune_only_below : forall q h q' x, wf q -> deliver q h = Ok q' -> mem x q -> ~ mem x q' -> 0 <= x <= h.
Proof. exact prune_only_below_l. Qed.
Print Assumptions prune_only_below.

(* ... and is never an owed packet, whichever of the ACK frames written so far get acknowledged, in any order *)
Theorem prune_keeps_owed : forall dmax a s L t dels q', reach_t dmax a s -> closing s = false -> disc s = false ->
  In (L, t) (owed s) -> (forall h, In h dels -> exists q, In (q, h) (frames s)) ->
  delivers (aq s) dels = Ok q' -> mem L q'.
Proof. exact prune_keeps_owed_l. Qed.
Print Assumptions prune_keeps_owed.

(* REFUTED: "pruning removes only packet numbers that an acknowledged ACK frame reported".  Witness
   (proofs/AckQueueP2.v prune_witness, replayed on the implementation: corpus/C12/prune-uncovered.json): packet 5 is
   acknowledged, packet 3 arrives late, the peer acknowledges the first ACK: 3 is recorded, in no frame ever
   written, no longer queued, and no timer is armed -- an ack-eliciting packet that is never acknowledged. *)
Theorem prune_uncovered_refuted : exists ops x, reach_run (init true) ops /\
  let s := run (init true) ops in
  In x (rcvd s) /\ ~ mem x (aq s) /\ (forall q h, In (q, h) (frames s) -> ~ mem x q) /\ ack_at s = None.
Proof. exact prune_uncovered_refuted_l. Qed.
Print Assumptions prune_uncovered_refuted.

(* ---- the range cap.  CAP_ACK_NOW / PACING_LE are probed from the source by tools/gen/c12_consts.py: true on a tree with
   docs/C12-fix-2.patch (once MAX_ACK_RANGES ranges are queued a pending ACK is due at once: ack_at = min(ack_at, now);
   pacing is skipped when ack_at <= now), false otherwise -- then the two theorems below hold vacuously and the open
   finding C12-F2 applies.
   [reach_d dmax a s] (proofs/AckQueueP3.v), the sans-IO driver discipline: as [reach], monotone clock, d <= dmax,
   encodable delay, any op other than a received packet at any time (sends with ANY room and pacer verdict), and every
   received packet is followed -- before the next received packet of the space -- by a datagrams_to_send whose packet
   has room for the ACK frame (ack_capacity (cap_ranges queue) <= room), whatever the pacer says.  NO premise on the
   number of ranges. *)

(* ack_timely_cap: under the discipline an owed packet is never forgotten by the cap: at every rest point it is still
   queued, its timer is armed within the bound and fewer than MAX_ACK_RANGES ranges are queued (the range-count premise
   of ack_timely_pending / ack_timely_send is discharged) *)
Theorem ack_timely_cap : forall dmax a s L t, CAP_ACK_NOW = true -> PACING_LE = true -> reach_d dmax a s ->
  closing s = false -> disc s = false -> In (L, t) (owed s) ->
  mem L (aq s) /\ (exists x, ack_at s = Some x /\ x <= t + dmax) /\ Zlen (aq s) <= MAX_ACK_RANGES - 1.
Proof. exact ack_timely_cap_l. Qed.
Print Assumptions ack_timely_cap.

(* ... and the send at u >= ack_at with room reports the whole queue, covering every owed packet; no pacer premise *)
Theorem ack_timely_cap_send : forall dmax s L t0 x u delay room blocked, CAP_ACK_NOW = true -> PACING_LE = true ->
  reach_d dmax true s -> closing s = false -> In (L, t0) (owed s) -> ack_at s = Some x -> x <= u -> clk s <= u ->
  ack_capacity (aq s) <= room -> 0 <= delay < 2 ^ 62 ->
  exists bytes s', send s u delay room blocked = (SFrame bytes (aq s), s') /\ mem L (aq s) /\
    owed s' = [] /\ ack_at s' = None.
Proof. exact ack_timely_cap_send_l. Qed.
Print Assumptions ack_timely_cap_send.

(* REFUTED (residual, holds for both values of the flags): ack_timely with neither the range-count premise nor the
   discipline.  Witness cap_witness (corpus/C12/cap-drops-owed.json): packet 0 is owed; 33 more packets with gaps are
   received with NO datagrams_to_send in between; the writer keeps the 32 highest ranges: 0 is still owed, in no frame,
   not queued any more, no timer armed. *)
Theorem ack_timely_cap_refuted : exists ops L t, reach_run (init true) ops /\
  let s := run (init true) ops in
  In (L, t) (owed s) /\ closing s = false /\ ack_at s = None /\ ~ mem L (aq s) /\
  (forall q h, In (q, h) (frames s) -> ~ mem L q) /\ Zlen (frames s) = 1.
Proof. exact ack_timely_cap_refuted_l. Qed.
Print Assumptions ack_timely_cap_refuted.
