(* C12  Acknowledgements are sound and timely.
   Only statements here; proofs live in coq/proofs/AckQueueP.v / AckQueueP2.v, the model in coq/model/AckQueue.v
   (one packet number space of QuicConnection as of the tree WITH the ACK range cap, commit 8675461).

   [reach a s] (proofs/AckQueueP.v): s is reachable from a fresh space (a = true: the application space, false:
   Initial / Handshake) by ANY sequence of: handshake completion; decrypted packets with any packet number in
   [0, 2^62) -- any order, gaps, duplicates --, ack-eliciting or not, processed with or without a connection
   error, each acknowledging any of the ACK frames written so far (so any of our ACKs may be lost, and any
   acknowledgement of them too); datagrams_to_send at any time with any room in the packet and any pacer verdict;
   discarding the space (Initial / Handshake only); close().  [rcvd s] is the ghost set of recorded packet
   numbers, [mem x q] membership in a range set (proofs/RangeSetP.v). *)
From AQ Require Import lib.Base model.Codec model.Varint model.RangeSet model.AckFrame gen.C12Consts model.AckQueue
  proofs.RangeSetP proofs.AckQueueP.

(* ack_sound, queue: the ack_queue only ever holds recorded packet numbers *)
Theorem ack_sound_queue : forall a s, reach a s -> forall x, mem x (aq s) -> In x (rcvd s).
Proof. exact ack_sound_queue_l. Qed.
Print Assumptions ack_sound_queue.

(* ack_sound, wire: an ACK frame that datagrams_to_send writes is the ACK type byte followed by bytes that the frame
   decoder of C17 (pull_ack_frame) turns back into EXACTLY the ranges q the frame was built from; q is the queue
   after the MAX_ACK_RANGES cap, at most MAX_ACK_RANGES ranges, every number in it was recorded in this space;
   the frame fits the capacity reserved for it, which fits the room start_frame checked (ack_frame_fits) *)
Theorem ack_sound_frame : forall a s t delay room blocked bytes q s', reach a s -> 0 <= delay < 2 ^ 62 ->
  send s t delay room blocked = (SFrame bytes q, s') ->
  q = cap_ranges (aq s) /\ (forall x, mem x q -> In x (rcvd s)) /\ Zlen q <= MAX_ACK_RANGES /\
  exists body, bytes = FT_ACK :: body /\ Zlen bytes <= ack_capacity q /\ ack_capacity q <= room /\
    forall rest, pull_ack_frame (body ++ rest) = Ok ((q, delay), rest).
Proof. exact ack_sound_frame_l. Qed.
Print Assumptions ack_sound_frame.

(* ack_frame_fits / the writer never raises: for every reachable state, every encodable delay, ANY room and pacer
   verdict, the ACK part of datagrams_to_send does not raise (no IndexError on an empty queue, no BufferWriteError,
   no ValueError); and processing a packet (subtract's assertion in _on_ack_delivery) does not raise either *)
Theorem ack_writer_never_raises : forall a s t delay room blocked, reach a s -> 0 <= delay < 2 ^ 62 ->
  forall k, fst (send s t delay room blocked) <> SExn k.
Proof. exact ack_writer_never_raises_l. Qed.
Print Assumptions ack_writer_never_raises.

Theorem recv_total : forall a s pn elic t d dels ok, reach a s -> wf_op s (Recv pn elic t d dels ok) ->
  exists s', recv s pn elic t d dels ok = Ok s'.
Proof. exact recv_total_l. Qed.
Print Assumptions recv_total.

(* get_timer() is never later than a pending ack_at (nor than _close_at) *)
Theorem get_timer_le : forall close_at srcs, get_timer close_at srcs <= close_at /\
  forall a, In (Some a) srcs -> get_timer close_at srcs <= a.
Proof. exact get_timer_le_l. Qed.
Print Assumptions get_timer_le.

(* the delay the endpoint waits (K_GRANULARITY) is within the max_ack_delay it advertises; both read from the source *)
Theorem ack_delay_within_advertised : 0 < ACK_DELAY_US <= ADV_MAX_ACK_DELAY_MS * 1000.
Proof. exact ack_delay_within_advertised_l. Qed.
Print Assumptions ack_delay_within_advertised.
