(* C12  Acknowledgements are sound and timely.
   Only statements here; proofs live in coq/proofs/AckQueueP.v / AckQueueP2.v, the model in coq/model/AckQueue.v
   (one packet number space of QuicConnection as of the tree WITH the ACK range cap, commit 8675461).

   [reach a s] (proofs/AckQueueP.v): s is reachable from a fresh space (a = true: the application space, false:
   Initial / Handshake) by ANY sequence of: handshake completion; decrypted packets with any packet number in
   [0, 2^62) -- any order, gaps, duplicates --, ack-eliciting or not, processed with or without a connection
   error, each acknowledging any of the ACK frames written so far (so any of our ACKs may be lost, and any
   acknowledgement of them too); datagrams_to_send at any time with any room in the packet and any pacer verdict;
   discarding the space (Initial / Handshake only); close().  [rcvd s] is the ghost set of recorded packet
   numbers, [mem x q] membership in a range set (proofs/RangeSetP.v). *)
From AQ Require Import lib.Base model.Codec model.Varint model.RangeSet model.AckFrame gen.C12Consts model.AckQueue
  proofs.RangeSetP proofs.AckQueueP proofs.AckQueueP2 proofs.AckQueueP3.
From AQ Require Import gen.C12RecvOrder model.RecvAck proofs.RecvAckP proofs.RecvAckT proofs.RecvAckD.

(* ack_sound, queue: the ack_queue only ever holds recorded packet numbers *)
Theorem ack_sound_queue : forall a s, reach a s -> forall x, mem x (aq s) -> In x (rcvd s).
Proof. exact ack_sound_queue_l. Qed.
Print Assumptions ack_sound_queue.

(* ack_sound, wire: an ACK frame that datagrams_to_send writes is the ACK type byte followed by bytes that the frame
   decoder of C17 (pull_ack_frame) turns back into EXACTLY the ranges q the frame was built from; q is the queue
   after the MAX_ACK_RANGES cap, at most MAX_ACK_RANGES ranges, every number in it was recorded in this space;
   the frame fits the capacity reserved for it, which fits the room start_frame checked (ack_frame_fits) *)
Theorem ack_sound_frame : forall a s t delay room blocked bytes q s', reach a s -> 0 <= delay < 2 ^ 62 ->
  send s t delay room blocked = (SFrame bytes q, s') ->
  q = cap_ranges (aq s) /\ (forall x, mem x q -> In x (rcvd s)) /\ Zlen q <= MAX_ACK_RANGES /\
  exists body, bytes = FT_ACK :: body /\ Zlen bytes <= ack_capacity q /\ ack_capacity q <= room /\
    forall rest, pull_ack_frame (body ++ rest) = Ok ((q, delay), rest).
Proof. exact ack_sound_frame_l. Qed.
Print Assumptions ack_sound_frame.

(* ack_frame_fits / the writer never raises: for every reachable state, every encodable delay, ANY room and pacer
   verdict, the ACK part of datagrams_to_send does not raise (no IndexError on an empty queue, no BufferWriteError,
   no ValueError); and processing a packet (subtract's assertion in _on_ack_delivery) does not raise either *)
Theorem ack_writer_never_raises : forall a s t delay room blocked, reach a s -> 0 <= delay < 2 ^ 62 ->
  forall k, fst (send s t delay room blocked) <> SExn k.
Proof. exact ack_writer_never_raises_l. Qed.
Print Assumptions ack_writer_never_raises.

Theorem recv_total : forall a s pn elic t d dels ok, reach a s -> wf_op s (Recv pn elic t d dels ok) ->
  exists s', recv s pn elic t d dels ok = Ok s'.
Proof. exact recv_total_l. Qed.
Print Assumptions recv_total.

(* get_timer() is never later than a pending ack_at (nor than _close_at) *)
Theorem get_timer_le : forall close_at srcs, get_timer close_at srcs <= close_at /\
  forall a, In (Some a) srcs -> get_timer close_at srcs <= a.
Proof. exact get_timer_le_l. Qed.
Print Assumptions get_timer_le.

(* the delay the endpoint waits (K_GRANULARITY) is within the max_ack_delay it advertises; both read from the source *)
Theorem ack_delay_within_advertised : 0 < ACK_DELAY_US <= ADV_MAX_ACK_DELAY_MS * 1000.
Proof. exact ack_delay_within_advertised_l. Qed.
Print Assumptions ack_delay_within_advertised.

(* ---- timeliness.  [reach_t dmax a s] (proofs/AckQueueP2.v): as [reach], and additionally the clock is monotone,
   every acknowledgement delay d = fl(now + _ack_delay) - now handed to the model is within dmax (the harness
   checks it against the advertised max_ack_delay on every op), the encoded delay field is encodable, and at every
   send the queue holds at most MAX_ACK_RANGES ranges (beyond that: ack_timely_cap_refuted).  [owed s] is the ghost
   list of (pn, arrival time) of ack-eliciting packets that carried the largest packet number when recorded
   (application space: after handshake completion) and that no ACK frame written since covers. *)

(* such a packet enters the list ... *)
Theorem owed_recorded : forall s pn elic t d dels ok s', recv s pn elic t d dels ok = Ok s' ->
  ok = true -> closing s = false -> disc s = false -> elic = true -> lrp s < pn -> (app s = true -> complete s = true) ->
  In (pn, t) (owed s') /\ lrp s' = pn.
Proof. exact owed_recorded_l. Qed.
Print Assumptions owed_recorded.

(* ... leaves it only through an ACK frame on the wire that covers it (ALL op sequences, no cap premise) ... *)
Theorem owed_leaves_only_by_ack : forall s o x, In x (owed s) -> ~ In x (owed (snd (step s o))) ->
  exists bytes q, fst (step s o) = OSend (SFrame bytes q) /\ mem (fst x) q.
Proof. exact owed_leaves_only_by_ack_l. Qed.
Print Assumptions owed_leaves_only_by_ack.

(* ... and while it is there (live connection, space not discarded) it is still queued and the ACK timer is armed no
   later than arrival + dmax: the pending ACK is never silently dropped (ack_timely, timer part; with get_timer_le:
   get_timer() <= arrival + dmax) *)
Theorem ack_timely_pending : forall dmax a s L t, reach_t dmax a s -> closing s = false -> disc s = false ->
  In (L, t) (owed s) -> mem L (aq s) /\ exists x, ack_at s = Some x /\ x <= t + dmax.
Proof. exact ack_timely_pending_l. Qed.
Print Assumptions ack_timely_pending.

(* ack_timely, send part (application space): a datagrams_to_send at u >= ack_at -- u > ack_at, or the pacer lets a
   packet through (the code skips pacing only when ack_at < now) -- whose packet has room for the frame writes an
   ACK frame built from the whole queue, which covers every owed packet; nothing stays owed, the timer is cleared *)
Theorem ack_timely_send : forall dmax s L t0 x u delay room blocked, reach_t dmax true s -> closing s = false ->
  In (L, t0) (owed s) -> ack_at s = Some x -> x <= u -> (x < u \/ blocked = false) -> clk s <= u ->
  Zlen (aq s) <= MAX_ACK_RANGES -> ack_capacity (aq s) <= room -> 0 <= delay < 2 ^ 62 ->
  exists bytes s', send s u delay room blocked = (SFrame bytes (aq s), s') /\ mem L (aq s) /\
    owed s' = [] /\ ack_at s' = None.
Proof. exact ack_timely_send_l. Qed.
Print Assumptions ack_timely_send.

(* Initial / Handshake: the next send that starts a packet of the space (with room) carries the ACK, at any time *)
Theorem hs_send_carries_ack : forall dmax s L t0 u delay room blocked, reach_t dmax false s -> closing s = false ->
  disc s = false -> In (L, t0) (owed s) -> clk s <= u ->
  Zlen (aq s) <= MAX_ACK_RANGES -> ack_capacity (aq s) <= room -> 0 <= delay < 2 ^ 62 ->
  exists bytes s', send s u delay room blocked = (SFrame bytes (aq s), s') /\ mem L (aq s) /\ owed s' = [].
Proof. exact hs_send_carries_ack_l. Qed.
Print Assumptions hs_send_carries_ack.

(* ---- pruning on ACK-of-ACK *)
(* what _on_ack_delivery(ACKED, highest) removes lies in [0, highest] ... *)
Theorem prune_only_below : forall q h q' x, wf q -> deliver q h = Ok q' -> mem x q -> ~ mem x q' -> 0 <= x <= h.
Proof. exact prune_only_below_l. Qed.
Print Assumptions prune_only_below.

(* ... and is never an owed packet, whichever of the ACK frames written so far get acknowledged, in any order *)
Theorem prune_keeps_owed : forall dmax a s L t dels q', reach_t dmax a s -> closing s = false -> disc s = false ->
  In (L, t) (owed s) -> (forall h, In h dels -> exists q, In (q, h) (frames s)) ->
  delivers (aq s) dels = Ok q' -> mem L q'.
Proof. exact prune_keeps_owed_l. Qed.
Print Assumptions prune_keeps_owed.

(* REFUTED: "pruning removes only packet numbers that an acknowledged ACK frame reported".  Witness
   (proofs/AckQueueP2.v prune_witness, replayed on the implementation: corpus/C12/prune-uncovered.json): packet 5 is
   acknowledged, packet 3 arrives late, the peer acknowledges the first ACK: 3 is recorded, in no frame ever
   written, no longer queued, and no timer is armed -- an ack-eliciting packet that is never acknowledged. *)
Theorem prune_uncovered_refuted : exists ops x, reach_run (init true) ops /\
  let s := run (init true) ops in
  In x (rcvd s) /\ ~ mem x (aq s) /\ (forall q h, In (q, h) (frames s) -> ~ mem x q) /\ ack_at s = None.
Proof. exact prune_uncovered_refuted_l. Qed.
Print Assumptions prune_uncovered_refuted.

(* ---- the range cap.  CAP_ACK_NOW / PACING_LE are probed from the source by tools/gen/c12_consts.py: true on a tree with
   docs/C12-fix-2.patch (once MAX_ACK_RANGES ranges are queued a pending ACK is due at once: ack_at = min(ack_at, now);
   pacing is skipped when ack_at <= now), false otherwise -- then the two theorems below hold vacuously and the open
   finding C12-F2 applies.
   [reach_d dmax a s] (proofs/AckQueueP3.v), the sans-IO driver discipline: as [reach], monotone clock, d <= dmax,
   encodable delay, any op other than a received packet at any time (sends with ANY room and pacer verdict), and every
   received packet is followed -- before the next received packet of the space -- by a datagrams_to_send whose packet
   has room for the ACK frame (ack_capacity (cap_ranges queue) <= room), whatever the pacer says.  NO premise on the
   number of ranges. *)

(* ack_timely_cap: under the discipline an owed packet is never forgotten by the cap: at every rest point it is still
   queued, its timer is armed within the bound and fewer than MAX_ACK_RANGES ranges are queued (the range-count premise
   of ack_timely_pending / ack_timely_send is discharged) *)
Theorem ack_timely_cap : forall dmax a s L t, CAP_ACK_NOW = true -> PACING_LE = true -> reach_d dmax a s ->
  closing s = false -> disc s = false -> In (L, t) (owed s) ->
  mem L (aq s) /\ (exists x, ack_at s = Some x /\ x <= t + dmax) /\ Zlen (aq s) <= MAX_ACK_RANGES - 1.
Proof. exact ack_timely_cap_l. Qed.
Print Assumptions ack_timely_cap.

(* ... and the send at u >= ack_at with room reports the whole queue, covering every owed packet; no pacer premise *)
Theorem ack_timely_cap_send : forall dmax s L t0 x u delay room blocked, CAP_ACK_NOW = true -> PACING_LE = true ->
  reach_d dmax true s -> closing s = false -> In (L, t0) (owed s) -> ack_at s = Some x -> x <= u -> clk s <= u ->
  ack_capacity (aq s) <= room -> 0 <= delay < 2 ^ 62 ->
  exists bytes s', send s u delay room blocked = (SFrame bytes (aq s), s') /\ mem L (aq s) /\
    owed s' = [] /\ ack_at s' = None.
Proof. exact ack_timely_cap_send_l. Qed.
Print Assumptions ack_timely_cap_send.

(* REFUTED (residual, holds for both values of the flags): ack_timely with neither the range-count premise nor the
   discipline.  Witness cap_witness (corpus/C12/cap-drops-owed.json): packet 0 is owed; 33 more packets with gaps are
   received with NO datagrams_to_send in between; the writer keeps the 32 highest ranges: 0 is still owed, in no frame,
   not queued any more, no timer armed. *)
Theorem ack_timely_cap_refuted : exists ops L t, reach_run (init true) ops /\
  let s := run (init true) ops in
  In (L, t) (owed s) /\ closing s = false /\ ack_at s = None /\ ~ mem L (aq s) /\
  (forall q h, In (q, h) (frames s) -> ~ mem L q) /\ Zlen (frames s) = 1.
Proof. exact ack_timely_cap_refuted_l. Qed.
Print Assumptions ack_timely_cap_refuted.

(* ---- the receive path composed with the bookkeeping (model/RecvAck.v, proofs/RecvAckP.v).
   One received packet = decryption verdict (oracle: KeyUnavailableError / CryptoError / plaintext with a packet number and
   the reserved bits) -> expected_packet_number -> the payload as a sequence of frame effects, among them FxAck h (an ACK of
   one of OUR ACK frames: ack_queue.subtract(0, h + 1) runs DURING payload processing), handshake completion, discards,
   CONNECTION_CLOSE, a connection error -> the gate -> the recording tail, in the order of the code; [spc c i] is space i
   (Initial / Handshake / application) of connection state c.  [creach c]: c is reachable from a fresh connection by ANY
   sequence of such packets (any verdict, any packet number in [0, 2^62) incl. duplicates and old ones, any effects), of
   sends in any space at any time with any room / pacer verdict, completions, discards, close(), _initialize(). *)

(* the order of the model IS the order of the source: RECV_ORDER is generated from QuicConnection.receive_datagram by
   tools/gen/c12_recv_order.py (ast, fails closed).  Moving `ack_queue.add` (or the ack_at assignments, or the largest
   update) relative to the payload handling, or changing a guard of the tail, breaks this theorem *)
Theorem recv_order_as_modelled : RECV_ORDER = source_order code_order.
Proof. exact recv_order_as_modelled_l. Qed.
Print Assumptions recv_order_as_modelled.

(* _on_ack_delivery prunes subtract(0, highest_acked + 1); _write_ack_frame registers (space, largest_received_packet) and
   runs cap loop, start_frame, push_ack_frame, ack_at = None in this order *)
Theorem ack_handler_as_modelled : HANDLER_PRUNE_OK = true /\ HANDLER_ARGS_OK = true /\ WRITER_ORDER = [1; 2; 3; 4].
Proof. exact ack_handler_as_modelled_l. Qed.
Print Assumptions ack_handler_as_modelled.

(* (a) in every reachable state of a live connection an armed ACK timer has something to report, in every space ... *)
Theorem ack_at_implies_queue_nonempty : forall c, creach c -> forall i, closing (spc c i) = false ->
  ack_at (spc c i) <> None -> aq (spc c i) <> [].
Proof. exact ack_at_implies_queue_nonempty_l. Qed.
Print Assumptions ack_at_implies_queue_nonempty.

(* ... hence _write_ack_frame never meets an empty RangeSet (`rangeset[-1]`: IndexError), nor any other exception: NO
   premise about the queue, the frames written or the acknowledgements received *)
Theorem ack_writer_never_raises_composed : forall c i t delay room blocked, creach c -> 0 <= delay < 2 ^ 62 ->
  forall k, fst (send (spc c i) t delay room blocked) <> SExn k.
Proof. exact ack_writer_never_raises_composed_l. Qed.
Print Assumptions ack_writer_never_raises_composed.

(* processing a packet never raises either (subtract's assertion in _on_ack_delivery) *)
Theorem recv_packet_total : forall c i v fs t d, creach c -> exists c', recv_packet c i v fs t d = Ok c'.
Proof. exact recv_packet_total_l. Qed.
Print Assumptions recv_packet_total.

(* the guard `closing = false` is needed (and harmless: a closing connection never reaches the ACK writer): a connection
   error after an in-payload pruning leaves ack_at set over an empty queue *)
Theorem ack_at_nonempty_closing_refuted : exists ops i, wf_cops ops /\
  let c := crun rinit ops in
  closing (spc c i) = true /\ ack_at (spc c i) <> None /\ aq (spc c i) = [] /\
  forall t delay room blocked, fst (send (spc c i) t delay room blocked) = SNothing 0.
Proof. exact ack_at_nonempty_closing_refuted_l. Qed.
Print Assumptions ack_at_nonempty_closing_refuted.

(* (b) a packet number x enters the ack_queue of space j only through a packet of space j that decrypted to x with clear
   reserved bits on a live connection and whose payload was processed to the end without a connection error, without
   closing the connection and without discarding the space; it is added to the queue AS LEFT BY the payload, i.e. after
   every in-payload pruning ... *)
Theorem recorded_only_after_processing : forall c o j x, creach c ->
  mem x (aq (spc (snd (cstep c o)) j)) -> ~ mem x (aq (spc c j)) ->
  exists fs t d c2 elic,
    o = CPacket j (VPlain x false) fs t d /\ closing (spc c j) = false /\
    payload_received (pre_payload c j x t) j fs = Ok (c2, elic, false) /\
    closing (spc c2 j) = false /\ disc (spc c2 j) = false /\
    aq (spc (snd (cstep c o)) j) = add x (x + 1) (aq (spc c2 j)).
Proof. exact recorded_only_after_processing_l. Qed.
Print Assumptions recorded_only_after_processing.

(* ... so an acknowledgement inside the payload can never remove the number of the packet that carries it *)
Theorem carrier_survives_prunes : forall c i pn fs t d c2 elic, creach c -> pn_ok pn -> closing (spc c i) = false ->
  payload_received (pre_payload c i pn t) i fs = Ok (c2, elic, false) ->
  closing (spc c2 i) = false -> disc (spc c2 i) = false ->
  exists c', recv_packet c i (VPlain pn false) fs t d = Ok c' /\ mem pn (aq (spc c' i)) /\
             (elic = true -> ack_at (spc c' i) <> None).
Proof. exact carrier_survives_prunes_l. Qed.
Print Assumptions carrier_survives_prunes.

(* (c) REFUTED for the variant [first_order] = "ack_queue.add(packet_number) right after decryption, before the payload"
   (seeded/C05/seed3; the same interpreter, the two events swapped): a packet re-using number 10 that acknowledges our ACK of
   10 and carries a PING leaves ack_at set over an empty queue; the next send raises IndexError, and so does every later
   one.  The same sequence in the order of the code leaves {10} queued and the send writes a frame.  (a) really depends
   on the order that recv_order_as_modelled ties to the source. *)
Theorem record_before_payload_refuted : exists ops i, wf_cops ops /\
  (let c := crun_ord first_order rinit ops in
   closing (spc c i) = false /\ ack_at (spc c i) <> None /\ aq (spc c i) = [] /\
   fst (cstep_first c (CSend i 2010 0 1200 false)) = CSent (SExn E_INDEX) /\
   (let c1 := snd (cstep_first c (CSend i 2010 0 1200 false)) in ack_at (spc c1 i) <> None /\ aq (spc c1 i) = [])) /\
  (let c := crun rinit ops in
   aq (spc c i) = [(10, 11)] /\ exists bytes q, fst (cstep c (CSend i 2010 0 1200 false)) = CSent (SFrame bytes q)).
Proof. exact record_before_payload_refuted_l. Qed.
Print Assumptions record_before_payload_refuted.

(* the atomic op of model/AckQueue.v is the composed packet: for a payload that touches the acknowledgement state only by
   acknowledging ACK frames that were written (fx_plain, known_handler: the premise of [reach]), the state of the packet's
   space after recv_packet is exactly AckQueue.recv with dels = the acknowledgements in payload order and elic / ok as the
   frame loop computes them; the other spaces only learn about a close.  (So the theorems above stated on AckQueue.step
   speak about the same per-space transitions as the composed model.) *)
Theorem recv_packet_refines : forall c i pn fs t d, fx_plain fs = true ->
  (forall h, In h (fx_acks fs) -> known_handler (spc c i) h = true) -> closing (spc c i) = false ->
  let elic := fx_elic fs false in
  let ok := negb (fx_raised fs false) in
  match recv (spc c i) pn elic t d (fx_acks fs) ok with
  | Ok s' => exists c', recv_packet c i (VPlain pn false) fs t d = Ok c' /\ spc c' i = s' /\
               forall j, j <> i -> spc c' j = if ok then spc c j else set_closing (spc c j)
  | Err k => recv_packet c i (VPlain pn false) fs t d = Err k
  end.
Proof. exact recv_packet_refines_l. Qed.
Print Assumptions recv_packet_refines.

(* ---- timeliness on the COMPOSED model (proofs/RecvAckT.v).
   [creach_t dmax c now]: c is reachable from a fresh connection by a TIMED run of the connection-level operations of
   model/RecvAck.v -- packets of any space with any decryption verdict, any packet number in [0, 2^62) and any payload effects
   (acknowledgements of our ACK frames pruning the queue in the middle of the payload, handshake completion, discards of any
   space, CONNECTION_CLOSE, connection errors), sends of any space with ANY room / pacer verdict, completions, discards,
   close(), _initialize() -- whose clock never goes back (now = time of the last call), every acknowledgement delay
   d = fl(now + _ack_delay) - now is in [0, dmax], the encoded delay is encodable, and at most MAX_ACK_RANGES ranges are
   queued at a send (the range-count premise of reach_t; beyond it: finding F2, ack_timely_cap_refuted).
   [crun_t dmax c now ops]: the same premises for a continuation; [acked_in i L c ops]: one of the sends of [ops] wrote an
   ACK frame of space i that covers L. *)

(* how a packet becomes owed: decrypted on a live connection, payload run to its end without error -- whatever it
   acknowledges, completes or discards on the way --, ack-eliciting, above every packet number recorded in its space;
   application space: the handshake is complete when the payload ends (completion INSIDE the payload counts) *)
Theorem owed_recorded_composed : forall c i pn fs t d c2, creach c -> closing (spc c i) = false ->
  payload_received (pre_payload c i pn t) i fs = Ok (c2, true, false) ->
  closing (spc c2 i) = false -> disc (spc c2 i) = false -> lrp (spc c i) < pn ->
  (i = SApp -> complete (spc c2 i) = true) -> app (spc c i) = is_app i ->
  exists c', recv_packet c i (VPlain pn false) fs t d = Ok c' /\ In (pn, t) (owed (spc c' i)) /\ lrp (spc c' i) = pn.
Proof. exact owed_recorded_composed_l. Qed.
Print Assumptions owed_recorded_composed.

(* it leaves the list only through an ACK frame of its space that covers it, or when _initialize() replaces the spaces:
   ALL operations, NO premise -- neither an in-payload prune of the same or of a later packet, nor a connection error,
   nor a completion, nor a discard *)
Theorem owed_leaves_only_composed : forall c o i x, creach c -> In x (owed (spc c i)) ->
  ~ In x (owed (spc (snd (cstep c o)) i)) ->
  o = CReinit \/
  exists t delay room blocked bytes q,
    o = CSend i t delay room blocked /\ fst (cstep c o) = CSent (SFrame bytes q) /\ mem (fst x) q.
Proof. exact owed_leaves_only_composed_l. Qed.
Print Assumptions owed_leaves_only_composed.

(* the timer: in every state of a timed run, in every space that still exists, an owed packet is still queued and ack_at
   is armed no later than arrival + dmax.  No premise `closing = false`: an error in a later packet does not remove it *)
Theorem ack_timely_pending_composed : forall dmax c now i L t, creach_t dmax c now -> disc (spc c i) = false ->
  In (L, t) (owed (spc c i)) -> mem L (aq (spc c i)) /\ exists x, ack_at (spc c i) = Some x /\ x <= t + dmax.
Proof. exact ack_timely_pending_composed_l. Qed.
Print Assumptions ack_timely_pending_composed.

(* the due send: application space u >= ack_at (u > ack_at, or an open pacer, or a tree that skips pacing when
   ack_at <= now); Initial / Handshake: any send that starts a packet of the space, at any time; room for the frame *)
Theorem ack_due_send_composed : forall dmax c now i L t0 x u delay room blocked, creach_t dmax c now ->
  closing (spc c i) = false -> disc (spc c i) = false -> In (L, t0) (owed (spc c i)) -> ack_at (spc c i) = Some x ->
  now <= u -> Zlen (aq (spc c i)) <= MAX_ACK_RANGES -> ack_capacity (aq (spc c i)) <= room -> 0 <= delay < 2 ^ 62 ->
  (i = SApp -> x <= u /\ (x < u \/ blocked = false \/ PACING_LE = true)) ->
  exists bytes c', cstep c (CSend i u delay room blocked) = (CSent (SFrame bytes (aq (spc c i))), c') /\
    mem L (aq (spc c i)) /\ x <= t0 + dmax /\ owed (spc c' i) = [] /\ ack_at (spc c' i) = None.
Proof. exact ack_due_send_composed_l. Qed.
Print Assumptions ack_due_send_composed.

(* a discarded space owes nothing (no timer, no packet of the space can be started); a closing connection writes no ACK *)
Theorem discarded_owes_nothing : forall c i, creach c -> disc (spc c i) = true ->
  ack_at (spc c i) = None /\
  forall t delay room blocked, exists w, fst (send (spc c i) t delay room blocked) = SNothing w.
Proof. exact discarded_owes_nothing_l. Qed.
Print Assumptions discarded_owes_nothing.

Theorem closing_sends_nothing : forall c i t delay room blocked, closing (spc c i) = true ->
  fst (send (spc c i) t delay room blocked) = SNothing 0.
Proof. exact closing_sends_nothing_l. Qed.
Print Assumptions closing_sends_nothing.

(* ack_timely_composed -- the timeliness sentence on whole runs.  (L, t) owed in space i in some state of a timed run;
   for EVERY timed continuation [ops]: one of its sends wrote an ACK frame of space i covering L; or _initialize() started
   a new connection attempt; or space i was discarded meanwhile (discarded_owes_nothing); or L is STILL queued with
   ack_at = x <= t + dmax, and -- unless the connection is closing (closing_sends_nothing) -- the next send of space i
   with room for the frame writes an ACK frame built from the whole queue (so covering L): application space, when it
   comes at u >= x (u > x, or open pacer, or PACING_LE) -- at u = x <= t + dmax when the caller fires the timer when
   asked (get_timer_le) --; Initial / Handshake, whenever it comes *)
Theorem ack_timely_composed : forall dmax c now i L t ops u delay room blocked, creach_t dmax c now ->
  In (L, t) (owed (spc c i)) -> crun_t dmax c now ops ->
  let c' := crun c ops in
  acked_in i L c ops \/ In CReinit ops \/ disc (spc c' i) = true \/
  (mem L (aq (spc c' i)) /\ exists x, ack_at (spc c' i) = Some x /\ x <= t + dmax /\
     (closing (spc c' i) = false -> clock_after now ops <= u -> Zlen (aq (spc c' i)) <= MAX_ACK_RANGES ->
      ack_capacity (aq (spc c' i)) <= room -> 0 <= delay < 2 ^ 62 ->
      (i = SApp -> x <= u /\ (x < u \/ blocked = false \/ PACING_LE = true)) ->
      exists bytes c'', cstep c' (CSend i u delay room blocked) = (CSent (SFrame bytes (aq (spc c' i))), c'') /\
        owed (spc c'' i) = [] /\ ack_at (spc c'' i) = None)).
Proof. exact ack_timely_composed_l. Qed.
Print Assumptions ack_timely_composed.

(* ---- the driver discipline on the COMPOSED model (proofs/RecvAckD.v): ack_timely_cap lifted.
   [creach_d dmax c now hot]: timed runs as [creach_t] but with NO premise on the number of queued ranges; instead, per
   space, the sans-IO discipline: [hot i] = a packet of space i was handed to the connection since the last send of space i
   whose packet had room for the ACK frame (ack_capacity (cap_ranges queue) <= room, any pacer verdict); a packet of space
   i may be handed over only while space i is cold.  Between a packet and "its" send anything else may happen: packets and
   sends of the other spaces (coalesced datagrams), sends of space i without room, completions, discards, close().
   As for ack_timely_cap the statements are about a tree with docs/C12-fix-2.patch (flags probed from the source). *)

(* an owed packet is never forgotten by the cap: still queued, timer armed within the bound, among the ranges the cap
   keeps; in a cold space fewer than MAX_ACK_RANGES ranges are queued *)
Theorem ack_timely_cap_composed : forall dmax c now h i L t, CAP_ACK_NOW = true -> PACING_LE = true ->
  creach_d dmax c now h -> disc (spc c i) = false -> In (L, t) (owed (spc c i)) ->
  mem L (aq (spc c i)) /\ (exists x, ack_at (spc c i) = Some x /\ x <= t + dmax) /\
  (closing (spc c i) = false -> mem L (cap_ranges (aq (spc c i))) /\
                                (h i = false -> Zlen (aq (spc c i)) <= MAX_ACK_RANGES - 1)).
Proof. exact ack_timely_cap_composed_l. Qed.
Print Assumptions ack_timely_cap_composed.

(* the due send (application space: u >= ack_at, ANY pacer verdict; Initial / Handshake: any time) with room for the capped
   queue writes a frame that covers every owed packet *)
Theorem ack_timely_cap_send_composed : forall dmax c now h i L t0 x u delay room blocked,
  CAP_ACK_NOW = true -> PACING_LE = true ->
  creach_d dmax c now h -> closing (spc c i) = false -> disc (spc c i) = false -> In (L, t0) (owed (spc c i)) ->
  ack_at (spc c i) = Some x -> now <= u -> (i = SApp -> x <= u) ->
  ack_capacity (cap_ranges (aq (spc c i))) <= room -> 0 <= delay < 2 ^ 62 ->
  exists bytes c', cstep c (CSend i u delay room blocked) = (CSent (SFrame bytes (cap_ranges (aq (spc c i)))), c') /\
    mem L (cap_ranges (aq (spc c i))) /\ x <= t0 + dmax /\ owed (spc c' i) = [] /\ ack_at (spc c' i) = None.
Proof. exact ack_timely_cap_send_composed_l. Qed.
Print Assumptions ack_timely_cap_send_composed.

(* the sentence on whole disciplined runs: ack_timely_composed without the range-count premise and without the pacer
   premise *)
Theorem ack_timely_cap_run_composed : forall dmax c now h i L t ops u delay room blocked,
  CAP_ACK_NOW = true -> PACING_LE = true ->
  creach_d dmax c now h -> In (L, t) (owed (spc c i)) -> crun_d dmax c now h ops ->
  let c' := crun c ops in
  acked_in i L c ops \/ In CReinit ops \/ disc (spc c' i) = true \/
  (mem L (aq (spc c' i)) /\ exists x, ack_at (spc c' i) = Some x /\ x <= t + dmax /\
     (closing (spc c' i) = false -> clock_after now ops <= u -> ack_capacity (cap_ranges (aq (spc c' i))) <= room ->
      0 <= delay < 2 ^ 62 -> (i = SApp -> x <= u) ->
      exists bytes c'', cstep c' (CSend i u delay room blocked) = (CSent (SFrame bytes (cap_ranges (aq (spc c' i)))), c'') /\
        mem L (cap_ranges (aq (spc c' i))) /\ owed (spc c'' i) = [] /\ ack_at (spc c'' i) = None)).
Proof. exact ack_timely_cap_run_composed_l. Qed.
Print Assumptions ack_timely_cap_run_composed.
