(* C03  Handshake completes only with the authentic peer and both sides agree  (PARTIAL: symbolic).
   Model: model/TlsSymbolic.v - the handshake of tls.py over an ORACLE record for cryptography, X.509 and the
   message codecs; transcript = the exact bytes given to update_hash.  Every statement is for all
   configurations, all message sequences and all oracle behaviours satisfying the stated premises. *)
From AQ Require Import lib.Base gen.TlsDispatch model.TlsSymbolic.
From AQ Require Import gen.TlsTranscript proofs.TlsSymbolicP1 proofs.TlsSymbolicP2 proofs.TlsSymbolicP4 proofs.TlsSymbolicP5 proofs.TlsSymbolicP3 proofs.TlsSymbolicPGen.
From AQ Require Import gen.TlsNames model.TlsVerifyCert proofs.TlsNamesP.
From AQ Require Import model.TlsTwoParty proofs.TlsTwoPartyP1 proofs.TlsTwoPartyP2 proofs.TlsTwoPartyP3 proofs.TlsTwoPartyP4 proofs.TlsTwoPartyP5 proofs.TlsTwoPartyP6 proofs.TlsTwoPartyP7.

(* every message sequence, every oracle behaviour (no cryptographic premise needed): a client that reaches
   CLIENT_POST_HANDSHAKE verified a CertificateVerify (advertised algorithm) under the leaf of the certificate
   list it holds, over a transcript that begins with its own ClientHello and is a prefix of the final
   transcript, and - unless CERT_NONE - cert_ok accepted that list for the requested name; or it offered a valid
   ticket, a ServerHello selected it, and the schedule in use descends from that ticket's resumption secret.
   "The requested name" is verify_name c (cert_authed: o_cert_ok O (verify_name c) (t_peer s) = 0), and verify_name c is
   the CONFIGURED server_name, IP literals included - not sni_of_name, the IP-stripped value of the ClientHello
   extension (name_flow_as_modelled below ties both to the expressions found in the current source) *)
Theorem client_completion_authenticated :
  forall (O : oracles) (c : cfg) (ms : list bytes),
    let s := run O c (client_started O c) ms in
    t_state s = CLIENT_POST_HANDSHAKE ->
    (t_resumed s = false /\ cert_authed O c s (the_ks s)) \/
    (t_resumed s = true /\ psk_keyed O c (the_ks s)).
Proof. exact client_completion_authenticated_lemma. Qed.
Print Assumptions client_completion_authenticated.

(* WHICH name: the name flow re-extracted from the current tls.py / connection.py (every store to self._server_name,
   the server_name= arguments of ClientHello / verify_certificate / SessionTicket, the guard of the verify_certificate
   call, the trust arguments, the QuicConnection -> tls.Context hand-over), evaluated over the IP-literal oracle:
   self._server_name is the constructor's argument unchanged; verify_certificate receives THAT (verify_name c =
   f_server_name c); only the ClientHello receives the value with IP literals replaced by None (sni_of_name) *)
Theorem name_flow_as_modelled :
  forall (O : oracles) (c : cfg),
  flow_attr O gen_name_flow (f_server_name c) = Some (attr_server_name c) /\
  flow_read O gen_name_flow (f_server_name c) (nf_verify gen_name_flow) = Some (verify_name c) /\
  flow_read O gen_name_flow (f_server_name c) (nf_sni gen_name_flow) = Some (ch_server_name (hello_base O c)) /\
  flow_read O gen_name_flow (f_server_name c) (nf_ticket gen_name_flow) = Some (f_server_name c) /\
  verify_name c = f_server_name c /\
  ch_server_name (hello_base O c) = sni_of_name O (f_server_name c) /\
  (nf_verify_guard gen_name_flow = 2 /\ nf_trust_passthrough gen_name_flow = 1 /\
   nf_verify_mode_default gen_name_flow = 1 /\ nf_quic_passthrough gen_name_flow = 1).
Proof. exact name_flow_as_modelled_lemma. Qed.
Print Assumptions name_flow_as_modelled.

(* verify_certificate(): the statement list re-extracted from the current source (dates, `if server_name is not None`,
   ip_address() selecting the IP / hostname matcher and its arguments, both exception handlers, trust store, chain
   verification, alerts), interpreted over the oracles, is the decision function of model/TlsVerifyCert.v *)
Theorem verify_certificate_as_modelled :
  forall V cert chain name, vc_interp V cert chain name gen_verify_certificate = vc_decide V cert chain name.
Proof. exact verify_certificate_as_modelled_lemma. Qed.
Print Assumptions verify_certificate_as_modelled.

(* the identity check is never skipped: every oracle record whose X.509 verdict is verify_certificate's decision
   structure over ANY matcher / date / chain oracles V, every configuration with verification on, every message
   sequence: a client that completes without resumption ran verify_certificate to a normal return for its CONFIGURED
   name; dates and chain were checked; and when a name is configured (DNS name or IP literal) the matcher for that kind
   of name was consulted about (leaf, configured name) and accepted - while the SNI carried the name only if it is not
   an IP literal.  (No name configured: chain and dates only - the application requested no name.) *)
Theorem identity_check_never_skipped :
  forall (O : oracles) (V : vc_oracles) (c : cfg) (ms : list bytes),
    let O' := with_vc O V in
    let s := run O' c (client_started O' c) ms in
    t_state s = CLIENT_POST_HANDSHAKE -> t_resumed s = false -> f_verify c = true ->
    let leaf := hd [] (t_peer s) in
    let chain := tl (t_peer s) in
    exists tr,
      vc_decide V leaf chain (f_server_name c) = (0, tr) /\
      v_not_yet V leaf = false /\ v_expired V leaf = false /\
      v_chain V leaf chain = true /\ In (EvChain leaf chain) tr /\
      forall n, f_server_name c = Some n ->
        (if v_is_ip V n then In (EvIp leaf n) tr /\ v_ip V leaf n = 0 else In (EvHost leaf n) tr /\ v_host V leaf n = 0) /\
        ch_server_name (hello_base O' c) = (if v_is_ip V n then None else Some n).
Proof. exact identity_check_never_skipped_lemma. Qed.
Print Assumptions identity_check_never_skipped.

(* tie of the hand-written model to the current source: the per-handler transcript skeleton (what is hashed, when,
   relative to which derivation / MAC / signature / comparison; labels; negotiate preference order), the suite and
   signature tables, the context strings, the transport-parameter checks and the version numbers re-extracted from
   tls.py / connection.py on this run are the ones the model was transcribed from *)
Theorem generated_fragment_as_modelled :
  (forall h, transcript_skeleton h = modelled_skeleton h) /\
  (map fst gen_cipher_suites = [0x1301; 0x1302; 0x1303] /\ forall p, In p gen_cipher_suites -> suite_alg (fst p) = snd p) /\
  (forall p, In p gen_sig_kinds -> sig_kind (fst p) = snd p) /\
  (gen_server_context_string = SERVER_CONTEXT_STRING /\ gen_client_context_string = CLIENT_CONTEXT_STRING) /\
  gen_tp_checks = [(6, QE_TRANSPORT_PARAMETER_ERROR); (1, QE_TRANSPORT_PARAMETER_ERROR); (2, QE_TRANSPORT_PARAMETER_ERROR);
                   (3, QE_TRANSPORT_PARAMETER_ERROR); (4, QE_TRANSPORT_PARAMETER_ERROR); (5, QE_VERSION_NEGOTIATION_ERROR)] /\
  (gen_version_1 = V1 /\ gen_version_2 = V2).
Proof. exact generated_fragment_as_modelled_lemma. Qed.
Print Assumptions generated_fragment_as_modelled.

(* idealised cryptography (ideal_crypto: o_hash, o_hmac, o_expand injective, parse_fin (build_fin v) = v):
   a Finished verify_data determines hash algorithm, base key and the WHOLE transcript *)
Theorem finished_binds_transcript :
  forall O, ideal_crypto O ->
  forall k e k' e', ks_finished O k e = ks_finished O k' e' -> k_alg k = k_alg k' /\ e = e' /\ k_tr k = k_tr k'.
Proof. exact finished_binds_transcript_x. Qed.
Print Assumptions finished_binds_transcript.

(* PARTIAL (per step, Finished provenance as premise): a client that accepts the Finished the honest server computed
   over schedule kS with key eS has the server's transcript, hash algorithm and handshake traffic secret; if both
   secrets have the key-schedule form, the two schedules coincide and every later secret (application traffic
   secrets, resumption secret) is equal.  Missing for the full statement: the run-level closure (key-schedule form
   of t_dec as an invariant), cipher SUITE (beyond hash algorithm) / ALPN / resumption flag as functions of the
   equal transcripts through the codec round trips. *)
Theorem transcript_agreement_partial :
  forall O, ideal_crypto O ->
  (forall c s m s' out0 kS eS,
    client_handle_finished O c s m = (OOk, s', out0) ->
    m = o_build_fin O (ks_finished O kS eS) ->
    k_tr (the_ks s) = k_tr kS /\ k_alg (the_ks s) = k_alg kS /\ t_dec s = eS /\
    (hs_key_of O (the_ks s) (t_dec s) -> hs_key_of O kS eS -> k_gen kS = 2 ->
     ks_eqv (the_ks s) kS /\
     forall l, ks_derive O (ks_extract O (ks_update (the_ks s) m) None) l = ks_derive O (ks_extract O (ks_update kS m) None) l)) /\
  (forall c s0 m s' out0 kC eC,
    server_handle_finished O c (server_expect_finished O s0) m = (OOk, s', out0) ->
    m = o_build_fin O (ks_finished O kC eC) ->
    k_tr (the_ks s0) = k_tr kC /\ k_alg (the_ks s0) = k_alg kC /\ t_dec s0 = eC).
Proof. exact (fun O H => conj (transcript_agreement_client_x O H) (transcript_agreement_server_x O H)). Qed.
Print Assumptions transcript_agreement_partial.

(* run level, client side (still PARTIAL: cipher SUITE beyond the hash algorithm, ALPN, resumption flag and early-data
   flag are not derived here): an honest server processed SOME ClientHello and emitted its flight.  Then for EVERY client
   configuration and EVERY message sequence that leaves the client awaiting the server Finished: if the client accepts
   the Finished of that flight, it has the server's transcript, hash algorithm and "s hs traffic" secret, and the two
   application traffic secrets it releases are exactly the one the server released for its own sending direction
   and the one the server stored (_next_dec_key) to install when the client's Finished arrives.  server_after
   describes the server's key callbacks: (ENCRYPT, HANDSHAKE, eS), (DECRYPT, HANDSHAKE, cS), (ENCRYPT, ONE_RTT, s ap). *)
Theorem transcript_agreement_run_partial :
  forall O, ideal_crypto O ->
  forall sc ss chm ss' outS,
  server_handle_hello O sc ss chm = (OOk, ss', outS) ->
  exists finm kF eS cS keys0,
    In (EP_HANDSHAKE, finm) outS /\ server_after O ss' keys0 kF eS cS finm /\
    forall cc ms cs' outC,
      let cs := run O cc (client_started O cc) ms in
      t_state cs = CLIENT_EXPECT_FINISHED ->
      client_handle_finished O cc cs finm = (OOk, cs', outC) ->
      k_tr (the_ks cs) = k_tr kF /\ k_alg (the_ks cs) = k_alg kF /\ t_dec cs = eS /\
      exists a b,
        t_keys cs' = t_keys cs ++
          [(DIR_DECRYPT, EP_ONE_RTT, a, ks_derive O (ks_extract O (ks_update kF finm) None) L_s_ap_traffic);
           (DIR_ENCRYPT, EP_ONE_RTT, b, ks_derive O (ks_extract O (ks_update kF finm) None) L_c_ap_traffic)].
Proof. exact transcript_agreement_run_x. Qed.
Print Assumptions transcript_agreement_run_partial.

(* run level: cipher suite, resumption flag, ALPN and early-data flag.  An honest server (not yet resumed) processed a
   framed ClientHello chm and emitted its flight.  Any client - any configuration, any earlier message sequence - that
   awaits the server Finished, whose own hello bytes are one framed message (codec: build_ch output; binder = tail),
   and that accepts the Finished of that flight: sent exactly the hello the server processed, and holds the same
   cipher suite, _session_resumed, alpn_negotiated and early_data_accepted as the server.
   (PARTIAL only in the sense of the symbolic premises ideal_crypto / codec_ok and Finished provenance.) *)
Theorem parameters_agreement_partial :
  forall O, ideal_crypto O -> codec_ok O ->
  forall sc ss chm ss' outS,
  t_resumed ss = false -> framed chm ->
  server_handle_hello O sc ss chm = (OOk, ss', outS) ->
  exists finm, In (EP_HANDSHAKE, finm) outS /\
    forall cc ms cs' outC,
      let cs := run O cc (client_started O cc) ms in
      t_state cs = CLIENT_EXPECT_FINISHED ->
      framed (client_hello_tr O cc (t_resumed cs)) ->
      client_handle_finished O cc cs finm = (OOk, cs', outC) ->
      chm = client_hello_tr O cc (t_resumed cs) /\
      k_suite (the_ks cs) = k_suite (the_ks ss') /\ t_resumed cs = t_resumed ss' /\
      t_alpn cs = t_alpn ss' /\ t_early cs = t_early ss'.
Proof. exact parameters_agreement_x. Qed.
Print Assumptions parameters_agreement_partial.

(* run level, both directions: for EVERY message sequence, an endpoint that completes by accepting the Finished the
   honest peer computed over its schedule has, byte for byte, the peer's transcript: no handshake message (any
   position, any type, either direction - the transcript holds both what was received and what was sent) differs
   from what the peer hashed.  Contrapositive = "changing any byte of any handshake message prevents completion on the
   endpoint that received it", given Finished provenance. *)
Theorem tamper_detected_run_partial :
  forall O, ideal_crypto O ->
  (forall cc ms finm cs' outC kF eS,
     let cs := run O cc (client_started O cc) ms in
     client_handle_finished O cc cs finm = (OOk, cs', outC) ->
     finm = o_build_fin O (ks_finished O kF eS) ->
     forall pre a a' post post', k_tr kF = pre ++ a ++ post -> k_tr (the_ks cs) = pre ++ a' ++ post' ->
                                 framed a -> framed a' -> a = a') /\
  (forall sc ms m ss' out0 kC eC,
     let ss := run O sc (init_server sc) ms in
     t_state ss = SERVER_EXPECT_FINISHED ->
     server_handle_finished O sc ss m = (OOk, ss', out0) ->
     m = o_build_fin O (ks_finished O kC eC) ->
     exists s0, ss = server_expect_finished O s0 /\
                k_tr (the_ks s0) = k_tr kC /\ k_alg (the_ks s0) = k_alg kC /\ t_dec s0 = eC /\
                (forall pre a a' post post', k_tr kC = pre ++ a ++ post -> k_tr (the_ks s0) = pre ++ a' ++ post' ->
                                             framed a -> framed a' -> a = a')).
Proof. exact (fun O H => conj (client_no_altered_message_x O H) (server_agreement_run_x O H)). Qed.
Print Assumptions tamper_detected_run_partial.

(* PARTIAL (per step): if ONE handshake message of the receiver's transcript differs from what the honest sender
   hashed (both framed, any position, any other content), the sender's Finished is refused: the client does not
   reach CLIENT_POST_HANDSHAKE, the server answers decrypt_error and stays where it was *)
Theorem tamper_detected_partial :
  forall O, ideal_crypto O ->
  forall c pre m m' post post', framed m -> framed m' -> m <> m' ->
  (forall s kS eS, k_tr kS = pre ++ m ++ post -> k_tr (the_ks s) = pre ++ m' ++ post' ->
     forall o s' out0, client_handle_finished O c s (o_build_fin O (ks_finished O kS eS)) = (o, s', out0) ->
     o <> OOk /\ t_state s' = t_state s) /\
  (forall s0 kC eC, k_tr kC = pre ++ m ++ post -> k_tr (the_ks s0) = pre ++ m' ++ post' ->
     forall o s' out0,
       server_handle_finished O c (server_expect_finished O s0) (o_build_fin O (ks_finished O kC eC)) = (o, s', out0) ->
       o = OAlert AD_decrypt_error /\ s' = server_expect_finished O s0).
Proof. exact tamper_detected_x. Qed.
Print Assumptions tamper_detected_partial.

(* no common cipher suite / signature algorithm / TLS version / ALPN: for EVERY message sequence the server stays
   in SERVER_EXPECT_CLIENT_HELLO; the client refuses a ServerHello with a suite or version it did not offer *)
Theorem no_common_option_partial :
  forall O c,
  (forall ms, (forall m v, In m ms -> o_parse_ch O m = POk v -> no_common c v) ->
              t_state (run O c (init_server c) ms) = SERVER_EXPECT_CLIENT_HELLO) /\
  (forall s m v, o_parse_sh O m = POk v ->
     (memz (sh_suite v) (f_suites c) = false \/
      match sh_version v with Some x => memz x (f_versions c) = false | None => True end) ->
     exists d, client_handle_hello O c s m = (OAlert d, s, [])).
Proof. exact no_common_option_x. Qed.
Print Assumptions no_common_option_partial.

(* QUIC: the version / connection-ID checks of _parse_transport_parameters, the server's version choice and the
   client's handling of a Version Negotiation packet *)
Theorem version_agreement_partial :
  (forall remote_iscid odcid rscid cpv tp chosen avail,
     tp_check true remote_iscid odcid rscid cpv tp = 0 -> tp_vi tp = Some (chosen, avail) ->
     chosen = cpv /\ obeqb (tp_iscid tp) remote_iscid = true /\ obeqb (tp_odcid tp) odcid = true /\
     obeqb (tp_rscid tp) rscid = true) /\
  (forall remote_iscid cpv tp chosen avail,
     tp_check false remote_iscid None None cpv tp = 0 -> tp_vi tp = Some (chosen, avail) ->
     chosen = cpv /\ In chosen avail) /\
  (forall supported current avail,
     let v := server_choose_version supported current avail in
     v = current \/ (In v supported /\ In v avail /\ is_version_compatible current v = true)) /\
  (forall supported current vn,
     match client_receive_vn supported current vn with
     | None => In current vn
     | Some None => forall v, In v supported -> ~ In v vn
     | Some (Some v) => In v supported /\ In v vn
     end).
Proof. exact version_agreement_x. Qed.
Print Assumptions version_agreement_partial.

(* non-vacuity: the premises are satisfiable (a concrete oracle record), and with it an honest pair completes *)
Theorem premises_satisfiable : exists O, ideal_crypto O /\ codec_ok O.
Proof. exact (ex_intro _ toyO2 (conj toy2_ideal toy2_codec)). Qed.
Print Assumptions premises_satisfiable.

(* ================= TWO-PARTY SYSTEM WITH A NETWORK ADVERSARY (model/TlsTwoParty.v) =================================
   One client Context and one server Context (the step functions above, unchanged; an Alert closes the endpoint as in
   QuicConnection), joined by a network the adversary controls: a run is any list of events {start, deliver m to the
   client, deliver m to the server}; adversary_run = every delivered byte string is in the adversary's Dolev-Yao
   knowledge (honest outputs so far, its own byte strings adv, closed under concatenation / slicing / hash / hmac /
   hkdf / pub / dh / sign with KNOWN keys and every message builder and parser) AND the symbolic-crypto idealisation
   dy_sound (HMAC and signature unforgeability, HKDF-Expand / HKDF-Extract / DH secrecy) holds at every knowledge state
   of the run.  ideal2 = ideal_crypto + codec_ok + cross-algorithm hash injectivity + signature injectivity + codec facts
   (binders survive the ClientHello round trip, CertificateVerify round trip, framed ClientHello, canonical Finished,
   message types); sig_pair = the server's certificate belongs to the server's key.
   secure outs c = what the adversary must not know: full handshake - the client holds THIS server's certificate, and
   the server's certificate key, the client's and the server's (EC)DHE private keys are unknown; resumed - the PSK is
   unknown (and the hashed PSK hello is one framed message).
   There is NO Finished-provenance premise any more: it is fin_provenance, a lemma of the model. *)

(* both complete => same cipher suite, resumption flag, ALPN, early-data verdict; the server's key log is exactly
   [0-RTT?; s hs; c hs; s ap; c ap] and the same four secrets are in the client's key log with mirrored directions;
   and the matching conversation below *)
Theorem both_complete_agree :
  forall O adv cc sc, ideal2 O -> sig_pair O (hd [] (f_chain sc)) (f_key sc) ->
  forall tr, adversary_run O adv cc sc tr ->
    let y := sys_run O cc sc (sys_init cc sc) tr in
    t_state (y_c y) = CLIENT_POST_HANDSHAKE -> t_state (y_s y) = SERVER_POST_HANDSHAKE ->
    secure O adv cc sc (y_out y) (y_c y) ->
    agreement O (y_c y) (y_s y) /\ exists chm ss1 outS, matching O cc sc y chm ss1 outS.
Proof. exact both_complete_agree_lemma. Qed.
Print Assumptions both_complete_agree.

(* the client completes only if the server it authenticated really processed the client's own ClientHello bytes and
   really emitted the ServerHello .. Finished flight that the client's transcript consists of (matching conversation) *)
Theorem client_completes_only_with_authentic_peer :
  forall O adv cc sc, ideal2 O -> sig_pair O (hd [] (f_chain sc)) (f_key sc) ->
  forall tr, adversary_run O adv cc sc tr ->
    let y := sys_run O cc sc (sys_init cc sc) tr in
    t_state (y_c y) = CLIENT_POST_HANDSHAKE -> secure O adv cc sc (y_out y) (y_c y) ->
    exists chm ss1 outS, matching O cc sc y chm ss1 outS.
Proof. exact client_completes_only_with_authentic_peer_lemma. Qed.
Print Assumptions client_completes_only_with_authentic_peer.

(* whatever the adversary delivered: at every position where the honest exchange (the client's hello, then the flight
   the server emitted) has the framed message a, a completed client hashed a - a handshake message altered on its way
   to the client, or a ClientHello altered on its way to the server, prevents the client's completion - UNLESS the
   adversary knows the authenticating key material (premise secure) *)
Theorem tamper_detected_two_party :
  forall O adv cc sc, ideal2 O -> sig_pair O (hd [] (f_chain sc)) (f_key sc) ->
  forall tr, adversary_run O adv cc sc tr ->
    let y := sys_run O cc sc (sys_init cc sc) tr in
    t_state (y_c y) = CLIENT_POST_HANDSHAKE -> secure O adv cc sc (y_out y) (y_c y) ->
    exists chm ss1 outS, matching O cc sc y chm ss1 outS /\
      forall pre a a' post post',
        chm ++ concat (map snd outS) = pre ++ a ++ post -> k_tr (the_ks (y_c y)) = pre ++ a' ++ post' ->
        framed a -> framed a' -> a = a'.
Proof. exact tamper_detected_two_party_lemma. Qed.
Print Assumptions tamper_detected_two_party.

(* a client whose hello shares no option with the server never completes with that server, in any adversary run *)
Theorem no_common_option_two_party :
  forall O adv cc sc, ideal2 O -> sig_pair O (hd [] (f_chain sc)) (f_key sc) ->
  forall tr, adversary_run O adv cc sc tr ->
    (forall r v, o_parse_ch O (client_hello_tr O cc r) = POk v -> no_common sc v) ->
    let y := sys_run O cc sc (sys_init cc sc) tr in
    ~ (t_state (y_c y) = CLIENT_POST_HANDSHAKE /\ secure O adv cc sc (y_out y) (y_c y)).
Proof. exact no_common_option_two_party_lemma. Qed.
Print Assumptions no_common_option_two_party.

(* non-vacuity of the structural premises *)
Theorem two_party_premises_satisfiable : exists O, ideal2 O /\ sig_pair O [77] [77].
Proof. exact (ex_intro _ toyO3 (conj toy3_ideal2 toy3_pair)). Qed.
Print Assumptions two_party_premises_satisfiable.
