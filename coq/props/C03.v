(* C03  Handshake completes only with the authentic peer and both sides agree  (PARTIAL: symbolic).
   Model: model/TlsSymbolic.v - the handshake of tls.py over an ORACLE record for cryptography, X.509 and the
   message codecs; transcript = the exact bytes given to update_hash.  Every statement is for all
   configurations, all message sequences and all oracle behaviours satisfying the stated premises. *)
From AQ Require Import lib.Base gen.TlsDispatch model.TlsSymbolic.
From AQ Require Import gen.TlsTranscript proofs.TlsSymbolicP1 proofs.TlsSymbolicPGen.

(* every message sequence, every oracle behaviour (no cryptographic premise needed): a client that reaches
   CLIENT_POST_HANDSHAKE verified a CertificateVerify (advertised algorithm) under the leaf of the certificate
   list it holds, over a transcript that begins with its own ClientHello and is a prefix of the final
   transcript, and - unless CERT_NONE - cert_ok accepted that list for the requested name; or it offered a valid
   ticket, a ServerHello selected it, and the schedule in use descends from that ticket's resumption secret *)
Theorem client_completion_authenticated :
  forall (O : oracles) (c : cfg) (ms : list bytes),
    let s := run O c (client_started O c) ms in
    t_state s = CLIENT_POST_HANDSHAKE ->
    (t_resumed s = false /\ cert_authed O c s (the_ks s)) \/
    (t_resumed s = true /\ psk_keyed O c (the_ks s)).
Proof. exact client_completion_authenticated_lemma. Qed.
Print Assumptions client_completion_authenticated.

(* tie of the hand-written model to the current source: the per-handler transcript skeleton (what is hashed, when,
   relative to which derivation / MAC / signature / comparison; labels; negotiate preference order), the suite and
   signature tables, the context strings, the transport-parameter checks and the version numbers re-extracted from
   tls.py / connection.py on this run are the ones the model was transcribed from *)
Theorem generated_fragment_as_modelled :
  (forall h, transcript_skeleton h = modelled_skeleton h) /\
  (map fst gen_cipher_suites = [0x1301; 0x1302; 0x1303] /\ forall p, In p gen_cipher_suites -> suite_alg (fst p) = snd p) /\
  (forall p, In p gen_sig_kinds -> sig_kind (fst p) = snd p) /\
  (gen_server_context_string = SERVER_CONTEXT_STRING /\ gen_client_context_string = CLIENT_CONTEXT_STRING) /\
  gen_tp_checks = [(6, QE_TRANSPORT_PARAMETER_ERROR); (1, QE_TRANSPORT_PARAMETER_ERROR); (2, QE_TRANSPORT_PARAMETER_ERROR);
                   (3, QE_TRANSPORT_PARAMETER_ERROR); (4, QE_TRANSPORT_PARAMETER_ERROR); (5, QE_VERSION_NEGOTIATION_ERROR)] /\
  (gen_version_1 = V1 /\ gen_version_2 = V2).
Proof. exact generated_fragment_as_modelled_lemma. Qed.
Print Assumptions generated_fragment_as_modelled.
