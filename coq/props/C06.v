(* C06  Sender never exceeds the peer's flow-control and stream-count limits.
   Only statements here; proofs live in coq/proofs/FlowSendP.v; the model is coq/model/FlowSend.v.

   [freach c gm]: c is reachable from a fresh connection by ANY sequence of the model's operations
   (application writes/resets, received MAX_DATA / MAX_STREAM_DATA / MAX_STREAMS / STOP_SENDING, peer-opened
   streams, transport parameters, handshake completion, delivery outcomes -- legitimate or not --, and
   _write_stream_frame / _write_reset_stream_frame / _write_stop_sending_frame calls for any stream in any order,
   stop_stream, with any size budget)
   in which transport parameters never lower a flow-control value the connection already holds
   ([pguard], RFC 9000 7.4.1).  [gm sid] is the largest MAX_STREAM_DATA value received for the stream.

   Transport parameters exist in two transcriptions (the tie feeds the one the tree contains): [OParams], the function
   AS IT IS in /repo (finding C06-F1 is open), needs the guard on its values; [OParamsP], the function as the PROPOSED
   repair docs/C06-fix-1.patch would make it (not applied), needs it only when it restores remembered parameters
   ([PTicket]).  With 0-RTT accepted ([PAccepted]) [freach] puts NO condition
   on the values -- the function refuses a lowered value itself (accepted_0rtt_parameters_never_lower).  With 0-RTT
   not accepted ([PRejected]) the values may be LOWER than those held; the only conditions are that they are varints
   and that every stream existing at that moment was opened locally (the function runs while EncryptedExtensions is
   handled, before any peer frame can be read; the tie checks it on every scenario of a repaired tree).  So on a tree
   with the proposed repair every theorem over [freach] below would hold without an assumption on the transport
   parameters' values; on /repo as it is, the histories the tie produces contain [OParams] only and the guard on its
   values is a genuine assumption (refuted without it: stream_within_limit_lowered_parameters_refuted). *)
From Coq Require Import ZArith List Bool.
From AQ Require Import lib.Base model.RangeSet model.StreamSend model.FlowSend proofs.StreamSendP proofs.FlowSendP proofs.FlowSendP2 proofs.FlowSendP3.

(* at every moment highest_offset(s) <= max_stream_data_remote(s); for a stream that is not held back by the
   stream-count limit that limit is covered by what the peer sent: the transport parameter IN FORCE for the stream's
   kind, or a MAX_STREAM_DATA frame for the stream; a stream that is held back has sent nothing (its limit is
   replaced when _unblock_streams releases it) *)
Theorem stream_within_limit : forall c gm t, freach c gm -> In t (c_streams c) ->
  0 <= s_highest (t_send t) <= t_msdr t /\
  (t_blocked t = false -> t_msdr t <= granted c gm (t_id t)) /\
  (t_blocked t = true -> s_highest (t_send t) = 0).
Proof. exact stream_within_limit_l. Qed.
Print Assumptions stream_within_limit.

(* the sum of the highest offsets of all streams IS _remote_max_data_used and is within _remote_max_data *)
Theorem connection_within_limit : forall c gm, freach c gm ->
  sum_high (c_streams c) = c_used c /\ c_used c <= c_max_data c.
Proof. exact connection_within_limit_l. Qed.
Print Assumptions connection_within_limit.

(* credit accounting, in EVERY state (reachable or not, guarded or not): `used` moves exactly as the sum of
   the highest offsets moves, in every operation but the one that forgets (repaired parameters, 0-RTT not accepted:
   counter and highest offsets all restart from 0, rejected_0rtt_forgets) ... *)
Theorem retransmit_free : forall c op, forgetting op = false ->
  c_used (snd (fstep c op)) - c_used c = sum_high (c_streams (snd (fstep c op))) - sum_high (c_streams c).
Proof. exact used_tracks_highest. Qed.
Print Assumptions retransmit_free.

(* ... it changes in no such operation other than a _write_stream_frame call, by the rise of that stream's
   highest_offset (so a frame that re-sends lost bytes below highest_offset costs nothing) *)
Theorem retransmit_free_only_get : forall c op, forgetting op = false -> c_used (snd (fstep c op)) <> c_used c ->
  exists sid ms t, op = OGet sid ms /\ find_strm sid (c_streams c) = Some t /\
    c_used (snd (fstep c op)) = c_used c + (s_highest (snd (get_frame (t_send t) ms (Some (max_offset c t)))) - s_highest (t_send t)).
Proof. exact used_changes_only_in_get. Qed.
Print Assumptions retransmit_free_only_get.

(* the sender: highest_offset never moves outside get_frame, never decreases, and a get_frame call leaves
   it alone or raises it to at most max_offset *)
Theorem highest_moves_only_in_get_frame : forall st ms m,
  s_highest (snd (get_frame st ms (Some m))) = s_highest st \/
  (s_highest st < s_highest (snd (get_frame st ms (Some m))) /\ s_highest (snd (get_frame st ms (Some m))) <= m).
Proof. exact get_highest. Qed.
Print Assumptions highest_moves_only_in_get_frame.

(* the extra sender invariant, over the legitimate sender histories of C10 ([reach]): after get_frame cut a
   frame, highest_offset is exactly the maximum of its old value and the end of that frame -- so at every moment
   it is the largest end offset of any frame ever emitted, and it grows by exactly the newly covered bytes *)
Theorem sender_highest_is_max_frame_end : forall st g ms mo off data fin st',
  reach st g -> s_reset st = None -> get_frame st ms mo = (SFrame off data fin, st') ->
  s_highest st' = Z.max (s_highest st) (off + Zlen data).
Proof. exact get_frame_highest_exact. Qed.
Print Assumptions sender_highest_is_max_frame_end.

(* every STREAM frame the stream loop cuts (FIN-only frames included) ends within the stream's limit, which is
   covered by what the peer granted; it costs exactly the bytes it carries above the old highest_offset --
   nothing when it only re-sends lost bytes -- and the connection stays within MAX_DATA.  Hypothesis
   [reach (t_send t) g]: the stream's sender has a legitimate history in the sense of C10. *)
Theorem frames_within_limit : forall c gm sid ms mo off data fin c' t g,
  freach c gm -> find_strm sid (c_streams c) = Some t -> reach (t_send t) g ->
  fstep c (OGet sid ms) = (FGet mo (SFrame off data fin), c') ->
  off + Zlen data <= t_msdr t /\ t_msdr t <= granted c gm sid /\
  c_used c' = c_used c + Z.max 0 (off + Zlen data - s_highest (t_send t)) /\
  c_used c' <= c_max_data c' /\
  (off + Zlen data <= s_highest (t_send t) -> c_used c' = c_used c).
Proof. exact frames_within_limit_l. Qed.
Print Assumptions frames_within_limit.

(* stretch: a STREAM frame is cut only for a locally initiated stream inside the peer's stream-count limit *)
Theorem blocked_streams_silent_stream_frames : forall c gm sid ms mo o c',
  freach c gm -> fstep c (OGet sid ms) = (FGet mo o, c') -> is_local c sid = true -> sid / 4 < ms_for c sid.
Proof. exact stream_frames_within_count. Qed.
Print Assumptions blocked_streams_silent_stream_frames.

(* stretch: the final size of a RESET_STREAM frame is highest_offset, within the stream's limit *)
Theorem reset_final_size_within_limit : forall c gm sid code fs c',
  freach c gm -> fstep c (OGetReset sid) = (FSender (SResetFrame code fs), c') ->
  exists t, find_strm sid (c_streams c) = Some t /\ fs = s_highest (t_send t) /\ fs <= t_msdr t /\ t_msdr t <= granted c gm sid.
Proof. exact reset_within_limit. Qed.
Print Assumptions reset_final_size_within_limit.

(* stretch (positive since the fix of finding C06-F2 on the `fixes` branch): no STREAM, RESET_STREAM or
   STOP_SENDING frame is written for a locally initiated stream with sid/4 >= max_streams -- each of the three
   write calls of the stream loop is refused (or the stream does not exist), for every size budget *)
Theorem blocked_streams_silent : forall c gm sid, freach c gm -> is_local c sid = true -> ms_for c sid <= sid / 4 ->
  (forall ms, silent (fst (fstep c (OGet sid ms)))) /\ silent (fst (fstep c (OGetReset sid))) /\ silent (fst (fstep c (OGetStop sid))).
Proof. exact blocked_streams_silent_l. Qed.
Print Assumptions blocked_streams_silent.

(* THE TREE AS IT IS: REFUTED without the parameter guard (open known finding C06-F1): remembered 0-RTT parameters 100, the
   handshake delivers 50; the stream created before keeps 100 and reaches highest_offset 80 > 50 = everything
   the peer has granted for it. *)
Theorem stream_within_limit_lowered_parameters_refuted :
  let c := frun (conn_init true) ops_f1 in let gm := grun (fun _ => 0) ops_f1 in
  exists t, find_strm 0 (c_streams c) = Some t /\ s_highest (t_send t) = 80 /\ granted c gm 0 = 50.
Proof. exact lowered_parameters_witness. Qed.
Print Assumptions stream_within_limit_lowered_parameters_refuted.

(* "data blocked by a limit is sent once the limit is raised", full strength for one call of the stream loop: a stream
   with a legitimate sender history (C10 [reach]) that is not held back by the stream-count limit, was not reset and has
   something waiting -- a pending range (written and never sent, or declared lost) that starts below max_offset =
   min(connection credit, stream limit), or, with no range pending, a pending FIN -- gets a frame from the next
   _write_stream_frame call with a positive size budget: the loop's own guard (reset_pending, is_blocked,
   buffer_is_empty) lets it through, the frame starts at the sender's next offset, carries at least one byte and ends
   within max_offset when a range was pending, and is the bare FIN otherwise.  Which stream the loop reaches with
   which budget is the scheduler's business (docs/C06.md, "fairness"). *)
Theorem unblocked_progress : forall c sid ms t g,
  find_strm sid (c_streams c) = Some t -> reach (t_send t) g ->
  t_blocked t = false -> s_reset (t_send t) = None -> 0 < ms ->
  has_work (t_send t) ->
  (forall start rstop rest, s_pending (t_send t) = (start, rstop) :: rest -> start < max_offset c t) ->
  exists data fin c',
    fstep c (OGet sid ms) = (FGet (max_offset c t) (SFrame (next_offset (t_send t)) data fin), c') /\
    (s_pending (t_send t) <> nil -> data <> nil /\ next_offset (t_send t) + Zlen data <= max_offset c t) /\
    (s_pending (t_send t) = nil -> data = nil /\ fin = true).
Proof. exact unblocked_progress_full. Qed.
Print Assumptions unblocked_progress.

(* the invariant that was missing: after EVERY operation sequence from a fresh connection (no guard of any kind),
   a stream that is not reset and has a pending range or a pending FIN has buffer_is_empty = False *)
Theorem buffer_flag_tracks_pending : forall cl ops t, In t (c_streams (frun (conn_init cl) ops)) ->
  s_reset (t_send t) = None -> has_work (t_send t) -> s_empty (t_send t) = false.
Proof. exact flag_always. Qed.
Print Assumptions buffer_flag_tracks_pending.

(* the credit counter IS the sum of the highest offsets, after EVERY operation sequence from a fresh connection:
   no parameter guard, no assumption on the delivery outcomes, any interleaving of losses, writes between a loss
   and the next send, re-cuts with any size budget, MAX_DATA / MAX_STREAM_DATA in any order.  (This is the
   statement the tie compares `_remote_max_data_used` against before every _write_stream_frame call.) *)
Theorem credit_is_sum_of_highest : forall cl ops,
  c_used (frun (conn_init cl) ops) = sum_high (c_streams (frun (conn_init cl) ops)).
Proof. exact credit_is_sum_of_highest_l. Qed.
Print Assumptions credit_is_sum_of_highest.

(* one _write_stream_frame call in ANY state: the charge is the rise of that stream's highest_offset, never
   negative, and no other stream is touched *)
Theorem write_stream_frame_charge : forall c sid ms t,
  find_strm sid (c_streams c) = Some t ->
  let c' := snd (fstep c (OGet sid ms)) in
  exists t', find_strm sid (c_streams c') = Some t' /\
    c_used c' - c_used c = s_highest (t_send t') - s_highest (t_send t) /\ 0 <= c_used c' - c_used c /\
    forall sid', sid' <> sid -> find_strm sid' (c_streams c') = find_strm sid' (c_streams c).
Proof. exact get_charge_l. Qed.
Print Assumptions write_stream_frame_charge.

(* a STREAM frame that STRADDLES the previous highest offset (it starts inside bytes already sent -- a lost range
   that the pending RangeSet merged with fresh bytes, or a re-cut with a different budget -- and ends above it) is
   charged exactly its part above the old highest offset: more than nothing, less than its length; the sum
   invariant and the connection limit hold afterwards and the frame ends within max_offset *)
Theorem straddling_frame_charged_exactly : forall c gm sid ms mo off data fin c' t g,
  freach c gm -> find_strm sid (c_streams c) = Some t -> reach (t_send t) g ->
  fstep c (OGet sid ms) = (FGet mo (SFrame off data fin), c') ->
  off < s_highest (t_send t) < off + Zlen data ->
  c_used c' = c_used c + (off + Zlen data - s_highest (t_send t)) /\
  0 < c_used c' - c_used c < Zlen data /\
  sum_high (c_streams c') = c_used c' /\ c_used c' <= c_max_data c' /\
  off + Zlen data <= mo.
Proof. exact straddling_frame_charged_l. Qed.
Print Assumptions straddling_frame_charged_exactly.

(* such frames exist (hypotheses above are satisfiable): MAX_DATA 200; stream 0 sends [0,40), the packet is lost, 40
   more bytes are written before the retransmission is cut -> pending [0,80) around highest_offset 40; the frame
   [0,80) is charged 40 (used 40 -> 80), so stream 4 (150 bytes queued) stops at 120: 80 + 120 = 200 = MAX_DATA *)
Theorem straddling_frame_witness :
  let c := frun (conn_init true) ops_straddle_pre in
  guards (conn_init true) ops_straddle /\
  (exists t, find_strm 0 (c_streams c) = Some t /\ s_highest (t_send t) = 40 /\ s_pending (t_send t) = (0, 80) :: nil /\
             reach (t_send t) (snd (srun (send_init true) ghost_init sops_straddle))) /\
  c_used c = 40 /\
  (exists c1, fstep c (OGet 0 1000) = (FGet 200 (SFrame 0 (zeros 80) false), c1) /\ c_used c1 = 80) /\
  let c2 := frun (conn_init true) ops_straddle in
  c_used c2 = 200 /\ c_max_data c2 = 200 /\
  map (fun t => (t_id t, s_highest (t_send t))) (c_streams c2) = (0, 80) :: (4, 120) :: nil.
Proof. exact straddle_witness_l. Qed.
Print Assumptions straddling_frame_witness.

(* ---- the PROPOSED repair of finding C06-F1 (docs/C06-fix-1.patch; NOT applied to the tree: C06-F1 is an open known
   finding).  The theorems of this section are statements about [OParamsP], the transcription of
   _parse_transport_parameters AS THE PATCH WOULD MAKE IT; the tie feeds [OParamsP] only to a tree whose source contains
   the repair, and [OParams] -- the function as it is, about which stream_within_limit_lowered_parameters_refuted
   speaks -- to every other tree, /repo included. ---- *)

(* [proposed repair] 0-RTT accepted, ANY state and ANY values: the function stores the six limits, none below the value held, or it
   stops with PROTOCOL_VIOLATION; either way no limit is lowered and nothing but the limits changes *)
Theorem accepted_0rtt_parameters_never_lower : forall c md bl br un sb su,
  let r := fstep c (OParamsP PAccepted md bl br un sb su) in
  (fst r = FOk \/ fst r = FQErr PROTOCOL_VIOLATION) /\
  sc_le c (snd r) /\ c_max_data c <= c_max_data (snd r) /\
  c_streams (snd r) = c_streams c /\ c_used (snd r) = c_used c /\
  (fst r = FOk -> snd r = with_limits c (orz md 0) (orz bl 0) (orz br 0) (orz un 0) (orz sb 0) (orz su 0)).
Proof. exact accepted_never_lowers_l. Qed.
Print Assumptions accepted_0rtt_parameters_never_lower.

(* [proposed repair] 0-RTT not accepted, ANY state and ANY values: the six limits become exactly the received values (absent = 0); every
   stream is held back with highest_offset 0, the credit counter is 0, and no _write_stream_frame call is made for
   any stream until _unblock_streams releases it under the new limits *)
Theorem rejected_0rtt_forgets : forall c md bl br un sb su,
  let r := fstep c (OParamsP PRejected md bl br un sb su) in
  fst r = FOk /\
  c_max_data (snd r) = orz md 0 /\ c_msd_bl (snd r) = orz bl 0 /\ c_msd_br (snd r) = orz br 0 /\
  c_msd_uni (snd r) = orz un 0 /\ c_ms_bidi (snd r) = orz sb 0 /\ c_ms_uni (snd r) = orz su 0 /\
  c_used (snd r) = 0 /\
  map t_id (c_streams (snd r)) = map t_id (c_streams c) /\
  (forall t, In t (c_streams (snd r)) -> t_blocked t = true /\ s_highest (t_send t) = 0) /\
  (forall sid ms, silent (fst (fstep (snd r) (OGet sid ms)))).
Proof. exact rejected_forgets_l. Qed.
Print Assumptions rejected_0rtt_forgets.

(* [proposed repair] after the handshake parameters are processed -- LOWERED ones included -- no STREAM frame exceeds the limits in
   force: every _write_stream_frame call made in a reachable state is for a stream inside the stream-count limit in
   force; its max_offset is within the stream's limit, which the peer granted under the parameters in force (or by
   MAX_STREAM_DATA), and within the connection credit, where the counter is the sum of the highest offsets and stays
   within MAX_DATA; a frame that carries data ends at or below max_offset.  [reach_upto_forget]: the sender's
   history is legitimate in the sense of C10, up to a highest_offset that was reset by the forgetting. *)
Theorem latest_limits_respected : forall c gm sid ms mo o c' t,
  freach c gm -> find_strm sid (c_streams c) = Some t ->
  fstep c (OGet sid ms) = (FGet mo o, c') ->
  mo <= t_msdr t /\ t_msdr t <= granted c gm sid /\
  mo <= s_highest (t_send t) + c_max_data c - c_used c /\
  c_used c = sum_high (c_streams c) /\ c_used c' = sum_high (c_streams c') /\ c_used c' <= c_max_data c' /\
  (is_local c sid = true -> sid / 4 < ms_for c sid) /\
  (forall g off data fin, reach_upto_forget (t_send t) g -> o = SFrame off data fin -> data <> nil -> off + Zlen data <= mo).
Proof. exact latest_limits_respected_l. Qed.
Print Assumptions latest_limits_respected.

(* [proposed repair] the scenario of finding C06-F1 under the repaired function (the hypotheses above are satisfiable by a history that
   lowers the limits): remembered limit 100, 20 bytes sent in 0-RTT, 0-RTT not accepted, the handshake grants 50: the
   stream is released with limit 50 and highest_offset 0; the lost 20 bytes and 60 new ones are cut into ONE frame that
   stops at 50 and is charged 50; the next call yields nothing; with 0-RTT accepted the same parameters are refused
   with PROTOCOL_VIOLATION *)
Theorem repaired_parameters_witness :
  let c := frun (conn_init true) ops_f1_repaired in
  guards (conn_init true) ops_f1_repaired /\
  (exists t, find_strm 0 (c_streams c) = Some t /\ t_blocked t = false /\ t_msdr t = 50 /\ s_highest (t_send t) = 0) /\ c_used c = 0 /\
  (exists c1, fstep c (OGet 0 1000) = (FGet 50 (SFrame 0 (zeros 50) false), c1) /\ c_used c1 = 50 /\
              fst (fstep c1 (OGet 0 1000)) = FGet 50 SNone) /\
  fst (fstep (frun (conn_init true) (firstn 3 ops_f1_repaired))
             (OParamsP PAccepted (Some 1000) (Some 50) (Some 50) (Some 50) (Some 4) (Some 4))) = FQErr PROTOCOL_VIOLATION.
Proof. exact repaired_witness_l. Qed.
Print Assumptions repaired_parameters_witness.

(* ---- STREAMS_BLOCKED (aioquic writes no DATA_BLOCKED and no STREAM_DATA_BLOCKED frame) ---- *)

(* the STREAMS_BLOCKED step of _write_application: a frame is written only for a kind whose blocked list is not
   empty, it carries the CURRENT max_streams of that kind, and -- in a reachable state in which _unblock_streams has
   run since max_streams last changed ([settled]) -- the first stream of the list is locally opened, of that kind,
   held back, and its index is at or above the limit carried: the sender really is blocked at that limit *)
Theorem streams_blocked_frame_correct : forall c gm uni l c',
  freach c gm -> settled c -> fstep c (OBlockedFrame uni) = (FBlocked (Some l), c') ->
  c' = c /\ l = ms_of c uni /\
  exists sid t, In sid (blk_of c uni) /\ find_strm sid (c_streams c) = Some t /\ t_blocked t = true /\
    is_local c sid = true /\ sid_uni sid = uni /\ l <= sid / 4.
Proof. exact streams_blocked_frame_correct_l. Qed.
Print Assumptions streams_blocked_frame_correct.

(* [settled] holds from handshake completion on: completing the handshake establishes it in ANY state, and every
   operation other than the processing of transport parameters (which precedes handshake completion) keeps it *)
Theorem settled_from_handshake_completion : forall c,
  settled (snd (fstep c OHandshakeDone)) /\
  forall op, settled c -> params_op op = false -> settled (snd (fstep c op)).
Proof. intros c. split; [exact (settled_after_handshake_l c)|intros op; exact (settled_step c op)]. Qed.
Print Assumptions settled_from_handshake_completion.

(* non-vacuity: max_streams_bidi 1, streams 4 and 8 held back: the frame carries 1; after MAX_STREAMS 2 (stream 4
   released, 8 still held back) it carries 2; after MAX_STREAMS 3 none is written; never one for the uni kind *)
Theorem streams_blocked_witness :
  let c := frun (conn_init true) ops_sb in
  guards (conn_init true) ops_sb /\ settled c /\
  fst (fstep c (OBlockedFrame false)) = FBlocked (Some 1) /\ fst (fstep c (OBlockedFrame true)) = FBlocked None /\
  fst (fstep (snd (fstep c (OMaxStreams false 2))) (OBlockedFrame false)) = FBlocked (Some 2) /\
  fst (fstep (snd (fstep c (OMaxStreams false 3))) (OBlockedFrame false)) = FBlocked None.
Proof. exact streams_blocked_witness_l. Qed.
Print Assumptions streams_blocked_witness.

(* ---- the order in which the stream loop serves the streams (fairness) ---- *)

(* the queue update at the end of the stream loop: a stream s that stays in the queue is never overtaken -- the
   streams visited before it afterwards are those visited before it earlier minus the ones served (with new data) or
   discarded; their number shrinks whenever one of them was served; a newly created stream is queued behind s.
   Together with unblocked_progress: s is passed over at most as many times as there are streams ahead of it. *)
Theorem queue_rotation_fair : forall q gone served s, In s q -> memz s gone = false ->
  ahead s (requeue q gone served) = filter (fun x => negb (memz x gone)) (ahead s q) /\
  (length (ahead s (requeue q gone served)) <= length (ahead s q))%nat /\
  (forall x, In x (ahead s q) -> memz x gone = true ->
     (length (ahead s (requeue q gone served)) < length (ahead s q))%nat) /\
  (forall n, ahead s (q ++ (n :: nil)) = ahead s q).
Proof. exact queue_rotation_fair_l. Qed.
Print Assumptions queue_rotation_fair.

(* ---- progress for a whole pass of the stream loop ---- *)

(* [stream_loop c q budgets]: the loop of _write_application over the queue q (per stream: STOP_SENDING branch, then
   RESET_STREAM or STREAM), the i-th visited stream's _write_stream_frame call being offered budgets[i]; the list
   ending early = QuicPacketBuilderStop.  If stream s is waiting (not held back, not reset, a pending range below
   both limits or a pending FIN, C10-legitimate sender) and every call up to and including the one for s is offered a
   positive budget, the pass cuts a STREAM frame for s or for a stream visited before s: the only thing that can take
   s's turn away is a frame for an earlier stream -- which, if it carried new data, then moves behind s
   (queue_rotation_fair). *)
Theorem stream_loop_progress : forall q c budgets s t g,
  In s q -> (length (ahead s q) < length budgets)%nat -> Forall (fun ms => 0 < ms) budgets ->
  waiting c s t g ->
  exists x o, In (x, o) (fst (stream_loop c q budgets)) /\ frame_in o /\ (x = s \/ In x (ahead s q)).
Proof. exact loop_progress_l. Qed.
Print Assumptions stream_loop_progress.
