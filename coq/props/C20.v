(* C20  Logging is observationally transparent (PARTIAL: skeleton level).
   Only statements here; proofs live in coq/proofs/LogEraseP.v, LogSkeletonP.v, LogEncP.v. *)
From Coq Require Import String.
From AQ Require Import lib.Base model.LogErase model.LogEnc gen.LogSkeleton
  proofs.LogEraseP proofs.LogSkeletonP proofs.LogEncP.

(* Generic, proved once by induction on programs of the Core/Log language of model/LogErase.v.
   For any callee environment in which (1) the callees accepted inside Log code only touch logger-owned
   locations and do not raise and (2) the callees of Core code do not depend on logger-owned locations:
   if Core code never reads a logger-owned location and every Log block writes only logger-owned
   locations, calls only accepted callees and contains no return/raise/break/continue (prog_ok), then
   the core projection of a run equals, on every location, the core projection of the run of the ERASED
   program started from the core projection, and control leaves both at the same point. *)
Theorem erasure_noninterference : forall (fenv : fn -> fsem) (meths : list string),
  (forall f args s, fn_log_ok meths f = true ->
     snd (fenv f args s) = false /\ (forall l, log_owned l = false -> fst (fst (fenv f args s)) l = s l)) ->
  (forall f args s1 s2, fn_reads_log f = false -> core_eq s1 s2 ->
     core_eq (fst (fst (fenv f args s1))) (fst (fst (fenv f args s2))) /\
     snd (fst (fenv f args s1)) = snd (fst (fenv f args s2)) /\
     snd (fenv f args s1) = snd (fenv f args s2)) ->
  forall p s, prog_ok meths p = true ->
    (forall l, proj_core (fst (run fenv p s)) l = proj_core (fst (run fenv (erase p) (proj_core s))) l) /\
    snd (run fenv p s) = snd (run fenv (erase p) (proj_core s)).
Proof. exact erasure_ni_proj. Qed.
Print Assumptions erasure_noninterference.

(* the same, relationally: from stores that agree outside the logger, p and erase p end in stores that agree
   outside the logger *)
Theorem erasure_noninterference_rel : forall (fenv : fn -> fsem) (meths : list string),
  (forall f args s, fn_log_ok meths f = true ->
     snd (fenv f args s) = false /\ (forall l, log_owned l = false -> fst (fst (fenv f args s)) l = s l)) ->
  (forall f args s1 s2, fn_reads_log f = false -> core_eq s1 s2 ->
     core_eq (fst (fst (fenv f args s1))) (fst (fst (fenv f args s2))) /\
     snd (fst (fenv f args s1)) = snd (fst (fenv f args s2)) /\
     snd (fenv f args s1) = snd (fenv f args s2)) ->
  forall p s1 s2, prog_ok meths p = true -> core_eq s1 s2 ->
    core_eq (fst (run fenv p s1)) (fst (run fenv (erase p) s2)) /\
    snd (run fenv p s1) = snd (run fenv (erase p) s2).
Proof. exact erasure_ni_rel. Qed.
Print Assumptions erasure_noninterference_rel.

(* Finite, by vm_compute on coq/gen/LogSkeleton.v (regenerated from the current source on every run):
   every method of logger.py's QuicLoggerTrace, every statement guarded by a test on a logger-owned name in
   connection.py, recovery.py, packet_builder.py, congestion/*.py, h3/connection.py (with the methods they call
   inlined), and every other mention of a logger-owned name meets the side conditions. *)
Theorem skeleton_wf : skeleton_ok logger_methods guarded_blocks unguarded_uses = true.
Proof. exact skeleton_ok_now. Qed.
Print Assumptions skeleton_wf.

(* Both combined (skeleton level): any program made of Core code that never looks at logger-owned locations and
   of Log blocks taken from the generated skeleton is unaffected, on its core state and control flow, by erasing
   the Log blocks -- PROVIDED the accepted callees do not raise, which encoders_http3_headers_refuted shows to be
   false for encode_http3_headers_frame / encode_http3_push_promise_frame. *)
Theorem logging_transparent_partial : forall (fenv : fn -> fsem),
  (forall f args s, fn_log_ok checked_methods f = true ->
     snd (fenv f args s) = false /\ (forall l, log_owned l = false -> fst (fst (fenv f args s)) l = s l)) ->
  (forall f args s1 s2, fn_reads_log f = false -> core_eq s1 s2 ->
     core_eq (fst (fst (fenv f args s1))) (fst (fst (fenv f args s2))) /\
     snd (fst (fenv f args s1)) = snd (fst (fenv f args s2)) /\
     snd (fenv f args s1) = snd (fenv f args s2)) ->
  forall p s, core_ok p = true -> built_from_skeleton p ->
    (forall l, proj_core (fst (run fenv p s)) l = proj_core (fst (run fenv (erase p) (proj_core s))) l) /\
    snd (run fenv p s) = snd (run fenv (erase p) (proj_core s)).
Proof. exact transparent_skeleton. Qed.
Print Assumptions logging_transparent_partial.

(* encoders_total, by raising primitive.  PACKET_TYPE_NAMES[...]: every QuicPacketType member has a name. *)
Theorem encoders_total_packet_type : forall m, In m packet_type_members ->
  packet_type_lookup packet_type_name_keys m = Ok m.
Proof. exact packet_type_total. Qed.
Print Assumptions encoders_total_packet_type.

(* hexdump (connection ids, tokens, path challenge data, transport parameters, ODCID) never raises on bytes *)
Theorem encoders_total_hexdump : forall b, bytes_ok b -> hexdump b = Ok (hexlify b).
Proof. exact hexdump_total. Qed.
Print Assumptions encoders_total_hexdump.

(* _encode_http3_headers: exact outcome; total on ASCII; on the receive path (validated names) it raises exactly
   when some header VALUE is not UTF-8 *)
Theorem encoders_http3_headers_outcome : forall hs,
  encode_http3_headers hs = (if forallb header_utf8 hs then Ok hs else Err UnicodeDecodeError).
Proof. exact encode_http3_headers_spec. Qed.
Print Assumptions encoders_http3_headers_outcome.

Theorem encoders_total_http3_ascii : forall hs, Forall (fun h => ascii_ok (fst h) /\ ascii_ok (snd h)) hs ->
  encode_http3_headers hs = Ok hs.
Proof. exact ascii_headers_total. Qed.
Print Assumptions encoders_total_http3_ascii.

Theorem encoders_http3_received_outcome : forall hs,
  Forall (fun h => bytes_ok (fst h) /\ validate_header_name (fst h) = true) hs ->
  encode_http3_headers hs = (if forallb (fun h => utf8_valid (snd h)) hs then Ok hs else Err UnicodeDecodeError).
Proof. exact received_headers_outcome. Qed.
Print Assumptions encoders_http3_received_outcome.

(* the repair direction: with a total decoder (errors="replace", latin-1, ...) the header encoder is total *)
Theorem encoders_total_http3_lenient : forall hs, encode_http3_headers_with false hs = Ok hs.
Proof. exact lenient_total. Qed.
Print Assumptions encoders_total_http3_lenient.

(* REFUTED (finding F7): a header that validate_header_name / validate_header_value accept makes the
   HEADERS and PUSH_PROMISE encoders raise UnicodeDecodeError (witness x: \x80). *)
Theorem encoders_http3_headers_refuted :
  exists name value,
    bytes_ok name /\ bytes_ok value /\
    validate_header_name name = true /\ validate_header_value value = true /\
    encode_http3_headers_frame 3 [(name, value)] 0 = Err UnicodeDecodeError /\
    encode_http3_push_promise_frame 3 [(name, value)] 0 0 = Err UnicodeDecodeError.
Proof. exact http3_headers_not_total. Qed.
Print Assumptions encoders_http3_headers_refuted.
